(* C08 — the rows of the CSV trace tell the truth about the run (row half).
   Model/SimRows.v makes the rows an OUTPUT of the simulator machine: at every accepted primitive call the
   machine emits the rows simulator.py writes at that call site, computed from the machine's own state.
   For every log the machine accepts — every workload, cluster, policy and flag combination — every emitted
   row is true of the state at the call that wrote it, a MISSED_DEADLINE row appears exactly at the
   completions later than the deadline, there is one TASK_FINISHED row per completed task, and the
   SIMULATOR_END row reports exactly the rows written before it.
   Tie (harness/props/c08.py, stream S-rows): the rows the real simulator wrote, canonicalised, must equal
   `rows_of` of the same run's call log, row by row and in order. *)
From Coq Require Import ZArith Bool List.
Import ListNotations.
From Verif Require Import Model.Val Gen.Src_Task Gen.Src_Event Model.Sim Model.SimRows Proofs.SimP Proofs.SimP2 Proofs.SimRowsP
  Model.SimGraphRows Proofs.SimGraphRowsP.
Open Scope Z_scope.

(* every row written at an accepted call is true of the machine: times are the clock, release/placement/
   completion times and deadlines are the task's own, a TASK_FINISHED row of a COMPLETED task reports
   start + drawn runtime, the allocation of a TASK_PLACEMENT row is what the task holds on its worker, and a
   utilisation row reports the summed requests of the pool's residents with allocated + available = capacity *)
Theorem C08_row_written_is_true : forall W L m s s' e,
  Inv W s -> sim_step W s e = Some s' -> forall r, In r (rows_ev W L m s s' e) -> row_true W s s' r.
Proof. exact rows_ev_true. Qed.
Print Assumptions C08_row_written_is_true.

(* every row of every trace of an accepted run was written at some call of that run and is true there *)
Theorem C08_every_row_of_every_trace_is_true : forall W L l s m rr,
  Inv W s -> rows_run W L s m l = Some rr ->
  forall r, In r rr -> exists l1 e l2 s1 s2 m1, l = l1 ++ e :: l2 /\ sim_exec W s l1 = Some s1 /\ sim_step W s1 e = Some s2 /\
                                        In r (rows_ev W L m1 s1 s2 e) /\ Inv W s1 /\ row_true W s1 s2 r.
Proof. exact rows_run_true. Qed.
Print Assumptions C08_every_row_of_every_trace_is_true.

(* a deadline miss is reported exactly when the completion is later than the deadline, with the completion row *)
Theorem C08_missed_row_iff_late : forall W L m s s' t,
  Inv W s -> sim_step W s (EFinish t) = Some s' ->
  exists x, s_tasks s' t = Some x /\ t_completion_time (t_dyn x) = s_clock s /\
    (t_deadline (t_dyn x) < t_completion_time (t_dyn x) <->
       In (RMissed (s_clock s) t (t_deadline (t_dyn x))) (rows_ev W L m s s' (EFinish t))) /\
    (t_completion_time (t_dyn x) <= t_deadline (t_dyn x) -> count_rows is_missed (rows_ev W L m s s' (EFinish t)) = 0) /\
    count_rows is_finished (rows_ev W L m s s' (EFinish t)) = 1.
Proof. exact missed_row_iff_late. Qed.
Print Assumptions C08_missed_row_iff_late.

(* the end-of-run summary: every SIMULATOR_END row reports the number of TASK_FINISHED, TASK_CANCEL and
   MISSED_DEADLINE rows written before it; the number of MISSED_DEADLINE rows is the number of TASK_FINISHED
   rows whose completion is later than their deadline *)
Theorem C08_summary_counts_the_rows : forall W L l rr,
  cap_nonneg W -> rows_of W L l = Some rr ->
  end_ok is_missed 0 0 0 rr /\ end_ok is_late 0 0 0 rr /\ count_rows is_missed rr = count_rows is_late rr.
Proof. exact rows_of_end_ok. Qed.
Print Assumptions C08_summary_counts_the_rows.

(* one TASK_FINISHED row per completion, none for a task that never completed, at most one MISSED_DEADLINE row *)
Theorem C08_one_finish_row_per_completion : forall W L l rr u s,
  cap_nonneg W -> rows_of W L l = Some rr -> sim_exec W sim_init l = Some s ->
  count_rows (is_finished_of u) rr = count_finishes l u /\
  (count_rows (is_finished_of u) rr = 0 \/ count_rows (is_finished_of u) rr = 1) /\
  0 <= count_rows (is_missed_of u) rr <= count_rows (is_finished_of u) rr.
Proof. exact rows_of_one_finish_row_per_task. Qed.
Print Assumptions C08_one_finish_row_per_completion.

(* rows are emitted for exactly the logs the machine accepts (the theorems above are about all of them) *)
Theorem C08_rows_for_every_accepted_log : forall W L l s m,
  (exists rr, rows_run W L s m l = Some rr) <-> (exists s', sim_exec W s l = Some s').
Proof. exact rows_run_iff_exec. Qed.
Print Assumptions C08_rows_for_every_accepted_log.

(* non-vacuity: a run whose task completes one microsecond late *)
Theorem C08_rows_example :
  rows_of ex_world [(0, [0], [0])] ex_log =
  Some [RUtil 0 0 0 0 1; RRelease 0 0 0 2; RPlacement 0 0 3 [(0, 1)]; RFinished 3 0 3 2; RMissed 3 0 2; REnd 10 1 0 1].
Proof. exact rows_example. Qed.
Print Assumptions C08_rows_example.

(* ---------------------------------------------------------------- graph-level rows and the graph counters of the summary
   (Model/SimGraphRows.v; tie: stream S-grows) *)

(* every graph-level row written at an accepted call is true of the machine: a TASK_GRAPH_FINISHED row names a graph every
   sink of which is COMPLETED/EVICTED at that moment, with the graph's deadline and tardiness max(0, time - deadline); a
   MISSED_TASK_GRAPH_DEADLINE row is written after the deadline; the cancelled-graphs figure of SIMULATOR_END is the number of
   graphs one of whose sinks is CANCELLED then *)
Theorem C08_graph_row_written_is_true : forall W G gf gm s s' e,
  sim_step W s e = Some s' -> forall r, In r (grows_ev G gf gm s s' e) -> grow_true G s s' r.
Proof. exact grows_ev_true. Qed.
Print Assumptions C08_graph_row_written_is_true.

Theorem C08_every_graph_row_of_every_trace_is_true : forall W G l s gf gm rr,
  grows_run W G s gf gm l = Some rr ->
  forall r, In r rr -> exists l1 e l2 s1 s2 a b, l = l1 ++ e :: l2 /\ sim_exec W s l1 = Some s1 /\ sim_step W s1 e = Some s2 /\
                                         In r (grows_ev G a b s1 s2 e) /\ grow_true G s1 s2 r.
Proof. exact grows_run_true. Qed.
Print Assumptions C08_every_graph_row_of_every_trace_is_true.

(* at the completion of a member of a graph: TASK_GRAPH_FINISHED exactly when all its sinks are complete, the graph-level
   miss row exactly when the completion is later than the graph's deadline, and the missed-graph-deadline counter grows exactly
   when a graph finishes late *)
Theorem C08_graph_rows_iff : forall W G gf gm s s' t g,
  sim_step W s (EFinish t) = Some s' -> graph_of G t = Some g ->
  (g_complete s' g = true <-> count_grows is_gfin (grows_ev G gf gm s s' (EFinish t)) = 1) /\
  (g_complete s' g = false <-> count_grows is_gfin (grows_ev G gf gm s s' (EFinish t)) = 0) /\
  (g_deadline g < s_clock s <-> In (RGMissed (s_clock s) (g_id g) (g_deadline g)) (grows_ev G gf gm s s' (EFinish t))) /\
  count_grows is_glate (grows_ev G gf gm s s' (EFinish t)) =
    (if g_complete s' g && (g_deadline g <? s_clock s) then 1 else 0).
Proof. exact graph_rows_iff. Qed.
Print Assumptions C08_graph_rows_iff.

(* the finished-graphs and missed-graph-deadlines figures of every SIMULATOR_END row are the number of TASK_GRAPH_FINISHED
   rows before it and the number of those written after the graph's deadline *)
Theorem C08_graph_summary_counts_the_rows : forall W G l rr, grows_of W G l = Some rr -> gend_ok 0 0 rr.
Proof. exact grows_of_gend_ok. Qed.
Print Assumptions C08_graph_summary_counts_the_rows.

Theorem C08_cancelled_graphs_census : forall s G, count_cancelled s G = Z.of_nat (length (filter (g_cancelled s) G)).
Proof. exact count_cancelled_spec. Qed.
Print Assumptions C08_cancelled_graphs_census.

Theorem C08_graph_rows_example :
  grows_of gex_world [mkG 0 2 [0] [0]] gex_log = Some [RGFinished 3 0 2 1; RGMissed 3 0 2; RGEnd 10 1 0 1].
Proof. exact grows_example. Qed.
Print Assumptions C08_graph_rows_example.
