(* C06, clause "when cancellations and pending placements coincide": Simulator.__handle_task_cancellation as a FUNCTION of the
   machine-with-queue state (Model/SimHandlers.v: cancel_outcome / cancel_calls).  Tied to /repo by the stream S-cancel-handlers
   (every TASK_CANCEL event handled in the generated simulations: the placement event removed = the one predicted). *)
From Coq Require Import ZArith Bool List.
Import ListNotations.
From Verif Require Import Model.Val Gen.Src_Task Gen.Src_Event Model.Sim Model.SimRows Model.SimQ Model.SimHandlers
  Proofs.SimHandlersP.
Open Scope Z_scope.

(* the handler's queue operation is accepted by the machine, leaves the task table alone and removes exactly one pending
   placement event of the cancelled task (if there is one) *)
Theorem C06_cancel_handler_accepted : forall W q t,
  exists q', sq_exec W q (cancel_calls q t) = Some q' /\ q_sim q' = q_sim q /\
    count_placements t (q_pending q') = (count_placements t (q_pending q) - 1)%nat.
Proof. exact cancel_calls_accepted. Qed.
Print Assumptions C06_cancel_handler_accepted.

(* a cancelled task keeps no pending placement: with at most one placement event per task pending (the simulator keeps one
   per task in _future_placement_events), none is pending after the handler *)
Theorem C06_cancelled_task_keeps_no_placement : forall W q t,
  (count_placements t (q_pending q) <= 1)%nat ->
  exists q', sq_exec W q (cancel_calls q t) = Some q' /\ count_placements t (q_pending q') = 0%nat.
Proof. exact cancel_leaves_no_placement. Qed.
Print Assumptions C06_cancelled_task_keeps_no_placement.

(* non-vacuity *)
Theorem C06_cancel_handler_example :
  let q := mkSQ sim_init [mkPev 5 SCHEDULER_START None; mkPev 7 TASK_PLACEMENT (Some (3, 0)); mkPev 9 TASK_PLACEMENT (Some (4, 1))] None None in
  cancel_calls q 3 = [QRemove (mkPev 7 TASK_PLACEMENT (Some (3, 0)))] /\ cancel_calls q 8 = [].
Proof. vm_compute. split; reflexivity. Qed.
Print Assumptions C06_cancel_handler_example.
