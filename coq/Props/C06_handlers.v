(* C06, clause "when cancellations and pending placements coincide": Simulator.__handle_task_cancellation as a FUNCTION of the
   machine-with-queue state (Model/SimHandlers.v: cancel_outcome / cancel_calls).  Tied to /repo by the stream S-cancel-handlers
   (every TASK_CANCEL event handled in the generated simulations: the placement event removed = the one predicted). *)
From Coq Require Import ZArith Bool List.
Import ListNotations.
From Verif Require Import Model.Val Gen.Src_Task Gen.Src_Event Model.Sim Model.SimRows Model.SimQ Model.SimHandlers
  Proofs.SimHandlersP.
Open Scope Z_scope.

(* the handler's queue operation is accepted by the machine, leaves the task table alone and removes exactly one pending
   placement event of the cancelled task (if there is one) *)
Theorem C06_cancel_handler_accepted : forall W q t,
  exists q', sq_exec W q (cancel_calls q t) = Some q' /\ q_sim q' = q_sim q /\
    count_placements t (q_pending q') = (count_placements t (q_pending q) - 1)%nat.
Proof. exact cancel_calls_accepted. Qed.
Print Assumptions C06_cancel_handler_accepted.

(* a cancelled task keeps no pending placement: with at most one placement event per task pending (the simulator keeps one
   per task in _future_placement_events), none is pending after the handler *)
Theorem C06_cancelled_task_keeps_no_placement : forall W q t,
  (count_placements t (q_pending q) <= 1)%nat ->
  exists q', sq_exec W q (cancel_calls q t) = Some q' /\ count_placements t (q_pending q') = 0%nat.
Proof. exact cancel_leaves_no_placement. Qed.
Print Assumptions C06_cancelled_task_keeps_no_placement.

(* non-vacuity *)
Theorem C06_cancel_handler_example :
  let q := mkSQ sim_init [mkPev 5 SCHEDULER_START None; mkPev 7 TASK_PLACEMENT (Some (3, 0)); mkPev 9 TASK_PLACEMENT (Some (4, 1))] None None in
  cancel_calls q 3 = [QRemove (mkPev 7 TASK_PLACEMENT (Some (3, 0)))] /\ cancel_calls q 8 = [].
Proof. vm_compute. split; reflexivity. Qed.
Print Assumptions C06_cancel_handler_example.

(* ---- one decision of the policy as the simulator processes it (Simulator.__create_events_from_task_placement(_skip)) *)
(* COMPLETED and CANCELLED are final also for the policy: a placed / unplaced decision for such a task changes nothing *)
Theorem C06_decision_for_final_task_changes_nothing : forall q drop t d x,
  s_tasks (q_sim q) t = Some x -> (t_state (t_dyn x) = TS_COMPLETED \/ t_state (t_dyn x) = TS_CANCELLED) -> d <> DCancel ->
  decision_outcome q drop t d = DoNothing.
Proof. exact decision_for_final_task. Qed.
Print Assumptions C06_decision_for_final_task_changes_nothing.

(* a plan is retracted only by an UNPLACED decision without --drop_skipped_tasks, for a task that has not started and has a
   placement event pending *)
Theorem C06_retraction_only_of_pending_plans : forall q drop t d tm,
  decision_outcome q drop t d = DoUnschedule tm ->
  d = DUnplaced /\ drop = false /\
  exists x p, s_tasks (q_sim q) t = Some x /\ cancel_outcome q t = Some p /\ pe_time p = tm /\
              (task_state_ltb (t_state (t_dyn x)) TS_SCHEDULED = true \/ t_state (t_dyn x) = TS_SCHEDULED).
Proof. exact retraction_spec. Qed.
Print Assumptions C06_retraction_only_of_pending_plans.

(* "may fall back from SCHEDULED to its earlier state when a plan is skipped or retracted": the two calls of the retraction
   path are accepted by the machine with the queue, the task is back in the state it was scheduled from, and one placement
   event of the task has left the queue *)
Theorem C06_retraction_falls_back : forall W q t x,
  s_tasks (q_sim q) t = Some x -> t_state (t_dyn x) = TS_SCHEDULED ->
  cur_is (q_sim q) SCHEDULER_FINISHED None = true ->
  cancel_outcome q t <> None ->
  exists q' x', sq_exec W q (unschedule_calls q t) = Some q' /\ s_tasks (q_sim q') t = Some x' /\
    t_state (t_dyn x') = t_pre_scheduling_state (t_dyn x) /\
    count_placements t (q_pending q') = (count_placements t (q_pending q) - 1)%nat /\
    s_clock (q_sim q') = s_clock (q_sim q).
Proof. exact unschedule_calls_accepted. Qed.
Print Assumptions C06_retraction_falls_back.
