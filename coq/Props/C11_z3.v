(* C11 (Z3 part) — in EVERY satisfying assignment of the constraint system that
   schedulers/z3_scheduler.py asserts (not only the optimum z3 returns), a placed task has all its
   co-decided predecessors placed and starts no earlier than each predecessor's start plus that
   predecessor's remaining time.  Only statements; proofs are in Proofs/Z3P*.v. *)
From Coq Require Import ZArith Bool List.
Import ListNotations.
From Verif Require Import Model.Val Gen.Src_Z3 Model.Z3Model Proofs.Z3P.
Open Scope Z_scope.

Theorem C11_z3 : forall ins fs a, gen_z3 ins = Ok fs -> sat fs a = true ->
  forall c pid p, In c (i_tasks ins) -> In pid (zt_parents c) -> find_task (i_tasks ins) pid = Some p ->
  placed a c -> placed a p /\ start a c >= start a p + zt_remaining p.
Proof. exact c11_z3. Qed.
Print Assumptions C11_z3.

(* the monitor applied by the harness to feasible points of the live solver system is the decidable
   form of the statement, and no satisfying assignment of the model fails it *)
Theorem C11_z3_monitor : forall ins a, c11_ok ins a = true <->
  (forall c pid p, In c (i_tasks ins) -> In pid (zt_parents c) -> find_task (i_tasks ins) pid = Some p ->
     placed a c -> placed a p /\ start a c >= start a p + zt_remaining p).
Proof. exact c11_ok_iff. Qed.
Print Assumptions C11_z3_monitor.
Theorem C11_z3_monitor_sound : forall ins fs a, gen_z3 ins = Ok fs -> sat fs a = true -> c11_ok ins a = true.
Proof. exact c11_monitor_sound. Qed.
Print Assumptions C11_z3_monitor_sound.

(* FINDING FZ3-C: the clause of C11 about predecessors that are already running / scheduled does not
   hold for the Z3 planner: rows exist only for offered parents (z3_scheduler.py:406-410). *)
Theorem C11_z3_outside_parent_refuted : exists fs c pid,
  gen_z3 ex_outside = Ok fs /\ sat fs ex_outside_asg = true /\ In c (i_tasks ex_outside) /\ In pid (zt_parents c) /\
  find_task (i_tasks ex_outside) pid = None /\ placed ex_outside_asg c /\ start ex_outside_asg c < 12 /\
  outside_ok [(zt_id c, 12)] ex_outside_asg = false.
Proof. exact c11_z3_outside_parent_refuted. Qed.
Print Assumptions C11_z3_outside_parent_refuted.
