(* C06 — the task lifecycle is a legal state machine: local half on the operations translated from
   workload/tasks.py, and trace half for every accepted log of the simulator machine. *)
From Coq Require Import ZArith Bool List.
Import ListNotations.
From Verif Require Import Model.Val Gen.Src_Task Gen.Src_Event Model.Sim Proofs.TaskP Proofs.SimP Proofs.SimP2.
Open Scope Z_scope.

Theorem C06_ops_follow_lifecycle :
  (forall d time d' u, task_release d (Some time) = Ok (d', u) -> pre_ok d -> (t_state d' = t_state d \/ legal_edge (t_state d) (t_state d')) /\ pre_ok d') /\
  (forall d time rt d' u, task_schedule d time rt = Ok (d', u) -> pre_ok d -> (t_state d' = t_state d \/ legal_edge (t_state d) (t_state d')) /\ pre_ok d') /\
  (forall d time d' u, task_unschedule d time = Ok (d', u) -> pre_ok d -> legal_edge (t_state d) (t_state d') /\ pre_ok d') /\
  (forall d time draw d' u, task_start d (Some time) draw = Ok (d', u) -> pre_ok d -> legal_edge (t_state d) (t_state d') /\ pre_ok d') /\
  (forall d d' u, task_finish d None = Ok (d', u) -> pre_ok d -> legal_edge (t_state d) (t_state d') /\ pre_ok d') /\
  (forall d time d' u, task_cancel d time = Ok (d', u) -> pre_ok d -> legal_edge (t_state d) (t_state d') /\ pre_ok d') /\
  (forall d now sz d' b, task_step d now sz = Ok (d', b) -> t_state d' = t_state d).
Proof. exact ops_follow_lifecycle. Qed.
Print Assumptions C06_ops_follow_lifecycle.

Theorem C06_final_states_refuse_everything : forall d, final_state (t_state d) ->
    (forall time, exists c, task_release d (Some time) = Err c) /\
    (forall time rt, exists c, task_schedule d time rt = Err c) /\
    (forall time, exists c, task_unschedule d time = Err c) /\
    (forall time draw, exists c, task_start d (Some time) draw = Err c) /\
    (exists c, task_finish d None = Err c) /\
    (forall time, exists c, task_cancel d time = Err c) /\
    (forall now sz, task_step d now sz = Ok (d, false)).
Proof. exact final_states_absorbing. Qed.
Print Assumptions C06_final_states_refuse_everything.

Theorem C06_cancel_only_before_running : forall d time d' u, task_cancel d time = Ok (d', u) ->
    t_state d = TS_VIRTUAL \/ t_state d = TS_RELEASED \/ t_state d = TS_SCHEDULED.
Proof. exact cancel_only_before_running. Qed.
Print Assumptions C06_cancel_only_before_running.

Theorem C06_runs_follow_lifecycle : forall W l s s' u x,
  Inv W s -> sim_exec W s l = Some s' -> s_tasks s u = Some x ->
  exists x', s_tasks s' u = Some x' /\ path (st x) (st x').
Proof. exact exec_follows_lifecycle. Qed.
Print Assumptions C06_runs_follow_lifecycle.

Theorem C06_final_is_final : forall W l s s' u x,
  Inv W s -> sim_exec W s l = Some s' -> s_tasks s u = Some x -> final_state (st x) ->
  exists x', s_tasks s' u = Some x' /\ st x' = st x.
Proof. exact final_states_are_final. Qed.
Print Assumptions C06_final_is_final.

Theorem C06_cancelled_never_started : forall W l s u x,
  cap_nonneg W -> sim_exec W sim_init l = Some s -> s_tasks s u = Some x -> st x = TS_CANCELLED ->
  count_starts l u = 0.
Proof. exact cancelled_never_started. Qed.
Print Assumptions C06_cancelled_never_started.

Theorem C06_preempt_resume : 
  (forall d time d' u, task_preempt d time = Ok (d', u) -> t_state d = TS_RUNNING /\ t_state d' = TS_PREEMPTED /\
      t_remaining_time d' = t_remaining_time d /\ t_start_time d' = t_start_time d) /\
  (forall d time d' u, task_resume d time = Ok (d', u) -> t_state d = TS_PREEMPTED /\ t_state d' = TS_RUNNING /\
      t_remaining_time d' = t_remaining_time d /\ t_last_step_time d' = time).
Proof. exact preempt_resume_follow_lifecycle. Qed.
Print Assumptions C06_preempt_resume.
