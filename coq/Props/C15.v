(* C15 — Clockwork batching: full, same-model, loaded, on-time batches only; a request is placed at most once;
   hopeless requests are cancelled.  Only statements; proofs are in Proofs/ClockworkP*.v.
   Vocabulary (Proofs/ClockworkP2.v, P4.v, P5.v): Inv_m = queue invariant of a Model; Inv_st = all Models of the
   scheduler + their strategies are those of the profile; world_wf = strategy objects of a profile are distinct objects;
   batch_ok = what the property asks of a batch; env_ok = the environment offers no request that was already placed;
   Err 99 = fuel of the inference loop exhausted (the implementation would not terminate). *)
From Coq Require Import ZArith Bool List Sorting.Sorted.
Import ListNotations.
From Verif Require Import Model.Val Gen.Src_Clockwork Model.Clockwork Proofs.ClockworkP Proofs.ClockworkP2 Proofs.ClockworkP3
  Proofs.ClockworkP4 Proofs.ClockworkP5 Proofs.ClockworkP6 Proofs.ClockworkP7 Proofs.ClockworkP8.
Open Scope Z_scope.

(* the comparisons translated from the source are the documented ones (a `<` / `<=` edit breaks these) *)
Theorem C15_bridge :
  cw_enforce_deadlines = true /\
  (forall d now f, cw_hopeless true d now f = (d <? now + f)) /\
  (forall n hd now rt, cw_expire_cond n hd now rt = (0 <? n) && (hd <? now + rt)) /\
  (forall bs n now rt hd, cw_strategy_ready bs n now rt hd = (bs <=? n) && (now + rt <=? hd)) /\
  (forall hd rt now, cw_priority hd rt now = hd - rt - now) /\
  (forall b, cw_neg_batch b = - b) /\
  (forall a b, cw_req_lt a b = (a <? b)) /\
  (forall n b, cw_queue_short n b = (n <? b)) /\
  (forall a, cw_not_loaded a = negb (a =? 0)) /\
  (forall a b, strat_eq a b = (s_bs a =? s_bs b) && (s_rt a =? s_rt b) && res_eq (s_res a) (s_res b)) /\
  (forall a b, strat_lt a b = if s_rt a =? s_rt b then (if s_bs a =? s_bs b then res_lt (s_res a) (s_res b) else s_bs a <? s_bs b)
                              else s_rt a <? s_rt b).
Proof.
  exact (conj bridge_enforce (conj bridge_hopeless (conj bridge_expire (conj bridge_ready (conj bridge_priority
        (conj bridge_neg_batch (conj bridge_req_lt (conj bridge_queue_short (conj bridge_not_loaded (conj bridge_strat_eq bridge_strat_lt)))))))))).
Qed.
Print Assumptions C15_bridge.

(* ---- queue invariant: sorted by deadline, no duplicates, only tasks of the model, task map <-> queues, counters;
   preserved by every operation of Model *)
Theorem C15_inv_remove_task : forall t m, Inv_m m -> Inv_m (m_remove_task t m).
Proof. exact remove_task_inv. Qed.
Print Assumptions C15_inv_remove_task.
Theorem C15_inv_expiry_step : forall now k m m', Inv_m m -> expire_step now k m = Some m' -> Inv_m m'.
Proof. exact expire_step_inv. Qed.
Print Assumptions C15_inv_expiry_step.
Theorem C15_inv_add_task : forall t m, Inv_m m -> t_model t = m_id m -> m_queues m <> [] -> Inv_m (m_add_task t m).
Proof. exact add_task_inv. Qed.
Print Assumptions C15_inv_add_task.
(* get_available_execution_strategies: invariant kept, only requests lost, afterwards every queued request meets its
   deadline with the strategy of its queue, and every strategy returned has a full batch waiting *)
Theorem C15_available_strategies : forall now m m' ss, Inv_m m -> avail_strats now m = Ok (m', ss) ->
  Inv_m m' /\ shrinks m' m /\ clean now m' /\ (forall s, In s ss -> exists q, In (s, q) (m_queues m') /\ s_bs s <= zlen q).
Proof. exact avail_strats_spec. Qed.
Print Assumptions C15_available_strategies.
(* get_placements: the batch is a prefix of the strategy's queue, of exactly batch_size requests, and its members are
   gone from the task map (hence from every queue, by the invariant) *)
Theorem C15_get_placements : forall s m b m', Inv_m m -> m_get_placements s m = Ok (b, m') ->
  Inv_m m' /\ shrinks m' m /\
  (exists s' q, In (s', q) (m_queues m) /\ s_id s' = s_id s /\ incl b q /\ (0 <= s_bs s -> zlen b = s_bs s)) /\
  (forall t, In t b -> ~ In (t_id t) (keys (m_tasks m'))) /\
  (length (m_tasks m') + length b = length (m_tasks m))%nat /\ NoDup (ids b).
Proof. exact get_placements_spec. Qed.
Print Assumptions C15_get_placements.
(* what the invariant says about the task map and the counters *)
Theorem C15_map_iff_queued : forall m t, Inv_m m ->
  (In (t_id t) (keys (m_tasks m)) <-> exists sq, In sq (m_queues m) /\ In (t_id t) (ids (snd sq))).
Proof. exact map_iff_queued. Qed.
Print Assumptions C15_map_iff_queued.
Theorem C15_counter_counts : forall m t n, Inv_m m -> In (t, n) (m_tasks m) -> n = count_q t (m_queues m) /\ 1 <= n.
Proof. exact counter_counts. Qed.
Print Assumptions C15_counter_counts.
Theorem C15_inv_start : forall wd started, world_wf wd -> NoDup started ->
  Inv_st wd (cw_start wd started) /\ st_recs (cw_start wd started) = [].
Proof. exact cw_start_inv. Qed.
Print Assumptions C15_inv_start.

(* ---- one invocation of schedule(), from any state satisfying the invariant, for every offered list, cluster view,
   goal and LOAD/EVICT oracle answer (inv_pools = the offered view with the answer's evictions applied) *)
Theorem C15_schedule : forall wd ls inv st st' d, world_wf wd -> Inv_st wd st -> cw_schedule wd ls inv st = Ok (st', d) ->
  Inv_st wd st' /\
  d_cancel d = filter (hopeless wd (i_now inv)) (i_offered inv) /\
  Forall (batch_ok wd) (d_batches d) /\ Forall (loc_ok (inv_pools inv) (i_now inv)) (d_batches d) /\
  NoDup (placed (d_batches d)) /\
  (forall t, In t (placed (d_batches d)) -> (In t (st_recs st) \/ admitted wd inv t) /\ ~ In t (st_recs st')) /\
  (forall t, In t (st_recs st') -> In t (st_recs st) \/ admitted wd inv t).
Proof. exact cw_schedule_spec. Qed.
Print Assumptions C15_schedule.
(* every batch of every invocation of every run from start(): one model, size = batch size of the chosen strategy
   (a strategy of the model's profile), worker has the model loaded and fits the strategy, now + runtime <= every
   member's deadline *)
Theorem C15_batch : forall wd ls started invs, world_wf wd -> NoDup started ->
  Forall (res_all (fun d => Forall (batch_ok wd) (d_batches d))) (cw_run wd ls invs (cw_start wd started)).
Proof. intros wd ls started invs Hw Hd. apply run_batches_ok; [assumption|]. apply cw_start_inv; assumption. Qed.
Print Assumptions C15_batch.
(* a batch is placed only where its model is still loaded once the invocation's LOAD/EVICT decisions are taken: no batch of
   model M on worker W in an invocation that evicts M from W (run_load applies its evictions to the virtual cluster that
   run_inference reads; a LOAD never makes a model usable in the same invocation) *)
Theorem C15_no_batch_on_evicted_model : forall wd ls inv st st' d, world_wf wd -> Inv_st wd st -> cw_schedule wd ls inv st = Ok (st', d) ->
  forall b, In b (d_batches d) -> ~ In (1, b_model b, b_pool b, w_id (b_worker b)) (d_load d).
Proof. exact no_batch_on_evicted. Qed.
Print Assumptions C15_no_batch_on_evicted_model.
Theorem C15_evictions_reach_inference : forall lds ps ps' mid pid wid, apply_load lds ps = Ok ps' ->
  In (1, mid, pid, wid) lds \/ not_loaded_at mid pid wid ps -> not_loaded_at mid pid wid ps'.
Proof. exact apply_load_evicted. Qed.
Print Assumptions C15_evictions_reach_inference.
Theorem C15_eviction_example :
  (exists st', cw_schedule ev_wd false (ev_inv None) [] = Ok (st', mkD [] [] [mkB 1 (mkW 1 [(1, 11, 2); (9, 19, 0)] [(1, 0)] [] [(1, [(9, 19, 1)])]) 1 (mkS 1 1 10 [(1, 0, 1)]) [mkT 1 1 100] 0])) /\
  (exists st', cw_schedule ev_wd false (ev_inv (Some [(1, 1, 1, 1); (2, 2, 1, 1)])) [] = Ok (st', mkD [] [(1, 1, 1, 1); (2, 2, 1, 1)] [])) /\
  load_pools (ev_inv (Some [(1, 1, 1, 1); (2, 2, 1, 1)])) = Ok [mkP 1 [mkW 1 [(1, 11, 2); (9, 19, 1)] [] [] []]].
Proof. exact eviction_example. Qed.
Print Assumptions C15_eviction_example.
(* placed at most once over the whole run *)
Theorem C15_once : forall wd ls invs st prev, world_wf wd -> Inv_st wd st ->
  NoDup prev -> (forall t, In t prev -> ~ In t (st_recs st)) -> env_ok wd ls invs st prev ->
  NoDup (prev ++ run_placed (cw_run wd ls invs st)).
Proof. exact run_once. Qed.
Print Assumptions C15_once.
Theorem C15_once_ids : forall wd ls started invs, world_wf wd -> NoDup started ->
  env_ok wd ls invs (cw_start wd started) [] -> id_functional (flat_map i_offered invs) ->
  NoDup (map t_id (run_placed (cw_run wd ls invs (cw_start wd started)))).
Proof. exact run_once_ids. Qed.
Print Assumptions C15_once_ids.
(* cancelled rather than placed *)
Theorem C15_cancel : forall wd ls inv st st' d,
  cw_schedule wd ls inv st = Ok (st', d) -> d_cancel d = filter (hopeless wd (i_now inv)) (i_offered inv).
Proof. exact cw_schedule_cancels. Qed.
Print Assumptions C15_cancel.
Theorem C15_hopeless_never_placed : forall wd ls inv st st' d, world_wf wd -> Inv_st wd st -> cw_schedule wd ls inv st = Ok (st', d) ->
  forall t, In t (placed (d_batches d)) -> hopeless wd (i_now inv) t = false.
Proof. exact schedule_not_hopeless. Qed.
Print Assumptions C15_hopeless_never_placed.
(* the inference loops terminate when batch sizes are >= 1 (measure: deque length + queued requests) ... *)
Theorem C15_terminates : forall wd ls inv st, world_wf wd -> bs_pos wd -> Inv_st wd st -> cw_schedule wd ls inv st <> Err 99.
Proof. exact cw_schedule_terminates. Qed.
Print Assumptions C15_terminates.
Theorem C15_terminates_run : forall wd ls started invs, world_wf wd -> bs_pos wd -> NoDup started ->
  ~ In (Err 99) (cw_run wd ls invs (cw_start wd started)).
Proof. intros wd ls started invs Hw Hp Hd. apply run_terminates; [assumption|assumption|]. apply cw_start_inv; assumption. Qed.
Print Assumptions C15_terminates_run.
(* ... and the hypothesis is needed: with a batch size 0 the loop never ends (observation O-cw2) *)
Theorem C15_zero_batch_diverges :
  let st := [mkM 1 [(mkS 1 0 10 [], [mkT 7 1 100])] [(mkT 7 1 100, 1)]] in
  forall fuel acc, infer_loop fuel false 0 1 (mkW 1 [] [(1, 0)] [] []) st [(1, [mkS 1 0 10 []])] acc = Err 99.
Proof. exact zero_batch_never_terminates. Qed.
Print Assumptions C15_zero_batch_diverges.

(* ---- monitors applied to the implementation's own observations *)
Theorem C15_monitor_batch : forall wd now w b, mon_batch wd now w b = true <-> obatch_ok wd now w b.
Proof. exact mon_batch_iff. Qed.
Print Assumptions C15_monitor_batch.
Theorem C15_monitor_covers_theorem : forall wd b, world_wf wd -> batch_ok wd b -> mon_batch wd (b_now b) (b_worker b) (obatch_of b) = true.
Proof. exact batch_ok_monitored. Qed.
Print Assumptions C15_monitor_covers_theorem.
Theorem C15_monitor_evicted : forall lds bs, mon_evicted lds bs = true <->
  forall b t0, In b bs -> hd_error (ob_tasks b) = Some t0 -> evicted_at_end lds (t_model t0) (ob_pool b) (ob_worker b) false = false.
Proof. exact mon_evicted_iff. Qed.
Print Assumptions C15_monitor_evicted.
Theorem C15_monitor_evicted_covers_theorem : forall wd ls inv st st' d, world_wf wd -> Inv_st wd st -> cw_schedule wd ls inv st = Ok (st', d) ->
  mon_evicted (d_load d) (map obatch_of (d_batches d)) = true.
Proof. exact no_batch_on_evicted_monitored. Qed.
Print Assumptions C15_monitor_evicted_covers_theorem.
Theorem C15_monitor_once : forall os, mon_once os = true <-> NoDup (flat_map oi_placed os).
Proof. exact mon_once_iff. Qed.
Print Assumptions C15_monitor_once.
Theorem C15_monitor_cancel : forall wd now offered c, mon_cancel wd now offered c = true <-> c = map t_id (filter (hopeless wd now) offered).
Proof. exact mon_cancel_iff. Qed.
Print Assumptions C15_monitor_cancel.
(* non-vacuity: the worked run of Proofs/ClockworkP8.v satisfies every hypothesis above and places 1,2,6,4 *)
Theorem C15_example : world_wf ex_wd /\ bs_pos ex_wd /\ env_ok ex_wd false ex_invs (cw_start ex_wd [1]) [] /\
  id_functional (flat_map i_offered ex_invs) /\ map t_id (run_placed (cw_run ex_wd false ex_invs (cw_start ex_wd [1]))) = [1; 2; 6; 4].
Proof. exact (conj ex_world_wf (conj ex_bs_pos (conj ex_env_ok (conj ex_id_functional ex_placed)))). Qed.
Print Assumptions C15_example.
