(* C15 — Clockwork batching.  Only statements; proofs are in Proofs/ClockworkP*.v. *)
From Coq Require Import ZArith Bool List.
Import ListNotations.
From Verif Require Import Model.Val Gen.Src_Clockwork Model.Clockwork Proofs.ClockworkP.
Open Scope Z_scope.

(* requests that can no longer meet their deadline are cancelled rather than queued: the cancellations of an
   invocation are exactly the offered requests with deadline < now + fastest runtime, in order *)
Theorem C15_cancel : forall wd ls inv st st' d,
  cw_schedule wd ls inv st = Ok (st', d) -> d_cancel d = filter (hopeless wd (i_now inv)) (i_offered inv).
Proof. exact cw_schedule_cancels. Qed.
Print Assumptions C15_cancel.
