(* C11 (TetriSched-Gurobi part) — in EVERY satisfying assignment of the space-time MIP a child is placed only if
   all its co-decided parents are placed, and it starts after each of them.  Only statements. *)
From Coq Require Import ZArith Bool List.
Import ListNotations.
From Verif Require Import Model.Val Model.PlanSpec Model.TetriModel Gen.Src_Tetri
  Proofs.TetriP Proofs.TetriPSum Proofs.TetriPSound Proofs.TetriPCor Props.C10_tetri.
Open Scope Z_scope.

(* the constants of the dependency rows are those of the source: parent start + slowest runtime + 1, and
   remaining time + 1 after a running parent *)
Theorem C11_tetri_bridge :
  (forall ps slow, g_dep_bound ps slow = ps + slow + 1) /\ (forall rem, g_dep_gap_running rem = rem + 1).
Proof. exact (conj bridge_dep_gap bridge_dep_gap_running). Qed.
Print Assumptions C11_tetri_bridge.

(* under the formulation's convention (parent's SLOWEST runtime, one extra microsecond) *)
Theorem C11_tetri_precedence : forall I a, wf_inst I -> ti_flavour I = Gurobi -> sat (gen_tetri I) a = true ->
  Forall (precedence_ok (conv_tetri I) (to_pinst I) (plan_of (readback I a))) (plan_of (readback I a)).
Proof. intros I a W Hfl Hs. exact (sound_precedence I a W Hs Hfl). Qed.
Print Assumptions C11_tetri_precedence.

(* spelled out: if child x is placed then every parent q with variables in this invocation is running or placed, and
   start x >= now + remaining q + 1          (q running: `remaining` as Task.remaining_time reports it)
   start x >= start q + slowest runtime of q + 1   (q decided in this invocation) *)
Theorem C11_tetri_explicit : forall I a x q plx, wf_inst I -> ti_flavour I = Gurobi -> sat (gen_tetri I) a = true ->
  In x (free_tasks I) -> readback_task I a x = Some plx ->
  In (tt_id q) (tt_parents x) -> In q (ti_tasks I) ->
  match tt_state q with
  | SRunning _ _ rem => ti_now I + rem + 1 <= pl_start plx
  | _ => exists plq, readback_task I a q = Some plq /\
                     pl_start plq + slowest_runtime (tt_strats q) + 1 <= pl_start plx
  end.
Proof. exact tetri_precedence_explicit. Qed.
Print Assumptions C11_tetri_explicit.

(* hence under the simulator's convention: the child starts no earlier than the CHOSEN end of a decided parent and
   the expected finish (now + remaining) of a running one *)
Theorem C11_tetri_precedence_simulator : forall I a, wf_inst I -> ti_flavour I = Gurobi -> sat (gen_tetri I) a = true ->
  Forall (precedence_ok conv_c10 (to_pinst I) (plan_of (readback I a))) (plan_of (readback I a)).
Proof. exact tetri_precedence_simulator. Qed.
Print Assumptions C11_tetri_precedence_simulator.

(* the monitor applied to the implementation's Placements decides the simulator-convention statement *)
Theorem C11_tetri_monitor : forall I p, Forall (fun x => exists t, find_task (pi_tasks (to_pinst I)) (pl_task x) = Some t) p ->
  (precedence_c11b I p = true <-> Forall (precedence_ok conv_c10 (to_pinst I) p) p).
Proof. exact precedence_c11b_iff. Qed.
Print Assumptions C11_tetri_monitor.

(* non-vacuity (instance of Props/C10_tetri.v): child 1 has a running parent (2 us left at now = 1) and a parent placed
   at 1 with runtime 4; the child starts at 7 >= 1 + 4 + 1 (next slot of the grid 1,4,7,..) and >= 1 + 2 + 1 *)
Theorem C11_tetri_example :
  wf_instb ex_inst = true /\ sat (gen_tetri ex_inst) ex_assign = true /\
  precedence_c11b ex_inst (plan_of (readback ex_inst ex_assign)) = true /\
  readback_task ex_inst ex_assign (mkTT 1 SFree 4 3 [mkStrat 7 [(0, 1); (1, 1)]] [0; 2] 2 true) = Some (mkPl 1 3 0%nat 7).
Proof. vm_compute. repeat split; reflexivity. Qed.
Print Assumptions C11_tetri_example.
