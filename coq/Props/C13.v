(* C13 — EDF, FIFO and LSF honour their priority order (no priority inversion).
   Only statements; proofs are in Proofs/GreedyP*.v.  L is any worker ledger satisfying `ledger_laws`
   (placing only consumes, fitting is antitone in consumption); `SL` (Model/Greedy.v) is one. *)
From Coq Require Import ZArith Bool List Sorting.Sorted Permutation.
Import ListNotations.
From Verif Require Import Model.Val Gen.Src_Greedy Model.Greedy Proofs.GreedyP Proofs.GreedyP2 Proofs.GreedyP3.
From Verif Require Import Model.Res Model.Worker Proofs.ResP Proofs.WorkerP Proofs.GreedyP4 Proofs.GreedyP5.
Open Scope Z_scope.

(* the sort keys translated from the source are the documented priorities: earliest deadline (then graph
   name), earliest release, least slack = deadline - now - remaining *)
Theorem C13_keys : forall now t,
  p_key edf now t = doc_edf_key now t /\ p_key fifo now t = doc_fifo_key now t /\ p_key lsf now t = doc_lsf_key now t.
Proof. intros; repeat split. Qed.
Print Assumptions C13_keys.
Theorem C13_key_order : forall a b c d,
  lex_leb [a] [b] = (a <=? b) /\ lex_leb [a; c] [b; d] = ((a <? b) || ((a =? b) && (c <=? d))).
Proof. intros. split; [apply lex_leb_single|apply lex_leb_pair]. Qed.
Print Assumptions C13_key_order.

(* sorted(tasks, key=...) : a permutation of the offered tasks, in key order, ties in input order *)
Theorem C13_order : forall L P now (offered : list (task L)),
  Permutation offered (ordered L P now offered) /\
  StronglySorted (prio_le L P now) (ordered L P now offered) /\
  forall k, filter (fun t => list_eqb (p_key P now (t_attrs t)) k) (ordered L P now offered) =
            filter (fun t => list_eqb (p_key P now (t_attrs t)) k) offered.
Proof.
  intros. split; [apply sort_by_perm|]. split; [apply (sort_by_sorted (fun t : task L => p_key P now (t_attrs t)))|].
  intros k. apply (sort_by_stable_key (fun t : task L => p_key P now (t_attrs t))).
Qed.
Print Assumptions C13_order.

(* The property, for every policy P of this family and every lawful ledger: if the i-th task x of the
   order is reported unplaced, then in the virtual cluster V produced by exactly the decisions for the
   i tasks before it -- each of priority higher than or equal to x's -- no strategy of x fits any worker
   of any pool; every task decided after x has priority lower than or equal to x's; and x still fits
   nowhere in the final virtual cluster cf (V <= cf: placements only consume). *)
Theorem C13_unplaced_unfit : forall L wle wok sok, ledger_laws L wle wok sok ->
  forall P e pre now (c : cluster L) offered ds cf i x,
  cok L wok c -> tasks_ok L sok offered ->
  schedule_full L P e pre now c offered = Ok (ds, cf) ->
  nth_error (ordered L P now offered) i = Some x ->
  nth_error ds i = Some (DUnplaced (t_id x)) ->
  exists V,
    run L P e now (virtual L P pre c) (firstn i (ordered L P now offered)) = Ok (firstn i ds, V) /\
    (forall s p w, In s (t_strats x) -> In p V -> In w (snd p) -> can L w s = false) /\
    cle L wle V cf /\
    (forall s p w, In s (t_strats x) -> In p cf -> In w (snd p) -> can L w s = false) /\
    Forall (fun y => prio_le L P now y x) (firstn i (ordered L P now offered)) /\
    Forall (fun y => prio_le L P now x y) (skipn (S i) (ordered L P now offered)).
Proof. intros L wle wok sok LL. exact (c13_laws L wle wok sok LL). Qed.
Print Assumptions C13_unplaced_unfit.

(* the corollary in replay terms: applying ONLY the decisions taken for the tasks ordered before x (each answers a
   task of priority >= x's), i.e. discarding the placement of every later, lower-or-equal-priority task, yields a
   cluster in which x still fits nowhere: no lower-priority task occupies anything that would have let x run *)
Theorem C13_discard_lower_priority : forall L wle wok sok, ledger_laws L wle wok sok ->
  forall P e pre now (c : cluster L) offered ds cf i x,
  NoDup (map (@t_id L) offered) -> NoDup (map fst c) -> cok L wok c -> tasks_ok L sok offered ->
  schedule_full L P e pre now c offered = Ok (ds, cf) ->
  nth_error (ordered L P now offered) i = Some x -> nth_error ds i = Some (DUnplaced (t_id x)) ->
  exists V, replay L offered (virtual L P pre c) (firstn i ds) = Some V /\ task_fits L V x = false /\
            Forall (fun d => exists y, In y (firstn i (ordered L P now offered)) /\ dec_task d = t_id y) (firstn i ds).
Proof. intros L wle wok sok LL. exact (c13_discard_later L wle wok sok LL). Qed.
Print Assumptions C13_discard_lower_priority.

(* the three policies, priorities spelled with the documented keys *)
Theorem C13_edf : forall L wle wok sok, ledger_laws L wle wok sok ->
  forall e pre now (c : cluster L) offered ds cf i x,
  cok L wok c -> tasks_ok L sok offered ->
  schedule_full L edf e pre now c offered = Ok (ds, cf) ->
  nth_error (ordered L edf now offered) i = Some x -> nth_error ds i = Some (DUnplaced (t_id x)) ->
  exists V,
    run L edf e now (virtual L edf pre c) (firstn i (ordered L edf now offered)) = Ok (firstn i ds, V) /\
    (forall s p w, In s (t_strats x) -> In p V -> In w (snd p) -> can L w s = false) /\
    cle L wle V cf /\
    (forall s p w, In s (t_strats x) -> In p cf -> In w (snd p) -> can L w s = false) /\
    Forall (fun y => lex_leb [ta_deadline (t_attrs y); ta_task_graph (t_attrs y)]
                             [ta_deadline (t_attrs x); ta_task_graph (t_attrs x)] = true) (firstn i (ordered L edf now offered)) /\
    Forall (fun y => lex_leb [ta_deadline (t_attrs x); ta_task_graph (t_attrs x)]
                             [ta_deadline (t_attrs y); ta_task_graph (t_attrs y)] = true) (skipn (S i) (ordered L edf now offered)).
Proof. intros L wle wok sok LL. exact (c13_laws L wle wok sok LL edf). Qed.
Print Assumptions C13_edf.
Theorem C13_fifo : forall L wle wok sok, ledger_laws L wle wok sok ->
  forall e pre now (c : cluster L) offered ds cf i x,
  cok L wok c -> tasks_ok L sok offered ->
  schedule_full L fifo e pre now c offered = Ok (ds, cf) ->
  nth_error (ordered L fifo now offered) i = Some x -> nth_error ds i = Some (DUnplaced (t_id x)) ->
  exists V,
    run L fifo e now (virtual L fifo pre c) (firstn i (ordered L fifo now offered)) = Ok (firstn i ds, V) /\
    (forall s p w, In s (t_strats x) -> In p V -> In w (snd p) -> can L w s = false) /\
    cle L wle V cf /\
    (forall s p w, In s (t_strats x) -> In p cf -> In w (snd p) -> can L w s = false) /\
    Forall (fun y => lex_leb [ta_release_time (t_attrs y)] [ta_release_time (t_attrs x)] = true) (firstn i (ordered L fifo now offered)) /\
    Forall (fun y => lex_leb [ta_release_time (t_attrs x)] [ta_release_time (t_attrs y)] = true) (skipn (S i) (ordered L fifo now offered)).
Proof. intros L wle wok sok LL. exact (c13_laws L wle wok sok LL fifo). Qed.
Print Assumptions C13_fifo.
Theorem C13_lsf : forall L wle wok sok, ledger_laws L wle wok sok ->
  forall e pre now (c : cluster L) offered ds cf i x,
  cok L wok c -> tasks_ok L sok offered ->
  schedule_full L lsf e pre now c offered = Ok (ds, cf) ->
  nth_error (ordered L lsf now offered) i = Some x -> nth_error ds i = Some (DUnplaced (t_id x)) ->
  exists V,
    run L lsf e now (virtual L lsf pre c) (firstn i (ordered L lsf now offered)) = Ok (firstn i ds, V) /\
    (forall s p w, In s (t_strats x) -> In p V -> In w (snd p) -> can L w s = false) /\
    cle L wle V cf /\
    (forall s p w, In s (t_strats x) -> In p cf -> In w (snd p) -> can L w s = false) /\
    Forall (fun y => lex_leb [ta_deadline (t_attrs y) - now - ta_remaining_time (t_attrs y)]
                             [ta_deadline (t_attrs x) - now - ta_remaining_time (t_attrs x)] = true) (firstn i (ordered L lsf now offered)) /\
    Forall (fun y => lex_leb [ta_deadline (t_attrs x) - now - ta_remaining_time (t_attrs x)]
                             [ta_deadline (t_attrs y) - now - ta_remaining_time (t_attrs y)] = true) (skipn (S i) (ordered L lsf now offered)).
Proof. intros L wle wok sok LL. exact (c13_laws L wle wok sok LL lsf). Qed.
Print Assumptions C13_lsf.

(* "only if" is tight: a task that is not cancelled and has a strategy fitting some pool of V is placed *)
Theorem C13_fits_placed : forall L P e now ts (c : cluster L) ds cf i x V,
  run L P e now c ts = Ok (ds, cf) -> nth_error ts i = Some x ->
  run L P e now c (firstn i ts) = Ok (firstn i ds, V) -> admission L P e now x = Ok false -> task_fits L V x = true ->
  exists pid k, nth_error ds i = Some (DPlace (t_id x) pid k now).
Proof. exact run_fit_placed. Qed.
Print Assumptions C13_fits_placed.

(* the laws are satisfiable: the simple ledger (named integer resources, `any` requests) is an instance,
   and there availability is conserved exactly by a placement *)
Theorem C13_simple_ledger : ledger_laws SL s_wle s_wok s_sok /\
  forall w t s, s_wok w -> s_sok s -> s_can w s = true ->
    forall n, avail_of (s_wplace w t s) n = avail_of w n - demand (ss_req s) n.
Proof. split; [exact SL_laws|exact s_wplace_conserve]. Qed.
Print Assumptions C13_simple_ledger.

(* and so is the shared worker model (Model/Res.v + Model/Worker.v: `any` and specific resource ids, the full
   allocation ledger, Worker.place_task / can_accomodate_strategy (the cumulative fit test of /repo 402c33a) /
   __deepcopy__ as modelled for C04), for plain strategies with non-negative requests naming each resource once, on
   well-formed ledgers; a fresh worker is well formed; after the fit test place_task raises only for a task that is
   already placed on the worker *)
Theorem C13_worker_model : ledger_laws WL w_wle w_wok w_sok /\
  (forall id v, NoDup (map fst v) -> nonneg_vec v -> w_wok (w_new id v)) /\
  (forall t s w, w_wok w -> w_sok s -> w_fits s w = true -> zmem t (w_placed w) = false -> snd (w_place t s w) = Ok tt).
Proof. split; [exact WL_laws|]. split; [exact w_new_ok|exact w_place_succeeds]. Qed.
Print Assumptions C13_worker_model.
(* hence, e.g., EDF on the shared worker model *)
Theorem C13_edf_worker_model : forall e pre now (c : cluster WL) offered ds cf i x,
  cok WL w_wok c -> tasks_ok WL w_sok offered ->
  schedule_full WL edf e pre now c offered = Ok (ds, cf) ->
  nth_error (ordered WL edf now offered) i = Some x -> nth_error ds i = Some (DUnplaced (t_id x)) ->
  exists V,
    run WL edf e now (virtual WL edf pre c) (firstn i (ordered WL edf now offered)) = Ok (firstn i ds, V) /\
    (forall s p w, In s (t_strats x) -> In p V -> In w (snd p) -> w_fits s w = false) /\
    (forall s p w, In s (t_strats x) -> In p cf -> In w (snd p) -> w_fits s w = false).
Proof.
  intros e pre now c offered ds cf i x H1 H2 H3 H4 H5.
  destruct (c13_laws WL w_wle w_wok w_sok WL_laws edf e pre now c offered ds cf i x H1 H2 H3 H4 H5) as [V [R [F1 [_ [F2 _]]]]].
  exists V. split; [exact R|]. split; [exact F1|exact F2].
Qed.
Print Assumptions C13_edf_worker_model.
Theorem C13_example_worker_model :
  cok WL w_wok wl_cluster /\ tasks_ok WL w_sok wl_tasks /\
  schedule WL edf false false 0 wl_cluster wl_tasks = Ok [DPlace 0 0 0%nat 0; DUnplaced 1; DPlace 2 0 0%nat 0].
Proof. split; [apply wl_hyps|]. split; [apply wl_hyps|exact wl_run]. Qed.
Print Assumptions C13_example_worker_model.

(* the monitor applied to the implementation's decisions (pools with one worker each): decidable form <-> Prop.
   "every task reported unplaced fits nowhere in the cluster obtained by accounting for exactly the placed
   tasks, other than itself, whose DOCUMENTED key is <= its own" *)
Theorem C13_monitor : forall L dkey ts v ds,
  c13_check L dkey ts v ds = true <->
  (forall t, In (DUnplaced t) ds ->
     exists x vx, find_task L ts t = Some x /\
       account L ts v ds (fun y => negb (t_id y =? t) && lex_leb (dkey (t_attrs y)) (dkey (t_attrs x))) = Some vx /\
       forall s p w, In s (t_strats x) -> In p vx -> In w (snd p) -> can L w s = false).
Proof. exact c13_check_iff. Qed.
Print Assumptions C13_monitor.
(* ... and the model's own decisions always pass it (so an implementation that agrees with the model on an
   input can never be flagged on that input): on single-worker pools placements commute, accounting for a
   super-sequence of the placements made before x leaves x unfit *)
Theorem C13_monitor_sound : forall code e pre now (c : cluster SL) offered ds,
  code = 0 \/ code = 1 \/ code = 2 ->
  NoDup (map (@t_id SL) offered) -> NoDup (map fst c) -> s_cok c -> s_tasks_ok offered ->
  schedule SL (policy_of_code code) e pre now c offered = Ok ds ->
  mon_c13 (mkGO (mkGI code e pre now c offered) ds) = true.
Proof. exact mon_c13_model. Qed.
Print Assumptions C13_monitor_sound.

(* a closed witness with a tie: deadlines A=10 < B=12 = C=12 (C before B in the input, so before B in the
   order), two CPUs; A and C take one CPU each, B (2 CPUs) is unplaced: the placed tasks have priority higher
   than or equal to B's *)
Theorem C13_example :
  s_cok ex_cluster /\ s_tasks_ok ex_tasks /\
  schedule SL edf false false 0 ex_cluster ex_tasks = Ok [DPlace 0 0 0%nat 0; DPlace 2 0 0%nat 0; DUnplaced 1].
Proof. split; [apply ex_hyps|]. split; [apply ex_hyps|exact ex_edf_run]. Qed.
Print Assumptions C13_example.
