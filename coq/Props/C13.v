(* C13 — EDF, FIFO and LSF honour their priority order.  Only statements; proofs are in Proofs/GreedyP*.v *)
From Coq Require Import ZArith Bool List Sorting.Sorted Permutation.
Import ListNotations.
From Verif Require Import Model.Val Gen.Src_Greedy Model.Greedy Proofs.GreedyP.
Open Scope Z_scope.

(* the translated sort keys are the documented priorities *)
Theorem C13_keys : forall now t,
  p_key edf now t = doc_edf_key now t /\ p_key fifo now t = doc_fifo_key now t /\ p_key lsf now t = doc_lsf_key now t.
Proof. intros; repeat split. Qed.
Print Assumptions C13_keys.
