(* C04 — resource ledger conservation: nothing leaks, nothing is double-counted.
   Only statements; proofs are in Proofs/ResP*.v and Proofs/WorkerP*.v. *)
From Coq Require Import ZArith Bool List.
Import ListNotations.
From Verif Require Import Model.Val Model.Res Model.Worker Proofs.ResP Proofs.ResP2 Proofs.WorkerP.
Open Scope Z_scope.

(* For every history of allocate / allocate_multiple / deallocate / get_allocated_resources on a
   Resources object built from ANY vector v, and for every predicate P on keys (one cell, one name,
   the keys matched by a request, ...): available + allocated = configured total; the key set and
   the totals never change. *)
Theorem C04_res_conservation : forall v ops,
  let R := r_run ops (r_new v) in
  (forall P, sumP P (r_avail R) + allocs_sum P (r_allocs R) = sumP P v) /\
  map fst (r_avail R) = map fst v /\
  r_total R = v.
Proof. exact ledger_conservation. Qed.
Print Assumptions C04_res_conservation.

(* available quantities never go negative (requested quantities are non-negative) *)
Theorem C04_res_nonneg : forall v ops, nonneg_vec v -> Forall rop_nonneg ops ->
  nonneg_vec (r_avail (r_run ops (r_new v))).
Proof. exact ledger_nonneg. Qed.
Print Assumptions C04_res_nonneg.

(* a refused allocate_multiple changes NOTHING (available cells, totals, allocation dict) *)
Theorem C04_res_refusal : forall R req c R' e,
  Inv_ledger R -> Dict_ok R -> al_find c (r_allocs R) <> Some [] ->
  r_allocate_multiple R req c = (R', Err e) -> R' = R.
Proof. exact allocate_multiple_refusal. Qed.
Print Assumptions C04_res_refusal.

(* when nothing is allocated every cell is back at its configured total *)
Theorem C04_res_empty_full : forall R, Inv_ledger R -> Dict_ok R ->
  Forall (fun cl => snd cl = []) (r_allocs R) -> r_avail R = r_total R.
Proof. exact nothing_allocated_full. Qed.
Print Assumptions C04_res_empty_full.

(* a deep copy is the initial, empty ledger *)
Theorem C04_res_deepcopy : forall v ops, r_deepcopy (r_run ops (r_new v)) = r_new v.
Proof. exact deepcopy_initial. Qed.
Print Assumptions C04_res_deepcopy.

(* conservation for every history of place (plain / batch) / remove / load / evict / step /
   get_allocated_resources on a Worker ... *)
Theorem C04_worker_conservation : forall id v ops, NoDup (map fst v) ->
  let w := w_run ops (w_new id v) in
  (forall P, sumP P (r_avail (w_res w)) + allocs_sum P (r_allocs (w_res w)) = sumP P v) /\
  map fst (r_avail (w_res w)) = map fst v /\ r_total (w_res w) = v.
Proof. exact worker_conservation. Qed.
Print Assumptions C04_worker_conservation.
Theorem C04_worker_nonneg : forall id v ops, nonneg_vec v -> Forall (wop_req_ok nonneg_vec) ops ->
  nonneg_vec (r_avail (w_res (w_run ops (w_new id v)))).
Proof. exact worker_nonneg. Qed.
Print Assumptions C04_worker_nonneg.

(* ... and for every history of place (every branch) / remove / load / evict / step on a WorkerPool,
   for every worker of the pool *)
Theorem C04_pool_conservation : forall ops P,
  Forall (fun W => Res_ok (w_res W)) (p_workers P) ->
  Forall (fun W => Res_ok (w_res W) /\
                   forall Pk, sumP Pk (r_avail (w_res W)) + allocs_sum Pk (r_allocs (w_res W)) = sumP Pk (r_total (w_res W)))
         (p_workers (p_run ops P)).
Proof. exact pool_conservation. Qed.
Print Assumptions C04_pool_conservation.
Theorem C04_pool_nonneg : forall ops P,
  Forall (fun W => Nonneg (w_res W)) (p_workers P) -> Forall (pop_req_ok nonneg_vec) ops ->
  Forall (fun W => nonneg_vec (r_avail (w_res W))) (p_workers (p_run ops P)).
Proof. exact pool_nonneg. Qed.
Print Assumptions C04_pool_nonneg.
