(* C04 — resource ledger conservation: nothing leaks, nothing is double-counted.
   Only statements; proofs are in Proofs/ResP*.v and Proofs/WorkerP*.v. *)
From Coq Require Import ZArith Bool List.
Import ListNotations.
From Verif Require Import Model.Val Model.Res Model.Worker Proofs.ResP.
Open Scope Z_scope.

(* For every history of allocate / allocate_multiple / deallocate / get_allocated_resources on a
   Resources object built from ANY vector v, and for every predicate P on keys (one cell, one name,
   the keys matched by a request, ...): available + allocated = configured total; the key set and
   the totals never change. *)
Theorem C04_res_conservation : forall v ops,
  let R := r_run ops (r_new v) in
  (forall P, sumP P (r_avail R) + allocs_sum P (r_allocs R) = sumP P v) /\
  map fst (r_avail R) = map fst v /\
  r_total R = v.
Proof. exact ledger_conservation. Qed.
Print Assumptions C04_res_conservation.

(* available quantities never go negative (requested quantities are non-negative) *)
Theorem C04_res_nonneg : forall v ops, nonneg_vec v -> Forall rop_nonneg ops ->
  nonneg_vec (r_avail (r_run ops (r_new v))).
Proof. exact ledger_nonneg. Qed.
Print Assumptions C04_res_nonneg.
