(* C04 — resource ledger conservation: nothing leaks, nothing is double-counted.
   (follows /repo 0f42ab1: the findings FA, FA2, FB, FC, FC2, FD-load, FE, FF, FH, FI are repaired there and
   their refuted statements are theorems here.)
   Only statements; proofs are in Proofs/ResP*.v and Proofs/WorkerP*.v. *)
From Coq Require Import ZArith Bool List.
Import ListNotations.
From Verif Require Import Model.Val Model.Res Model.Worker Proofs.ResP Proofs.ResP2 Proofs.WorkerP Proofs.WorkerP2 Proofs.WorkerP3 Proofs.WorkerP4 Proofs.WorkerPR Proofs.MonitorP Proofs.ResP3 Proofs.ResP4 Proofs.WorkerEx.
Open Scope Z_scope.

(* For every history of allocate / allocate_multiple / deallocate / get_allocated_resources on a
   Resources object built from ANY vector v, and for every predicate P on keys (one cell, one name,
   the keys matched by a request, ...): available + allocated = configured total; the key set and
   the totals never change. *)
Theorem C04_res_conservation : forall v ops,
  let R := r_run ops (r_new v) in
  (forall P, sumP P (r_avail R) + allocs_sum P (r_allocs R) = sumP P v) /\
  map fst (r_avail R) = map fst v /\
  r_total R = v.
Proof. exact ledger_conservation. Qed.
Print Assumptions C04_res_conservation.

(* available quantities never go negative (requested quantities are non-negative) *)
Theorem C04_res_nonneg : forall v ops, nonneg_vec v -> Forall rop_nonneg ops ->
  nonneg_vec (r_avail (r_run ops (r_new v))).
Proof. exact ledger_nonneg. Qed.
Print Assumptions C04_res_nonneg.

(* ... for ALL histories, since a negative quantity is refused (/repo 84d7416; was finding FH) *)
Theorem C04_res_nonneg_all : forall v ops, nonneg_vec v -> nonneg_vec (r_avail (r_run ops (r_new v))).
Proof. exact ledger_nonneg_all. Qed.
Print Assumptions C04_res_nonneg_all.

(* a refused allocate_multiple changes NOTHING (available cells, totals, allocation dict); no side
   condition any more (/repo be1cb9f) *)
Theorem C04_res_refusal : forall R req c R' e,
  Inv_ledger R -> Dict_ok R -> r_allocate_multiple R req c = (R', Err e) -> R' = R.
Proof. exact allocate_multiple_refusal_any. Qed.
Print Assumptions C04_res_refusal.

(* when nothing is allocated every cell is back at its configured total *)
Theorem C04_res_empty_full : forall R, Inv_ledger R -> Dict_ok R ->
  Forall (fun cl => snd cl = []) (r_allocs R) -> r_avail R = r_total R.
Proof. exact nothing_allocated_full. Qed.
Print Assumptions C04_res_empty_full.

(* a deep copy is the initial, empty ledger *)
Theorem C04_res_deepcopy : forall v ops, r_deepcopy (r_run ops (r_new v)) = r_new v.
Proof. exact deepcopy_initial. Qed.
Print Assumptions C04_res_deepcopy.

(* conservation for every history of place (plain / batch) / remove / load / evict / step /
   get_allocated_resources on a Worker ... *)
Theorem C04_worker_conservation : forall id v ops, NoDup (map fst v) ->
  let w := w_run ops (w_new id v) in
  (forall P, sumP P (r_avail (w_res w)) + allocs_sum P (r_allocs (w_res w)) = sumP P v) /\
  map fst (r_avail (w_res w)) = map fst v /\ r_total (w_res w) = v.
Proof. exact worker_conservation. Qed.
Print Assumptions C04_worker_conservation.
Theorem C04_worker_nonneg : forall id v ops, nonneg_vec v -> Forall (wop_req_ok nonneg_vec) ops ->
  nonneg_vec (r_avail (w_res (w_run ops (w_new id v)))).
Proof. exact worker_nonneg. Qed.
Print Assumptions C04_worker_nonneg.

Theorem C04_worker_nonneg_all : forall id v ops, nonneg_vec v -> nonneg_vec (r_avail (w_res (w_run ops (w_new id v)))).
Proof. exact worker_nonneg_all. Qed.
Print Assumptions C04_worker_nonneg_all.

(* ... and for every history of place (every branch) / remove / load / evict / step on a WorkerPool,
   for every worker of the pool *)
Theorem C04_pool_conservation : forall ops P,
  Forall (fun W => Res_ok (w_res W)) (p_workers P) ->
  Forall (fun W => Res_ok (w_res W) /\
                   forall Pk, sumP Pk (r_avail (w_res W)) + allocs_sum Pk (r_allocs (w_res W)) = sumP Pk (r_total (w_res W)))
         (p_workers (p_run ops P)).
Proof. exact pool_conservation. Qed.
Print Assumptions C04_pool_conservation.
Theorem C04_pool_nonneg : forall ops P,
  Forall (fun W => Nonneg (w_res W)) (p_workers P) -> Forall (pop_req_ok nonneg_vec) ops ->
  Forall (fun W => nonneg_vec (r_avail (w_res W))) (p_workers (p_run ops P)).
Proof. exact pool_nonneg. Qed.
Print Assumptions C04_pool_nonneg.

Theorem C04_pool_nonneg_all : forall ops P,
  Forall (fun W => Nonneg (w_res W)) (p_workers P) ->
  Forall (fun W => nonneg_vec (r_avail (w_res W))) (p_workers (p_run ops P)).
Proof. exact pool_nonneg_all. Qed.
Print Assumptions C04_pool_nonneg_all.

(* ---- who holds what, on EVERY worker state reachable by operations (wop_ok only asks that a profile is
   not loaded where it is already loaded - finding FG is not repaired - and that a batch identifier
   names one strategy object); placements of resident tasks, empty or negative requests are all covered ----
   (older comment:) who holds what, on every worker state reachable by operations whose placements and loads are
   fresh (the task / profile is not already resident there) and whose requests are non-negative and
   ask for something; tbl is the table of the batch strategies in use (one object per identifier) ---- *)
Theorem C04_worker_invariant : forall tbl id v w, NoDup (map fst v) -> nonneg_vec v ->
  w_reach tbl (w_new id v) w -> WInv tbl w.
Proof. intros tbl id v w Hv Hn Hr. exact (winv_reach tbl (w_new id v) w (winv_new tbl id v Hv Hn) Hr). Qed.
Print Assumptions C04_worker_invariant.

(* a resource is held exactly while its task / a member of its batch / its profile is resident *)
Theorem C04_worker_held_exactly : forall tbl w, WInv tbl w ->
  (forall c, al_find c (r_allocs (w_res w)) <> None ->
     match c with
     | CTask t => exists s, zfind t (w_placed w) = Some s /\ s_is_batch s = false
     | CBatch b => exists sid mem t, zfind sid (w_btask w) = Some b /\ zfind sid (w_batches w) = Some mem /\
                                   In t mem /\ zfind t (w_placed w) = Some (tbl sid)
     | CProf p => zfind p (w_avail_prof w) <> None \/ zfind p (w_pend_prof w) <> None
     end) /\
  (forall t s, zfind t (w_placed w) = Some s -> s_is_batch s = false -> Held (r_allocs (w_res w)) (CTask t) (s_req s)) /\
  (forall t s, zfind t (w_placed w) = Some s -> s_is_batch s = true ->
     exists b, zfind (s_id s) (w_btask w) = Some b /\ Held (r_allocs (w_res w)) (CBatch b) (s_req s)) /\
  (forall p s, zfind p (w_avail_prof w) = Some s \/ zfind p (w_pend_prof w) = Some s ->
     Held (r_allocs (w_res w)) (CProf p) (s_req s)).
Proof. exact winv_held_exactly. Qed.
Print Assumptions C04_worker_held_exactly.

(* a refused operation changes nothing *)
Theorem C04_worker_refusal : forall tbl w o e, WInv tbl w -> wop_ok tbl w o ->
  snd (w_opstep w o) = Err e -> fst (w_opstep w o) = w.
Proof. intros tbl w o e HI Ho. apply (proj2 (winv_opstep tbl w o HI Ho)). Qed.
Print Assumptions C04_worker_refusal.

(* removing everything restores full capacity *)
Theorem C04_worker_remove_all : forall tbl w, WInv tbl w ->
  w_placed w = [] -> w_avail_prof w = [] -> w_pend_prof w = [] ->
  r_allocs (w_res w) = [] /\ r_avail (w_res w) = r_total (w_res w).
Proof. exact winv_empty_full. Qed.
Print Assumptions C04_worker_remove_all.

(* removing a resident task / evicting a loaded profile always succeeds (was finding FB) *)
Theorem C04_worker_remove_resident_ok : forall tbl t w, WInv tbl w -> zfind t (w_placed w) <> None -> snd (w_remove t w) = Ok tt.
Proof. exact w_remove_resident_ok. Qed.
Print Assumptions C04_worker_remove_resident_ok.
Theorem C04_worker_evict_loaded_ok : forall tbl p w, WInv tbl w ->
  zfind p (w_avail_prof w) <> None \/ zfind p (w_pend_prof w) <> None -> snd (w_evict p w) = Ok tt.
Proof. exact w_evict_loaded_ok. Qed.
Print Assumptions C04_worker_evict_loaded_ok.

(* C01, worker half (a corollary of the ledger): what the residents demand is exactly what the ledger
   has allocated, so it never exceeds the configured capacity, for every resource name *)
Theorem C04_worker_demand_is_allocated : forall tbl w n, WInv tbl w ->
  demand_name w n = allocs_sum (name_is n) (r_allocs (w_res w)).
Proof. exact demand_eq_allocated. Qed.
Print Assumptions C04_worker_demand_is_allocated.
Theorem C04_worker_demand_le_capacity : forall tbl w n, WInv tbl w -> demand_name w n <= cap_name w n.
Proof. exact demand_le_capacity. Qed.
Print Assumptions C04_worker_demand_le_capacity.

(* the simulator corollary at worker level: a worker with nothing placed and no profile reports zero
   allocated quantity and full availability for every resource (checked on end-to-end runs by the
   monitor check_idle on the live cluster whenever no task is placed) *)
Theorem C04_idle_worker : forall tbl w r, WInv tbl w -> w_placed w = [] -> w_avail_prof w = [] -> w_pend_prof w = [] ->
  r_allocated_q (w_res w) r = 0 /\ r_available (w_res w) r = r_total_q (w_res w) r.
Proof. exact winv_idle_zero. Qed.
Print Assumptions C04_idle_worker.

(* ---- pools: every state reachable by pool operations whose placements / loads are fresh ---- *)
Theorem C04_pool_invariant : forall tbl P0 P, PInv tbl P0 -> p_reach tbl P0 P -> PInv tbl P.
Proof. exact pinv_reach. Qed.
Print Assumptions C04_pool_invariant.
Theorem C04_pool_initial : forall tbl id ws, NoDup (map w_id ws) -> Forall (WInv tbl) ws ->
  Forall (fun W => w_placed W = []) ws -> PInv tbl (p_new id ws).
Proof. exact pinv_new. Qed.
Print Assumptions C04_pool_initial.
(* a placement that is refused (raises) or declined (returns False) changes nothing *)
Theorem C04_pool_place_refusal : forall tbl t strats es wid P, PInv tbl P -> pop_ok tbl P (PPlace t strats es wid) ->
  snd (p_place t strats es wid P) <> Ok true -> fst (p_place t strats es wid P) = P.
Proof. intros tbl t strats es wid P HI Ho. apply (proj2 (pinv_place tbl t strats es wid P HI Ho)). Qed.
Print Assumptions C04_pool_place_refusal.
Theorem C04_pool_remove_refusal : forall tbl t P e, PInv tbl P -> snd (p_remove t P) = Err e -> fst (p_remove t P) = P.
Proof. intros tbl t P e HI. apply (proj2 (pinv_remove tbl t P HI)). Qed.
Print Assumptions C04_pool_remove_refusal.
(* a refused pool-wide load_profile changes nothing (/repo 0f42ab1; was finding FD) *)
Theorem C04_pool_load_refusal : forall tbl p s wid P e, PInv tbl P -> pop_ok tbl P (PLoad p s wid) -> s_is_batch s = false ->
  snd (p_load p s wid P) = Err e -> fst (p_load p s wid P) = P.
Proof. exact pool_load_refusal. Qed.
Print Assumptions C04_pool_load_refusal.
(* C01, pool half: no worker of a reachable pool is oversubscribed; a task is resident on at most one worker *)
Theorem C04_pool_no_oversubscription : forall tbl P, PInv tbl P ->
  (forall W n, In W (p_workers P) -> demand_name W n <= cap_name W n) /\
  (forall t w1 w2, holds (p_workers P) w1 t -> holds (p_workers P) w2 t -> w1 = w2).
Proof. exact pool_no_oversubscription. Qed.
Print Assumptions C04_pool_no_oversubscription.

(* ---- the fit test (Resources.__gt__ as of /repo 402c33a, behind can_accomodate_strategy) says yes EXACTLY
   when allocate_multiple serves the request: what passes the fit test is never refused ---- *)
Theorem C04_fit_iff_success : forall R req c, Nonneg R -> nonneg_vec req ->
  (r_gt R req = true <-> exists R', r_allocate_multiple R req c = (R', Ok tt)).
Proof. exact gt_iff_success. Qed.
Print Assumptions C04_fit_iff_success.
Theorem C04_fit_never_refused : forall R req c R' e, Nonneg R -> nonneg_vec req ->
  r_gt R req = true -> r_allocate_multiple R req c <> (R', Err e).
Proof. exact fit_never_refused. Qed.
Print Assumptions C04_fit_never_refused.
Theorem C04_worker_fit_place_succeeds : forall t s w, Nonneg (w_res w) -> nonneg_vec (s_req s) ->
  r_gt (w_res w) (s_req s) = true -> zfind t (w_placed w) = None ->
  (s_is_batch s = true -> 1 <= s_bsize s /\ zfind (s_id s) (w_batches w) = None) ->
  snd (w_place t s w) = Ok tt.
Proof. exact w_fit_place_succeeds. Qed.
Print Assumptions C04_worker_fit_place_succeeds.
(* for requests that name each resource once the fit test is the per-key test *)
Theorem C04_fit_per_key : forall R req, NoDup (req_names req) -> nonneg_vec req -> Nonneg R ->
  (r_gt R req = true <-> r_gt_per_key R req = true).
Proof. exact r_gt_per_key_iff. Qed.
Print Assumptions C04_fit_per_key.
(* the per-key test alone (the fit test before 402c33a, finding FI) accepted requests that are then refused *)
Theorem C04_per_key_not_success_refuted :
  exists R req c R' e, r_gt_per_key R req = true /\ r_allocate_multiple R req c = (R', Err e) /\ r_gt R req = false.
Proof. exact per_key_not_success_refuted. Qed.
Print Assumptions C04_per_key_not_success_refuted.

(* ---- copies (as of /repo cd7cd87, b0287db; were findings FC, FC2, FE, FF) ---- *)
(* a shallow copy of a ledger IS that ledger, for ANY vector: same cells, totals, allocations, getters *)
Theorem C04_copy_same : forall R, Inv_ledger R -> Dict_ok R -> r_copy R = Ok R.
Proof. exact copy_same. Qed.
Print Assumptions C04_copy_same.
Theorem C04_copy_same_getters : forall R, Inv_ledger R -> Dict_ok R ->
  exists R', r_copy R = Ok R' /\ r_avail R' = r_avail R /\ r_total R' = r_total R /\ r_allocs R' = r_allocs R /\
             forall r, r_available R' r = r_available R r /\ r_total_q R' r = r_total_q R r /\
                       r_allocated_q R' r = r_allocated_q R r.
Proof. exact copy_same_getters. Qed.
Print Assumptions C04_copy_same_getters.
Theorem C04_copy_conserves : forall R R', Inv_ledger R -> Dict_ok R -> r_copy R = Ok R' ->
  r_total R' = r_total R /\ forall P, sumP P (r_avail R') + allocs_sum P (r_allocs R') = sumP P (r_total R).
Proof. exact copy_conserves. Qed.
Print Assumptions C04_copy_conserves.
(* the copy of a worker keeps placed tasks, batches, placeholders, profiles; it satisfies the invariant of
   its original (so everything above holds for copies and for what is done to them) and answers
   can_accomodate_strategy as its original *)
Theorem C04_worker_copy_shape : forall w w', w_copy w = Ok w' ->
  w_id w' = w_id w /\ w_placed w' = w_placed w /\ w_batches w' = w_batches w /\ w_btask w' = w_btask w /\
  w_avail_prof w' = w_avail_prof w /\ map fst (w_pend_prof w') = map fst (w_pend_prof w) /\
  r_copy (w_res w) = Ok (w_res w').
Proof. exact w_copy_shape. Qed.
Print Assumptions C04_worker_copy_shape.
Theorem C04_worker_copy_invariant : forall tbl w w', WInv tbl w -> w_copy w = Ok w' -> WInv tbl w'.
Proof. exact w_copy_winv. Qed.
Print Assumptions C04_worker_copy_invariant.
Theorem C04_worker_copy_fits : forall w w' s, Inv_ledger (w_res w) -> Dict_ok (w_res w) -> w_copy w = Ok w' ->
  w_fits s w' = w_fits s w.
Proof. exact w_copy_fits. Qed.
Print Assumptions C04_worker_copy_fits.
Theorem C04_worker_deepcopy_initial : forall id v ops, NoDup (map fst v) ->
  let w := w_deepcopy (w_run ops (w_new id v)) in
  w_res w = r_new v /\ w_placed w = [] /\ w_avail_prof w = [] /\ w_pend_prof w = [] /\ w_batches w = [].
Proof. exact w_deepcopy_initial. Qed.
Print Assumptions C04_worker_deepcopy_initial.
(* every operation on one object (step included: no loading timer is shared any more) and every copy leaves
   every other object of the world unchanged *)
Theorem C04_world_independence : forall W c j a, cmd_target c <> Some j ->
  nth_error (wo_objs W) j = Some a -> nth_error (wo_objs (fst (world_step W c))) j = Some a.
Proof. exact world_independence. Qed.
Print Assumptions C04_world_independence.

(* ---- the monitors applied to the implementation's observations are the decidable forms of the statements ---- *)
Theorem C04_monitor_ledger : forall tot av a, check_ledger tot av a = true <->
  (NoDup (map fst av) /\ map fst av = map fst tot /\ nonneg_vec av /\ recs_in av a /\
   forall P, sumP P av + allocs_sum P a = sumP P tot).
Proof. exact check_ledger_iff. Qed.
Print Assumptions C04_monitor_ledger.
Theorem C04_monitor_same : forall p, check_same p = true <-> fst p = snd p.
Proof. exact check_same_iff. Qed.
Print Assumptions C04_monitor_same.
Theorem C04_monitor_demand : forall names tot placed profs,
  check_demand names tot placed profs = true <->
  forall n, In n names -> demand_name (obs_worker_of tot placed profs) n <= cap_name (obs_worker_of tot placed profs) n.
Proof. exact check_demand_iff. Qed.
Print Assumptions C04_monitor_demand.
Theorem C04_monitor_held : forall names a placed profs,
  check_held names a placed profs = true <->
  (forall c l, In (c, l) a -> holder_ok placed profs c = true) /\
  (forall t s, In (t, s) placed ->
     if s_is_batch s then Exact_for names a (CBatch (s_id s)) (s_req s) else Exact_for names a (CTask t) (s_req s)) /\
  (forall p req, In (p, req) profs -> Exact_for names a (CProf p) req).
Proof. exact check_held_iff. Qed.
Print Assumptions C04_monitor_held.
Theorem C04_monitor_full : forall tot av a, check_full tot av a = true <-> a = [] /\ av = tot.
Proof. exact check_full_iff. Qed.
Print Assumptions C04_monitor_full.
Theorem C04_monitor_pool : forall pp wp, check_pool_placed pp wp = true <->
  (forall t w, In (t, w) pp -> exists l, zfind w wp = Some l /\ In t l) /\
  (forall w l t, In (w, l) wp -> In t l -> zfind t pp = Some w).
Proof. exact check_pool_placed_iff. Qed.
Print Assumptions C04_monitor_pool.

(* ---- the hypotheses are satisfiable by non-trivial states (Proofs/WorkerEx.v) ---- *)
Theorem C04_nonvacuous_worker : exists w, w_reach ex_tbl (w_new 0 ex_vec) w /\
  w_placed w <> [] /\ w_batches w <> [] /\ w_pend_prof w <> [] /\ r_allocs (w_res w) <> [] /\
  r_avail (w_res w) <> r_total (w_res w).
Proof. exact ex_reach. Qed.
Print Assumptions C04_nonvacuous_worker.
Theorem C04_nonvacuous_pool : exists P, p_reach ex_tbl (p_new 0 [w_new 0 ex_vec; w_new 1 ex_vec]) P /\
  List.length (p_placed P) = 2%nat /\ PInv ex_tbl (p_new 0 [w_new 0 ex_vec; w_new 1 ex_vec]).
Proof. exact ex_pool_reach. Qed.
Print Assumptions C04_nonvacuous_pool.
Theorem C04_nonvacuous_copy : exists R', r_copy (w_res (w_run ex_ops (w_new 0 ex_vec))) = Ok R' /\ r_allocs R' <> [] /\
  R' = w_res (w_run ex_ops (w_new 0 ex_vec)).
Proof. exact ex_copy. Qed.
Print Assumptions C04_nonvacuous_copy.

(* ---- what is still FALSE of /repo (witnesses in corpus/C04, replayed on every run) ---- *)
(* FG: load_profile accepts a profile that is already available *)
Theorem C04_double_load_refuted :
  exists id v ops, let w := w_run ops (w_new id v) in w_pend_prof w <> [] /\ r_allocs (w_res w) = [].
Proof. exact double_load_refuted. Qed.
Print Assumptions C04_double_load_refuted.
(* FD2: a pool-wide evict_profile is not atomic *)
Theorem C04_pool_wide_evict_refuted : exists P p P' e, p_evict p None P = (P', Err e) /\ P' <> P.
Proof. exact pool_wide_evict_refuted. Qed.
Print Assumptions C04_pool_wide_evict_refuted.
(* FD3: C04_pool_load_refusal needs `s_is_batch s = false`: a loading strategy that is a placed BatchStrategy
   passes the pre-check on a full worker *)
Theorem C04_pool_load_batch_strategy_refuted : exists P p s P' e, p_load p s None P = (P', Err e) /\ P' <> P.
Proof. exact pool_load_batch_strategy_refuted. Qed.
Print Assumptions C04_pool_load_batch_strategy_refuted.
