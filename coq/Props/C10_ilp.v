(* C10 (ILP part) — every satisfying assignment of the constraint system built by
   ILPScheduler.schedule() reads back as a complete, feasible decision list.
   Only statements; proofs are in Proofs/IlpP10.v. *)
From Coq Require Import ZArith Bool List.
Import ListNotations.
From Verif Require Import Model.Val Gen.Src_Ilp Model.IlpModel Proofs.IlpP Proofs.IlpP11 Proofs.IlpP10 Proofs.IlpP14 Proofs.IlpP14s Proofs.IlpPM.
Open Scope Z_scope.

(* exactly one decision per decided (offered or earlier SCHEDULED, not RUNNING) task, in order, no duplicates *)
Theorem C10_ilp_one_decision_each : forall I a, map fst (readback I a) = map t_id (nonrunning I).
Proof. exact C10_one_decision_each. Qed.
Print Assumptions C10_ilp_one_decision_each.
Theorem C10_ilp_decisions_distinct : forall I a, nodup_ids I -> NoDup (map fst (readback I a)).
Proof. exact C10_decisions_distinct. Qed.
Print Assumptions C10_ilp_decisions_distinct.
(* every offered task is answered, whether or not the solver found a solution *)
Theorem C10_ilp_answer_covers_offered : forall I sol,
  (forall t, In t (firstn (i_noffered I) (i_tasks I)) -> is_running t = false) ->
  forall t, In t (firstn (i_noffered I) (i_tasks I)) -> exists d, In (t_id t, d) (answer I sol).
Proof. exact C10_answer_covers_offered. Qed.
Print Assumptions C10_ilp_answer_covers_offered.
Theorem C10_ilp_no_solution_all_unplaced : forall I d, In d (answer I None) -> snd d = None.
Proof. exact C10_no_solution_all_unplaced. Qed.
Print Assumptions C10_ilp_no_solution_all_unplaced.

(* a placement names an existing worker and a strategy of the task that fits that worker, at a time
   not before now + 1 (the code's bound, stronger than the property's `now`) nor before the release *)
Theorem C10_ilp_decision_valid : forall I a, sat (gen_ilp I) a ->
  forall t s w k, In t (nonrunning I) -> decision I a t = Some (s, w, k) ->
  exists wk st, nth_worker I w = Some wk /\ nth_strat t k = Some st /\ compat wk st = true /\
                i_now I + 1 <= s /\ t_release t <= s.
Proof. exact C10_decision_valid. Qed.
Print Assumptions C10_ilp_decision_valid.

(* capacity: at EVERY instant, on every worker and for every resource type, the demands of all
   tasks occupying the worker (new placements over the closed interval [start, start + runtime],
   RUNNING tasks over [now, now + full runtime]) fit the worker's total *)
Theorem C10_ilp_capacity : forall I a, sat (gen_ilp I) a -> nodup_ids I -> rt_nonneg I -> req_nonneg I -> dep_linked I ->
  forall w rq tau, In w (wenum I) -> In rq (w_res (snd w)) -> 0 <= snd rq ->
  usage_a I a w (fst rq) tau <= snd rq.
Proof. exact capacity_never_exceeded. Qed.
Print Assumptions C10_ilp_capacity.

(* the same at the level of the returned plan: at every instant the usage computed from the Placements read back
   (and the running tasks) fits, under the planner's closed-interval convention and a fortiori under the simulator's
   half-open one (running tasks occupying [now, now + remaining)) *)
Theorem C10_ilp_plan_capacity : forall I a, sat (gen_ilp I) a -> wf I ->
  forall w wk rq tau, In (w, wk) (wenum I) -> In rq (w_res wk) ->
  usage_cl I (readback I a) w (fst rq) tau <= snd rq /\ usage_ho I (readback I a) w (fst rq) tau <= snd rq.
Proof. exact plan_capacity_every_instant. Qed.
Print Assumptions C10_ilp_plan_capacity.

(* the hypotheses are satisfiable and the usage is not trivially 0 *)
Theorem C10_ilp_nonvacuous : exists I a, sat (gen_ilp I) a /\ nodup_ids I /\ rt_nonneg I /\ req_nonneg I /\ dep_linked I /\
  exists w tau, In w (wenum I) /\ usage_a I a w 0 tau = 1.
Proof. exact C10_nonvacuous. Qed.
Print Assumptions C10_ilp_nonvacuous.

(* the monitor applied to the implementation's answers is the decidable form of the plan-level property, and its
   capacity part (start instants only) bounds the usage at every instant *)
Theorem C10_ilp_monitor_spec : forall I p, c10_check I p = true <-> C10_plan_ok I p.
Proof. exact c10_check_spec. Qed.
Print Assumptions C10_ilp_monitor_spec.
Theorem C10_ilp_monitor_every_instant : forall I p, req_nonneg I -> capacity_ho_check I p = true ->
  forall wi rq tau, In wi (wenum I) -> In rq (w_res (snd wi)) -> 0 <= snd rq ->
  usage_ho I p (fst wi) (fst rq) tau <= snd rq.
Proof. exact capacity_ho_every_instant. Qed.
Print Assumptions C10_ilp_monitor_every_instant.

(* the hypothesis monitor M-hyp (dep_linkedb on every instance the real get_schedulable_tasks produced) decides a
   sufficient condition for the hypothesis dep_linked of the capacity theorem *)
Theorem C10_ilp_hypothesis_monitor_sound : forall I, nodup_ids I -> dep_linkedb I = true -> dep_linked I.
Proof. exact dep_linkedb_sound. Qed.
Print Assumptions C10_ilp_hypothesis_monitor_sound.

(* schedule() returns normally on every input whose RUNNING tasks carry a usable cached placement (finding ILP-H1,
   AttributeError on a SCHEDULED task with a strategy that fits no variable, is fixed in /repo: the guard is read
   from the source as `warm_start_guarded`); the former witness now has a satisfying assignment *)
Theorem C10_ilp_returns_normally : forall I,
  (forall t, In t (i_tasks I) -> is_running t = true -> valid_prev I t = true) -> ilp_raises I = false.
Proof. exact C10_returns_normally. Qed.
Print Assumptions C10_ilp_returns_normally.
Theorem C10_ilp_returns_normally_witness : ilp_raises ex_hint = false /\ exists a, sat (gen_ilp ex_hint) a.
Proof. exact C10_returns_normally_witness. Qed.
Print Assumptions C10_ilp_returns_normally_witness.
