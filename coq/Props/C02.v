(* C02 — tasks start only after release and after all predecessors finish; a task starts at most
   once and completes at most once.  For every accepted log of the abstract simulator machine. *)
From Coq Require Import ZArith Bool List.
Import ListNotations.
From Verif Require Import Model.Val Gen.Src_Task Gen.Src_Event Model.Sim Proofs.SimP Proofs.SimP2.
Open Scope Z_scope.

(* parents_done s x: every parent (for a terminal task: some parent) is complete with a completion
   time not later than x's start time *)
Theorem C02_start_after_release_and_parents : forall W l s t x,
  cap_nonneg W -> sim_exec W sim_init l = Some s -> s_tasks s t = Some x -> started x ->
  t_release_time (t_dyn x) <= t_start_time (t_dyn x) /\ parents_done s x /\ t_starts x = 1.
Proof. exact starts_after_release_and_parents. Qed.
Print Assumptions C02_start_after_release_and_parents.

Theorem C02_at_most_one_start_and_finish : forall W l s u,
  cap_nonneg W -> sim_exec W sim_init l = Some s ->
  0 <= count_starts l u <= 1 /\ 0 <= count_finishes l u <= 1 /\ count_finishes l u <= count_starts l u.
Proof. exact at_most_one_start_and_finish. Qed.
Print Assumptions C02_at_most_one_start_and_finish.
