(* C12 (ILP part) — deadline enforcement in the ILP planner, for EVERY satisfying assignment of the
   constraint system that ILPScheduler.schedule() builds (task-by-task mode, i.e. without
   release_taskgraphs, where enforcement is unconditional).  Only statements; proofs are in Proofs/IlpP.v. *)
From Coq Require Import ZArith Bool List.
Import ListNotations.
From Verif Require Import Model.Val Gen.Src_Ilp Model.IlpModel Proofs.IlpP Proofs.IlpP11 Proofs.IlpP10 Proofs.IlpP14 Proofs.IlpP14s Proofs.IlpPM.
Open Scope Z_scope.

(* without release_taskgraphs the set _allowed_to_miss_deadlines is never consulted: nobody is exempt *)
Theorem C12_ilp_no_exemptions : forall I t, i_release_tg I = false -> enforce_for I t = i_enforce I.
Proof. exact no_exemptions. Qed.
Print Assumptions C12_ilp_no_exemptions.

(* a placed task's start plus the runtime of the chosen strategy is at most its deadline *)
Theorem C12_ilp_deadline_met : forall I a, sat (gen_ilp I) a -> rt_nonneg I ->
  forall t, In t (nonrunning I) -> enforce_for I t = true ->
  forall s w k, decision I a t = Some (s, w, k) ->
  exists st, nth_strat t k = Some st /\ s + s_rt st <= t_deadline t.
Proof. exact C12_deadline_met. Qed.
Print Assumptions C12_ilp_deadline_met.

(* a task that cannot finish by its deadline with its fastest strategy (even starting at now + 1,
   the earliest start the planner allows) is left unplaced by every satisfying assignment *)
Theorem C12_ilp_hopeless_unplaced : forall I a, sat (gen_ilp I) a -> rt_nonneg I ->
  forall t, In t (nonrunning I) -> enforce_for I t = true ->
  t_deadline t < i_now I + 1 + fastest t -> decision I a t = None.
Proof. exact C12_hopeless_unplaced. Qed.
Print Assumptions C12_ilp_hopeless_unplaced.

(* the monitors applied to the implementation's answers are the decidable forms of the plan-level properties *)
Theorem C12_ilp_monitor_spec : forall I p, c12_check I p = true <-> C12_plan_ok I p.
Proof. exact c12_check_spec. Qed.
Print Assumptions C12_ilp_monitor_spec.
Theorem C12_ilp_hopeless_monitor_spec : forall I p, c12_hopeless_check I p = true <-> C12_hopeless_ok I p.
Proof. exact c12_hopeless_check_spec. Qed.
Print Assumptions C12_ilp_hopeless_monitor_spec.

(* the hypotheses are satisfiable by a non-trivial state (a two-task chain, both placed) *)
Theorem C12_ilp_nonvacuous : exists I a t s w k,
  sat (gen_ilp I) a /\ rt_nonneg I /\ In t (nonrunning I) /\ enforce_for I t = true /\ decision I a t = Some (s, w, k).
Proof. exact C12_nonvacuous. Qed.
Print Assumptions C12_ilp_nonvacuous.
