(* C19 — workload and cluster descriptions are instantiated faithfully.
   Only statements; the proofs are in Proofs/ReleaseP*.v, the model in Model/Release.v
   (EventTime arithmetic: the translated Gen/Src_Time.v). *)
From Coq Require Import ZArith Bool List Sorting.Sorted.
Import ListNotations.
From Verif Require Import Model.Val Gen.Src_Time Proofs.TimeP Model.Release
  Proofs.ReleaseP1 Proofs.ReleaseP2 Proofs.ReleaseP3 Proofs.ReleaseP4 Proofs.ReleaseP5 Proofs.ReleaseP6 Proofs.ReleaseP7 Proofs.ReleaseP8 Proofs.ReleaseP9 Gen.Src_Release Proofs.ReleasePBridge.
Open Scope Z_scope.

(* ---- fixed: N releases one period apart from the start *)
Theorem C19_fixed : forall p c zd fd, p_type p = FIXED -> 0 <= p_n p ->
  get_release_times p c zd fd =
  Ok (map (fun i => us_time (us (p_start p) + Z.of_nat i * us (p_period p))) (seq 0 (Z.to_nat (p_n p)))).
Proof. exact fixed_release_times. Qed.
Print Assumptions C19_fixed.

(* ---- periodic: every period from the start, strictly before the horizon *)
Theorem C19_periodic : forall p c zd fd, p_type p = PERIODIC -> p_n p <> 0 -> us (p_period p) <> 0 ->
  get_release_times p c zd fd = Ok (periodic_spec (us (p_start p)) (us (p_period p)) (us c)).
Proof. exact periodic_release_times. Qed.
Print Assumptions C19_periodic.
Theorem C19_periodic_members : forall s per c t, 0 < per ->
  (In t (periodic_spec s per c) <-> exists i, 0 <= i /\ t = us_time (s + i * per) /\ s + i * per < c).
Proof. exact periodic_spec_In. Qed.
Print Assumptions C19_periodic_members.

(* ---- poisson: N releases, the first at the start, non-decreasing, each the start plus the draws so far *)
Theorem C19_poisson : forall p c zd fd rs, p_type p = POISSON -> Forall (fun d => 0 <= d) zd ->
  get_release_times p c zd fd = Ok rs -> p_n p <> 0 ->
  length rs = Z.to_nat (p_n p) /\ hd_error rs = Some (p_start p) /\ nondecreasing rs /\
  map us rs = us (p_start p) :: prefix_sums (us (p_start p)) zd.
Proof. exact poisson_release_times. Qed.
Print Assumptions C19_poisson.
Theorem C19_poisson_total : forall p c zd fd, p_type p = POISSON -> 0 < p_n p -> 0 < fm (p_rate p) ->
  Z.of_nat (length zd) = p_n p - 1 -> exists rs, get_release_times p c zd fd = Ok rs.
Proof. exact poisson_total. Qed.
Print Assumptions C19_poisson_total.

(* ---- gamma: N releases from the start, non-decreasing for EVERY list of non-negative doubles
   (binary64 additions and round() included), as long as the start is below 2^53 us *)
Theorem C19_gamma : forall p c zd fd rs, p_type p = GAMMA -> Z.abs (us (p_start p)) < 2 ^ 53 ->
  Forall (fun d => 0 <= fm d) fd -> get_release_times p c zd fd = Ok rs -> p_n p <> 0 ->
  length rs = Z.to_nat (p_n p) /\ hd_error rs = Some (us_time (us (p_start p))) /\ nondecreasing rs.
Proof. exact gamma_release_times. Qed.
Print Assumptions C19_gamma.
(* the first release is the start, for a start given in any unit *)
Theorem C19_gamma_first_is_start : forall p c zd fd rs, p_type p = GAMMA ->
  get_release_times p c zd fd = Ok rs -> p_n p <> 0 -> exists r0, hd_error rs = Some r0 /\ us r0 = us (p_start p).
Proof. exact gamma_first_is_start. Qed.
Print Assumptions C19_gamma_first_is_start.
(* the bound 2^53 us in C19_gamma is needed (int -> double conversion of the start); outside the property's range *)
Theorem C19_gamma_huge_start_refuted : exists p c fd rs, p_type p = GAMMA /\ get_release_times p c [] fd = Ok rs /\
  Forall (fun d => 0 <= fm d) fd /\ ~ nondecreasing rs.
Proof. exact gamma_huge_start_refuted. Qed.
Print Assumptions C19_gamma_huge_start_refuted.
(* fixed + gamma: N releases, sorted *)
Theorem C19_fixed_gamma : forall p c zd fd rs, p_type p = FIXED_AND_GAMMA ->
  get_release_times p c zd fd = Ok rs -> p_n p <> 0 -> length rs = Z.to_nat (p_n p) /\ nondecreasing rs.
Proof. exact fixed_gamma_release_times. Qed.
Print Assumptions C19_fixed_gamma.

(* ---- the binary64 facts everything above rests on *)
Theorem C19_round_monotone : forall x y, fl_leb x y = true -> py_round x <= py_round y.
Proof. exact py_round_mono. Qed.
Print Assumptions C19_round_monotone.
Theorem C19_add_nonneg_monotone : forall cur d, Z.abs (fm cur) <= 2 ^ 53 -> 0 <= fm d -> fl_leb cur (fl_add cur d) = true.
Proof. exact fl_add_nonneg_ge. Qed.
Print Assumptions C19_add_nonneg_monotone.

(* ---- closed loop *)
Theorem C19_closed_loop_initial : forall p c zd fd, p_type p = CLOSED_LOOP -> 0 < p_n p -> 0 < p_conc p ->
  get_release_times p c zd fd = Ok (repeat (p_start p) (Z.to_nat (Z.min (p_conc p) (p_n p)))).
Proof. exact closed_loop_initial. Qed.
Print Assumptions C19_closed_loop_initial.
(* at every state reachable under the caller's contract (each notification is for a graph in flight, hence
   one notification per graph): in flight <= concurrency, released <= N, and released = min(N, initial + completions) *)
Theorem C19_closed_loop : forall conc n gs s, 0 < conc -> 0 < n -> cl_run (cl_init conc n) gs = Some s ->
  Z.of_nat (length (cl_live s)) <= conc /\ cl_total s <= n /\
  cl_total s = Z.min n (Z.min conc n + Z.of_nat (length gs)).
Proof. exact closed_loop_safe. Qed.
Print Assumptions C19_closed_loop.
(* F12a: without the contract (a second notification for the same graph) the bound is lost *)
Theorem C19_closed_loop_double_notify_refuted : exists conc n gs s, 0 < conc /\ 0 < n /\
  cl_run_any (cl_init conc n) gs = Some s /\ conc < Z.of_nat (length (cl_live s)).
Proof. exact closed_loop_double_notify_refuted. Qed.
Print Assumptions C19_closed_loop_double_notify_refuted.

(* ---- deadlines: EventTime.fuzz stays inside the integer envelope of time*(variance/100), clamped to the bounds,
   for every uniform draw inside that envelope *)
Theorem C19_fuzz_bounds : forall t u minv maxv minb maxb,
  Z.abs t < 2 ^ 53 -> uniform_contract t minv maxv u = true ->
  Z.abs (t + clampZ minb maxb (var_lo t minv maxv)) <= 2 ^ 53 ->
  Z.abs (t + clampZ minb maxb (var_hi t minv maxv)) <= 2 ^ 53 ->
  t + clampZ minb maxb (var_lo t minv maxv) <= fuzz_time t u minb maxb <= t + clampZ minb maxb (var_hi t minv maxv).
Proof. exact fuzz_time_bounds. Qed.
Print Assumptions C19_fuzz_bounds.
Theorem C19_fuzz_contract_satisfiable : forall t minv maxv, 0 <= t ->
  uniform_contract t minv maxv (mkF (var_lo t minv maxv) 0) = true.
Proof. exact uniform_contract_sat. Qed.
Print Assumptions C19_fuzz_contract_satisfiable.

(* every task of an instantiated graph has the deadline release + BASE stretched within the declared variance and
   clamped to the bounds, where BASE is JobGraph.completion_time (critical path, SLOs where declared) or, with
   --use_branch_predicated_deadlines, the slowest-strategy runtimes along the longest path over the tasks of
   non-zero probability; the draw used is the SECOND uniform value *)
Theorem C19_deadline : forall jg f release index next us_ tg next' us',
  generate_task_graph jg f release index next us_ = Ok (tg, next', us') ->
  exists created ct, deadline_base jg f (tg_graph tg) created = Ok ct /\ et_unit ct = U_US /\
  forall minv maxv,
  Z.abs (et_time ct) < 2 ^ 53 ->
  (forall u, nth_error us_ 1 = Some u -> uniform_contract (et_time ct) minv maxv u = true) ->
  Z.abs (et_time ct + clampZ (if_minb f) (if_maxb f) (var_lo (et_time ct) minv maxv)) <= 2 ^ 53 ->
  Z.abs (et_time ct + clampZ (if_minb f) (if_maxb f) (var_hi (et_time ct) minv maxv)) <= 2 ^ 53 ->
  Forall (fun t =>
    us release + et_time ct + clampZ (if_minb f) (if_maxb f) (var_lo (et_time ct) minv maxv) <= us (t_deadline t)
    <= us release + et_time ct + clampZ (if_minb f) (if_maxb f) (var_hi (et_time ct) minv maxv)) (tg_tasks tg).
Proof. exact deadline_within_bounds. Qed.
Print Assumptions C19_deadline.
Theorem C19_deadline_base_default : forall jg f tgg created, if_bpd f = false ->
  deadline_base jg f tgg created = completion_time jg.
Proof. exact deadline_base_default. Qed.
Print Assumptions C19_deadline_base_default.
Theorem C19_completion_time_in_us : forall jg ct, completion_time jg = Ok ct -> et_unit ct = U_US.
Proof. exact completion_time_us. Qed.
Print Assumptions C19_completion_time_in_us.

(* ---- each invocation is a fresh isomorphic copy of the job graph: for a job graph whose breadth-first traversal
   visits every node once (a DAG built with add_job/add_child), whose children are nodes and whose jobs are identified
   by their names, the renaming job i |-> task id (next + position of i in the traversal) is injective, lands on ids
   that were not in use, maps the nodes onto the nodes and every children list onto the children list, in order *)
Theorem C19_instantiation_isomorphic : forall jg f release index next us_ tg next' us' order,
  generate_task_graph jg f release index next us_ = Ok (tg, next', us') ->
  g_bfs (jg_graph jg) = Ok order -> NoDup order ->
  (forall kv, In kv (g_ch (jg_graph jg)) -> In (fst kv) order /\ forall c, In c (snd kv) -> In c order) ->
  NoDup (map fst (g_ch (jg_graph jg))) ->
  (forall kv c, In kv (g_ch (jg_graph jg)) -> In c (snd kv) -> In c (map fst (g_ch (jg_graph jg)))) ->
  (forall i i', In i order -> In i' order -> name_of jg i = name_of jg i' -> i = i') ->
  let task_id i := next + index_of i order in
  (forall i, In i order -> next <= task_id i < next') /\
  (forall i i', In i order -> In i' order -> task_id i = task_id i' -> i = i') /\
  (forall t, In t (g_nodes (tg_graph tg)) <-> exists k, In k (g_nodes (jg_graph jg)) /\ t = task_id k) /\
  (forall k cs, In (k, cs) (g_ch (jg_graph jg)) -> g_children (tg_graph tg) (task_id k) = map task_id cs).
Proof. exact instantiation_isomorphic. Qed.
Print Assumptions C19_instantiation_isomorphic.
(* Graph.__init__(mapping) builds exactly the mapping (distinct keys, children are keys) *)
Theorem C19_graph_constructor : forall m, NoDup (map fst m) ->
  (forall k cs c, In (k, cs) m -> In c cs -> In c (map fst m)) ->
  exists g, graph_of_mapping m = Ok g /\ (forall k cs, In (k, cs) m -> g_children g k = cs) /\
            (forall k, In k (g_nodes g) <-> In k (map fst m)).
Proof. exact graph_of_mapping_shape. Qed.
Print Assumptions C19_graph_constructor.

(* ---- regression of the former finding C19-periodic-loader (fixed in /repo 3effb4b): a periodic document is
   instantiated by the loader model with the horizon EventTime(loop_timeout) *)
Theorem C19_loader_periodic_instantiated :
  exists ls tgs, load_workload (lc_profiles periodic_doc) (lc_graphs periodic_doc) (lc_flags periodic_doc) = Ok ls /\
    populate ls (mkIF 0 (2 ^ 63 - 1) (0, 0) false) (lc_completion periodic_doc) [] []
             [mkF 0 0; mkF 0 0; mkF 0 0; mkF 0 0; mkF 0 0; mkF 0 0; mkF 0 0; mkF 0 0] 0 = Ok tgs /\
    map (fun x => map (fun tg => map (fun t => et_time (t_release t)) (tg_tasks tg)) (snd x)) tgs = [[[5]; [305]; [605]; [905]]].
Proof. exact loader_periodic_instantiated. Qed.
Print Assumptions C19_loader_periodic_instantiated.

(* ---- monitors = statements *)
Theorem C19_mon_fixed : forall s per n obs, mon_fixed s per n obs = true <-> map us_time obs = fixed_spec s per n.
Proof. exact mon_fixed_iff. Qed.
Print Assumptions C19_mon_fixed.
Theorem C19_mon_periodic : forall s per c obs, mon_periodic s per c obs = true <-> map us_time obs = periodic_spec s per c.
Proof. exact mon_periodic_iff. Qed.
Print Assumptions C19_mon_periodic.
Theorem C19_mon_arrivals : forall s n obs, 0 < n ->
  (mon_arrivals s n obs = true <-> Z.of_nat (length obs) = n /\ hd_error obs = Some s /\ Sorted Z.le obs).
Proof. exact mon_arrivals_iff. Qed.
Print Assumptions C19_mon_arrivals.
Theorem C19_mon_deadline : forall ct minv maxv minb maxb stretch,
  mon_deadline ct minv maxv minb maxb stretch = true <->
  clampZ minb maxb (var_lo ct minv maxv) <= stretch - ct <= clampZ minb maxb (var_hi ct minv maxv).
Proof. exact mon_deadline_iff. Qed.
Print Assumptions C19_mon_deadline.
Theorem C19_mon_closed_loop : forall conc n log i t, mon_closed_loop conc n i t log = true <-> log_ok conc n i t log.
Proof. exact mon_closed_loop_iff. Qed.
Print Assumptions C19_mon_closed_loop.
Theorem C19_mon_iso_sound : forall jobs tasks, mon_iso jobs tasks = true ->
  length jobs = length tasks /\ (forall k cs, In (k, cs) jobs -> In (k, cs) tasks).
Proof. exact mon_iso_sound. Qed.
Print Assumptions C19_mon_iso_sound.

(* ---- bridge: the comparisons / arithmetic translated from the source on this run (Gen/Src_Release.v) are the
   model's: arguments of np.arange, draw counts and the microsecond seed of the gamma running time, the closed-loop
   counts and guards, the clamp / rounding of EventTime.fuzz and the interval handed to uniform *)
Theorem C19_bridge_release_times : forall p c zd fd, p_n p <> 0 ->
  (p_type p = PERIODIC -> get_release_times p c zd fd =
     let '(a, b, s) := src_periodic_args (us (p_start p)) (et_time (p_start p)) (us c) (et_time c)
                                         (us (p_period p)) (et_time (p_period p)) (p_n p) in
     bind (py_range a b s) (fun l => Ok (map us_time l))) /\
  (p_type p = POISSON -> get_release_times p c zd fd =
     bind (poisson_args (p_rate p)) (fun _ => bind (draw_array (src_poisson_size (p_n p)) zd) (fun ds =>
     bind (poisson_acc (p_start p) ds) (fun rest => Ok (p_start p :: rest))))) /\
  (p_type p = GAMMA -> get_release_times p c zd fd =
     bind (gamma_args (p_coef p) (p_rate p)) (fun _ => bind (draw_array (src_gamma_size (p_n p)) fd) (fun ds =>
     Ok (gamma_times (src_gamma_seed (us (p_start p)) (et_time (p_start p))) ds)))) /\
  (p_type p = CLOSED_LOOP -> get_release_times p c zd fd =
     Ok (repeat (p_start p) (Z.to_nat (src_cl_num (p_conc p) (p_n p))))) /\
  (forall su sr cu cr pu pr n, src_fixed_args su sr cu cr pu pr n = (su, su + pu * n, n)).
Proof.
  intros p c zd fd Hn. split; [intros H; apply bridge_periodic; assumption|]. split; [intros H; apply bridge_poisson; assumption|].
  split; [intros H; apply bridge_gamma; assumption|]. split; [intros H; apply bridge_closed_loop; assumption|]. exact bridge_fixed.
Qed.
Print Assumptions C19_bridge_release_times.
Theorem C19_bridge_closed_loop : forall s g,
  cl_notify s g =
  if negb (zmem g (cl_all s)) then Err 1
  else let live' := zremove g (cl_live s) in
       if src_next_guard (cl_remaining s)
       then let i := src_next_index (cl_index s) in
            Ok (mkCL (src_next_remaining (cl_remaining s)) i (live' ++ [i]) (cl_all s ++ [i]) (cl_total s + 1), Some i)
       else Ok (mkCL (cl_remaining s) (cl_index s) live' (cl_all s) (cl_total s), None).
Proof. exact bridge_cl_notify. Qed.
Print Assumptions C19_bridge_closed_loop.
Theorem C19_bridge_fuzz : forall t u minb maxb minv maxv,
  fuzz_time t u minb maxb = src_fuzz_result t (src_fuzz_clamp (NZ minb) (NZ maxb) (NF u)) /\
  src_fuzz_interval t minv maxv = (t * Z.abs minv, t * Z.abs maxv).
Proof. intros. split; [apply bridge_fuzz|apply bridge_fuzz_interval]. Qed.
Print Assumptions C19_bridge_fuzz.
