(* C19 — workload and cluster descriptions are instantiated faithfully.
   Only statements; the proofs are in Proofs/ReleaseP*.v, the model in Model/Release.v. *)
From Coq Require Import ZArith Bool List Sorting.Sorted.
Import ListNotations.
From Verif Require Import Model.Val Gen.Src_Time Proofs.TimeP Model.Release Proofs.ReleaseP1.
Open Scope Z_scope.

(* fixed: N releases one period apart from the start *)
Theorem C19_fixed : forall p c zd fd, p_type p = FIXED -> 0 <= p_n p ->
  get_release_times p c zd fd =
  Ok (map (fun i => us_time (us (p_start p) + Z.of_nat i * us (p_period p))) (seq 0 (Z.to_nat (p_n p)))).
Proof. exact fixed_release_times. Qed.
Print Assumptions C19_fixed.

(* periodic: every period from the start, strictly before the horizon *)
Theorem C19_periodic : forall p c zd fd, p_type p = PERIODIC -> p_n p <> 0 -> us (p_period p) <> 0 ->
  get_release_times p c zd fd = Ok (periodic_spec (us (p_start p)) (us (p_period p)) (us c)).
Proof. exact periodic_release_times. Qed.
Print Assumptions C19_periodic.
Theorem C19_periodic_members : forall s per c t, 0 < per ->
  (In t (periodic_spec s per c) <-> exists i, 0 <= i /\ t = us_time (s + i * per) /\ s + i * per < c).
Proof. exact periodic_spec_In. Qed.
Print Assumptions C19_periodic_members.

(* poisson: N releases, the first at the start, non-decreasing, each the start plus the draws so far *)
Theorem C19_poisson : forall p c zd fd rs, p_type p = POISSON -> Forall (fun d => 0 <= d) zd ->
  get_release_times p c zd fd = Ok rs -> p_n p <> 0 ->
  length rs = Z.to_nat (p_n p) /\ hd_error rs = Some (p_start p) /\ nondecreasing rs /\
  map us rs = us (p_start p) :: prefix_sums (us (p_start p)) zd.
Proof. exact poisson_release_times. Qed.
Print Assumptions C19_poisson.
Theorem C19_poisson_total : forall p c zd fd, p_type p = POISSON -> 0 < p_n p -> 0 < fm (p_rate p) ->
  Z.of_nat (length zd) = p_n p - 1 -> exists rs, get_release_times p c zd fd = Ok rs.
Proof. exact poisson_total. Qed.
Print Assumptions C19_poisson_total.

(* closed loop: min(concurrency, N) graphs at the start *)
Theorem C19_closed_loop_initial : forall p c zd fd, p_type p = CLOSED_LOOP -> 0 < p_n p -> 0 < p_conc p ->
  get_release_times p c zd fd = Ok (repeat (p_start p) (Z.to_nat (Z.min (p_conc p) (p_n p)))).
Proof. exact closed_loop_initial. Qed.
Print Assumptions C19_closed_loop_initial.
