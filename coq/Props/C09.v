(* C09 — runs are reproducible from the random seed.  PARTIAL by construction (see tools/claims/C09.json):
   what is proved is NON-INTERFERENCE of the inputs the CPython runtime hides (OS entropy, iteration order of
   sets of strings, wall clock; record `hidden` of Model/Repro.v) with
     - the random tape of a run: every value drawn at a generator site of Gen/Src_Repro.v (REGENERATED from /repo:
       ids of tasks/jobs/resources/workers/pools/..., deadline fuzz and runtime variance, per-policy numpy draws,
       conditional-branch draws), for an ARBITRARY deterministic rest-of-the-simulator (`controller`: any function
       from the values drawn so far to the next request), and
     - the order of the WORKER_POOL_UTILIZATION rows under the translated iteration discipline.
   That the trace is a function of the tape (i.e. that the simulator IS such a controller) is not proved; it is
   checked by the two-process differential of harness/props/c09.py.
   Only statements here; proofs are in Proofs/ReproP.v. *)
From Coq Require Import ZArith Bool List Permutation.
Import ListNotations.
From Verif Require Import Model.Val Model.Repro Gen.Src_Repro Proofs.ReproP.
Open Scope Z_scope.

(* (a) for every seed, every two hidden records, every import-time construction sequence and every controller:
   same outcome and same tape.  `prng` is the (unmodelled) generator algorithm: any function of (seed, position). *)
Theorem C09_tape_independent_of_hidden :
  forall (prng : Z -> nat -> Z) (seed : Z) (h1 h2 : hidden) (imports : list request) (ctl : controller) (fuel : nat),
    forallb is_ctor imports = true ->
    run Src_Repro.prog prng seed h1 imports ctl fuel = run Src_Repro.prog prng seed h2 imports ctl fuel.
Proof. exact tape_independent_of_hidden. Qed.
Print Assumptions C09_tape_independent_of_hidden.

(* the same for a fixed call sequence (the form the S-tape stream observes) *)
Theorem C09_tape_of_call_sequence_independent_of_hidden :
  forall (prng : Z -> nat -> Z) (seed : Z) (h1 h2 : hidden) (imports rs : list request),
    forallb is_ctor imports = true ->
    tape_reqs Src_Repro.prog prng seed h1 imports rs = tape_reqs Src_Repro.prog prng seed h2 imports rs.
Proof. exact tape_reqs_indep_src. Qed.
Print Assumptions C09_tape_of_call_sequence_independent_of_hidden.

(* the general theorem of the model: the decidable condition prog_ok (main() seeds the global generator first; no
   in-scope site reads OS entropy; the fuzz generator and every release policy that reads its generator get a seed) *)
Theorem C09_tape_independent_for_every_ok_program :
  forall p : Repro.program, prog_ok p = true ->
  forall prng seed h1 h2 imports ctl fuel, forallb is_ctor imports = true ->
    run p prng seed h1 imports ctl fuel = run p prng seed h2 imports ctl fuel.
Proof. exact tape_indep_general. Qed.
Print Assumptions C09_tape_independent_for_every_ok_program.

Theorem C09_generated_program_ok : prog_ok Src_Repro.prog = true.
Proof. exact src_prog_ok. Qed.
Print Assumptions C09_generated_program_ok.

(* (c) draws happen in an order fixed by the call sequence: which stream and which position each value is read from
   (`plan_of`, the function the S-tape stream compares with the implementation) mentions neither the hidden inputs
   nor the generator algorithm, and the tape is its image *)
Theorem C09_draw_order_fixed_by_call_sequence :
  forall (p : Repro.program) prng seed h imports rs,
    tape_reqs p prng seed h imports rs = option_map (map (pcell_val prng h)) (plan_of p seed imports rs).
Proof. exact tape_is_plan. Qed.
Print Assumptions C09_draw_order_fixed_by_call_sequence.

(* (b) the utilisation rows under any two iteration-order oracles, for the translated discipline *)
Theorem C09_rows_independent_of_order :
  forall (h1 h2 : hidden) (pools : list (Z * list Z)), order_contract h1 -> order_contract h2 ->
    util_rows Src_Repro.util_iter h1 pools = util_rows Src_Repro.util_iter h2 pools.
Proof. exact rows_independent_of_order. Qed.
Print Assumptions C09_rows_independent_of_order.

(* the class C_iter_commutative of the audit: an order-insensitive accumulation over a set *)
Theorem C09_commutative_iteration_independent_of_order :
  forall (B : Type) (f : Z -> B -> B) (b : B) (h1 h2 : hidden) (keys : list Z),
    (forall x y acc, f x (f y acc) = f y (f x acc)) -> order_contract h1 -> order_contract h2 -> NoDup keys ->
    fold_right f b (h_setorder h1 keys) = fold_right f b (h_setorder h2 keys).
Proof. exact @commutative_iteration_indep. Qed.
Print Assumptions C09_commutative_iteration_independent_of_order.

(* the audit table: every in-scope occurrence has a class that reads no hidden input in the model.
   PARTIAL: the class of an allow-listed occurrence (wall clock that only measures, set iterated into an
   order-insensitive result, set of seeded-uuid-hashed objects) is the reviewer's justification recorded in
   translator/frag_repro.py, not a proved fact; an occurrence outside the list is C_unclassified and breaks this. *)
Theorem C09_audited_sites_hidden_free_partial : audit_ok Src_Repro.audit = true.
Proof. exact audit_sites_hidden_free. Qed.
Print Assumptions C09_audited_sites_hidden_free_partial.

Theorem C09_program_sites_are_the_audited_sites :
  p_sites Src_Repro.prog = map role_of Src_Repro.audit /\
  forall i s, nth_error Src_Repro.audit i = Some s -> a_scope s = false -> nth_error (p_sites Src_Repro.prog) i = Some R_other.
Proof. exact program_sites_from_audit. Qed.
Print Assumptions C09_program_sites_are_the_audited_sites.

(* non-vacuity: a non-trivial run of the generated program (ids, fuzz, two kinds of policy draws, a branch choice) *)
Theorem C09_example_run :
  plan_of Src_Repro.prog 5 [RNewFuzz site_fuzz_ctor_1] demo_reqs =
  Some [PC_prng 5 0; PC_prng 5 1; PC_prng 42 0; PC_prng 5 0; PC_prng 5 0; PC_prng 5 1; PC_prng 5 2; PC_prng 42 1;
        PC_prng 5 3; PC_prng 5 4; PC_prng 5 5].
Proof. exact demo_plan. Qed.
Print Assumptions C09_example_run.

(* the statements are false, not vacuous, on variant tables: each variant makes prog_ok false AND two hidden
   records give different tapes / rows *)
Theorem C09_uuid4_ids_refuted :
  prog_ok prog_uuid4 = false /\
  tape_reqs prog_uuid4 prng0 5 h_a [] [RDraw site_task_id 0] <> tape_reqs prog_uuid4 prng0 5 h_b [] [RDraw site_task_id 0].
Proof. exact uuid4_refuted. Qed.
Print Assumptions C09_uuid4_ids_refuted.
Theorem C09_unseeded_policy_refuted :
  prog_ok prog_unseeded_policy = false /\
  tape_reqs prog_unseeded_policy prng0 5 h_a [] [RNewPolicy kind_poisson; RDraw site_policy_draw_0 0] <>
  tape_reqs prog_unseeded_policy prng0 5 h_b [] [RNewPolicy kind_poisson; RDraw site_policy_draw_0 0].
Proof. exact unseeded_policy_refuted. Qed.
Print Assumptions C09_unseeded_policy_refuted.
Theorem C09_loader_forgets_seed_refuted :
  prog_ok prog_loader_forgets = false /\
  tape_reqs prog_loader_forgets prng0 5 h_a [] [RNewPolicy kind_gamma; RDraw site_policy_draw_1 0] <>
  tape_reqs prog_loader_forgets prng0 5 h_b [] [RNewPolicy kind_gamma; RDraw site_policy_draw_1 0].
Proof. exact loader_forgets_refuted. Qed.
Print Assumptions C09_loader_forgets_seed_refuted.
Theorem C09_unseeded_fuzz_refuted :
  prog_ok prog_unseeded_fuzz = false /\
  tape_reqs prog_unseeded_fuzz prng0 5 h_a [RNewFuzz site_fuzz_ctor_1] [RDraw site_fuzz_draw 0] <>
  tape_reqs prog_unseeded_fuzz prng0 5 h_b [RNewFuzz site_fuzz_ctor_1] [RDraw site_fuzz_draw 0].
Proof. exact unseeded_fuzz_refuted. Qed.
Print Assumptions C09_unseeded_fuzz_refuted.
Theorem C09_no_seeding_refuted :
  prog_ok prog_no_seeding = false /\
  tape_reqs prog_no_seeding prng0 5 h_a [] [RDraw site_task_id 0] <> tape_reqs prog_no_seeding prng0 5 h_b [] [RDraw site_task_id 0].
Proof. exact no_seeding_refuted. Qed.
Print Assumptions C09_no_seeding_refuted.
Theorem C09_set_order_rows_refuted :
  exists h1 h2 pools, order_contract h1 /\ order_contract h2 /\ util_rows set_order h1 pools <> util_rows set_order h2 pools.
Proof. exact set_order_refuted. Qed.
Print Assumptions C09_set_order_rows_refuted.
(* ... although the rows are then still the same rows in another order *)
Theorem C09_set_order_rows_are_a_permutation :
  forall h pools, order_contract h -> Permutation (util_rows set_order h pools) (util_rows ordered h pools).
Proof. exact rows_set_order_perm. Qed.
Print Assumptions C09_set_order_rows_are_a_permutation.

(* the monitor applied to the implementation's ids: every id is the uuid4 form of the 128 bits drawn for it *)
Theorem C09_id_monitor_spec :
  forall l, ids_from_draws l = true <-> Forall (fun p => 0 <= fst p < 2 ^ 128 /\ snd p = uuid4_of_bits (fst p)) l.
Proof. exact ids_from_draws_spec. Qed.
Print Assumptions C09_id_monitor_spec.
