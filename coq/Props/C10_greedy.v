(* C10, greedy part (EDF / FIFO / LSF) — a complete, feasible, side-effect-free decision.
   Only statements; proofs are in Proofs/GreedyP*.v. *)
From Coq Require Import ZArith Bool List Sorting.Sorted Permutation.
Import ListNotations.
From Verif Require Import Model.Val Gen.Src_Greedy Model.Greedy Proofs.GreedyP Proofs.GreedyP2 Proofs.GreedyP3 Proofs.GreedyP6.
Open Scope Z_scope.

(* For every policy of the family, every ledger, every cluster with distinct pool ids and every list of
   distinct offered tasks: exactly one decision per offered task (in priority order); each placement names
   an existing pool, a strategy of its task, and the time `now`; replaying the placements in order on the
   virtual cluster -- what the simulator does with them -- succeeds at every step and ends in the policy's
   own final virtual cluster.  `schedule` is a function of its arguments: the live cluster `c` is not
   changed by construction (the implementation is checked by comparing every getter before and after). *)
Theorem C10_greedy_contract : forall L P e pre now (c : cluster L) offered ds cf,
  NoDup (map (@t_id L) offered) -> NoDup (map fst c) ->
  schedule_full L P e pre now c offered = Ok (ds, cf) ->
  Contract L offered (virtual L P pre c) now ds /\
  replay L offered (virtual L P pre c) ds = Some cf /\
  map dec_task ds = map (@t_id L) (ordered L P now offered).
Proof. exact contract_generic. Qed.
Print Assumptions C10_greedy_contract.

(* planning happens on a copy: EDF / LSF restart from the empty cluster exactly when preemptive (deepcopy),
   FIFO never; translated from the source, equal to the documented mode used by the monitors *)
Theorem C10_greedy_copy_mode : forall pre,
  p_reset edf pre = doc_reset 0 pre /\ p_reset fifo pre = doc_reset 1 pre /\ p_reset lsf pre = doc_reset 2 pre.
Proof. intros [|]; repeat split. Qed.
Print Assumptions C10_greedy_copy_mode.

(* the decidable form used as a monitor on the implementation's decisions *)
Theorem C10_greedy_monitor : forall L offered v now ds,
  contract_check L offered v now ds = true <-> Contract L offered v now ds.
Proof. exact contract_check_iff. Qed.
Print Assumptions C10_greedy_monitor.

(* joint feasibility: on a lawful ledger every worker of the final virtual cluster satisfies the ledger
   invariant, and the final cluster is the initial one with resources only consumed *)
Theorem C10_greedy_feasible : forall L wle wok sok, ledger_laws L wle wok sok ->
  forall P e pre now (c : cluster L) offered ds cf,
  cok L wok c -> tasks_ok L sok offered -> schedule_full L P e pre now c offered = Ok (ds, cf) ->
  cok L wok cf /\ cle L wle (virtual L P pre c) cf.
Proof. intros L wle wok sok LL. exact (feasible_laws L wle wok sok LL). Qed.
Print Assumptions C10_greedy_feasible.
(* for the simple ledger the invariant is 0 <= available <= total for every resource entry, and each
   placement consumes exactly its strategy's request *)
Theorem C10_greedy_feasible_simple : forall P e pre now (c : cluster SL) offered ds cf,
  s_cok c -> s_tasks_ok offered -> schedule_full SL P e pre now c offered = Ok (ds, cf) ->
  Forall (fun p => Forall (fun w => Forall (fun en => 0 <= e_avail en <= e_total en) w) (snd p)) cf.
Proof. intros P e pre now c offered ds cf H1 H2 H3. exact (proj1 (feasible_laws SL s_wle s_wok s_sok SL_laws P e pre now c offered ds cf H1 H2 H3)). Qed.
Print Assumptions C10_greedy_feasible_simple.

(* capacity in arithmetic form (simple ledger): for every pool and resource name, what is free in the pool after
   planning = what was free on the planning copy (live occupancy, or the totals when preemptive) minus the summed
   requests of the placements returned for that pool; it is >= 0, so the placements returned for a pool never ask
   in total for more of a resource than the pool had free next to the tasks already running there *)
Theorem C10_greedy_capacity_simple : forall P e pre now (c : cluster SL) offered ds cf,
  NoDup (map (@t_id SL) offered) -> NoDup (map fst c) -> s_cok c -> s_tasks_ok offered ->
  schedule_full SL P e pre now c offered = Ok (ds, cf) ->
  forall pid n,
    cluster_avail cf pid n = cluster_avail (virtual SL P pre c) pid n - placed_demand offered ds pid n /\
    0 <= cluster_avail cf pid n /\
    placed_demand offered ds pid n <= cluster_avail (virtual SL P pre c) pid n.
Proof. exact capacity_simple. Qed.
Print Assumptions C10_greedy_capacity_simple.

(* the placement reported for a task is the first strategy that fits some pool and the first pool that
   accommodates it *)
Theorem C10_greedy_first_fit : forall L (c : cluster L) t ss k pid c',
  try_strats L c t ss 0%nat = Some (k, pid, c') ->
  exists s, nth_error ss k = Some s /\
    (forall j s', (j < k)%nat -> nth_error ss j = Some s' -> fits_somewhere L c s' = false) /\
    exists pre p post, c = pre ++ p :: post /\ fst p = pid /\ pool_can L p s = true /\
                       Forall (fun q => pool_can L q s = false) pre /\ c' = pre ++ pool_place L p t s :: post.
Proof.
  intros L c t ss k pid c' H. destruct (try_strats_spec L c t ss 0%nat k pid c' H) as [s [_ [Hn [T Hp]]]].
  rewrite Nat.sub_0_r in *. exists s. split; [exact Hn|]. split; [exact Hp|]. exact (try_pools_first L c t s pid c' T).
Qed.
Print Assumptions C10_greedy_first_fit.

(* Known finding F10: with preemption and two task graphs the frontier offers a running task once per
   graph; the policy then answers it twice ("at most one decision per task" fails for the duplicated input) *)
Theorem C10_greedy_dup_refuted : exists (offered : list (task SL)) c ds,
  schedule SL edf false true 0 c offered = Ok ds /\ ~ NoDup (map dec_task ds).
Proof.
  exists [stask 0 (mkTA 10 0 3 0) [mkSS 3 [(0, 1)]]; stask 0 (mkTA 10 0 3 0) [mkSS 3 [(0, 1)]]], [(0, [[mkE 0 0 1]])],
         [DPlace 0 0 0%nat 0; DUnplaced 0].
  split; [vm_compute; reflexivity|]. cbn. intros H. inversion H as [|? ? Hn _]. apply Hn. left. reflexivity.
Qed.
Print Assumptions C10_greedy_dup_refuted.
(* ... and when the duplicate offer finds room on the pool that already holds the task, WorkerPool.place_task refuses
   it (/repo 17757a8) and schedule() raises: not even "returns normally" holds on F10 inputs *)
Theorem C10_greedy_dup_raises : exists (offered : list (task SL)) c,
  schedule SL edf false true 0 c offered = Err 3.
Proof.
  exists [stask 0 (mkTA 10 0 3 0) [mkSS 3 [(0, 1)]]; stask 0 (mkTA 10 0 3 0) [mkSS 3 [(0, 1)]]], [(0, [[mkE 0 0 2]])].
  vm_compute. reflexivity.
Qed.
Print Assumptions C10_greedy_dup_raises.
(* on inputs where every task is offered once the guard never fires: a successful schedule is a successful run *)
Theorem C10_greedy_no_raise_without_dups : forall L P e pre now (c : cluster L) offered ds cf,
  NoDup (map (@t_id L) offered) ->
  run L P e now (virtual L P pre c) (ordered L P now offered) = Ok (ds, cf) ->
  schedule_full L P e pre now c offered = Ok (ds, cf).
Proof. exact schedule_full_nodup. Qed.
Print Assumptions C10_greedy_no_raise_without_dups.
