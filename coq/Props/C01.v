(* C01 — no worker is ever oversubscribed during a simulation.  Simulator half: for every log
   accepted by the abstract machine (every workload, cluster, policy, flags), at every reachable
   state, the requests of the tasks resident on a worker sum to at most its capacity for every
   resource, and a task is resident on at most one worker.  (The worker-ledger half — a successful
   placement charges exactly the request, batches once — is C04's development, Proofs/WorkerP*.v.) *)
From Coq Require Import ZArith Bool List.
Import ListNotations.
From Verif Require Import Model.Val Gen.Src_Task Gen.Src_Event Model.Sim Proofs.SimP Proofs.SimP2.
Open Scope Z_scope.

Theorem C01_never_oversubscribed : forall W l s,
  cap_nonneg W -> sim_exec W sim_init l = Some s ->
  (forall w r, used (s_res s) w r <= w_cap W w r) /\ NoDup (ids (s_res s)).
Proof. exact never_oversubscribed. Qed.
Print Assumptions C01_never_oversubscribed.

Theorem C01_resident_iff_running : forall W l s t x,
  cap_nonneg W -> sim_exec W sim_init l = Some s -> s_cur s = None -> s_tasks s t = Some x ->
  (In t (ids (s_res s)) <-> st x = TS_RUNNING).
Proof. exact resident_iff_running. Qed.
Print Assumptions C01_resident_iff_running.

Theorem C01_invariant_every_step : forall W s e s', Inv W s -> sim_step W s e = Some s' -> Inv W s'.
Proof. exact step_preserves_inv. Qed.
Print Assumptions C01_invariant_every_step.
