(* C05 — every simulation terminates (partial) and never ends early.
   Proved: (1) the rule that computes the next scheduler invocation never starts the scheduler at or
   after the loop timeout, never in the past, and at the current instant only under a positive
   frequency; two consecutive cycles strictly advance the clock; the END event is placed at the
   timeout or, one microsecond ahead, only when the queue, the frontier and the cluster are empty.
   (2) the clock of the simulator machine never decreases, and cannot advance while a task that has
   run out of remaining time is still on its worker.
   NOT proved (stated honestly): global termination / liveness of EDF-FIFO-LSF (needs a ranking
   argument across scheduler invocations over the event queue, which the machine does not model).
   REFUTED for zero-runtime strategies: C05_zero_runtime_blocks (the clock stops for ever: a task
   whose drawn runtime is 0 is never reported complete by Task.step, finding F8). *)
From Coq Require Import ZArith Bool List.
Import ListNotations.
From Verif Require Import Model.Val Gen.Src_Task Gen.Src_Event Model.Sim Model.NextSched Proofs.TaskP Proofs.SimP Proofs.SimP2
  Proofs.NextSchedP Proofs.SimP3.
Open Scope Z_scope.

Theorem C05_scheduler_start_in_window : forall i t, next_sched i = NsStart t ->
  ns_now i <= t /\ t < ns_timeout i /\
  (t = ns_now i -> 0 < ns_freq i /\ t = ns_last i + ns_freq i /\ negb (ns_worker_free i && (0 <? ns_n_running i)) = true).
Proof. exact next_sched_start. Qed.
Print Assumptions C05_scheduler_start_in_window.

Theorem C05_no_early_end : forall i t, next_sched i = NsEnd t ->
  t = ns_timeout i \/ (t = ns_now i + 1 /\ ns_queue_empty i = true /\ ns_n_sched i = 0 /\ ns_n_running i = 0).
Proof. exact next_sched_end. Qed.
Print Assumptions C05_no_early_end.

Theorem C05_end_not_in_past : forall i t, ns_now i <= ns_timeout i -> next_sched i = NsEnd t -> ns_now i <= t.
Proof. exact next_sched_end_not_past. Qed.
Print Assumptions C05_end_not_in_past.

Theorem C05_two_cycles_advance : forall i j t u,
  next_sched i = NsStart t -> ns_now j = t -> ns_last j = t -> ns_freq j = ns_freq i ->
  next_sched j = NsStart u -> ns_now i < u.
Proof. exact two_cycles_advance. Qed.
Print Assumptions C05_two_cycles_advance.

Theorem C05_clock_monotone : forall W s e s', sim_step W s e = Some s' -> s_clock s <= s_clock s'.
Proof. exact clock_never_goes_back. Qed.
Print Assumptions C05_clock_monotone.

(* the refutation of "simulated time keeps advancing" *)
Theorem C05_zero_runtime_blocks : forall W s t x d next s',
  Inv W s -> In t (ids (s_res s)) -> s_tasks s t = Some x -> t_remaining_time (t_dyn x) = 0 ->
  sim_step W s (EStep d next) = Some s' ->
  d = 0 /\ s_clock s' = s_clock s /\ task_step (t_dyn x) (s_clock s) d = Ok (t_dyn x, false).
Proof. exact zero_remaining_blocks_clock. Qed.
Print Assumptions C05_zero_runtime_blocks.

Theorem C05_zero_runtime_refuted :
  exists W l s t x, sim_exec W sim_init l = Some s /\ s_cur s = None /\ In t (ids (s_res s)) /\ s_tasks s t = Some x /\
                    st x = TS_RUNNING /\ t_drawn x = 0 /\ t_remaining_time (t_dyn x) = 0.
Proof. exact zero_runtime_reachable. Qed.
Print Assumptions C05_zero_runtime_refuted.
