(* C08 — the end-of-run counters tell the truth (counter half; row contents and the CSV reader are
   decided on the implementation by the monitors of harness/props/c08.py).
   For every accepted log of the simulator machine: the finished-tasks counter equals the number of
   Task.finish calls of the log, a task finishes at most once, and it has finished exactly when it
   is COMPLETED or EVICTED; the cancelled-tasks counter equals the number of TASK_CANCEL events handled. *)
From Coq Require Import ZArith Bool List.
Import ListNotations.
From Verif Require Import Model.Val Gen.Src_Task Gen.Src_Event Model.Sim Proofs.SimP Proofs.SimP2 Proofs.SimP4.
Open Scope Z_scope.

Theorem C08_finished_counter : forall W l s, sim_exec W sim_init l = Some s -> s_fin s = total_finishes l.
Proof. exact fin_counter_counts. Qed.
Print Assumptions C08_finished_counter.

Theorem C08_cancelled_counter : forall W l s, sim_exec W sim_init l = Some s -> s_canc s = total_cancel_events l.
Proof. exact canc_counter_counts. Qed.
Print Assumptions C08_cancelled_counter.

Theorem C08_finished_iff_done : forall W l s u x,
  cap_nonneg W -> sim_exec W sim_init l = Some s -> s_tasks s u = Some x ->
  (count_finishes l u = 1 <-> done_state (st x)) /\ (count_finishes l u = 0 \/ count_finishes l u = 1).
Proof. exact finished_iff_done. Qed.
Print Assumptions C08_finished_iff_done.
