(* C10, Clockwork part — the decision of one schedule() invocation: at most one decision per request, only for
   requests it was offered (now or earlier: the policy keeps queues between calls), placements name an existing
   pool/worker and a strategy of the request's profile, start >= now.  "Deciding changes neither the live cluster nor
   task states": the model's schedule() is a function of (own state, offered requests, cluster VIEW) returning only
   (own state, decisions), so there is nothing to state; on the implementation every getter is compared before/after.
   Only statements. *)
From Coq Require Import ZArith Bool List.
Import ListNotations.
From Verif Require Import Model.Val Gen.Src_Clockwork Model.Clockwork Proofs.ClockworkP Proofs.ClockworkP2 Proofs.ClockworkP3
  Proofs.ClockworkP4 Proofs.ClockworkP5 Proofs.ClockworkP6 Proofs.ClockworkP7 Proofs.ClockworkP8 Proofs.ClockworkP9.
Open Scope Z_scope.

Theorem C10_cw_one_decision : forall wd ls inv st st' d, world_wf wd -> Inv_st wd st -> cw_schedule wd ls inv st = Ok (st', d) ->
  NoDup (map t_id (i_offered inv)) -> id_functional (st_recs st ++ i_offered inv) ->
  NoDup (map t_id (d_cancel d ++ placed (d_batches d))).
Proof. exact schedule_one_decision. Qed.
Print Assumptions C10_cw_one_decision.
(* cancellations are for offered requests; placements for requests offered now or queued by an earlier invocation;
   if the environment offers every pending request again (the simulator does), only for requests offered now *)
Theorem C10_cw_only_offered : forall wd ls inv st st' d, world_wf wd -> Inv_st wd st -> cw_schedule wd ls inv st = Ok (st', d) ->
  (forall t, In t (d_cancel d) -> In t (i_offered inv)) /\
  (forall t, In t (placed (d_batches d)) -> In t (st_recs st) \/ In t (i_offered inv)) /\
  (incl (st_recs st) (i_offered inv) -> forall t, In t (placed (d_batches d)) -> In t (i_offered inv)).
Proof.
  intros wd ls inv st st' d Hw Hi H. destruct (cw_schedule_spec _ _ _ _ _ _ Hw Hi H) as [_ [S2 [_ [_ [_ [S6 _]]]]]].
  assert (A : forall t, In t (placed (d_batches d)) -> In t (st_recs st) \/ In t (i_offered inv))
    by (intros t Ht; destruct (S6 t Ht) as [[Hl|[Hr _]] _]; [left|right]; assumption).
  split; [intros t Ht; rewrite S2 in Ht; apply filter_In in Ht; apply Ht|]. split; [exact A|].
  intros Hincl t Ht. destruct (A t Ht) as [Hl|Hr]; [apply Hincl|]; assumption.
Qed.
Print Assumptions C10_cw_only_offered.
(* existing pool and worker, start = now, strategy of the request's profile, members of the batch's model *)
Theorem C10_cw_placements_named : forall wd ls inv st st' d, world_wf wd -> Inv_st wd st -> cw_schedule wd ls inv st = Ok (st', d) ->
  Forall (fun b => i_now inv <= b_now b /\ b_tasks b <> [] /\
                   (exists p w, In p (inv_pools inv) /\ In w (p_workers p) /\ b_pool b = p_id p /\ w_id (b_worker b) = w_id w) /\
                   (exists ss, zassoc (b_model b) wd = Some ss /\ In (b_strat b) ss) /\
                   Forall (fun t => t_model t = b_model b) (b_tasks b)) (d_batches d).
Proof.
  intros wd ls inv st st' d Hw Hi H. destruct (cw_schedule_spec _ _ _ _ _ _ Hw Hi H) as [_ [_ [S3 [S4 _]]]].
  rewrite Forall_forall in *. intros b Hb. destruct (S3 b Hb) as [_ [_ [B3 [_ [_ B6]]]]]. destruct (S4 b Hb) as [L1 [L2 [p [w [Q1 [Q2 [Q3 [Q4 _]]]]]]]].
  split; [rewrite L1; apply Z.le_refl|]. split; [assumption|]. split; [exists p, w; repeat split; assumption|]. split; [assumption|].
  eapply Forall_impl; [|exact B6]. cbn. intros t [E _]. assumption.
Qed.
Print Assumptions C10_cw_placements_named.
(* "returns normally": schedule() returns a decision (no exception, no divergence) when every batch size is >= 1 and the
   environment is in order (inv_ok): every offered request has a known profile with at least one strategy, a request id
   names one request, the quantities of strategies and workers are not negative, and no pending or offered request is
   already placed on a worker (Worker.place_task refuses that since /repo 17757a8).  No hypothesis on how the requests of
   a strategy compete for units is needed since /repo 402c33a: what Resources.__gt__ accepts, allocate_multiple serves. *)
Theorem C10_cw_returns : forall wd ls inv st, world_wf wd -> bs_pos wd -> world_nonneg wd -> Inv_st wd st -> inv_ok wd inv st ->
  exists st' d, cw_schedule wd ls inv st = Ok (st', d).
Proof. exact cw_schedule_returns. Qed.
Print Assumptions C10_cw_returns.
Theorem C10_cw_returns_run : forall wd ls started invs, world_wf wd -> bs_pos wd -> world_nonneg wd -> NoDup started ->
  run_ok wd ls invs (cw_start wd started) ->
  Forall (fun r => exists d, r = Ok d) (cw_run wd ls invs (cw_start wd started)) /\
  length (cw_run wd ls invs (cw_start wd started)) = length invs.
Proof. intros wd ls started invs Hw Hp Hr Hd Ho. apply run_returns; try assumption. apply cw_start_inv; assumption. Qed.
Print Assumptions C10_cw_returns_run.
(* the fit test and the allocation agree: a batch whose strategy fits, none of whose members is on the worker, is placed *)
Theorem C10_cw_fit_then_place : forall w s ts, fits w s = true -> 1 <= s_bs s -> res_nonneg (w_res w) -> res_nonneg (s_res s) ->
  (forall i, In i ts -> ~ In i (w_placed w)) -> NoDup ts ->
  exists w1, w_place w s ts = Ok w1 /\ res_nonneg (w_res w1) /\ w_placed w1 = w_placed w ++ ts.
Proof. exact w_place_ok. Qed.
Print Assumptions C10_cw_fit_then_place.
(* termination alone needs no hypothesis on resources *)
Theorem C10_cw_terminates : forall wd ls inv st, world_wf wd -> bs_pos wd -> Inv_st wd st -> cw_schedule wd ls inv st <> Err 99.
Proof. exact cw_schedule_terminates. Qed.
Print Assumptions C10_cw_terminates.
(* regression case (former finding F-cw1): requests competing for one unit are refused by the fit test; schedule() returns *)
Theorem C10_cw_competing_requests_return :
  exists st', cw_schedule rf_wd false rf_inv (cw_start rf_wd [1]) = Ok (st', mkD [] [] []) /\
              obs_state st' = L [L [I 1; L [L [I 1; L [I 1]]]; L [L [I 1; I 1]]]].
Proof. exact competing_requests_return. Qed.
Print Assumptions C10_cw_competing_requests_return.
(* the monitor applied to the implementation's decisions, clause by clause *)
Theorem C10_cw_monitor : forall wd o, mon_invocation wd o = true <->
  oi_cancelled o = map t_id (filter (hopeless wd (oi_now o)) (oi_offered o)) /\
  mon_batches wd (oi_now o) (oi_pools o) (oi_batches o) = true /\
  NoDup (oi_cancelled o ++ oi_placed o) /\
  (forall i, In i (oi_cancelled o ++ oi_placed o) -> In i (map t_id (oi_offered o))) /\
  (forall b t, In b (oi_batches o) -> In t (ob_tasks b) -> hopeless wd (oi_now o) t = false) /\
  (forall b t0, In b (oi_batches o) -> hd_error (ob_tasks b) = Some t0 ->
     evicted_at_end (oi_load o) (t_model t0) (ob_pool b) (ob_worker b) false = false).
Proof. exact mon_invocation_iff. Qed.
Print Assumptions C10_cw_monitor.
Theorem C10_cw_example : world_wf ex_wd /\ bs_pos ex_wd /\ world_nonneg ex_wd /\
  Forall (fun r => exists d, r = Ok d) (cw_run ex_wd false ex_invs (cw_start ex_wd [1])) /\
  map t_id (run_placed (cw_run ex_wd false ex_invs (cw_start ex_wd [1]))) = [1; 2; 6; 4].
Proof. exact (conj ex_world_wf (conj ex_bs_pos (conj ex_nonneg (conj ex_returns ex_placed)))). Qed.
Print Assumptions C10_cw_example.
