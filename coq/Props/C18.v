(* C18 — the scheduling frontier.  Only statements; proofs are in Proofs/TaskGraphP*.v *)
From Coq Require Import ZArith Bool List.
Import ListNotations.
From Verif Require Import Model.Val Gen.Src_Task Gen.Src_TaskGraph Model.TaskGraph Proofs.TaskGraphP.
Open Scope Z_scope.

Theorem C18_ready_to_run : forall terminal sts s,
  is_ready_to_run terminal sts s = true <->
  (if terminal then exists b, In b sts /\ b = true else forall b, In b sts -> b = true) /\
  (s = TS_SCHEDULED \/ s = TS_PREEMPTED).
Proof. exact ready_spec. Qed.
Print Assumptions C18_ready_to_run.
