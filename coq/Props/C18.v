(* C18 — the scheduling frontier offers exactly the work that may be decided now.
   Only statements; proofs are in Proofs/TaskGraphP*.v.  Model: Model/TaskGraph.v tg_schedulable
   (TaskGraph.get_schedulable_tasks), notify_completion, tg_releasable. *)
From Coq Require Import ZArith Bool List.
Import ListNotations.
From Verif Require Import Model.Val Gen.Src_Task Gen.Src_TaskGraph Model.TaskGraph
  Proofs.TaskGraphP Proofs.TaskGraphP1 Proofs.TaskGraphP2 Proofs.TaskGraphP3 Proofs.TaskGraphP5
  Proofs.TaskGraphP4 Proofs.TaskGraphP6 Proofs.TaskGraphP7 Proofs.TaskGraphP8 Proofs.TaskGraphP9 Proofs.TaskGraphP10.
Open Scope Z_scope.

(* no starvation: a RELEASED task whose release time has arrived (within the lookahead) is offered *)
Theorem C18_no_starve : forall g o draws fr d' x, tg_schedulable g o draws = Ok (fr, d') ->
  In x (tg_nodes g) -> tg_state g x = TS_RELEASED ->
  t_release_time (tt_dyn (tg_task g x)) <= so_time o + so_lookahead o -> In x fr.
Proof. exact frontier_no_starve. Qed.
Print Assumptions C18_no_starve.

(* every member of the frontier, classified by state (so_placed: the tasks the worker pools report) *)
Theorem C18_members : forall g o draws fr d' x, tg_schedulable g o draws = Ok (fr, d') -> In x fr ->
  (In x (tg_nodes g) /\
   ((tg_state g x = TS_RELEASED /\ t_release_time (tt_dyn (tg_task g x)) <= so_time o + so_lookahead o) \/
    tg_state g x = TS_PREEMPTED \/ tg_state g x = TS_EVICTED \/ tg_state g x = TS_VIRTUAL \/
    (tg_state g x = TS_SCHEDULED /\ so_retract o = true))) \/
  (so_preemption o = true /\
   match so_placed o with Some l => In x l
   | None => In x (tg_nodes g) /\ (tg_state g x = TS_SCHEDULED \/ tg_state g x = TS_RUNNING) end).
Proof. exact frontier_members. Qed.
Print Assumptions C18_members.
Theorem C18_never_final : forall g o draws fr d' x, tg_schedulable g o draws = Ok (fr, d') ->
  so_placed o = None -> In x fr -> tg_state g x <> TS_COMPLETED /\ tg_state g x <> TS_CANCELLED.
Proof. exact frontier_never_final. Qed.
Print Assumptions C18_never_final.
Theorem C18_scheduled_only_if : forall g o draws fr d' x, tg_schedulable g o draws = Ok (fr, d') ->
  so_placed o = None -> In x fr -> tg_state g x = TS_SCHEDULED -> so_retract o = true \/ so_preemption o = true.
Proof. exact frontier_scheduled_only_if. Qed.
Print Assumptions C18_scheduled_only_if.
Theorem C18_running_only_if : forall g o draws fr d' x, tg_schedulable g o draws = Ok (fr, d') ->
  so_placed o = None -> In x fr -> tg_state g x = TS_RUNNING -> so_preemption o = true.
Proof. exact frontier_running_only_if. Qed.
Print Assumptions C18_running_only_if.
(* PREEMPTED and EVICTED tasks are always offered (the code says so; an EVICTED task counts as
   is_complete() elsewhere) *)
Theorem C18_preempted_evicted_offered : forall g o draws fr d' x, tg_schedulable g o draws = Ok (fr, d') ->
  In x (tg_nodes g) -> tg_state g x = TS_PREEMPTED \/ tg_state g x = TS_EVICTED -> In x fr.
Proof. exact frontier_preempted_evicted. Qed.
Print Assumptions C18_preempted_evicted_offered.

(* monotonicity: a larger lookahead and/or release_taskgraphs only ADD tasks (same draws, which are
   consumed identically) *)
Theorem C18_mono : forall g o o' draws fr d' fr' d'', opts_le o o' ->
  tg_schedulable g o draws = Ok (fr, d') -> tg_schedulable g o' draws = Ok (fr', d'') ->
  incl fr fr' /\ d'' = d'.
Proof. exact frontier_mono. Qed.
Print Assumptions C18_mono.

(* on completion of a non-conditional task exactly the children that are not cancelled and whose every
   parent is complete (for a join: at once, after this first completed parent) are released *)
Theorem C18_children : forall g t fin draw g' rel canc,
  notify_completion g t fin draw = (g', Ok (rel, canc)) -> tg_conditional g t = false ->
  g' = g /\ canc = [] /\ tg_complete g t = true /\
  (forall c, In c rel <-> In c (tg_children g t) /\ tg_state g c <> TS_CANCELLED /\
                          (tg_terminal g c = true \/ forall p, In p (tg_parents g c) -> tg_complete g p = true)) /\
  (forall c, In c (tg_children g t) -> notify_moved_beyond (tg_state g c) = false).
Proof. exact notify_children. Qed.
Print Assumptions C18_children.
(* conditional task: the one drawn child *)
Theorem C18_children_conditional : forall g t fin draw g' rel canc,
  notify_completion g t fin draw = (g', Ok (rel, canc)) -> tg_conditional g t = true ->
  all_children_zero g t = false ->
  exists k, nth_z (tg_children g t) draw = Some k /\ rel = [k] /\ In k (tg_children g t) /\
            ((forall c, nth_z (tg_children g t) draw = Some c -> 0 < tg_prob g c) -> 0 < tg_prob g k).
Proof. exact notify_one. Qed.
Print Assumptions C18_children_conditional.

Theorem C18_ready_to_run : forall (A : Type) (complete_of : A -> bool) (state_of : A -> task_state) terminal (ps : list A) s,
  is_ready_to_run complete_of state_of terminal ps s = true <->
  (if terminal
   then (exists p, In p ps /\ complete_of p = true) /\
        (forall p, In p ps -> complete_of p = true \/ state_of p = TS_CANCELLED)
   else forall p, In p ps -> complete_of p = true) /\
  (s = TS_SCHEDULED \/ s = TS_PREEMPTED).
Proof. exact ready_spec. Qed.
Print Assumptions C18_ready_to_run.

(* a policy that does not plan ahead (lookahead 0, no retraction, no release_taskgraphs) is never offered a
   VIRTUAL task with an unfinished parent -- in the states described by frontier_sane (Model/TaskGraph.v):
   every runtime positive, RUNNING / PREEMPTED tasks have time left, SCHEDULED tasks complete in the future,
   no conditional task, and every VIRTUAL task with an unfinished parent hangs (hereditarily) below a task
   that is RELEASED / SCHEDULED / RUNNING / PREEMPTED.
   KNOWN CAVEAT (finding F36 of the whole-simulation check): the hypothesis `a SCHEDULED task completes in the
   future` (frontier_sane: time < expected_start + remaining for every SCHEDULED task) is NOT guaranteed by
   the simulator: while a placement is retried (WORKER_NOT_READY) the task stays SCHEDULED with a placement
   time in the past, its estimate expected_start + remaining lies in the past, and its VIRTUAL child IS
   offered to FIFO / EDF / LSF although the parent has not even started.  That is exactly the refutation
   C18_no_plan_ahead_overdue_refuted below (witness corpus/C18 `overdue_scheduled_parent`, replayed on the
   real code by S-taskgraph on every run). *)
Theorem C18_no_plan_ahead : forall g o draws fr d' x, tg_schedulable g o draws = Ok (fr, d') ->
  so_lookahead o = 0 -> so_retract o = false -> so_release_tg o = false -> so_placed o = None ->
  frontier_sane g (so_time o) = true ->
  In x fr -> tg_state g x = TS_VIRTUAL -> forall p, In p (tg_parents g x) -> tg_complete g p = true.
Proof. exact frontier_no_plan_ahead. Qed.
Print Assumptions C18_no_plan_ahead.

(* the side conditions are needed: the unrestricted statement is false of the code *)
Definition unrestricted_no_plan_ahead : Prop :=
  forall g o draws fr d' x, tg_schedulable g o draws = Ok (fr, d') ->
  so_lookahead o = 0 -> so_retract o = false -> so_release_tg o = false -> so_placed o = None ->
  In x fr -> tg_state g x = TS_VIRTUAL -> forall p, In p (tg_parents g x) -> tg_complete g p = true.
(* (1) a RELEASED parent with runtime 0 (the task of finding F8): its child is offered at once *)
Definition c18_zero : tgraph :=
  mkTG [(1, [2]); (2, [])]
       [(1, mk_ttask TS_RELEASED 0 100 0 (-1) 16 false false (-1) [0]);
        (2, mk_ttask TS_VIRTUAL (-1) 100 0 (-1) 16 false false (-1) [3])] 16.
Theorem C18_no_plan_ahead_zero_runtime_refuted : ~ unrestricted_no_plan_ahead.
Proof.
  intro H. specialize (H c18_zero (mkSO 5 0 false false None ALL false) [] [1; 2] [] 2).
  assert (A : tg_complete c18_zero 1 = true); [|vm_compute in A; discriminate].
  apply H; try reflexivity; vm_compute; auto.
Qed.
Print Assumptions C18_no_plan_ahead_zero_runtime_refuted.
(* (2) a SCHEDULED parent whose planned completion is already in the past *)
Definition c18_overdue : tgraph :=
  mkTG [(1, [2]); (2, [])]
       [(1, mk_ttask TS_SCHEDULED 0 100 2 (-1) 16 false false 1 [2]);
        (2, mk_ttask TS_VIRTUAL (-1) 100 0 (-1) 16 false false (-1) [3])] 16.
Theorem C18_no_plan_ahead_overdue_refuted : ~ unrestricted_no_plan_ahead.
Proof.
  intro H. specialize (H c18_overdue (mkSO 5 0 false false None ALL false) [] [2] [] 2).
  assert (A : tg_complete c18_overdue 1 = true); [|vm_compute in A; discriminate].
  apply H; try reflexivity; vm_compute; auto.
Qed.
Print Assumptions C18_no_plan_ahead_overdue_refuted.
(* (3) a second parent that is still VIRTUAL and has no estimate (an unreleased source): only the
   completed parent is looked at *)
Definition c18_sibling : tgraph :=
  mkTG [(1, [3]); (2, [3]); (3, [])]
       [(1, mk_ttask TS_COMPLETED 0 100 0 2 16 false false (-1) [2]);
        (2, mk_ttask TS_VIRTUAL 50 100 0 (-1) 16 false false (-1) [2]);
        (3, mk_ttask TS_VIRTUAL (-1) 100 0 (-1) 16 false false (-1) [3])] 16.
Theorem C18_no_plan_ahead_unreleased_parent_refuted : ~ unrestricted_no_plan_ahead.
Proof.
  intro H. specialize (H c18_sibling (mkSO 5 0 false false None ALL false) [] [3] [] 3).
  assert (A : tg_complete c18_sibling 2 = true); [|vm_compute in A; discriminate].
  apply H; try reflexivity; vm_compute; auto.
Qed.
Print Assumptions C18_no_plan_ahead_unreleased_parent_refuted.
(* the side conditions are satisfiable with a VIRTUAL task that IS offered (all its parents complete) *)
Definition c18_sane : tgraph :=
  mkTG [(1, [2; 3]); (2, [4]); (3, [4]); (4, [])]
       [(1, mk_ttask TS_COMPLETED 0 100 0 2 16 false false (-1) [2]);
        (2, mk_ttask TS_VIRTUAL (-1) 100 0 (-1) 16 false false (-1) [2]);
        (3, mk_ttask TS_RUNNING (-1) 100 3 (-1) 16 false false (-1) [4]);
        (4, mk_ttask TS_VIRTUAL (-1) 100 0 (-1) 16 false false (-1) [3])] 16.
Example C18_no_plan_ahead_example :
  frontier_sane c18_sane 5 = true /\
  tg_schedulable c18_sane (mkSO 5 0 false false None ALL false) [] = Ok ([2], []).
Proof. split; vm_compute; reflexivity. Qed.

(* ---- the monitors applied to the implementation's results decide these statements, and accept what the
   model produces (so they raise no alarm as long as the code agrees with the model) ---- *)
Theorem C18_monitor_frontier : forall g o fr, c18_frontier_check (g, o, fr) = true <-> frontier_obs g o fr.
Proof. exact c18_frontier_check_iff. Qed.
Print Assumptions C18_monitor_frontier.
Theorem C18_monitor_frontier_accepts_model : forall g o draws fr d',
  tg_schedulable g o draws = Ok (fr, d') -> so_placed o = None -> c18_frontier_check (g, o, fr) = true.
Proof. exact c18_frontier_check_accepts_model. Qed.
Print Assumptions C18_monitor_frontier_accepts_model.
Theorem C18_monitor_mono : forall a b, c18_mono_check (a, b) = true <-> incl a b.
Proof. exact c18_mono_check_iff. Qed.
Print Assumptions C18_monitor_mono.
Theorem C18_monitor_no_plan_ahead : forall g o fr,
  c18_no_plan_ahead_check (g, o, fr) = true <-> no_plan_ahead_obs g o fr.
Proof. exact c18_no_plan_ahead_check_iff. Qed.
Print Assumptions C18_monitor_no_plan_ahead.
Theorem C18_monitor_no_plan_ahead_accepts_model : forall g o draws fr d',
  tg_schedulable g o draws = Ok (fr, d') -> so_placed o = None -> c18_no_plan_ahead_check (g, o, fr) = true.
Proof. exact c18_no_plan_ahead_check_accepts_model. Qed.
Print Assumptions C18_monitor_no_plan_ahead_accepts_model.
Theorem C18_monitor_children : forall g t rel, c18_children_check (g, t, rel) = true <-> children_obs g t rel.
Proof. exact c18_children_check_iff. Qed.
Print Assumptions C18_monitor_children.
Theorem C18_monitor_children_accepts_model : forall g t fin draw g' rel canc,
  notify_completion g t fin draw = (g', Ok (rel, canc)) -> tg_conditional g t = false ->
  c18_children_check (g, t, rel) = true.
Proof. exact c18_children_check_accepts_model. Qed.
Print Assumptions C18_monitor_children_accepts_model.

(* a VIRTUAL task whose parents are all COMPLETED (completion times and its own release time within the
   horizon) IS offered.  This covers the task that was scheduled ahead of its release, released while
   SCHEDULED (Task.release leaves _pre_scheduling_state VIRTUAL) and then unscheduled: Task.unschedule
   returns it to VIRTUAL, but the frontier still offers it (and get_releasable_tasks returns it again) *)
Theorem C18_offered_after_fallback : forall g o draws fr d' x,
  tg_schedulable g o draws = Ok (fr, d') -> so_retract o = false ->
  (forall n, In n (tg_nodes g) -> tg_conditional g n = false) ->
  In x (tg_nodes g) -> tg_state g x = TS_VIRTUAL -> tg_parents g x <> [] ->
  (forall p, In p (tg_parents g x) -> tg_state g p = TS_COMPLETED /\
             t_completion_time (tt_dyn (tg_task g p)) <= so_time o + so_lookahead o) ->
  t_release_time (tt_dyn (tg_task g x)) <= so_time o + so_lookahead o -> In x fr.
Proof. exact frontier_offers_virtual_below_completed. Qed.
Print Assumptions C18_offered_after_fallback.
Definition c18_fallback : tgraph :=
  mkTG [(1, [2]); (2, [])]
       [(1, mk_ttask TS_COMPLETED 0 100 0 5 16 false false (-1) [5]);
        (2, mk_ttask TS_VIRTUAL 5 100 5 (-1) 16 false false 6 [5])] 16.
Example C18_offered_after_fallback_example :
  tg_schedulable c18_fallback (mkSO 6 0 false false None ALL false) [] = Ok ([2], []) /\ tg_releasable c18_fallback = [2].
Proof. split; vm_compute; reflexivity. Qed.

(* ---- bridges: the hand-written documented forms (used by the monitors) are what the TRANSLATED source
   computes; an edit of the source (any/all, a state tuple) breaks these ---- *)
Theorem C18_bridge_ready : forall g t,
  is_ready_to_run (tg_complete g) (tg_state g) (tg_terminal g t) (tg_parents g t) (tg_state g t) = doc_ready g t.
Proof. exact doc_ready_bridge. Qed.
Print Assumptions C18_bridge_ready.
Theorem C18_bridge_releasable : forall g, tg_releasable g = doc_releasable g.
Proof. exact doc_releasable_bridge. Qed.
Print Assumptions C18_bridge_releasable.
Theorem C18_monitor_releasable_accepts_model : forall g, tg_ok g = true -> c18_releasable_check (g, tg_releasable g) = true.
Proof. exact c18_releasable_check_accepts_model. Qed.
Print Assumptions C18_monitor_releasable_accepts_model.
Theorem C18_monitor_children_err_accepts_model : forall g t fin draw g',
  notify_completion g t fin draw = (g', Err 3) -> tg_conditional g t = false -> c18_children_err_check (g, t) = true.
Proof. exact c18_children_err_check_accepts_model. Qed.
Print Assumptions C18_monitor_children_err_accepts_model.

(* ---- non-vacuity: A (RELEASED, release 3) -> B (VIRTUAL), time 5: A is offered, B is not ---- *)
Definition c18_g : tgraph :=
  mkTG [(1, [2]); (2, [])]
       [(1, mk_ttask TS_RELEASED 3 100 0 (-1) 16 false false (-1) [4]);
        (2, mk_ttask TS_VIRTUAL (-1) 100 0 (-1) 16 false false (-1) [2])] 16.
Example C18_example :
  tg_schedulable c18_g (mkSO 5 0 false false None ALL false) [] = Ok ([1], []) /\
  tg_schedulable c18_g (mkSO 5 4 false false None ALL false) [] = Ok ([1; 2], []).
Proof. split; vm_compute; reflexivity. Qed.
