(* C12 (Z3 part) — deadline enforcement in the Z3 planner.  The deadline comparison is handed to
   add_soft in BOTH modes (z3_scheduler.py:125-141), so it never restricts the feasible set; what
   enforce_deadlines buys is a property of the OPTIMUM: an assignment that minimises the weight of the
   violated soft rows (z3.Optimize treats objectives in declaration order, the soft group first) gives
   every task that has a compatible worker and can meet its deadline at all a start that meets it — a
   placed task misses its deadline only if it is hopeless (deadline < max(now, release) + remaining).
   Hopeless tasks are still placed (finding FZ3-E).  Only statements; proofs in Proofs/Z3P8.v, Z3P9.v. *)
From Coq Require Import ZArith Bool List.
Import ListNotations.
From Verif Require Import Model.Val Gen.Src_Z3 Model.Z3Model Proofs.Z3P Proofs.Z3P2 Proofs.Z3P8 Proofs.Z3P9.
Open Scope Z_scope.

Theorem C12_z3_enforce_not_in_feasible_set : forall now e e' ts ws dep gdl,
  gen_z3 (mkInst now e ts ws dep gdl) = gen_z3 (mkInst now e' ts ws dep gdl).
Proof. exact gen_z3_ignores_enforce. Qed.
Print Assumptions C12_z3_enforce_not_in_feasible_set.

(* from any satisfying assignment: un-place everything, move one start to any time its timing row allows *)
Theorem C12_z3_unplaced_feasible : forall ins a tid snew fs, gen_z3 ins = Ok fs -> sat fs a = true ->
  NoDup (map zt_id (i_tasks ins)) -> forall t0, In t0 (i_tasks ins) -> zt_id t0 = tid ->
  snew >= i_now ins /\ snew >= zt_release t0 -> sat fs (a5 ins a tid snew) = true.
Proof. exact unplaced_sat. Qed.
Print Assumptions C12_z3_unplaced_feasible.

Theorem C12_z3_optimum : forall ins fs a, gen_z3 ins = Ok fs -> i_enforce ins = true -> NoDup (map zt_id (i_tasks ins)) ->
  soft_optimal ins fs a ->
  forall t, In t (i_tasks ins) -> any_compatible ins t = true -> hopeless ins t = false -> meets_deadline a t = true.
Proof. exact c12_z3_optimum. Qed.
Print Assumptions C12_z3_optimum.

Theorem C12_z3_placed_meets_or_hopeless : forall ins fs a, gen_z3 ins = Ok fs -> i_enforce ins = true ->
  NoDup (map zt_id (i_tasks ins)) -> soft_optimal ins fs a -> c12_ok ins a = true.
Proof. exact c12_z3_placed_meets_or_hopeless. Qed.
Print Assumptions C12_z3_placed_meets_or_hopeless.

(* FINDING FZ3-E: "enforce_deadlines -> a placed task completes by its deadline" is false, even for the
   soft-optimal point z3 returns: a hopeless task is placed *)
Theorem C12_z3_placed_meets_deadline_refuted : exists fs t,
  gen_z3 ex_hopeless = Ok fs /\ i_enforce ex_hopeless = true /\ sat fs ex_hopeless_asg = true /\ In t (i_tasks ex_hopeless) /\
  truth ex_hopeless_asg (VPlaced (zt_id t)) = true /\ meets_deadline ex_hopeless_asg t = false /\
  c12_strict_ok ex_hopeless ex_hopeless_asg = false /\
  (forall a', sat fs a' = true -> soft_penalty ex_hopeless ex_hopeless_asg <= soft_penalty ex_hopeless a').
Proof. exact c12_z3_placed_meets_deadline_refuted. Qed.
Print Assumptions C12_z3_placed_meets_deadline_refuted.
