(* C14 (TetriSched part) — an optimal assignment of the space-time MIP reads back as a plan to which no further
   rewarded task can be added at any (slot, worker, strategy) keeping feasibility; a running task charged its full
   runtime, a join with a completed parent, and unrewarded non-sink tasks refute the unrestricted statement.
   Only statements; proofs in Proofs/TetriPComplete.v, Proofs/TetriPRefute.v. *)
From Coq Require Import ZArith Bool List.
Import ListNotations.
From Verif Require Import Model.Val Model.PlanSpec Model.TetriModel Gen.Src_Tetri
  Proofs.TetriP Proofs.TetriPSum Proofs.TetriPSound Proofs.TetriPCor Proofs.TetriPComplete Proofs.TetriPRefute.
Open Scope Z_scope.

(* completeness of the formulation: every plan that is feasible under its convention (half-open occupation on the
   slot grid, child >= parent start + slowest runtime + 1, deadlines when enforced) and keeps the tasks that must stay
   placed is the read-back of a satisfying assignment *)
Theorem C14_tetri_complete : forall I rank p, cpl_hyp I rank p ->
  sat (gen_tetri I) (assign_of_plan I rank p) = true /\
  forall x, In x (ti_tasks I) ->
    match find_pl p (tt_id x) with
    | Some pl => readback_task I (assign_of_plan I rank p) x = Some pl
    | None => readback_task I (assign_of_plan I rank p) x = None
    end.
Proof. intros I rank p H. split; [exact (plan_sat I rank p H)|exact (plan_readback I rank p H)]. Qed.
Print Assumptions C14_tetri_complete.

(* every cell's reward is at least one unit (the objective is scaled by reward_den) *)
Theorem C14_tetri_reward_ge_1 : forall I t, 0 < ti_disc I -> In t (slots I) -> reward_den I <= reward_num I t.
Proof. exact reward_num_ge_den. Qed.
Print Assumptions C14_tetri_reward_ge_1.

(* maximality: with no running task, all parents of every task co-decided, an acyclic parent relation and positive
   runtimes, an OPTIMAL assignment leaves no rewarded task that could be added at any slot/worker/strategy *)
Theorem C14_tetri_maximal : forall I rank a x pl, max_hyp I rank -> optimal I a ->
  In x (ti_tasks I) -> rewarded_fb I x = true -> readback_task I a x = None -> pl_task pl = tt_id x ->
  ~ feasible (conv_tetri I) (to_pinst I) (pl :: plan_of (readback I a)).
Proof. exact tetri_maximal. Qed.
Print Assumptions C14_tetri_maximal.

(* the solvers' 10% relative-gap stopping rule cannot hide one task while the objective is below 10 units *)
Theorem C14_tetri_gap_maximal : forall I rank a x pl, max_hyp I rank -> sat (gen_tetri I) a = true ->
  (forall a', sat (gen_tetri I) a' = true -> 10 * objective (gen_tetri I) a' <= 11 * objective (gen_tetri I) a) ->
  objective (gen_tetri I) a < 10 * reward_den I ->
  In x (ti_tasks I) -> rewarded_fb I x = true -> readback_task I a x = None -> pl_task pl = tt_id x ->
  ~ feasible (conv_tetri I) (to_pinst I) (pl :: plan_of (readback I a)).
Proof. exact tetri_gap_maximal. Qed.
Print Assumptions C14_tetri_gap_maximal.

(* non-vacuity: two independent tasks on a 2-CPU worker, both placed at the first slot: optimal, hypotheses hold *)
Theorem C14_tetri_example : exists I rank a, max_hyp I rank /\ optimal I a /\ max_hypb I = true /\
  plan_of (readback I a) = [mkPl 0 1 0%nat 0; mkPl 1 1 0%nat 0] /\ maximal_okb I (plan_of (readback I a)) = true.
Proof. exact maximal_example. Qed.
Print Assumptions C14_tetri_example.

(* F11-iii: a RUNNING task is charged its whole runtime from `now`, so a task that fits after the running task's
   real end is left out by EVERY satisfying assignment *)
Theorem C14_tetri_running_refuted : exists I a x pl,
  wf_inst I /\ optimal I a /\ In x (free_tasks I) /\ rewarded_fb I x = true /\ readback_task I a x = None /\
  pl_task pl = tt_id x /\ feasible (conv_sim_grid I) (to_pinst I) (pl :: plan_of (readback I a)).
Proof. exact running_refuted. Qed.
Print Assumptions C14_tetri_running_refuted.

(* F14-nonsink: in whole-graph mode only sink tasks carry reward; the all-unplaced assignment Gurobi returns is
   OPTIMAL although the non-sink task can be added under the formulation's own convention *)
Theorem C14_tetri_nonsink_refuted : exists I a x pl,
  wf_inst I /\ optimal I a /\ In x (free_tasks I) /\ rewarded_fb I x = false /\ readback_task I a x = None /\
  pl_task pl = tt_id x /\ feasible (conv_tetri I) (to_pinst I) (pl :: plan_of (readback I a)).
Proof. exact nonsink_refuted. Qed.
Print Assumptions C14_tetri_nonsink_refuted.
