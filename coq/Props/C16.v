(* C16 — simulated time is an exact, totally ordered integer quantity; pending events
   come out of the queue in key order.  Only statements; proofs are in Proofs/. *)
From Coq Require Import ZArith Bool List Sorting.Sorted.
Import ListNotations.
From Verif Require Import Model.Val Gen.Src_Time Gen.Src_Event Model.EventQ Proofs.TimeP Proofs.EventQP.
Open Scope Z_scope.

Theorem C16_add : forall a b, exists r, et_add a b = Ok r /\ us r = us a + us b /\ et_unit r = finer (et_unit a) (et_unit b).
Proof. exact et_add_spec. Qed.
Print Assumptions C16_add.
Theorem C16_sub : forall a b, exists r, et_sub a b = Ok r /\ us r = us a - us b /\ et_unit r = finer (et_unit a) (et_unit b).
Proof. exact et_sub_spec. Qed.
Print Assumptions C16_sub.
Theorem C16_eq : forall a b, et_eqb a b = Ok (us a =? us b).
Proof. exact et_eqb_spec. Qed.
Print Assumptions C16_eq.
Theorem C16_lt : forall a b, et_ltb a b = Ok (us a <? us b).
Proof. exact et_ltb_spec. Qed.
Print Assumptions C16_lt.
Theorem C16_hash : forall a, et_hash a = Ok (us a).
Proof. exact et_hash_spec. Qed.
Print Assumptions C16_hash.
Theorem C16_eq_hash : forall a b, et_eqb a b = Ok true -> et_hash a = et_hash b.
Proof. exact et_eq_hash. Qed.
Print Assumptions C16_eq_hash.
Theorem C16_convert_exact : forall x u, unit_value u <= unit_value (et_unit x) ->
  exists y, et_to x u = Ok y /\ et_unit y = u /\ us y = us x.
Proof. exact et_to_ok. Qed.
Print Assumptions C16_convert_exact.
Theorem C16_coarsening_refused : forall x u, (exists c, et_to x u = Err c) <-> unit_value (et_unit x) < unit_value u.
Proof. exact et_to_err_iff. Qed.
Print Assumptions C16_coarsening_refused.
Theorem C16_total_order : forall a b,
  (et_ltb a b = Ok true /\ et_eqb a b = Ok false /\ et_ltb b a = Ok false) \/
  (et_ltb a b = Ok false /\ et_eqb a b = Ok true /\ et_ltb b a = Ok false) \/
  (et_ltb a b = Ok false /\ et_eqb a b = Ok false /\ et_ltb b a = Ok true).
Proof. exact et_trichotomy. Qed.
Print Assumptions C16_total_order.
Theorem C16_lt_trans : forall a b c, et_ltb a b = Ok true -> et_ltb b c = Ok true -> et_ltb a c = Ok true.
Proof. exact et_ltb_trans. Qed.
Print Assumptions C16_lt_trans.
Theorem C16_mul : forall a k, us (et_mul a k) = us a * k /\ et_unit (et_mul a k) = et_unit a.
Proof. exact et_mul_spec. Qed.
Print Assumptions C16_mul.
Theorem C16_sub_add_cancel : forall a b r s, et_sub a b = Ok r -> et_add r b = Ok s -> us s = us a.
Proof. exact et_sub_add_cancel. Qed.
Print Assumptions C16_sub_add_cancel.

(* Event.__lt__ is the lexicographic order on (time, type priority, task name) *)
Theorem C16_event_order : forall c a b, uniform c a -> uniform c b -> ev_ltb a b = key_ltb (key a) (key b).
Proof. exact ev_ltb_key. Qed.
Print Assumptions C16_event_order.
Theorem C16_type_priority :
  (forall t, event_type_value t = doc_code t) /\
  map event_type_value all_event_types = [0;1;2;3;4;5;6;7;8;9;10;11;12;13;14] /\
  event_type_value TASK_FINISHED < event_type_value TASK_RELEASE /\
  event_type_value TASK_RELEASE < event_type_value TASK_PLACEMENT /\
  event_type_value TASK_CANCEL < event_type_value TASK_PLACEMENT /\
  event_type_value TASK_PLACEMENT < event_type_value SCHEDULER_START /\
  event_type_value SCHEDULER_START < event_type_value SCHEDULER_FINISHED /\
  event_type_value SCHEDULER_FINISHED < event_type_value SIMULATOR_END.
Proof. exact type_priority_documented. Qed.
Print Assumptions C16_type_priority.
(* for every history of push / remove / re-time / pop: each popped event was pending and
   no pending event had a smaller key *)
Theorem C16_queue : forall c ops, pushes_uniform c ops ->
  Forall (fun p => Forall (fun x => key_leb (key (fst p)) (key x) = true) (snd p) /\ In (fst p) (snd p))
         (snd (q_run ops)).
Proof. exact queue_pops_minimal. Qed.
Print Assumptions C16_queue.
Theorem C16_drain_sorted : forall c fuel q, Forall (uniform c) q ->
  StronglySorted (fun a b => key_leb (key a) (key b) = true) (q_drain fuel q) /\ Forall (fun x => In x q) (q_drain fuel q).
Proof. exact q_drain_sorted. Qed.
Print Assumptions C16_drain_sorted.
Theorem C16_drain_complete : forall fuel q, (length q <= fuel)%nat -> length (q_drain fuel q) = length q.
Proof. exact q_drain_complete. Qed.
Print Assumptions C16_drain_complete.
