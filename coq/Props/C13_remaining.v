(* C13 — the "remaining time" that LSF's slack subtracts (Task.remaining_time, translated from workload/tasks.py on every
   run: Gen/Src_TaskGraph.task_remaining_time) is the TRACKED remaining time for every task that has been scheduled or has
   started (SCHEDULED, RUNNING, PREEMPTED, EVICTED), the runtime of the slowest strategy for a task that has not, and zero for
   a finished or cancelled task.  A source edit that makes a started task forget the work already done breaks this theorem. *)
From Coq Require Import ZArith Bool List.
Import ListNotations.
From Verif Require Import Model.Val Gen.Src_Task Gen.Src_TaskGraph Proofs.RemainingP.
Open Scope Z_scope.

Theorem C13_remaining_time_is_the_tracked_one : forall raw slowest,
  task_remaining_time TS_SCHEDULED raw slowest = raw /\ task_remaining_time TS_RUNNING raw slowest = raw /\
  task_remaining_time TS_PREEMPTED raw slowest = raw /\ task_remaining_time TS_EVICTED raw slowest = raw /\
  task_remaining_time TS_VIRTUAL raw slowest = slowest /\ task_remaining_time TS_RELEASED raw slowest = slowest /\
  task_remaining_time TS_COMPLETED raw slowest = 0 /\ task_remaining_time TS_CANCELLED raw slowest = 0.
Proof. exact remaining_time_by_state. Qed.
Print Assumptions C13_remaining_time_is_the_tracked_one.
