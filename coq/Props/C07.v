(* C07 — conditional branches: exactly one branch runs, the others are cancelled.
   Only statements; proofs in Proofs/TaskGraphP*.v.  Model: Model/TaskGraph.v notify_completion
   (TaskGraph.notify_task_completion); the element returned by random.choices is the INPUT `draw`
   (its index among the children); the contract of random.choices (never an element of weight 0) is a
   hypothesis on the draw. *)
From Coq Require Import ZArith Bool List Lia ZifyBool.
Import ListNotations.
From Verif Require Import Model.Val Gen.Src_Task Gen.Src_TaskGraph Model.TaskGraph
  Proofs.TaskGraphP Proofs.TaskGraphP1 Proofs.TaskGraphP2 Proofs.TaskGraphP3 Proofs.TaskGraphP4
  Proofs.TaskGraphP5 Proofs.TaskGraphP6 Proofs.TaskGraphP7 Proofs.TaskGraphP8 Proofs.TaskGraphP9 Proofs.TaskGraphP11.
From Verif Require Model.Graph.
Open Scope Z_scope.

(* exactly one child is released: the drawn one; it has a non-zero probability *)
Theorem C07_one : forall g t fin draw g' rel canc,
  notify_completion g t fin draw = (g', Ok (rel, canc)) -> tg_conditional g t = true ->
  all_children_zero g t = false ->
  exists k, nth_z (tg_children g t) draw = Some k /\ rel = [k] /\ In k (tg_children g t) /\
            ((forall c, nth_z (tg_children g t) draw = Some c -> 0 < tg_prob g c) -> 0 < tg_prob g k).
Proof. exact notify_one. Qed.
Print Assumptions C07_one.

(* `branch g u d`: d is reachable from the child u through non-terminal tasks only (u itself not terminal).
   Every task of an untaken branch, up to but excluding the join, is CANCELLED afterwards. *)
Theorem C07_untaken : forall g t fin draw g' rel canc,
  notify_completion g t fin draw = (g', Ok (rel, canc)) -> tg_conditional g t = true ->
  all_children_zero g t = false -> cancel_closed g ->
  forall u, In u (tg_children g t) -> ~ In u rel -> forall d, branch g u d -> tg_state g' d = TS_CANCELLED.
Proof. exact notify_untaken. Qed.
Print Assumptions C07_untaken.

(* a join that still has a parent, other than the conditional itself, that is not cancelled keeps its state
   (also when the conditional has a DIRECT edge to it: the loop leaves such a join alone); so does every
   regular task whose parents kept theirs (by induction: everything behind the join) *)
Theorem C07_join : forall g t fin draw g' rel canc,
  notify_completion g t fin draw = (g', Ok (rel, canc)) -> tg_conditional g t = true ->
  all_children_zero g t = false -> cancel_closed g ->
  forall j, tg_terminal g j = true ->
  (exists p, In p (tg_parents g j) /\ p <> t /\ tg_state g' p <> TS_CANCELLED) -> tg_state g' j = tg_state g j.
Proof. exact notify_join. Qed.
Print Assumptions C07_join.
Theorem C07_behind_join : forall g t fin draw g' rel canc,
  notify_completion g t fin draw = (g', Ok (rel, canc)) -> tg_conditional g t = true ->
  all_children_zero g t = false -> cancel_closed g ->
  forall n, tg_terminal g n = false -> (forall u, In u (tg_children g t) -> ~ In u rel -> u <> n) ->
  (forall p, In p (tg_parents g n) -> tg_state g' p = tg_state g p) -> tg_state g' n = tg_state g n.
Proof. exact notify_behind_join. Qed.
Print Assumptions C07_behind_join.

(* the join is released when ANY parent completes (non-conditional parent), once per notification, and it
   is ready to run once one parent is complete and no parent is still alive *)
Theorem C07_join_released : forall g p fin draw g' rel canc j,
  notify_completion g p fin draw = (g', Ok (rel, canc)) -> tg_conditional g p = false ->
  In j (tg_children g p) -> tg_terminal g j = true -> tg_state g j <> TS_CANCELLED -> In j rel /\ NoDup rel.
Proof.
  intros g p fin draw g' rel canc j H Hc Hj Ht Hs. split; [|eapply notify_released_nodup; eauto].
  destruct (notify_children _ _ _ _ _ _ _ H Hc) as (_ & _ & _ & E & _). apply E. auto.
Qed.
Print Assumptions C07_join_released.
Theorem C07_join_ready : forall (A : Type) (complete_of : A -> bool) (state_of : A -> task_state) (ps : list A) s,
  is_ready_to_run complete_of state_of true ps s = true <->
  ((exists p, In p ps /\ complete_of p = true) /\
   (forall p, In p ps -> complete_of p = true \/ state_of p = TS_CANCELLED)) /\
  (s = TS_SCHEDULED \/ s = TS_PREEMPTED).
Proof. intros. apply (ready_spec A complete_of state_of true). Qed.
Print Assumptions C07_join_ready.
(* the join waits for the branch that was taken: with a parent that is neither complete nor cancelled it is
   not ready (repaired finding FTG2: after FTG1 the kept join started while the taken branch was running) *)
Theorem C07_join_waits_for_taken_branch : forall g j p,
  tg_terminal g j = true -> In p (tg_parents g j) -> tg_complete g p = false -> tg_state g p <> TS_CANCELLED ->
  is_ready_to_run (tg_complete g) (tg_state g) (tg_terminal g j) (tg_parents g j) (tg_state g j) = false.
Proof. intros g j p Ht Hp Hc Hs. rewrite Ht. eapply join_waits; eauto. Qed.
Print Assumptions C07_join_waits_for_taken_branch.

(* with conditionals resolved at submission (probabilities 0 / 1) the released child is THE child of
   probability 1 *)
Theorem C07_resolved : forall g t fin draw g' rel canc,
  notify_completion g t fin draw = (g', Ok (rel, canc)) -> tg_conditional g t = true ->
  all_children_zero g t = false ->
  (forall c, In c (tg_children g t) -> tg_prob g c = 0 \/ tg_prob g c = g_den g) ->
  (forall c, nth_z (tg_children g t) draw = Some c -> 0 < tg_prob g c) ->
  exists k, rel = [k] /\ In k (tg_children g t) /\ tg_prob g k = g_den g /\
            forall c, In c (tg_children g t) -> c <> k -> tg_prob g c = 0.
Proof. exact notify_resolved. Qed.
Print Assumptions C07_resolved.

(* a child that was cancelled before the conditional completed has probability 0 (TaskGraph.cancel sets
   it, cancel_post) and weights adding up to LESS than 1 are accepted: the conditional still resolves, and
   under the contract of random.choices the cancelled child is not the one released *)
Theorem C07_cancelled_child_not_released : forall g t fin draw g' rel canc c,
  notify_completion g t fin draw = (g', Ok (rel, canc)) -> tg_conditional g t = true ->
  all_children_zero g t = false ->
  (forall k, nth_z (tg_children g t) draw = Some k -> 0 < tg_prob g k) ->
  tg_prob g c = 0 -> ~ In c rel.
Proof.
  intros g t fin draw g' rel canc c H Hc Hz Hor Hp Hin.
  destruct (notify_one _ _ _ _ _ _ _ H Hc Hz) as (k & Hk & -> & _ & Hpos).
  destruct Hin as [<-|[]]. specialize (Hpos Hor). lia.
Qed.
Print Assumptions C07_cancelled_child_not_released.
(* the sum of the children's weights never exceeds 1 when the notification succeeds *)
Theorem C07_weights_at_most_one : forall g t fin draw g' rel canc,
  notify_completion g t fin draw = (g', Ok (rel, canc)) -> tg_conditional g t = true ->
  all_children_zero g t = false -> zsum (map (tg_prob g) (tg_children g t)) <= g_den g.
Proof.
  intros g t fin draw g' rel canc H Hc Hz.
  destruct (notify_cond_unfold _ _ _ _ _ _ _ H Hc Hz) as (_ & _ & _ & Hs & _).
  unfold probs_refused, probs_rejected in Hs. lia.
Qed.
Print Assumptions C07_weights_at_most_one.

(* ---- resolution at submission (JobGraph._generate_task_graph, jobs.py:839-861; model resolve_at_submission
   over the JOB graph, breadth_first from Model/Graph.v) ----
   `zeroed jg term u`  = u and the jobs breadth_first(u) yields before the first terminal job,
   `zeroed_by .. k ks` = what the untaken children of ks reset, `touched .. c` = everything conditional c may write.
   One conditional: outside its children and zeroed sets nothing changes (everything from the join on is
   untouched), the zeroed jobs are at 0, the chosen child at 1 (unless an untaken sibling reaches it). *)
Theorem C07_resolved_at_submission_step : forall jg term chosen ks den probs probs',
  resolve_children jg term chosen ks den probs = Ok probs' ->
  (forall n, ~ In n ks -> ~ In n (zeroed_by jg term chosen ks) -> al_get n probs' = al_get n probs) /\
  (forall n, In n (zeroed_by jg term chosen ks) -> n <> chosen -> al_get n probs' = Some 0) /\
  (In chosen ks -> ~ In chosen (zeroed_by jg term chosen ks) -> al_get chosen probs' = Some den).
Proof. exact resolve_children_spec. Qed.
Print Assumptions C07_resolved_at_submission_step.
(* the whole pass, for conditionals whose writes do not overlap (pairs in sequence, a pair nested in a TAKEN
   branch; any declaration order): every conditional has a child at probability 1 and its other children and
   their zeroed sets at 0; every job no conditional touches keeps its probability *)
Theorem C07_resolved_at_submission : forall adj terms conds den probs final,
  resolve_at_submission adj terms conds den probs = Ok final ->
  exists jg, Graph.of_mapping adj = Ok jg /\
  (NoDup (Graph.nodes jg) -> independent jg (fun n => zmem n terms) (fun n => zmem n conds) (Graph.nodes jg) ->
   (forall c, In c (Graph.nodes jg) -> In c conds ->
      exists k, In k (Graph.children_of jg c) /\
        (forall n, In n (zeroed_by jg (fun n => zmem n terms) k (Graph.children_of jg c)) -> n <> k -> al_get n final = Some 0) /\
        (~ In k (zeroed_by jg (fun n => zmem n terms) k (Graph.children_of jg c)) -> al_get k final = Some den)) /\
   (forall n, (forall c, In c (Graph.nodes jg) -> In c conds -> ~ In n (touched jg (fun n => zmem n terms) c)) ->
              al_get n final = al_get n probs)).
Proof. exact resolve_at_submission_spec. Qed.
Print Assumptions C07_resolved_at_submission.
(* two pairs in sequence, the DOWNSTREAM conditional (5) declared before the upstream one (1):
   1 -> [2, 3] -> 4 (join) -> 5 -> [6, 7] -> 8 (join) *)
Definition sub_seq : list (Z * list Z) := [(5, [6; 7]); (6, [8]); (7, [8]); (8, []); (1, [2; 3]); (2, [4]); (3, [4]); (4, [5])].
Definition sub_probs : list (Z * Z) := map (fun n => (n, 16)) [1; 2; 3; 4; 5; 6; 7; 8].
Example C07_resolved_at_submission_example :
  exists jg, Graph.of_mapping sub_seq = Ok jg /\ NoDup (Graph.nodes jg) /\
    independent jg (fun n => zmem n [4; 8]) (fun n => zmem n [1; 5]) (Graph.nodes jg) /\
    resolve_at_submission sub_seq [4; 8] [1; 5] 16 sub_probs =
      Ok [(1, 16); (2, 0); (3, 16); (4, 16); (5, 16); (6, 16); (7, 0); (8, 16)].
Proof.
  eexists. split; [vm_compute; reflexivity|]. split; [apply znodup_NoDup; vm_compute; reflexivity|].
  split; [apply independentb_sound; vm_compute; reflexivity | vm_compute; reflexivity].
Qed.
(* without independence the statement fails: a pair nested in the UNTAKEN branch of 1 and declared after it:
   1 -> [6, 2], 2 -> [3, 4] -> 5 (inner join) -> 7 (outer join), 6 -> 7.  1 chooses 6 and zeroes 2, 3, 4; then
   2 is resolved and gives probability 1 to 4, a job inside the untaken branch of 1 (observation, replayed on
   the real code by S-submission; what RUNS is still decided by notify_task_completion: C07_untaken) *)
Definition sub_nested : list (Z * list Z) := [(1, [6; 2]); (2, [3; 4]); (3, [5]); (4, [5]); (5, [7]); (6, [7]); (7, [])].
Theorem C07_resolved_at_submission_nested_refuted :
  exists final, resolve_at_submission sub_nested [5; 7] [1; 2] 16 (map (fun n => (n, 16)) [1; 2; 3; 4; 5; 6; 7]) = Ok final /\
    al_get 2 final = Some 0 /\ al_get 4 final = Some 16.
Proof. eexists. split; [vm_compute; reflexivity|]. split; reflexivity. Qed.
Print Assumptions C07_resolved_at_submission_nested_refuted.

(* every child has probability 0 (all branches resolved away): nothing is released, every branch is cancelled *)
Theorem C07_all_zero : forall g t fin draw g' rel canc,
  notify_completion g t fin draw = (g', Ok (rel, canc)) -> tg_conditional g t = true ->
  all_children_zero g t = true -> cancel_closed g ->
  rel = [] /\ evolves g g' /\ cancel_closed g' /\
  forall u, In u (tg_children g t) -> forall d, branch g u d -> tg_state g' d = TS_CANCELLED.
Proof. exact notify_all_zero. Qed.
Print Assumptions C07_all_zero.

(* the shape of the graph, terminal flags and the closure invariant are kept; states only move to CANCELLED *)
Theorem C07_shape : forall g t fin draw g' rel canc,
  notify_completion g t fin draw = (g', Ok (rel, canc)) -> tg_conditional g t = true ->
  all_children_zero g t = false -> cancel_closed g -> evolves g g' /\ cancel_closed g'.
Proof. exact notify_cond_evolves. Qed.
Print Assumptions C07_shape.

(* ---- the monitor applied to the implementation's results: `branch_of` (reachability closure by fixpoint
   iteration) is the untaken branch, c07_check decides c07_obs (Proofs/TaskGraphP9.v) and accepts the model ---- *)
Theorem C07_monitor_branch : forall g u, wf g -> In u (tg_nodes g) -> (exists order, topo_ok g order) ->
  forall d, In d (branch_of g u) <-> branch g u d.
Proof. exact branch_of_iff. Qed.
Print Assumptions C07_monitor_branch.
Theorem C07_monitor : forall g t draw rel canc after, wf g -> In t (tg_nodes g) -> (exists order, topo_ok g order) ->
  (c07_check (g, t, draw, rel, canc, after) = true <-> c07_obs g t draw rel canc after).
Proof. exact c07_check_iff. Qed.
Print Assumptions C07_monitor.
Theorem C07_monitor_accepts_model : forall g t fin draw g' rel canc,
  notify_completion g t fin draw = (g', Ok (rel, canc)) -> tg_conditional g t = true ->
  all_children_zero g t = false -> cancel_closed g -> (exists order, topo_ok g order) ->
  (forall c, nth_z (tg_children g t) draw = Some c -> 0 < tg_prob g c) ->
  c07_check (g, t, draw, rel, canc, map (fun n => (n, task_state_value (tg_state g' n))) (tg_nodes g)) = true.
Proof. exact c07_check_accepts_model. Qed.
Print Assumptions C07_monitor_accepts_model.

(* ---- non-vacuity: C -> [A, B], A -> A2 -> T, B -> T, T -> Z (T terminal); the draw takes A ---- *)
Definition c7_task (s : task_state) (term cond : bool) (p : Z) : ttask := mk_ttask s (-1) 100 0 4 p term cond (-1) [5].
Definition c7_g : tgraph :=
  mkTG [(1, [2; 3]); (2, [4]); (3, [5]); (4, [5]); (5, [6]); (6, [])]
       [(1, c7_task TS_COMPLETED false true 16); (2, c7_task TS_VIRTUAL false false 4);
        (3, c7_task TS_VIRTUAL false false 12); (4, c7_task TS_VIRTUAL false false 16);
        (5, c7_task TS_VIRTUAL true false 16); (6, c7_task TS_VIRTUAL false false 16)] 16.
Example C07_example :
  cancel_closed c7_g /\ exists g', notify_completion c7_g 1 5 0 = (g', Ok ([2], [3])) /\
  tg_state g' 3 = TS_CANCELLED /\ tg_state g' 5 = TS_VIRTUAL /\ tg_state g' 6 = TS_VIRTUAL /\ branch c7_g 3 3.
Proof.
  split.
  - apply cancel_closedb_iff; [apply tg_ok_wf; vm_compute; reflexivity | vm_compute; reflexivity].
  - eexists. split; [vm_compute; reflexivity|]. repeat split; try (vm_compute; reflexivity). constructor. reflexivity.
Qed.

(* ---- regression of finding FTG1 (repaired in /repo 9d10278): the conditional has a DIRECT edge to its join
   (an `if` without `else`): C -> [A, T], A -> T, T -> Z, draw = A.  The join is no longer cancelled, the
   taken branch A still leads to it: an instance of C07_join with p = A (the witness corpus/C07/
   join_direct_edge.json is replayed on the real code on every run). ---- *)
Definition c7_direct : tgraph :=
  mkTG [(1, [2; 3]); (2, [3]); (3, [4]); (4, [])]
       [(1, c7_task TS_COMPLETED false true 16); (2, c7_task TS_VIRTUAL false false 8);
        (3, c7_task TS_VIRTUAL true false 8); (4, c7_task TS_VIRTUAL false false 16)] 16.
Example C07_join_direct_edge :
  cancel_closed c7_direct /\ tg_terminal c7_direct 3 = true /\ In 3 (tg_children c7_direct 1) /\
  exists g', notify_completion c7_direct 1 5 0 = (g', Ok ([2], [])) /\
             tg_state g' 3 = TS_VIRTUAL /\ tg_state g' 4 = TS_VIRTUAL /\ tg_is_cancelled g' = false.
Proof.
  split; [apply cancel_closedb_iff; [apply tg_ok_wf; vm_compute; reflexivity | vm_compute; reflexivity]|].
  split; [reflexivity|]. split; [vm_compute; auto|].
  eexists. split; [vm_compute; reflexivity|]. repeat split; vm_compute; reflexivity.
Qed.
(* when the other branch T is drawn instead, A is cancelled and the join runs *)
Example C07_join_direct_edge_taken :
  exists g', notify_completion c7_direct 1 5 1 = (g', Ok ([3], [2])) /\ tg_state g' 2 = TS_CANCELLED /\
             tg_state g' 3 = TS_VIRTUAL.
Proof. eexists. split; [vm_compute; reflexivity|]. split; vm_compute; reflexivity. Qed.
