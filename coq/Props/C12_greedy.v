(* C12, greedy part — with deadline enforcement EDF and FIFO cancel exactly the hopeless tasks.
   Only statements; proofs are in Proofs/GreedyP*.v. *)
From Coq Require Import ZArith Bool List.
Import ListNotations.
From Verif Require Import Model.Val Gen.Src_Greedy Model.Greedy Proofs.GreedyP Proofs.GreedyP2 Proofs.GreedyP3.
Open Scope Z_scope.

(* the admission tests translated from the source are the documented rule
   hopeless now t = deadline t < now + runtime of the fastest strategy  (strict: tight deadlines are kept) *)
Theorem C12_greedy_admission_test : forall e now t f,
  p_cancel edf e now t f = e && (ta_deadline t <? now + f) /\
  p_cancel fifo e now t f = e && (ta_deadline t <? now + f) /\
  p_has_adm edf = true /\ p_has_adm fifo = true /\ p_has_adm lsf = false.
Proof. intros. repeat split. Qed.
Print Assumptions C12_greedy_admission_test.

(* EDF / FIFO with enforce_deadlines: the decision for the i-th task of the order is a cancellation iff the
   task is hopeless; in particular a hopeless task is never placed and a non-hopeless one is never cancelled *)
Theorem C12_greedy_edf : forall L pre now (c : cluster L) offered ds cf i x,
  schedule_full L edf true pre now c offered = Ok (ds, cf) ->
  nth_error (ordered L edf now offered) i = Some x ->
  exists f d, min_runtime L (t_strats x) = Some f /\ nth_error ds i = Some d /\ dec_task d = t_id x /\
              (ta_deadline (t_attrs x) <? now + f = true <-> d = DCancel (t_id x)).
Proof.
  intros L pre now c offered ds cf i x. apply (c12_generic L edf pre now c offered ds cf i x).
  split; [reflexivity|intros; reflexivity].
Qed.
Print Assumptions C12_greedy_edf.
Theorem C12_greedy_fifo : forall L pre now (c : cluster L) offered ds cf i x,
  schedule_full L fifo true pre now c offered = Ok (ds, cf) ->
  nth_error (ordered L fifo now offered) i = Some x ->
  exists f d, min_runtime L (t_strats x) = Some f /\ nth_error ds i = Some d /\ dec_task d = t_id x /\
              (ta_deadline (t_attrs x) <? now + f = true <-> d = DCancel (t_id x)).
Proof.
  intros L pre now c offered ds cf i x. apply (c12_generic L fifo pre now c offered ds cf i x).
  split; [reflexivity|intros; reflexivity].
Qed.
Print Assumptions C12_greedy_fifo.

(* min_runtime is the runtime of the fastest strategy *)
Theorem C12_greedy_fastest : forall L (ss : list (st L)) f, min_runtime L ss = Some f ->
  (exists s, In s ss /\ runtime L s = f) /\ forall s, In s ss -> f <= runtime L s.
Proof. exact min_runtime_spec. Qed.
Print Assumptions C12_greedy_fastest.

(* without enforcement nothing is cancelled; LSF has no admission test at all: it never cancels, whatever
   the flag (its constructor does not even accept enforce_deadlines) -- reported, see the claim *)
Theorem C12_greedy_no_enforce : forall L P now (c : cluster L) ts ds cf,
  (P = edf \/ P = fifo \/ P = lsf) ->
  run L P false now c ts = Ok (ds, cf) -> forallb (fun d => negb (is_cancel d)) ds = true.
Proof.
  intros L P now c ts ds cf HP. apply run_no_enforce. destruct HP as [HP|[HP|HP]]; subst P; intros; reflexivity.
Qed.
Print Assumptions C12_greedy_no_enforce.
Theorem C12_greedy_lsf_never_cancels : forall L e now (c : cluster L) ts ds cf,
  run L lsf e now c ts = Ok (ds, cf) -> forallb (fun d => negb (is_cancel d)) ds = true.
Proof. intros L e now c ts ds cf. apply run_never_cancels. reflexivity. Qed.
Print Assumptions C12_greedy_lsf_never_cancels.

(* the decidable form used as a monitor, and the model satisfies it *)
Theorem C12_greedy_monitor : forall L offered now ds,
  c12_check L offered now ds = true <-> Forall (C12ok L offered now) ds.
Proof. exact c12_check_iff. Qed.
Print Assumptions C12_greedy_monitor.
Theorem C12_greedy_model_checks : forall L P pre now (c : cluster L) offered ds cf,
  (P = edf \/ P = fifo) -> NoDup (map (@t_id L) offered) ->
  schedule_full L P true pre now c offered = Ok (ds, cf) -> c12_check L offered now ds = true.
Proof.
  intros L P pre now c offered ds cf HP. apply c12_check_generic.
  destruct HP as [HP|HP]; subst P; (split; [reflexivity|intros; reflexivity]).
Qed.
Print Assumptions C12_greedy_model_checks.

(* closed witnesses: past, tight and loose deadlines (Proofs/GreedyP3.v) *)
Theorem C12_greedy_example :
  schedule SL edf true false 8 ex_cluster ex_tasks = Ok [DCancel 0; DPlace 2 0 0%nat 8; DUnplaced 1] /\
  schedule SL edf true false 7 ex_cluster ex_tasks = Ok [DPlace 0 0 0%nat 7; DPlace 2 0 0%nat 7; DUnplaced 1].
Proof. split; [exact ex_edf_enforce|exact ex_edf_tight]. Qed.
Print Assumptions C12_greedy_example.
