(* C10 (TetriSched part) — every satisfying assignment of the space-time MIP built by
   TetriSchedGurobiScheduler / TetriSchedCPLEXScheduler reads back as a complete, feasible
   decision.  `a` ranges over ALL satisfying assignments, not only the solver's.
   Only statements; proofs are in Proofs/TetriP*.v. *)
From Coq Require Import ZArith Bool List.
Import ListNotations.
From Verif Require Import Model.Val Model.PlanSpec Model.TetriModel Gen.Src_Tetri
  Proofs.TetriP Proofs.TetriPSum Proofs.TetriPSound Proofs.TetriPCor.
Open Scope Z_scope.

(* the occupancy window of the model is the test of get_partition_variable in both source files *)
Theorem C10_tetri_bridge :
  (forall s r t, g_occupies s r t = occupies s r t) /\ (forall s r t, c_occupies s r t = occupies s r t) /\
  (forall s r t, g_occupies s r t = true <-> s <= t < s + r).
Proof. exact tetri_bridge_c10. Qed.
Print Assumptions C10_tetri_bridge.

(* exactly one answer per task that has decision variables (offered, or scheduled earlier and not started),
   in the order of the variable map; a running task gets none *)
Theorem C10_tetri_one_answer_per_task : forall I a,
  map fst (readback I a) = map tt_id (free_tasks I) /\
  (NoDup (map tt_id (ti_tasks I)) -> NoDup (map fst (readback I a)) /\ NoDup (map pl_task (plan_of (readback I a)))).
Proof. exact readback_answers. Qed.
Print Assumptions C10_tetri_one_answer_per_task.

(* the contract: every placement names a task with variables that is not running, an existing worker, one of
   the task's strategies, a start on the slot grid that is >= now and >= the task's release; and all placements
   together with the running tasks (charged their WHOLE runtime from now, as the formulation does) never exceed
   any worker's capacity for any resource at ANY instant tau >= now — not only at slot times *)
Theorem C10_tetri_contract : forall I a, wf_inst I -> sat (gen_tetri I) a = true ->
  plan_wellformed (to_pinst I) (plan_of (readback I a)) /\
  Forall (timing_ok (conv_tetri I) (to_pinst I)) (plan_of (readback I a)) /\
  capacity_ok (conv_tetri I) (to_pinst I) (plan_of (readback I a)).
Proof. exact tetri_contract. Qed.
Print Assumptions C10_tetri_contract.

(* hence under the simulator's convention: running tasks occupy their worker for their REMAINING time *)
Theorem C10_tetri_capacity_simulator : forall I a, wf_inst I -> sat (gen_tetri I) a = true ->
  forall w tau r, In w (ti_workers I) -> ti_now I <= tau ->
    demand conv_c10 (to_pinst I) (plan_of (readback I a)) (tw_idx w) r tau <= rget (tw_total w) r.
Proof. exact tetri_capacity_simulator. Qed.
Print Assumptions C10_tetri_capacity_simulator.

(* slots_suffice: the demand at an arbitrary instant is bounded by the demand at the last slot before it *)
Theorem C10_tetri_slots_suffice : forall I a, wf_inst I -> sat (gen_tetri I) a = true ->
  forall widx r tau, ti_now I <= tau ->
    In (floor_slot I tau) (slots I) /\ floor_slot I tau <= tau /\
    demand (conv_tetri I) (to_pinst I) (plan_of (readback I a)) widx r tau <=
    demand (conv_tetri I) (to_pinst I) (plan_of (readback I a)) widx r (floor_slot I tau).
Proof. exact tetri_slots_suffice. Qed.
Print Assumptions C10_tetri_slots_suffice.

(* the decidable well-formedness check that the harness applies to every instance implies the hypothesis *)
Theorem C10_tetri_wf_decidable : forall I, wf_instb I = true -> wf_inst I.
Proof. exact wf_instb_sound. Qed.
Print Assumptions C10_tetri_wf_decidable.

(* if the contract holds (Prop), the monitor applied to the implementation's Placements says true: no false alarm *)
Theorem C10_tetri_monitor_complete : forall I p,
  plan_wellformed (to_pinst I) p -> Forall (timing_ok conv_c10 (to_pinst I)) p -> capacity_ok conv_c10 (to_pinst I) p ->
  contract_okb I p = true.
Proof. exact contract_okb_complete. Qed.
Print Assumptions C10_tetri_monitor_complete.

(* non-vacuity: a join whose first parent is RUNNING (2 of 2 us left on worker 2) and whose second parent and the
   child are decided now; values returned by Gurobi for this instance (discretisation 3, now = 1) *)
Definition ex_inst : tinst :=
  mkTI Gurobi 1 (-1) 3 false false true
    [mkTT 0 SFree 1 13 [mkStrat 4 [(1, 1)]] [] 0 false;
     mkTT 1 SFree 4 3 [mkStrat 7 [(0, 1); (1, 1)]] [0; 2] 2 true;
     mkTT 2 (SRunning 2 (mkStrat 2 [(0, 2)]) 2) 0 5 [mkStrat 2 [(0, 2)]] [] 0 false]
    [mkTW 1 [(0, 1)]; mkTW 2 [(0, 3)]; mkTW 3 [(0, 2); (1, 1)]].
Definition ex_assign : assignment :=
  assign_of_keys [([0; 0; 3; 1; 0], 1); ([1; 0; 1], 1); ([2; 0; 4], 1); ([2; 0; 7], 1); ([2; 0; 10], 1); ([2; 0; 13], 1);
    ([4; 0], 1); ([5; 0], 1); ([0; 1; 3; 7; 0], 1); ([2; 1; 1], 1); ([2; 1; 4], 1); ([1; 1; 7], 1); ([2; 1; 10], 1);
    ([2; 1; 13], 1); ([4; 1], 7); ([3; 1; 7], 1); ([5; 1], 1); ([6; 1], 1)].
Theorem C10_tetri_example :
  wf_instb ex_inst = true /\ sat (gen_tetri ex_inst) ex_assign = true /\
  readback ex_inst ex_assign = [(0, Some (mkPl 0 3 0%nat 1)); (1, Some (mkPl 1 3 0%nat 7))] /\
  contract_okb ex_inst (plan_of (readback ex_inst ex_assign)) = true.
Proof. vm_compute. repeat split; reflexivity. Qed.
Print Assumptions C10_tetri_example.
