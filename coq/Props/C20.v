(* C20 — STRL compilation (C++ back-end): every solution of the generated model is a valid
   space-time allocation.  Only statements; proofs are in Proofs/StrlP*.v.
   PARTIAL: see the header of Model/Strl.v for what is not modelled. *)
From Coq Require Import ZArith Bool List.
Import ListNotations.
From Verif Require Import Model.Val Model.Strl Proofs.StrlP Proofs.StrlP2.
Open Scope Z_scope.

(* capacity: for every tree whose leaf start times are congruent modulo the granularity, every
   assignment satisfying the compiled model, read back by populateResults, keeps the usage of every
   partition (placements + allocation leaves) within its quantity at every time *)
Theorem C20_capacity : forall pt now g e cs a,
  compile pt now g e = Ok cs -> sat cs a = true -> wf_in pt g e -> aligned g e ->
  forall p tau, usage (populate pt now a e) p tau + alloc_usage e p tau <= qty0 pt p.
Proof. exact capacity_aligned. Qed.
Print Assumptions C20_capacity.

(* finding F13: without alignment of the leaf start times a solution can over-subscribe a partition *)
Theorem C20_capacity_refuted :
  exists pt now g e cs a p tau,
    compile pt now g e = Ok cs /\ sat cs a = true /\
    usage (populate pt now a e) p tau + alloc_usage e p tau > qty0 pt p.
Proof. exact capacity_unaligned_refuted. Qed.
Print Assumptions C20_capacity_refuted.

(* the utility reported by populateResults is the value of the model objective *)
Theorem C20_utility_is_objective : forall pt now g e cs a,
  compile pt now g e = Ok cs -> sol_util (solve pt now a e) = objective_value cs a.
Proof. exact utility_is_objective. Qed.
Print Assumptions C20_utility_is_objective.
