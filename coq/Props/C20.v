(* C20 — STRL compilation (C++ back-end): every solution of the generated model is a valid
   space-time allocation.  Only statements; proofs are in Proofs/StrlP*.v.
   PARTIAL: see the header of Model/Strl.v for what is not modelled (WindowedChoose, MalleableChoose,
   optimisation passes, DAG sharing).  Optimality (max utility = brute-force optimum, with or without the
   pruning passes) is NOT proved: it is checked on generated trees by the harness (stage S-strl-passes),
   as is the lowering with optimisation passes and WindowedChoose; of that half only `C20_coarse` is a theorem. *)
From Coq Require Import ZArith Bool List.
Import ListNotations.
From Verif Require Import Model.Val Model.Strl Proofs.StrlP Proofs.StrlP2 Proofs.StrlP3 Proofs.StrlP4 Proofs.StrlP5 Proofs.StrlP6 Proofs.StrlP7 Proofs.StrlP8 Proofs.StrlP9.
Open Scope Z_scope.

(* capacity: for every tree whose leaf start times are congruent modulo the granularity, every
   assignment satisfying the compiled model, read back by populateResults, keeps the usage of every
   partition (placements + allocation leaves) within its quantity at every time *)
Theorem C20_capacity : forall pt now g e cs a,
  compile pt now g e = Ok cs -> sat cs a = true -> wf_in pt g e -> aligned g e ->
  forall p tau, usage (populate pt now a e) p tau + alloc_usage e p tau <= qty0 pt p.
Proof. exact capacity_aligned. Qed.
Print Assumptions C20_capacity.

(* finding F13: without alignment of the leaf start times a solution can over-subscribe a partition *)
Theorem C20_capacity_refuted :
  exists pt now g e cs a p tau,
    compile pt now g e = Ok cs /\ sat cs a = true /\
    usage (populate pt now a e) p tau + alloc_usage e p tau > qty0 pt p.
Proof. exact capacity_unaligned_refuted. Qed.
Print Assumptions C20_capacity_refuted.

(* the same for ANY registration of capacity-map keys (slot function) that covers: one key per time,
   registered by every leaf active at that time *)
Theorem C20_capacity_any_slots : forall pt now sl e cs a,
  compile_with pt now sl e = Ok cs -> sat cs a = true -> wf_amounts pt e -> covering sl e ->
  forall p tau, usage (populate pt now a e) p tau + alloc_usage e p tau <= qty0 pt p.
Proof. exact capacity_with. Qed.
Print Assumptions C20_capacity_any_slots.

(* range-based (dynamic) discretisation, CapacityConstraint.cpp:237-319: capacity at every time for every
   satisfying assignment, when every leaf registers the grid key of every time at which it is active
   (decidable hypothesis, evaluated on the generated inputs by the check) *)
Theorem C20_capacity_ranges : forall pt now rs e cs a,
  compile_dyn pt now rs e = Ok cs -> sat cs a = true -> wf_amounts pt e ->
  coveringb (dyn_slots rs) (grid_key rs) e = true ->
  forall p tau, usage (populate pt now a e) p tau + alloc_usage e p tau <= qty0 pt p.
Proof. exact capacity_dyn. Qed.
Print Assumptions C20_capacity_ranges.

(* finding F15: an unsatisfiable ordering makes the whole model infeasible *)
Theorem C20_infeasible_refuted :
  exists pt now g e cs, compile pt now g e = Ok cs /\ forall a, sat cs a = false.
Proof. exact infeasible_model_refuted. Qed.
Print Assumptions C20_infeasible_refuted.

(* every placement read back is the exact image of a Choose leaf whose indicator is 1: same name,
   start, end = start + duration, total amount = requested amount, drawn from available partitions of
   that Choose, each share positive and within the partition; nothing is read back for a Choose
   whose indicator is 0 *)
Theorem C20_placements_exact : forall pt now g e cs a,
  compile pt now g e = Ok cs -> sat cs a = true ->
  placements_exact pt now e (populate pt now a e) /\
  (forall pl, In pl (populate pt now a e) -> a (VInd (pl_name pl)) = 1).
Proof. exact placements_are_exact. Qed.
Print Assumptions C20_placements_exact.

(* in the model itself a parsed Choose holds nothing when unsatisfied and exactly its amount when satisfied *)
Theorem C20_choose_amounts : forall pt now g e cs a n ps am s d u,
  compile pt now g e = Ok cs -> sat cs a = true ->
  In (Choose n ps am s d u) (subs e) -> is_pu (parse pt now (Choose n ps am s d u)) = true ->
  (a (VInd n) = 0 /\ forall q, In q (sched pt ps) -> a (VAlloc n q) = 0) \/
  (a (VInd n) = 1 /\ sumZ (map (fun p => a (VAlloc n p)) (sched pt ps)) = am).
Proof. exact choose_amounts. Qed.
Print Assumptions C20_choose_amounts.

(* Min: every child with a solver indicator has the indicator of the Min (all or none) *)
Theorem C20_min_all_or_none : forall pt now g e cs a n ks,
  compile pt now g e = Ok cs -> sat cs a = true -> In (Min n ks) (subs e) ->
  0 <= a (VInd n) <= 1 /\
  forall k s en u v, In k ks -> parse pt now k = PU s en u (AVar v) -> a v = a (VInd n).
Proof. exact min_all_or_none. Qed.
Print Assumptions C20_min_all_or_none.

(* Max: the indicators of the children sum to the (binary) indicator of the Max: at most one child *)
Theorem C20_max_at_most_one : forall pt now g e cs a n ks,
  compile pt now g e = Ok cs -> sat cs a = true -> In (Max n ks) (subs e) ->
  0 <= a (VInd n) <= 1 /\
  sumZ (map (kid_ind pt now a) ks) = a (VInd n) /\
  (forall k, In k ks -> 0 <= kid_ind pt now a k <= 1) /\
  (forall k1 k2, In k1 ks -> In k2 ks -> k1 <> k2 -> ~ (kid_ind pt now a k1 = 1 /\ kid_ind pt now a k2 = 1)).
Proof. exact max_at_most_one. Qed.
Print Assumptions C20_max_at_most_one.

(* Max at the level of the read-back: all placements named after children of one Max carry one name,
   and the read-back has one placement per name (node identifiers distinct) *)
Theorem C20_max_placements : forall pt now g e cs a,
  compile pt now g e = Ok cs -> sat cs a = true -> unique_ids e -> max_ok e (populate pt now a e).
Proof. exact max_placements. Qed.
Print Assumptions C20_max_placements.
Theorem C20_one_placement_per_name : forall pt now a e, NoDup (map pl_name (populate pt now a e)).
Proof. exact populate_names_nodup. Qed.
Print Assumptions C20_one_placement_per_name.

(* LessThan whose children are a Choose or a Max of Chooses (the shape the Python front-end emits): if
   the LessThan was lowered with utility, a satisfied Choose of the first child ends before a satisfied
   Choose of the second child starts.  PARTIAL: the statement for arbitrary children is false (F14). *)
Theorem C20_lessthan_partial : forall pt now g e cs a n x y,
  compile pt now g e = Ok cs -> sat cs a = true -> wf_times e ->
  In (LessThan n x y) (subs e) -> is_pu (parse pt now (LessThan n x y)) = true ->
  forall n1 ps1 am1 s1 d1 u1 n2 ps2 am2 s2 d2 u2,
    inside (Choose n1 ps1 am1 s1 d1 u1) x -> inside (Choose n2 ps2 am2 s2 d2 u2) y ->
    is_pu (parse pt now (Choose n1 ps1 am1 s1 d1 u1)) = true -> a (VInd n1) = 1 ->
    is_pu (parse pt now (Choose n2 ps2 am2 s2 d2 u2)) = true -> a (VInd n2) = 1 ->
    s1 + d1 <= s2.
Proof. exact lessthan_simple. Qed.
Print Assumptions C20_lessthan_partial.

(* the same at the level of the read-back: for every LessThan whose children are a Choose or a Max, every
   placement named after a Choose of the first child ends before every placement named after a Choose
   of the second child starts (a placement reaches the root only through ancestors lowered with utility) *)
Theorem C20_lessthan_placements_partial : forall pt now g e cs a,
  compile pt now g e = Ok cs -> sat cs a = true -> unique_ids e -> wf_times e ->
  lt_ok_simple e (populate pt now a e).
Proof. exact lessthan_simple_placements. Qed.
Print Assumptions C20_lessthan_placements_partial.

(* finding F14: the LessThan ordering of the read-back placements is NOT guaranteed in general *)
Theorem C20_lessthan_refuted :
  exists pt now g e cs a, compile pt now g e = Ok cs /\ sat cs a = true /\ alignedb g e = true /\
    lt_okb e (populate pt now a e) = false.
Proof. exact lessthan_refuted. Qed.
Print Assumptions C20_lessthan_refuted.

(* coarser discretisation: every solution of the model compiled with granularity m*g is a solution of
   the model compiled with g, with the same objective value: coarsening can only lose utility; its
   solutions are valid by C20_capacity *)
Theorem C20_coarse : forall pt now g g' m e cs cs' a,
  0 < g -> 0 < m -> g' = m * g ->
  compile pt now g e = Ok cs -> compile pt now g' e = Ok cs' ->
  wf_in pt g' e -> aligned g' e -> sat cs' a = true ->
  sat cs a = true /\ objective_value cs a = objective_value cs' a.
Proof. exact coarser_shrinks. Qed.
Print Assumptions C20_coarse.

(* finding F14b: a trivially satisfied (constant-path) LessThan over an unsatisfied variable-path child *)
Theorem C20_lessthan_refuted_b :
  exists pt now g e cs a, compile pt now g e = Ok cs /\ sat cs a = true /\ alignedb g e = true /\
    lt_okb e (populate pt now a e) = false.
Proof. exact lessthan_refuted_b. Qed.
Print Assumptions C20_lessthan_refuted_b.

(* the utility reported by populateResults is the value of the model objective *)
Theorem C20_utility_is_objective : forall pt now g e cs a,
  compile pt now g e = Ok cs -> sol_util (solve pt now a e) = objective_value cs a.
Proof. exact utility_is_objective. Qed.
Print Assumptions C20_utility_is_objective.

(* the monitor applied to the implementation's placements decides the statement of C20_placements_exact *)
Theorem C20_monitor_exact : forall pt now e pls,
  placements_exactb pt now e pls = true <-> placements_exact pt now e pls.
Proof. exact placements_exactb_iff. Qed.
Print Assumptions C20_monitor_exact.
Theorem C20_monitor_capacity : forall pt e pls, capacity_okb pt e pls = true <-> capacity_at_starts pt e pls.
Proof. exact capacity_okb_iff. Qed.
Print Assumptions C20_monitor_capacity.
(* although it looks at the start times only, the capacity monitor decides capacity at EVERY time *)
Theorem C20_monitor_capacity_all_times : forall pt e pls,
  amounts_nonneg e pls -> capacity_okb pt e pls = true ->
  forall p q av, In (p, q, av) pt -> 0 <= q -> forall tau, usage pls p tau + alloc_usage e p tau <= q.
Proof. exact capacity_monitor_all_times. Qed.
Print Assumptions C20_monitor_capacity_all_times.
Theorem C20_monitor_max : forall e pls, max_okb e pls = true <-> max_ok e pls.
Proof. exact max_okb_iff. Qed.
Print Assumptions C20_monitor_max.
Theorem C20_monitor_lessthan : forall e pls, lt_okb e pls = true <-> lt_ok e pls.
Proof. exact lt_okb_iff. Qed.
Print Assumptions C20_monitor_lessthan.
(* the structure monitor holds on the model's own read-back (so a failure on the C++ read-back is a
   difference of the implementation, never of the model) *)
Theorem C20_structure_monitor_holds : forall pt now g e cs a,
  compile pt now g e = Ok cs -> sat cs a = true -> unique_ids e ->
  structure_okb pt now e (populate pt now a e) = true.
Proof. exact structure_monitor_holds. Qed.
Print Assumptions C20_structure_monitor_holds.
(* the Min monitor on the read-back (applied to the lowerings that are checked, not modelled: optimisation
   passes, ranges, WindowedChoose - always against the ORIGINAL tree): of the members of a Min that contain
   Choose leaves, either none or every one has a placement *)
Theorem C20_monitor_min : forall e pls, min_okb e pls = true <-> min_ok e pls.
Proof. exact min_okb_iff. Qed.
Print Assumptions C20_monitor_min.
