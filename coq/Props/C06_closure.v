(* C06, clause (d): cancellation is closed downstream.  Only statements; proofs in Proofs/TaskGraphP*.v.
   Model: Model/TaskGraph.v tg_cancel (TaskGraph.cancel as it is now: descendants in topological order,
   a regular task is cancelled when one of its parents was cancelled by this request, a terminal task
   when all of its parents are CANCELLED). *)
From Coq Require Import ZArith Bool List.
Import ListNotations.
From Verif Require Import Model.Val Gen.Src_Task Gen.Src_TaskGraph Model.TaskGraph
  Proofs.TaskGraphP Proofs.TaskGraphP1 Proofs.TaskGraphP2 Proofs.TaskGraphP3 Proofs.TaskGraphP4.
Open Scope Z_scope.

(* `doomed g t` (Proofs/TaskGraphP1.v): least set containing t, every non-terminal child of a doomed
   task, and every terminal child of a doomed task all of whose parents are doomed or already CANCELLED.
   `cancel_closed g`: the state is closed under earlier cancellations (every non-terminal child of a
   CANCELLED task is CANCELLED; a terminal task whose parents are all CANCELLED is CANCELLED). *)

(* the request cancels exactly the doomed tasks that were not yet cancelled, and touches nothing else *)
Theorem C06_closure_exact : forall g t time g' cs, tg_cancel g t time = (g', Ok cs) -> cancel_closed g ->
  (forall d, In d cs <-> doomed g t d /\ tg_state g d <> TS_CANCELLED) /\
  (forall d, doomed g t d -> tg_state g' d = TS_CANCELLED) /\
  (forall d, ~ doomed g t d -> tg_task g' d = tg_task g d) /\
  cancel_post g g' cs.
Proof. exact tg_cancel_closure. Qed.
Print Assumptions C06_closure_exact.

(* DESIGN.md statement *)
Theorem C06_closure : forall g t time g' cs, tg_cancel g t time = (g', Ok cs) -> cancel_closed g ->
  forall d, doomed g t d -> tg_state g' d = TS_CANCELLED.
Proof. intros g t time g' cs H CC. exact (proj1 (proj2 (tg_cancel_closure g t time g' cs H CC))). Qed.
Print Assumptions C06_closure.

(* without the invariant: the request cancels exactly the set `hit` (what the traversal reaches) *)
Theorem C06_closure_traversal : forall g t time g' cs, tg_cancel g t time = (g', Ok cs) ->
  wf g /\ In t (tg_nodes g) /\ (exists order, topo_ok g order) /\
  cancel_post g g' cs /\ (forall n, In n cs <-> hit g t n).
Proof. exact tg_cancel_exact. Qed.
Print Assumptions C06_closure_traversal.

(* a doomed task in a non-cancellable state (RUNNING, ...) makes the request fail loudly (ValueError,
   Err 1); other errors: 4 refused input, 6 cyclic graph, 7 fuel of the model *)
Theorem C06_closure_errors : forall g t time g' e, tg_cancel g t time = (g', Err e) ->
  (e = 4 /\ g' = g) \/ (e = 6 /\ g' = g) \/ e = 7 \/
  (e = 1 /\ exists c, hit g t c /\ ~ cancellable (tg_state g c)).
Proof. exact tg_cancel_err. Qed.
Print Assumptions C06_closure_errors.
Theorem C06_closure_not_skipped : forall g t time d, cancel_closed g -> doomed g t d ->
  tg_state g d <> TS_CANCELLED -> ~ cancellable (tg_state g d) ->
  forall g' cs, tg_cancel g t time <> (g', Ok cs).
Proof. exact tg_cancel_not_skipped. Qed.
Print Assumptions C06_closure_not_skipped.

(* the invariant is kept, so the theorem applies to every later request *)
Theorem C06_closure_invariant : forall g t time g' cs, tg_cancel g t time = (g', Ok cs) ->
  cancel_closed g -> cancel_closed g'.
Proof. exact tg_cancel_keeps_closed. Qed.
Print Assumptions C06_closure_invariant.

(* topological_sort puts every node once, parents first (what the traversal relies on) *)
Theorem C06_closure_order : forall g order, wf g -> topo_sort g = Ok order -> topo_ok g order.
Proof. exact topo_sort_ok. Qed.
Print Assumptions C06_closure_order.

(* the monitors decide the property *)
Theorem C06_closure_monitor : forall g t cs after, wf g -> In t (tg_nodes g) -> (exists order, topo_ok g order) ->
  (closure_check (g, t, cs, after) = true <-> closure_obs g t cs after).
Proof. exact closure_check_iff. Qed.
Print Assumptions C06_closure_monitor.
Theorem C06_closure_monitor_accepts_model : forall g t time g' cs, tg_cancel g t time = (g', Ok cs) -> cancel_closed g ->
  closure_check (g, t, cs, map (fun n => (n, task_state_value (tg_state g' n))) (tg_nodes g)) = true.
Proof. exact closure_check_accepts_model. Qed.
Print Assumptions C06_closure_monitor_accepts_model.
Theorem C06_closure_doomed_fix : forall g t, wf g -> In t (tg_nodes g) -> (exists order, topo_ok g order) ->
  forall d, In d (doomed_fix g t) <-> doomed g t d.
Proof. exact doomed_fix_iff. Qed.
Print Assumptions C06_closure_doomed_fix.

(* ---- the hypotheses are satisfiable: X1 -> [W, T], X2 -> [T], T terminal, X3 cancelled earlier with
   its child V; cancelling X1 cancels W and leaves the join T (X2 is alive) ---- *)
Definition ex_task (s : task_state) (term : bool) : ttask := mk_ttask s (-1) 100 0 (-1) 16 term false (-1) [5].
Definition ex_g : tgraph :=
  mkTG [(1, [3; 4]); (2, [4]); (3, []); (4, []); (5, [6]); (6, [])]
       [(1, ex_task TS_RELEASED false); (2, ex_task TS_VIRTUAL false); (3, ex_task TS_VIRTUAL false);
        (4, ex_task TS_VIRTUAL true); (5, ex_task TS_CANCELLED false); (6, ex_task TS_CANCELLED false)] 16.
Example C06_closure_example :
  cancel_closed ex_g /\ exists g', tg_cancel ex_g 1 7 = (g', Ok [1; 3]) /\
  tg_state g' 3 = TS_CANCELLED /\ tg_state g' 4 = TS_VIRTUAL.
Proof.
  split.
  - apply cancel_closedb_iff; [apply tg_ok_wf; vm_compute; reflexivity | vm_compute; reflexivity].
  - eexists. split; [vm_compute; reflexivity|]. split; vm_compute; reflexivity.
Qed.

(* the invariant is needed: P cancelled earlier by something else than TaskGraph.cancel (its child C was
   left VIRTUAL); cancelling A -> P does not reach C although C is doomed.  Such a state is not produced by
   TaskGraph.cancel (C06_closure_invariant), the only caller of Task.cancel in /repo. *)
Definition ex_open : tgraph :=
  mkTG [(1, [2]); (2, [3]); (3, [])]
       [(1, ex_task TS_VIRTUAL false); (2, ex_task TS_CANCELLED false); (3, ex_task TS_VIRTUAL false)] 16.
Theorem C06_closure_needs_invariant_refuted :
  exists g t time g' cs d, tg_cancel g t time = (g', Ok cs) /\ doomed g t d /\ tg_state g' d <> TS_CANCELLED.
Proof.
  exists ex_open, 1, 7. eexists. exists [1], 3. split; [vm_compute; reflexivity|]. split.
  - apply doomed_child with (p := 2); [|vm_compute; auto | reflexivity].
    apply doomed_child with (p := 1); [constructor | vm_compute; auto | reflexivity].
  - vm_compute. discriminate.
Qed.
Print Assumptions C06_closure_needs_invariant_refuted.
