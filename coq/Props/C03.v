(* C03 — simulated execution takes exactly the chosen strategy's runtime; the clock never moves
   backwards; events are handled at their own time. *)
From Coq Require Import ZArith Bool List.
Import ListNotations.
From Verif Require Import Model.Val Gen.Src_Task Gen.Src_Event Model.EventQ Model.Sim Model.SimQ Proofs.SimP Proofs.SimP2 Proofs.SimQP.
Open Scope Z_scope.

Theorem C03_clock_monotone : forall W s e s', sim_step W s e = Some s' -> s_clock s <= s_clock s'.
Proof. exact clock_never_goes_back. Qed.
Print Assumptions C03_clock_monotone.

Theorem C03_events_at_their_time : forall W s ty time t s', sim_step W s (EHandle ty time t) = Some s' -> time = s_clock s.
Proof. exact events_handled_at_their_time. Qed.
Print Assumptions C03_events_at_their_time.

Theorem C03_completion_exact : forall W l s t x,
  cap_nonneg W -> sim_exec W sim_init l = Some s -> s_tasks s t = Some x -> st x = TS_COMPLETED ->
  t_completion_time (t_dyn x) = t_start_time (t_dyn x) + t_drawn x /\ t_runtime x <= t_drawn x /\
  t_completion_time (t_dyn x) <= s_clock s.
Proof. exact completion_is_start_plus_runtime. Qed.
Print Assumptions C03_completion_exact.

Theorem C03_runtime_within_variance : forall W l s t x,
  cap_nonneg W -> sim_exec W sim_init l = Some s -> s_tasks s t = Some x -> t_starts x = 1 ->
  t_runtime x <= t_drawn x /\ 100 * t_drawn x <= 100 * t_runtime x + t_runtime x * w_variance W + 50.
Proof. exact runtime_within_variance. Qed.
Print Assumptions C03_runtime_within_variance.

(* while RUNNING the task holds its worker (C01_resident_iff_running) and the clock stays within
   [start, start + drawn]; its remaining time is exactly what is left *)
Theorem C03_running_progress : forall W l s t x,
  cap_nonneg W -> sim_exec W sim_init l = Some s -> s_tasks s t = Some x -> st x = TS_RUNNING ->
  t_start_time (t_dyn x) <= s_clock s <= t_start_time (t_dyn x) + t_drawn x /\
  t_remaining_time (t_dyn x) = t_start_time (t_dyn x) + t_drawn x - s_clock s.
Proof. exact running_progress. Qed.
Print Assumptions C03_running_progress.

Theorem C03_holds_worker_while_running : forall W l s t x,
  cap_nonneg W -> sim_exec W sim_init l = Some s -> s_cur s = None -> s_tasks s t = Some x ->
  (In t (ids (s_res s)) <-> st x = TS_RUNNING).
Proof. exact resident_iff_running. Qed.
Print Assumptions C03_holds_worker_while_running.

(* ---- with the event queue in the machine (Model/SimQ.v) *)
(* no pending event is ever in the past: the main loop never has to step backwards *)
Theorem C03_pending_never_in_the_past : forall W l q p,
  cap_nonneg W -> sq_exec W sq_init l = Some q -> In p (q_pending q) -> s_clock (q_sim q) <= pe_time p.
Proof. exact pending_never_in_the_past. Qed.
Print Assumptions C03_pending_never_in_the_past.

(* events take effect in key order: the event popped is pending, minimal under the documented key
   (time, type priority, task name) among all pending events, and its time is the clock *)
Theorem C03_popped_is_minimal_at_clock : forall W q p q', sq_step W q (QPop p) = Some q' ->
  mem_pev p (q_pending q) = true /\ minimal p (q_pending q) = true /\ pe_time p = s_clock (q_sim q).
Proof. exact popped_is_minimal_at_clock. Qed.
Print Assumptions C03_popped_is_minimal_at_clock.

Theorem C03_handled_is_popped : forall W q ty time t q',
  sq_step W q (QSim (EHandle ty time t)) = Some q' -> exists p, q_popped q = Some p /\ handle_matches p ty time t = true.
Proof. exact handled_is_popped. Qed.
Print Assumptions C03_handled_is_popped.

(* a task never starts earlier than the time its scheduler chose *)
Theorem C03_start_not_before_chosen_time : forall W l q t time draw q',
  cap_nonneg W -> sq_exec W sq_init l = Some q -> sq_step W q (QSim (EStart t time draw)) = Some q' ->
  ptime_of (q_sim q) t <= time /\ time = s_clock (q_sim q).
Proof. exact start_not_before_chosen_time. Qed.
Print Assumptions C03_start_not_before_chosen_time.

(* every theorem above about the plain machine applies to runs of the machine with the queue *)
Theorem C03_queue_runs_are_machine_runs : forall W l q, cap_nonneg W -> sq_exec W sq_init l = Some q -> Inv W (q_sim q).
Proof. exact simq_runs_are_sim_runs. Qed.
Print Assumptions C03_queue_runs_are_machine_runs.
