(* C10 (Z3 part) — for EVERY satisfying assignment of the constraint system that
   schedulers/z3_scheduler.py asserts: exactly one decision per offered task (so at most one per task,
   every offered task answered, nothing else decided); each placement names an existing worker of the
   named pool, starts no earlier than now and than the task's release; two tasks that may run in
   parallel, are placed on one worker and whose executions touch hold disjoint slots of every resource
   key they share.  Only statements; proofs are in Proofs/Z3P*.v.  `schedule() changes nothing` is checked
   on the implementation (getters before/after). *)
From Coq Require Import ZArith Bool List.
Import ListNotations.
From Verif Require Import Model.Val Gen.Src_Z3 Model.Z3Model Proofs.Z3P Proofs.Z3P2 Proofs.Z3P3 Proofs.Z3P4 Proofs.Z3P5 Proofs.Z3P6 Proofs.Z3P7 Proofs.Z3P9.
Open Scope Z_scope.

Theorem C10_z3_decisions : forall ins fs a, gen_z3 ins = Ok fs -> sat fs a = true ->
  exists ds, readback ins a = Ok ds /\ Forall2 (decision_for ins) (i_tasks ins) ds.
Proof. exact c10_z3_decisions. Qed.
Print Assumptions C10_z3_decisions.

Theorem C10_z3_one_decision_each : forall ins fs a ds, gen_z3 ins = Ok fs -> sat fs a = true ->
  readback ins a = Ok ds -> map dec_task ds = map zt_id (i_tasks ins).
Proof. exact c10_z3_one_decision_each. Qed.
Print Assumptions C10_z3_one_decision_each.

Theorem C10_z3_at_most_one_decision_per_task : forall ins fs a ds, gen_z3 ins = Ok fs -> sat fs a = true ->
  readback ins a = Ok ds -> NoDup (map zt_id (i_tasks ins)) -> NoDup (map dec_task ds).
Proof. exact c10_z3_at_most_one. Qed.
Print Assumptions C10_z3_at_most_one_decision_per_task.

Theorem C10_z3_placed_facts : forall ins fs a t, gen_z3 ins = Ok fs -> sat fs a = true -> In t (i_tasks ins) ->
  truth a (VPlaced (zt_id t)) = true ->
  any_compatible ins t = true /\ 0 < nworkers ins /\
  (exists k, 0 <= k < nworkers ins /\ worker_bits ins a t = 2 ^ k) /\
  t_start a t >= zt_release t /\ t_start a t >= i_now ins.
Proof. exact placed_facts. Qed.
Print Assumptions C10_z3_placed_facts.

Theorem C10_z3_slots : forall ins fs a, gen_z3 ins = Ok fs -> sat fs a = true ->
  forall k w t1 t2, In (k, w) (indexed_from 0 (i_workers ins)) -> In (t1, t2) (pairs ins) ->
  placed_on ins a t1 k = true -> placed_on ins a t2 k = true -> meets a t1 t2 = true ->
  forall r q, In (r, q) (shared_keys w t1 t2) -> slots_disjoint ins a t1 t2 r q.
Proof. exact c10_z3_slots. Qed.
Print Assumptions C10_z3_slots.

(* the monitors applied to feasible points of the live solver system *)
Theorem C10_z3_decisions_monitor_sound : forall ins fs a, gen_z3 ins = Ok fs -> sat fs a = true -> decisions_ok ins a = true.
Proof. exact decisions_monitor_sound. Qed.
Print Assumptions C10_z3_decisions_monitor_sound.
Theorem C10_z3_slots_monitor : forall ins a, slots_ok ins a = true <->
  (forall k w t1 t2, In (k, w) (indexed_from 0 (i_workers ins)) -> In (t1, t2) (pairs ins) ->
   placed_on ins a t1 k = true -> placed_on ins a t2 k = true -> meets a t1 t2 = true ->
   forall r q, In (r, q) (shared_keys w t1 t2) -> slots_disjoint ins a t1 t2 r q).
Proof. exact slots_ok_iff. Qed.
Print Assumptions C10_z3_slots_monitor.
Theorem C10_z3_slots_monitor_sound : forall ins fs a, gen_z3 ins = Ok fs -> sat fs a = true -> slots_ok ins a = true.
Proof. exact slots_monitor_sound. Qed.
Print Assumptions C10_z3_slots_monitor_sound.

(* worker capacity is never exceeded, at any instant, in any satisfying assignment — for instances whose
   are_dependent pairs are connected through offered parents (wf_inst) and workers with one key per
   resource name and 0 <= available <= total (wf_worker); demand = what the scheduler reckons (fastest
   compatible strategy), capacity = quantity available when schedule() was called *)
Theorem C10_z3_capacity : forall ins fs a, gen_z3 ins = Ok fs -> sat fs a = true -> wf_inst ins ->
  forall k w, In (k, w) (indexed_from 0 (i_workers ins)) -> wf_worker w ->
  forall r tau, load ins a k w r tau <= avail w r.
Proof. exact c10_z3_capacity. Qed.
Print Assumptions C10_z3_capacity.
Theorem C10_z3_capacity_monitor : forall ins a, capacity_ok ins a = true <-> capacity_at_starts ins a.
Proof. exact capacity_ok_iff. Qed.
Print Assumptions C10_z3_capacity_monitor.
Theorem C10_z3_capacity_starts_suffice : forall ins a k w r, 0 <= avail w r -> (forall t, In t (i_tasks ins) -> 0 <= demand w t r) ->
  (forall t, In t (i_tasks ins) -> load ins a k w r (t_start a t) <= avail w r) ->
  forall tau, load ins a k w r tau <= avail w r.
Proof. exact starts_suffice. Qed.
Print Assumptions C10_z3_capacity_starts_suffice.
Theorem C10_z3_capacity_monitor_sound : forall ins fs a, gen_z3 ins = Ok fs -> sat fs a = true -> wf_inst ins ->
  (forall w, In w (i_workers ins) -> wf_worker w) -> capacity_ok ins a = true.
Proof. exact capacity_monitor_sound. Qed.
Print Assumptions C10_z3_capacity_monitor_sound.
(* tasks related by are_dependent get no exclusivity row: they are ordered by the precedence rows *)
Theorem C10_z3_dependent_ordered : forall ins fs a, gen_z3 ins = Ok fs -> sat fs a = true -> wf_inst ins ->
  forall x y, anc ins x y -> truth a (VPlaced (zt_id y)) = true ->
  truth a (VPlaced (zt_id x)) = true /\ t_start a y >= t_start a x + zt_remaining x.
Proof. exact anc_order. Qed.
Print Assumptions C10_z3_dependent_ordered.

(* whenever building the system does not raise it has a model (everything un-placed): check() cannot answer
   unsat, and the hypothesis `sat fs a` of every theorem above is satisfiable on every such instance *)
Theorem C10_z3_always_feasible : forall ins fs, gen_z3 ins = Ok fs -> NoDup (map zt_id (i_tasks ins)) ->
  exists a, sat fs a = true /\ forall t, In t (i_tasks ins) -> truth a (VPlaced (zt_id t)) = false.
Proof. exact z3_always_feasible. Qed.
Print Assumptions C10_z3_always_feasible.

(* FINDINGS FZ3-A / FZ3-B: "returns normally" is false — reachable inputs on which building the system raises *)
Theorem C10_z3_returns_normally_refuted :
  gen_z3 ex_crash_a = Err z3_exception /\ gen_z3 ex_crash_b = Err z3_exception.
Proof. exact c10_z3_returns_normally_refuted. Qed.
Print Assumptions C10_z3_returns_normally_refuted.

(* FINDING FZ3-D: with two keys of one resource name on a worker, capacity can be exceeded *)
Theorem C10_z3_capacity_multikey_refuted : exists fs w,
  gen_z3 ex_multikey = Ok fs /\ sat fs ex_multikey_asg = true /\ nth_error (i_workers ex_multikey) 0 = Some w /\
  load ex_multikey ex_multikey_asg 0 w 0 0 = 6 /\ avail w 0 = 4 /\ capacity_ok ex_multikey ex_multikey_asg = false.
Proof. exact c10_z3_capacity_multikey_refuted. Qed.
Print Assumptions C10_z3_capacity_multikey_refuted.
