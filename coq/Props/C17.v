(* C17 — graph algorithms agree with their definitions.  Only statements; proofs are in
   Proofs/GraphP*.v. *)
From Coq Require Import ZArith Bool List.
Import ListNotations.
From Verif Require Import Model.Val Model.Graph Proofs.GraphPBase Proofs.GraphPDfs Proofs.GraphPTopo Proofs.GraphPDep Proofs.GraphPBfs Proofs.GraphPLong.
Open Scope Z_scope.

(* every graph the constructor can build is well-formed; the constructor never raises *)
Theorem C17_constructor_wf : forall m, exists g, of_mapping m = Ok g /\ wf g.
Proof. exact of_mapping_wf. Qed.
Print Assumptions C17_constructor_wf.

(* depth_first from a node: ends normally (fuel adequate), each node once, exactly the reachable nodes;
   holds for every well-formed graph, cyclic or not *)
Theorem C17_dfs : forall g, wf g -> forall n, In n (nodes g) ->
  exists l, depth_first g (Some n) = (l, 0) /\ NoDup l /\ forall x, In x l <-> reach g n x.
Proof. exact dfs_node_spec. Qed.
Print Assumptions C17_dfs.

(* depth_first(): everything reachable from a source, each node once *)
Theorem C17_dfs_all : forall g, wf g ->
  exists l, depth_first g None = (l, 0) /\ NoDup l /\
    forall x, In x l <-> exists s, In s (get_sources g) /\ reach g s x.
Proof. exact dfs_all_spec. Qed.
Print Assumptions C17_dfs_all.

(* topological_sort: a result is a permutation of the nodes in which every edge goes forward *)
Theorem C17_topo_sound : forall g, wf g -> forall l, topological_sort g = Ok l ->
  Permutation.Permutation l (nodes g) /\ forall u v, edge g u v -> (index_of u l < index_of v l)%nat.
Proof. exact topo_sound. Qed.
Print Assumptions C17_topo_sound.
(* a cycle is reported as the RuntimeError (never a list, never out of fuel) *)
Theorem C17_topo_cycle_error : forall g, wf g -> cyclic g -> topological_sort g = Err E_RUNTIME.
Proof. exact topo_cyclic_err. Qed.
Print Assumptions C17_topo_cycle_error.
(* the only exception is the cycle error and it is raised only on cyclic graphs *)
Theorem C17_topo_error_means_cycle : forall g, wf g -> forall c, topological_sort g = Err c -> c = E_RUNTIME /\ cyclic g.
Proof. exact topo_err_cyclic. Qed.
Print Assumptions C17_topo_error_means_cycle.
(* fuel adequacy / completeness *)
Theorem C17_topo_complete : forall g, wf g -> acyclic g -> exists l, topological_sort g = Ok l.
Proof. exact topo_acyclic_ok. Qed.
Print Assumptions C17_topo_complete.

(* are_dependent on a DAG: true exactly when one node is reachable from the other by at least one
   edge (a node is not dependent on itself: equal depths answer False) *)
Theorem C17_are_dependent : forall g, wf g -> acyclic g -> forall u v, In u (nodes g) -> In v (nodes g) ->
  exists b, are_dependent g u v = Ok b /\ (b = true <-> reachp g u v \/ reachp g v u).
Proof. exact are_dependent_spec. Qed.
Print Assumptions C17_are_dependent.
Theorem C17_are_dependent_cyclic : forall g, wf g -> cyclic g -> forall u v, In u (nodes g) ->
  are_dependent g u v = Err E_RUNTIME.
Proof. exact are_dependent_cyclic. Qed.
Print Assumptions C17_are_dependent_cyclic.
(* node depth: 1 on sources, one more than the deepest (max) / shallowest (min) parent otherwise *)
Theorem C17_node_depth : forall g, wf g -> acyclic g -> forall mx n, In n (nodes g) ->
  exists d, get_node_depth g n mx = Ok d /\
    match parents_of g n with
    | [] => d = 1
    | p :: ps' => exists dp dps, get_node_depth g p mx = Ok dp /\
                    Forall2 (fun q dq => get_node_depth g q mx = Ok dq) ps' dps /\
                    d = fold_mm mx dp dps + 1
    end.
Proof. exact get_node_depth_spec. Qed.
Print Assumptions C17_node_depth.

(* breadth_first() on a DAG without parallel edges: ends normally, every node exactly once, parents first *)
Theorem C17_bfs : forall g, wf g -> simple g -> acyclic g ->
  exists l, breadth_first g None = (l, 0) /\ Permutation.Permutation l (nodes g) /\
    forall u v, edge g u v -> (index_of u l < index_of v l)%nat.
Proof. exact bfs_spec. Qed.
Print Assumptions C17_bfs.

(* get_longest_path with positive weights on a non-empty DAG: a real path (gpath) from a source to a
   sink whose total weight is the maximum over all paths of the graph *)
Theorem C17_longest_path : forall g, wf g -> acyclic g -> nodes g <> [] -> forall w, (forall n, 0 < w n) ->
  exists p, longest_path_w w g = Ok p /\ gpath g p /\
    parents_of g (hd 0 p) = [] /\ children_of g (last p 0) = [] /\
    forall q, gpath g q -> sum_w w q <= sum_w w p.
Proof. exact longest_path_pos. Qed.
Print Assumptions C17_longest_path.
(* weights=None (1 for a source, 2 otherwise) *)
Theorem C17_longest_path_default : forall g, wf g -> acyclic g -> nodes g <> [] ->
  exists p, get_longest_path g None = Ok p /\ gpath g p /\
    parents_of g (hd 0 p) = [] /\ children_of g (last p 0) = [] /\
    forall q, gpath g q -> sum_w (default_weight g) q <= sum_w (default_weight g) p.
Proof. exact longest_path_default. Qed.
Print Assumptions C17_longest_path_default.
(* non-negative weights (probability-0 jobs weigh 0): still a real path of maximum weight *)
Theorem C17_longest_path_nonneg : forall g, wf g -> acyclic g -> nodes g <> [] -> forall w, (forall n, 0 <= w n) ->
  exists p, longest_path_w w g = Ok p /\ gpath g p /\ forall q, gpath g q -> sum_w w q <= sum_w w p.
Proof. exact longest_path_max. Qed.
Print Assumptions C17_longest_path_nonneg.
(* the critical-path runtime (weights summed over the longest path) is the maximum path weight *)
Theorem C17_critical_path : forall g, wf g -> acyclic g -> nodes g <> [] -> forall w, (forall n, 0 <= w n) ->
  exists z, critical_path w g = Ok z /\ (exists p, gpath g p /\ sum_w w p = z) /\
            forall q, gpath g q -> sum_w w q <= z.
Proof. exact critical_path_max. Qed.
Print Assumptions C17_critical_path.
Theorem C17_longest_path_cyclic : forall g w, wf g -> cyclic g -> longest_path_w w g = Err E_RUNTIME.
Proof. exact longest_path_cyclic. Qed.
Print Assumptions C17_longest_path_cyclic.
