(* C17 — graph algorithms agree with their definitions.  Only statements; proofs are in
   Proofs/GraphP*.v. *)
From Coq Require Import ZArith Bool List.
Import ListNotations.
From Verif Require Import Model.Val Model.Graph Gen.Src_Graph Proofs.GraphPBridge Proofs.GraphPBase Proofs.GraphPDfs Proofs.GraphPTopo Proofs.GraphPDep Proofs.GraphPBfs Proofs.GraphPLong Proofs.GraphPEx Proofs.GraphPMon Proofs.GraphPRm Proofs.GraphPBfsFrom.
Open Scope Z_scope.

(* every graph the constructor can build is well-formed; the constructor never raises *)
Theorem C17_constructor_wf : forall m, exists g, of_mapping m = Ok g /\ wf g.
Proof. exact of_mapping_wf. Qed.
Print Assumptions C17_constructor_wf.

(* depth_first from a node: ends normally (fuel adequate), each node once, exactly the reachable nodes;
   holds for every well-formed graph, cyclic or not *)
Theorem C17_dfs : forall g, wf g -> forall n, In n (nodes g) ->
  exists l, depth_first g (Some n) = (l, 0) /\ NoDup l /\ forall x, In x l <-> reach g n x.
Proof. exact dfs_node_spec. Qed.
Print Assumptions C17_dfs.

(* depth_first(): everything reachable from a source, each node once *)
Theorem C17_dfs_all : forall g, wf g ->
  exists l, depth_first g None = (l, 0) /\ NoDup l /\
    forall x, In x l <-> exists s, In s (get_sources g) /\ reach g s x.
Proof. exact dfs_all_spec. Qed.
Print Assumptions C17_dfs_all.

(* topological_sort: a result is a permutation of the nodes in which every edge goes forward *)
Theorem C17_topo_sound : forall g, wf g -> forall l, topological_sort g = Ok l ->
  Permutation.Permutation l (nodes g) /\ forall u v, edge g u v -> (index_of u l < index_of v l)%nat.
Proof. exact topo_sound. Qed.
Print Assumptions C17_topo_sound.
(* a cycle is reported as the RuntimeError (never a list, never out of fuel) *)
Theorem C17_topo_cycle_error : forall g, wf g -> cyclic g -> topological_sort g = Err E_RUNTIME.
Proof. exact topo_cyclic_err. Qed.
Print Assumptions C17_topo_cycle_error.
(* the only exception is the cycle error and it is raised only on cyclic graphs *)
Theorem C17_topo_error_means_cycle : forall g, wf g -> forall c, topological_sort g = Err c -> c = E_RUNTIME /\ cyclic g.
Proof. exact topo_err_cyclic. Qed.
Print Assumptions C17_topo_error_means_cycle.
(* fuel adequacy / completeness *)
Theorem C17_topo_complete : forall g, wf g -> acyclic g -> exists l, topological_sort g = Ok l.
Proof. exact topo_acyclic_ok. Qed.
Print Assumptions C17_topo_complete.

(* are_dependent on a DAG: true exactly when one node is reachable from the other by at least one
   edge (a node is not dependent on itself: equal depths answer False) *)
Theorem C17_are_dependent : forall g, wf g -> acyclic g -> forall u v, In u (nodes g) -> In v (nodes g) ->
  exists b, are_dependent g u v = Ok b /\ (b = true <-> reachp g u v \/ reachp g v u).
Proof. exact are_dependent_spec. Qed.
Print Assumptions C17_are_dependent.
Theorem C17_are_dependent_cyclic : forall g, wf g -> cyclic g -> forall u v, In u (nodes g) ->
  are_dependent g u v = Err E_RUNTIME.
Proof. exact are_dependent_cyclic. Qed.
Print Assumptions C17_are_dependent_cyclic.
(* node depth: 1 on sources, one more than the deepest (max) / shallowest (min) parent otherwise *)
Theorem C17_node_depth : forall g, wf g -> acyclic g -> forall mx n, In n (nodes g) ->
  exists d, get_node_depth g n mx = Ok d /\
    match parents_of g n with
    | [] => d = 1
    | p :: ps' => exists dp dps, get_node_depth g p mx = Ok dp /\
                    Forall2 (fun q dq => get_node_depth g q mx = Ok dq) ps' dps /\
                    d = fold_mm mx dp dps + 1
    end.
Proof. exact get_node_depth_spec. Qed.
Print Assumptions C17_node_depth.

(* breadth_first() on a DAG without parallel edges: ends normally, every node exactly once, parents first *)
Theorem C17_bfs : forall g, wf g -> simple g -> acyclic g ->
  exists l, breadth_first g None = (l, 0) /\ Permutation.Permutation l (nodes g) /\
    forall u v, edge g u v -> (index_of u l < index_of v l)%nat.
Proof. exact bfs_spec. Qed.
Print Assumptions C17_bfs.

(* get_longest_path with positive weights on a non-empty DAG: a real path (gpath) from a source to a
   sink whose total weight is the maximum over all paths of the graph *)
Theorem C17_longest_path : forall g, wf g -> acyclic g -> nodes g <> [] -> forall w, (forall n, 0 < w n) ->
  exists p, longest_path_w w g = Ok p /\ gpath g p /\
    parents_of g (hd 0 p) = [] /\ children_of g (last p 0) = [] /\
    forall q, gpath g q -> sum_w w q <= sum_w w p.
Proof. exact longest_path_pos. Qed.
Print Assumptions C17_longest_path.
(* weights=None (1 for a source, 2 otherwise) *)
Theorem C17_longest_path_default : forall g, wf g -> acyclic g -> nodes g <> [] ->
  exists p, get_longest_path g None = Ok p /\ gpath g p /\
    parents_of g (hd 0 p) = [] /\ children_of g (last p 0) = [] /\
    forall q, gpath g q -> sum_w (default_weight g) q <= sum_w (default_weight g) p.
Proof. exact longest_path_default. Qed.
Print Assumptions C17_longest_path_default.
(* non-negative weights (probability-0 jobs weigh 0): still a real path of maximum weight *)
Theorem C17_longest_path_nonneg : forall g, wf g -> acyclic g -> nodes g <> [] -> forall w, (forall n, 0 <= w n) ->
  exists p, longest_path_w w g = Ok p /\ gpath g p /\ forall q, gpath g q -> sum_w w q <= sum_w w p.
Proof. exact longest_path_max. Qed.
Print Assumptions C17_longest_path_nonneg.
(* the critical-path runtime (weights summed over the longest path) is the maximum path weight *)
Theorem C17_critical_path : forall g, wf g -> acyclic g -> nodes g <> [] -> forall w, (forall n, 0 <= w n) ->
  exists z, critical_path w g = Ok z /\ (exists p, gpath g p /\ sum_w w p = z) /\
            forall q, gpath g q -> sum_w w q <= z.
Proof. exact critical_path_max. Qed.
Print Assumptions C17_critical_path.
Theorem C17_longest_path_cyclic : forall g w, wf g -> cyclic g -> longest_path_w w g = Err E_RUNTIME.
Proof. exact longest_path_cyclic. Qed.
Print Assumptions C17_longest_path_cyclic.

(* sources / sinks / parents / children match the edges *)
Theorem C17_sources : forall g, wf g -> forall x, In x (get_sources g) <-> In x (nodes g) /\ forall u, ~ edge g u x.
Proof. exact sources_spec. Qed.
Print Assumptions C17_sources.
Theorem C17_sinks : forall g x, In x (get_sinks g) <-> In x (nodes g) /\ forall v, ~ edge g x v.
Proof. exact sinks_spec. Qed.
Print Assumptions C17_sinks.
Theorem C17_parents_children : forall g, wf g -> forall n, In n (nodes g) ->
  exists ps cs, get_parents g n = Ok ps /\ get_children g n = Ok cs /\
    (forall u, In u ps <-> edge g u n) /\ (forall v, In v cs <-> edge g n v).
Proof. exact parents_children_spec. Qed.
Print Assumptions C17_parents_children.

(* the hypotheses used above are satisfiable by a non-trivial graph (two sources, diamond, skip edge) *)
Theorem C17_hypotheses_satisfiable : wf ex_g /\ acyclic ex_g /\ simple ex_g /\ nodes ex_g <> [] /\
  depth_first ex_g (Some 0) = ([0; 3; 5; 2; 1], 0) /\
  breadth_first ex_g None = ([0; 4; 1; 2; 3; 5], 0) /\
  are_dependent ex_g 4 5 = Ok true /\ are_dependent ex_g 4 1 = Ok false /\ are_dependent ex_g 1 2 = Ok false /\
  get_node_depth ex_g 3 true = Ok 3 /\ get_node_depth ex_g 3 false = Ok 2 /\
  longest_path_w (fun n => if n =? 2 then 5 else 1) ex_g = Ok [0; 2; 3; 5] /\
  critical_path (fun n => if n =? 2 then 5 else 1) ex_g = Ok 8 /\
  get_longest_path ex_g None = Ok [0; 1; 3; 5].
Proof. exact ex_hypotheses. Qed.
Print Assumptions C17_hypotheses_satisfiable.
Theorem C17_cyclic_satisfiable : wf ex_c /\ cyclic ex_c /\ topological_sort ex_c = Err E_RUNTIME /\
  are_dependent ex_c 0 1 = Err E_RUNTIME /\ depth_first ex_c (Some 3) = ([3; 0; 1; 2], 0).
Proof. exact ex_cyclic. Qed.
Print Assumptions C17_cyclic_satisfiable.

(* ---- statements that are FALSE of the code as written (findings, witnesses replayed on /repo by the check) *)
(* "breadth_first yields every node once" fails when the mapping repeats a child (parallel edge) *)
Theorem C17_bfs_once_parallel_edges_refuted :
  exists g, wf g /\ acyclic g /\ exists l, breadth_first g None = (l, 0) /\ ~ NoDup l.
Proof. exact bfs_once_parallel_edges_refuted. Qed.
Print Assumptions C17_bfs_once_parallel_edges_refuted.
(* "breadth_first(n) yields the nodes reachable from n" fails when a descendant also has an ancestor of n as parent *)
Theorem C17_bfs_from_node_reachable_refuted :
  exists g n x, wf g /\ simple g /\ acyclic g /\ reach g n x /\
    exists l, breadth_first g (Some n) = (l, 0) /\ ~ In x l.
Proof. exact bfs_from_node_reachable_refuted. Qed.
Print Assumptions C17_bfs_from_node_reachable_refuted.
(* with a zero weight the longest path need not start at a source / end at a sink (outside the property's
   quantifier "positive weights"; the maximality part still holds: C17_longest_path_nonneg) *)
Theorem C17_longest_path_zero_weight_source_refuted :
  exists g w, wf g /\ acyclic g /\ (forall n, 0 <= w n) /\
    exists p, longest_path_w w g = Ok p /\ parents_of g (hd 0 p) <> [].
Proof. exact longest_path_zero_weight_source_refuted. Qed.
Print Assumptions C17_longest_path_zero_weight_source_refuted.

(* ---- the monitors applied to the implementation's outputs decide the statements above *)
Theorem C17_monitor_topo : forall m l, mon (MTopo m l) = true <->
  exists g, of_mapping m = Ok g /\ acyclic g /\ Permutation.Permutation l (nodes g) /\
            forall u v, edge g u v -> (index_of u l < index_of v l)%nat.
Proof. exact mon_MTopo_spec. Qed.
Print Assumptions C17_monitor_topo.
Theorem C17_monitor_topo_error : forall m c, mon (MTopoErr m c) = true <->
  exists g, of_mapping m = Ok g /\ c = E_RUNTIME /\ cyclic g.
Proof. exact mon_MTopoErr_spec. Qed.
Print Assumptions C17_monitor_topo_error.
Theorem C17_monitor_bfs : forall m l st, mon (MBfs m l st) = true <->
  exists g, of_mapping m = Ok g /\ st = 0 /\ Permutation.Permutation l (nodes g) /\
            forall u v, edge g u v -> (index_of u l < index_of v l)%nat.
Proof. exact mon_MBfs_spec. Qed.
Print Assumptions C17_monitor_bfs.
Theorem C17_monitor_dfs : forall g, wf g -> forall n l, In n (nodes g) ->
  mon_dfs g n l = true <-> NoDup l /\ forall x, In x l <-> reach g n x.
Proof. exact mon_dfs_spec. Qed.
Print Assumptions C17_monitor_dfs.
Theorem C17_monitor_dependent : forall m u v tag b, mon (MDep m u v tag b) = true <->
  exists g, of_mapping m = Ok g /\ tag = 0 /\ (b = 1 <-> reachp g u v \/ reachp g v u).
Proof. exact mon_MDep_spec. Qed.
Print Assumptions C17_monitor_dependent.
(* both references of the maximum path weight (path enumeration on graphs of <= 9 nodes, n rounds of
   relaxation over a table on larger ones) decide the statement of C17_longest_path *)
Theorem C17_monitor_longest : forall g, wf g -> forall w, (forall n, 0 <= w n) -> acyclic g -> forall enum p,
  mon_longest_by enum w g p = true <->
  gpath g p /\ (forall u, ~ edge g u (hd 0 p)) /\ (forall v, ~ edge g (last p 0) v) /\
  forall q, gpath g q -> sum_w w q <= sum_w w p.
Proof. exact mon_longest_enum_spec. Qed.
Print Assumptions C17_monitor_longest.
Theorem C17_monitor_critical : forall m wt z, (forall n, 0 <= w_of wt n) -> mon (MCrit m wt z) = true ->
  exists g, of_mapping m = Ok g /\ (acyclic g -> nodes g <> [] ->
    (exists p, gpath g p /\ sum_w (w_of wt) p = z) /\ forall q, gpath g q -> sum_w (w_of wt) q <= z).
Proof. exact mon_MCrit_spec. Qed.
Print Assumptions C17_monitor_critical.
Theorem C17_monitor_depth : forall m n d, mon (MDepth m n d) = true ->
  exists g, of_mapping m = Ok g /\ (acyclic g -> In n (nodes g) -> get_node_depth g n true = Ok d).
Proof. exact mon_MDepth_spec. Qed.
Print Assumptions C17_monitor_depth.

(* the graph stays well-formed under add_child / add_node (JobGraph.add_job, add_child of the loader) *)
Theorem C17_add_child_wf : forall g n c g', wf g -> add_child g n c = Ok g' -> wf g'.
Proof. exact wf_add_child. Qed.
Print Assumptions C17_add_child_wf.
Theorem C17_add_node_wf : forall g n cs, wf g -> exists g', add_node g n cs = Ok g' /\ wf g'.
Proof. exact add_node_ok. Qed.
Print Assumptions C17_add_node_wf.
(* Graph.remove (dead code: only TaskGraph.clean calls it) does NOT keep the graph well-formed: the removed
   node stays in its parents' children lists and the traversals raise *)
Theorem C17_remove_not_wf_refuted :
  exists g n g', wf g /\ remove_node g n = Ok g' /\ ~ wf g' /\
    topological_sort g' = Err E_KEY /\ depth_first g' None = ([0; 2; 1], E_VALUE) /\
    breadth_first g' None = ([], E_VALUE).
Proof. exact remove_not_wf_refuted. Qed.
Print Assumptions C17_remove_not_wf_refuted.

(* ---- bridge to the expressions regenerated from workload/graph.py (Gen/Src_Graph.v) *)
Theorem C17_bridge_longest_path : forall w n c (st : lp_state) lc ln,
  lookup c (fst st) = Some lc -> lookup n (fst st) = Some ln ->
  lp_relax w n (Ok st) c =
  if Src_Graph.lp_test lc ln (w c) then Ok (set_key c (Src_Graph.lp_new ln (w c)) (fst st), set_key c n (snd st)) else Ok st.
Proof. exact bridge_lp_relax. Qed.
Print Assumptions C17_bridge_longest_path.
Theorem C17_bridge_backtrack : forall f w pred cur cum path,
  lp_back (S f) w pred cur cum path =
  if Src_Graph.lp_continue cum then match lookup cur pred with
                          | None => Err E_KEY
                          | Some p => lp_back f w pred p (cum - w p) (path ++ [p])
                          end
  else Ok (rev path).
Proof. exact bridge_lp_back. Qed.
Print Assumptions C17_bridge_backtrack.
Theorem C17_bridge_default_weight : forall g n,
  default_weight g n = Src_Graph.default_w (match parents_of g n with [] => true | _ => false end).
Proof. exact bridge_default_weight. Qed.
Print Assumptions C17_bridge_default_weight.
Theorem C17_bridge_are_dependent : forall g n1 n2 d1 d2,
  get_node_depth g n1 Src_Graph.depth_default_is_max = Ok d1 -> get_node_depth g n2 Src_Graph.depth_default_is_max = Ok d2 ->
  are_dependent g n1 n2 =
  match Src_Graph.dep_branch d1 d2 with
  | 0 => Ok false
  | 21 => check_dependency g n2 n1
  | _ => check_dependency g n1 n2
  end.
Proof. exact bridge_are_dependent. Qed.
Print Assumptions C17_bridge_are_dependent.
Theorem C17_bridge_depth : forall g mx t x rest d ps, get_parents g x = Ok ps ->
  depth_loop g mx t (x :: rest) d =
  let d' := if Src_Graph.depth_has_parents (Z.of_nat (length ps))
            then set_key x (Src_Graph.depth_step (fold_mm mx (dget d (hd 0 ps)) (map (dget d) (tl ps)))) d else d in
  if t =? x then Ok (dget d' t) else depth_loop g mx t rest d'.
Proof. exact bridge_depth_step. Qed.
Print Assumptions C17_bridge_depth.
Theorem C17_bridge_depth_default : forall d n, lookup n d = None -> dget d n = Src_Graph.depth_source.
Proof. exact bridge_depth_default. Qed.
Print Assumptions C17_bridge_depth_default.
Theorem C17_bridge_visit : forall f g n (s : tstate) m, lookup n (fst s) = Some m ->
  visit (S f) g n s =
  match Src_Graph.visit_dispatch (mark_code m) with
  | 0 => Ok s
  | 1 => Err E_RUNTIME
  | _ => bind (get_children g n) (fun cs =>
         bind (visit_children (visit f g) cs (set_key n Temporary (fst s), snd s)) (fun s2 =>
         Ok (set_key n Permanent (fst s2), snd s2 ++ [n])))
  end.
Proof. exact bridge_visit. Qed.
Print Assumptions C17_bridge_visit.
Theorem C17_bridge_structure :
  Src_Graph.topo_reversed = true /\ Src_Graph.dfs_pops_right_and_skips_visited = true /\ Src_Graph.bfs_pops_left_and_needs_all_parents = true.
Proof. exact bridge_structure. Qed.
Print Assumptions C17_bridge_structure.

(* breadth_first(node), PARTIAL: everything it yields (also when it ends with an exception) is reachable from
   the start node.  Missing: "each node once" is not proved; "every reachable node is yielded" is refuted above
   (C17_bfs_from_node_reachable_refuted). *)
Theorem C17_bfs_from_node_sound_partial : forall fuel g n l st,
  breadth_first_fuel fuel g (Some n) = (l, st) -> forall x, In x l -> reach g n x.
Proof. exact bfs_from_node_sound_partial. Qed.
Print Assumptions C17_bfs_from_node_sound_partial.
