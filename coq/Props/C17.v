(* C17 — graph algorithms agree with their definitions.  Only statements; proofs are in
   Proofs/GraphP*.v. *)
From Coq Require Import ZArith Bool List.
Import ListNotations.
From Verif Require Import Model.Val Model.Graph Proofs.GraphPBase Proofs.GraphPDfs.
Open Scope Z_scope.

(* every graph the constructor can build is well-formed; the constructor never raises *)
Theorem C17_constructor_wf : forall m, exists g, of_mapping m = Ok g /\ wf g.
Proof. exact of_mapping_wf. Qed.
Print Assumptions C17_constructor_wf.

(* depth_first from a node: ends normally (fuel adequate), each node once, exactly the reachable nodes;
   holds for every well-formed graph, cyclic or not *)
Theorem C17_dfs : forall g, wf g -> forall n, In n (nodes g) ->
  exists l, depth_first g (Some n) = (l, 0) /\ NoDup l /\ forall x, In x l <-> reach g n x.
Proof. exact dfs_node_spec. Qed.
Print Assumptions C17_dfs.

(* depth_first(): everything reachable from a source, each node once *)
Theorem C17_dfs_all : forall g, wf g ->
  exists l, depth_first g None = (l, 0) /\ NoDup l /\
    forall x, In x l <-> exists s, In s (get_sources g) /\ reach g s x.
Proof. exact dfs_all_spec. Qed.
Print Assumptions C17_dfs_all.
