(* C11 (ILP part) — DAG order in the ILP planner, for EVERY satisfying assignment of the constraint
   system that ILPScheduler.schedule() builds.  Only statements; proofs are in Proofs/IlpP11.v. *)
From Coq Require Import ZArith Bool List.
Import ListNotations.
From Verif Require Import Model.Val Gen.Src_Ilp Model.IlpModel Proofs.IlpP Proofs.IlpP11 Proofs.IlpP10 Proofs.IlpP14 Proofs.IlpP14s Proofs.IlpPM.
Open Scope Z_scope.

(* a placed child: every parent decided in the same invocation (and not already running) is placed, and the
   child starts no earlier than parent start + runtime of the parent's chosen strategy + 1 *)
Theorem C11_ilp_child_after_parent : forall I a, sat (gen_ilp I) a -> nodup_ids I ->
  forall c sc wc kc, In c (nonrunning I) -> decision I a c = Some (sc, wc, kc) ->
  forall p, In p (decided_parents I c) -> is_running p = false ->
  exists sp wp kp st, decision I a p = Some (sp, wp, kp) /\ nth_strat p kp = Some st /\ sc >= sp + s_rt st + 1.
Proof. exact C11_child_after_parent. Qed.
Print Assumptions C11_ilp_child_after_parent.

(* contrapositive form: an unplaced co-decided parent blocks its child *)
Theorem C11_ilp_unplaced_parent_blocks : forall I a, sat (gen_ilp I) a -> nodup_ids I ->
  forall c p, In c (nonrunning I) -> In p (decided_parents I c) -> is_running p = false ->
  decision I a p = None -> decision I a c = None.
Proof. exact C11_unplaced_parent_blocks. Qed.
Print Assumptions C11_ilp_unplaced_parent_blocks.

(* a RUNNING parent: the start variable of the child (placed or not) is at least now + full runtime + 1,
   hence not before the parent's expected finish now + remaining (remaining <= runtime) *)
Theorem C11_ilp_child_after_running_parent : forall I a, sat (gen_ilp I) a ->
  forall c, In c (nonrunning I) ->
  forall p, In p (decided_parents I c) -> is_running p = true ->
  forall w wk k st, t_prev p = Some (w, k) -> In (w, wk) (wenum I) -> In (k, st) (senum p) ->
  a (VStart (t_id c)) >= i_now I + s_rt st + 1 /\
  (t_remaining p <= s_rt st -> a (VStart (t_id c)) >= i_now I + t_remaining p).
Proof. exact C11_child_after_running_parent. Qed.
Print Assumptions C11_ilp_child_after_running_parent.

(* the monitor applied to the implementation's answers is the decidable form of the plan-level property
   (the property's own bound: child start >= parent start + chosen runtime; running parent: >= now + remaining) *)
Theorem C11_ilp_monitor_spec : forall I p, c11_check I p = true <-> C11_plan_ok I p.
Proof. exact c11_check_spec. Qed.
Print Assumptions C11_ilp_monitor_spec.

Theorem C11_ilp_nonvacuous : exists I a c p sc wc kc,
  sat (gen_ilp I) a /\ nodup_ids I /\ In c (nonrunning I) /\ decision I a c = Some (sc, wc, kc) /\
  In p (decided_parents I c) /\ is_running p = false.
Proof. exact C11_nonvacuous. Qed.
Print Assumptions C11_ilp_nonvacuous.
