(* C14 (ILP part) — goodput objective of the ILP planner.  Soundness: the objective value of EVERY
   satisfying assignment is the goodput of the plan it reads back as (and that plan is feasible:
   C10_ilp / C11_ilp / C12_ilp).  Completeness is FALSE of the code as written (F11-ii, F11-iii, F11-iv,
   F22 below) and PROVED under the hypotheses that exclude exactly these (C14_ilp_complete).
   Only statements; proofs are in Proofs/IlpP14*.v. *)
From Coq Require Import ZArith Bool List.
Import ListNotations.
From Verif Require Import Model.Val Gen.Src_Ilp Model.IlpModel Proofs.IlpP Proofs.IlpP11 Proofs.IlpP10 Proofs.IlpP14 Proofs.IlpP14s Proofs.IlpPM Proofs.IlpP14c Proofs.IlpP14d Proofs.IlpP14e Proofs.IlpP14f.
Open Scope Z_scope.

(* the objective counts exactly the task graphs all of whose reward tasks are placed (or running) *)
Theorem C14_ilp_objective_sound : forall I a, sat (gen_ilp I) a -> i_goal I = Goodput ->
  objective (gen_ilp I) a = goodput_a I a.
Proof. exact objective_is_goodput. Qed.
Print Assumptions C14_ilp_objective_sound.

(* SOUNDNESS: for a well-formed instance (distinct task names, non-negative runtimes/demands/capacities, dependent
   decided tasks linked by co-decided parents, no raising input, 0 <= remaining <= runtime for running tasks) the plan
   read back from ANY satisfying assignment is a feasible plan of the specification, and the objective is its goodput *)
Theorem C14_ilp_sound : forall I a, sat (gen_ilp I) a -> wf I -> i_goal I = Goodput ->
  feasible_clb I (readback I a) = true /\ objective (gen_ilp I) a = goodput I (readback I a).
Proof. exact C14_sound. Qed.
Print Assumptions C14_ilp_sound.
Theorem C14_ilp_sound_nonvacuous : exists I a, sat (gen_ilp I) a /\ wf I /\ i_goal I = Goodput /\ goodput I (readback I a) = 1.
Proof. exact C14_sound_nonvacuous. Qed.
Print Assumptions C14_ilp_sound_nonvacuous.

(* CONDITIONAL COMPLETENESS, general form (whole graphs offered together included): a feasible plan of the specification
   is represented by a satisfying assignment with objective = its goodput, provided
     no_running        no decided task is RUNNING                                              (otherwise F11-iii),
     startable_with sv the unplaced tasks can be given start values sv within [max(now+1, release), deadline] and not
                       before their co-decided parents (after parent end + 1 when the parent is placed) — the start
                       variables of unplaced tasks are bound by their deadline and precedence rows  (otherwise F22),
     parents_decided   a placed task with co-decided parents has ALL its parents among the decided tasks (otherwise F11-iv),
     no_three_way_sv   two tasks of one worker that both overlap a third task overlap each other        (otherwise F11-ii).
   Together with C14_ilp_sound: on such instances the optimum of the system equals the maximum goodput of these plans. *)
Theorem C14_ilp_complete : forall I p sv,
  nodup_ids I -> rt_nonneg I -> req_nonneg I -> caps_nonneg I -> i_goal I = Goodput ->
  no_running I -> feasible_clb I p = true -> startable_with I p sv -> parents_decided I p -> no_three_way_sv I p sv ->
  exists a, sat (gen_ilp I) a /\ objective (gen_ilp I) a = goodput I p.
Proof. exact C14_complete. Qed.
Print Assumptions C14_ilp_complete.
Theorem C14_ilp_complete_general_nonvacuous :
  nodup_ids ex_chain /\ rt_nonneg ex_chain /\ req_nonneg ex_chain /\ caps_nonneg ex_chain /\ i_goal ex_chain = Goodput /\
  no_running ex_chain /\ feasible_clb ex_chain ex_chain_plan = true /\ startable_with ex_chain ex_chain_plan ex_chain_sv /\
  parents_decided ex_chain ex_chain_plan /\ no_three_way_sv ex_chain ex_chain_plan ex_chain_sv /\ goodput ex_chain ex_chain_plan = 1.
Proof. exact C14_complete_g_nonvacuous. Qed.
Print Assumptions C14_ilp_complete_general_nonvacuous.

(* CONDITIONAL COMPLETENESS (task-by-task mode): every feasible plan of the specification is represented by a
   satisfying assignment with objective = its goodput, provided
     taskwise      no two decided tasks depend on one another (the planner's default mode; the general form is
                   C14_ilp_complete above — this instance needs no start values for the unplaced tasks),
     no_running    no decided task is RUNNING                                    (otherwise F11-iii),
     startable     every enforced deadline is >= max(now + 1, release)           (otherwise F22),
     no_three_way  two tasks of one worker that both overlap a third task (wherever it runs, or the single instant
                   of its earliest start if it is unplaced) overlap each other   (otherwise F11-ii).
   With C14_ilp_sound: on such instances the optimum of the system is the maximum goodput over these plans. *)
Theorem C14_ilp_complete_taskwise : forall I p,
  nodup_ids I -> rt_nonneg I -> req_nonneg I -> caps_nonneg I -> i_goal I = Goodput ->
  no_running I -> taskwise I -> startable I -> feasible_clb I p = true -> no_three_way I p ->
  exists a, sat (gen_ilp I) a /\ objective (gen_ilp I) a = goodput I p.
Proof. exact C14_complete_taskwise. Qed.
Print Assumptions C14_ilp_complete_taskwise.
Theorem C14_ilp_complete_nonvacuous :
  nodup_ids ex_two /\ rt_nonneg ex_two /\ req_nonneg ex_two /\ caps_nonneg ex_two /\ i_goal ex_two = Goodput /\
  no_running ex_two /\ taskwise ex_two /\ startable ex_two /\ feasible_clb ex_two ex_two_plan = true /\
  no_three_way ex_two ex_two_plan /\ goodput ex_two ex_two_plan = 2.
Proof. exact C14_complete_nonvacuous. Qed.
Print Assumptions C14_ilp_complete_nonvacuous.

(* F11-ii, general form: the capacity row of t1 charges t2 and t3 together as soon as each overlaps t1
   somewhere (tau2, tau3 may differ), so three tasks whose demands exceed the capacity can never all be
   placed on one worker around a long task, even if t2 and t3 never coexist *)
Theorem C14_ilp_three_way_overcharge : forall I a, sat (gen_ilp I) a -> nodup_ids I -> rt_nonneg I -> req_nonneg I ->
  forall t1 t2 t3 w ks1 ks2 ks3 tau2 tau3 rq,
  In t1 (i_tasks I) -> In t2 (i_tasks I) -> In t3 (i_tasks I) ->
  t_id t1 <> t_id t2 -> t_id t1 <> t_id t3 -> t_id t2 <> t_id t3 ->
  In w (wenum I) -> In rq (w_res (snd w)) -> In ks1 (senum t1) -> In ks2 (senum t2) -> In ks3 (senum t3) ->
  dependent I t1 t2 = false -> dependent I t1 t3 = false ->
  active_a I a t1 (w, ks1) tau2 = true -> active_a I a t2 (w, ks2) tau2 = true ->
  active_a I a t1 (w, ks1) tau3 = true -> active_a I a t3 (w, ks3) tau3 = true ->
  req (snd ks1) (fst rq) + req (snd ks2) (fst rq) + req (snd ks3) (fst rq) <= snd rq.
Proof. exact three_way_overcharge. Qed.
Print Assumptions C14_ilp_three_way_overcharge.

(* F11-ii across workers: the capacity row of t1 for worker w exists even when t1 runs on another worker, and then
   forbids two tasks of w that both overlap t1 in time unless they fit w TOGETHER *)
Theorem C14_ilp_cross_worker_overcharge : forall I a, sat (gen_ilp I) a -> nodup_ids I -> rt_nonneg I -> req_nonneg I ->
  forall t1 t2 t3 w1 w ks1 ks2 ks3 tau2 tau3 rq,
  In t1 (i_tasks I) -> In t2 (i_tasks I) -> In t3 (i_tasks I) -> is_running t1 = false ->
  t_id t1 <> t_id t2 -> t_id t1 <> t_id t3 -> t_id t2 <> t_id t3 ->
  In w1 (wenum I) -> In w (wenum I) -> In rq (w_res (snd w)) -> In ks1 (senum t1) -> In ks2 (senum t2) -> In ks3 (senum t3) ->
  dependent I t1 t2 = false -> dependent I t1 t3 = false ->
  active_a I a t1 (w1, ks1) tau2 = true -> active_a I a t2 (w, ks2) tau2 = true ->
  active_a I a t1 (w1, ks1) tau3 = true -> active_a I a t3 (w, ks3) tau3 = true ->
  req (snd ks2) (fst rq) + req (snd ks3) (fst rq) <= snd rq.
Proof. exact cross_worker_overcharge. Qed.
Print Assumptions C14_ilp_cross_worker_overcharge.

(* completeness refuted (F11-ii): 1 worker with 2 CPUs, T1 (10us, deadline 11), T2 (4, 5), T3 (4, 11), now = 0:
   the plan T1@1, T2@1, T3@6 is feasible (closed intervals) and finishes 3 graphs; no satisfying assignment exceeds 2 *)
Theorem C14_ilp_completeness_refuted_three_way :
  feasible_clb ex_f11 ex_f11_plan = true /\ goodput ex_f11 ex_f11_plan = 3 /\
  forall a, sat (gen_ilp ex_f11) a -> objective (gen_ilp ex_f11) a <= 2.
Proof. exact completeness_refuted_three_way. Qed.
Print Assumptions C14_ilp_completeness_refuted_three_way.

(* completeness refuted (F11-iii): a running task with 2us left is charged its full 10us from now *)
Theorem C14_ilp_completeness_refuted_running :
  feasible_clb ex_run ex_run_plan = true /\ goodput ex_run ex_run_plan = 2 /\
  forall a, sat (gen_ilp ex_run) a -> objective (gen_ilp ex_run) a <= 1.
Proof. exact completeness_refuted_running. Qed.
Print Assumptions C14_ilp_completeness_refuted_running.

(* completeness refuted (F22): one task whose deadline is before now + 1 makes the system unsatisfiable;
   schedule() then answers every offered task with `unplaced` although the other task fits *)
Theorem C14_ilp_completeness_refuted_dead_task :
  feasible_clb ex_dead ex_dead_plan = true /\ goodput ex_dead ex_dead_plan = 1 /\
  (forall a, ~ sat (gen_ilp ex_dead) a) /\ goodput ex_dead (answer ex_dead None) = 0.
Proof. exact completeness_refuted_dead_task. Qed.
Print Assumptions C14_ilp_completeness_refuted_dead_task.

(* F11-iv, general form: a task with at least one co-decided parent and at least one parent that is NOT decided in this
   invocation (COMPLETED earlier, for instance) is unplaced in every satisfying assignment: `len(parent_tasks)` counts
   all parents of the graph, the placement sum only those that have variables *)
Theorem C14_ilp_undecided_parent_blocks : forall I a, sat (gen_ilp I) a ->
  forall c, In c (nonrunning I) -> decided_parents I c <> [] ->
  Z.of_nat (length (decided_parents I c)) < nparents I c -> decision I a c = None.
Proof. exact undecided_parent_blocks. Qed.
Print Assumptions C14_ilp_undecided_parent_blocks.
(* completeness refuted (F11-iv): diamond A -> C <- B, A completed, B and C offered: B@11, C@16 completes the graph,
   no satisfying assignment has a positive objective *)
Theorem C14_ilp_completeness_refuted_completed_parent :
  feasible_clb ex_cp ex_cp_plan = true /\ goodput ex_cp ex_cp_plan = 1 /\
  forall a, sat (gen_ilp ex_cp) a -> objective (gen_ilp ex_cp) a <= 0.
Proof. exact completeness_refuted_completed_parent. Qed.
Print Assumptions C14_ilp_completeness_refuted_completed_parent.
