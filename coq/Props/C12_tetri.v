(* C12 (TetriSched part) — deadline enforcement in the space-time formulations.  Only statements;
   proofs are in Proofs/TetriP.v.  `a` ranges over ALL assignments (satisfying or not): the cells
   past the deadline are constants of the model, not variables. *)
From Coq Require Import ZArith Bool List.
Import ListNotations.
From Verif Require Import Model.Val Model.PlanSpec Model.TetriModel Gen.Src_Tetri Proofs.TetriP.
Open Scope Z_scope.

(* the tests of the model are the tests of the source (regenerated on every run) *)
Theorem C12_tetri_bridge :
  (forall I x w t s, cell_kind I x w t s =
     if negb (fits (tw_total w) s) then CConst 0
     else if g_before_release t (tt_release x) then CConst 0
     else if g_past_deadline (ti_enforce I) t (st_runtime s) (tt_deadline x) then CConst 0 else CVar) /\
  (forall e t r d, c_past_deadline e t r d = g_past_deadline e t r d) /\
  (forall t rel, c_before_release t rel = g_before_release t rel) /\
  (forall e t r d, g_past_deadline e t r d = true <-> e = true /\ d < t + r) /\
  (forall d n f, c_hopeless d n f = true <-> d < n + f) /\
  (forall I offered, admission_cancels I offered =
     if ti_enforce I
     then map tt_id (filter (fun x => c_hopeless (tt_deadline x) (ti_now I) (fastest_runtime (tt_strats x))) offered)
     else []).
Proof. exact tetri_bridge_c12. Qed.
Print Assumptions C12_tetri_bridge.

(* with enforce_deadlines, whatever values the solver returns, a placed task finishes by its deadline *)
Theorem C12_tetri_deadline : forall I a x p,
  ti_enforce I = true -> readback_task I a x = Some p ->
  exists s, nth_error (tt_strats x) (pl_strat p) = Some s /\ pl_start p + st_runtime s <= tt_deadline x.
Proof. exact readback_meets_deadline. Qed.
Print Assumptions C12_tetri_deadline.

(* a hopeless task (deadline < now + fastest runtime) is never placed *)
Theorem C12_tetri_hopeless_unplaced : forall I a x,
  ti_enforce I = true -> 0 < ti_disc I ->
  tt_deadline x < ti_now I + fastest_runtime (tt_strats x) ->
  readback_task I a x = None.
Proof. exact hopeless_unplaced'. Qed.
Print Assumptions C12_tetri_hopeless_unplaced.

(* the CPLEX scheduler's admission control cancels exactly the hopeless offered tasks *)
Theorem C12_tetri_admission_exact : forall I offered id,
  In id (admission_cancels I offered) <->
  ti_enforce I = true /\ exists x, In x offered /\ tt_id x = id /\
     tt_deadline x < ti_now I + fastest_runtime (tt_strats x).
Proof. exact admission_exact. Qed.
Print Assumptions C12_tetri_admission_exact.

(* the hypotheses are satisfiable by a non-trivial state: a task with two strategies of which only the
   fast one meets the deadline is placed with it, on the boundary deadline = start + runtime *)
Theorem C12_tetri_example :
  let x := mkTT 0 SFree 0 5 [mkStrat 7 [(0, 1)]; mkStrat 3 [(0, 1)]] [] 0 true in
  let I := mkTI Gurobi 0 (-1) 2 true true false [x] [mkTW 1 [(0, 1)]] in
  let a := assign_of_list [(VCell 0 1 2 1%nat, 1)] in
  readback_task I a x = Some (mkPl 0 1 1%nat 2) /\ 2 + 3 <= tt_deadline x /\
  map (fun c => cell_var x c) (var_cells I x) = [VCell 0 1 0 1%nat; VCell 0 1 2 1%nat].
Proof. vm_compute. repeat split; discriminate. Qed.
Print Assumptions C12_tetri_example.
