(* C12, Clockwork part — deadline enforcement: hopeless requests are answered with a cancellation; no batch is
   planned whose completion would be after a member's deadline.  Only statements. *)
From Coq Require Import ZArith Bool List.
Import ListNotations.
From Verif Require Import Model.Val Gen.Src_Clockwork Model.Clockwork Proofs.ClockworkP Proofs.ClockworkP2 Proofs.ClockworkP3
  Proofs.ClockworkP4 Proofs.ClockworkP5 Proofs.ClockworkP6 Proofs.ClockworkP7 Proofs.ClockworkP8.
Open Scope Z_scope.

(* Clockwork always enforces deadlines, and its admission test is `deadline < now + fastest runtime` (strict) *)
Theorem C12_cw_bridge : cw_enforce_deadlines = true /\ (forall d now f, cw_hopeless true d now f = (d <? now + f)) /\
  (forall n hd now rt, cw_expire_cond n hd now rt = (0 <? n) && (hd <? now + rt)) /\
  (forall bs n now rt hd, cw_strategy_ready bs n now rt hd = (bs <=? n) && (now + rt <=? hd)).
Proof. exact (conj bridge_enforce (conj bridge_hopeless (conj bridge_expire bridge_ready))). Qed.
Print Assumptions C12_cw_bridge.
(* `fastest` is the least runtime among the strategies of the request's profile *)
Theorem C12_cw_fastest : forall ss f, fastest_rt ss = Some f -> (exists s, In s ss /\ s_rt s = f) /\ (forall s, In s ss -> f <= s_rt s).
Proof. exact fastest_rt_spec. Qed.
Print Assumptions C12_cw_fastest.
(* admission cancels exactly the hopeless requests: same requests, same order, nothing else *)
Theorem C12_cw_cancel_exact : forall wd ls inv st st' d,
  cw_schedule wd ls inv st = Ok (st', d) -> d_cancel d = filter (hopeless wd (i_now inv)) (i_offered inv).
Proof. exact cw_schedule_cancels. Qed.
Print Assumptions C12_cw_cancel_exact.
(* a hopeless request is never placed, also when it was queued by an earlier invocation *)
Theorem C12_cw_hopeless_never_placed : forall wd ls inv st st' d, world_wf wd -> Inv_st wd st -> cw_schedule wd ls inv st = Ok (st', d) ->
  forall t, In t (placed (d_batches d)) -> hopeless wd (i_now inv) t = false.
Proof. exact schedule_not_hopeless. Qed.
Print Assumptions C12_cw_hopeless_never_placed.
(* the planned start is now and start + runtime of the chosen strategy <= deadline of every member (batch_ok) *)
Theorem C12_cw_no_late_plan : forall wd ls inv st st' d, world_wf wd -> Inv_st wd st -> cw_schedule wd ls inv st = Ok (st', d) ->
  Forall (batch_ok wd) (d_batches d) /\ Forall (loc_ok (inv_pools inv) (i_now inv)) (d_batches d).
Proof. intros wd ls inv st st' d Hw Hi H. destruct (cw_schedule_spec _ _ _ _ _ _ Hw Hi H) as [_ [_ [A [B _]]]]. split; assumption. Qed.
Print Assumptions C12_cw_no_late_plan.
Theorem C12_cw_monitor_cancel : forall wd now offered c, mon_cancel wd now offered c = true <-> c = map t_id (filter (hopeless wd now) offered).
Proof. exact mon_cancel_iff. Qed.
Print Assumptions C12_cw_monitor_cancel.
(* non-vacuity: a tight request (deadline = now + fastest) is admitted, one microsecond less is cancelled *)
Theorem C12_cw_example :
  let wd := [(1, [mkS 1 2 10 [(1, 0, 1)]; mkS 2 4 15 [(1, 0, 1)]])] in
  exists st', admission wd 100 [mkT 1 1 110; mkT 2 1 109; mkT 3 1 300] [] [] = Ok (st', [mkT 2 1 109]).
Proof. exact admission_example. Qed.
Print Assumptions C12_cw_example.
