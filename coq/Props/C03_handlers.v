(* C03, clause "a task starts exactly at the time its scheduler chose when it is ready and the pool can hold it":
   theorems about the handler layer Model/SimHandlers.v (Simulator.__handle_task_placement and WorkerPool.place_task as
   FUNCTIONS of the machine state; readiness and Task.remaining_time translated from source).  Tied to /repo by the stream
   S-handlers (every TASK_PLACEMENT event handled in the generated simulations: predicted outcome = observed outcome). *)
From Coq Require Import ZArith Bool List.
Import ListNotations.
From Verif Require Import Model.Val Gen.Src_Task Gen.Src_Event Gen.Src_TaskGraph Model.Sim Model.SimRows Model.SimQ
  Model.SimHandlers Proofs.SimP Proofs.SimHandlersP.
Open Scope Z_scope.

(* ready + the pool (or the named worker) can hold the request  ==>  the handler starts the task, on a worker that fits *)
Theorem C03_started_when_ready_and_pool_can_hold : forall W Ly SL s p x,
  s_tasks s (pi_task p) = Some x -> is_ready s x = true -> pi_exact p = true -> can_hold W Ly s p ->
  exists w, placement_outcome W Ly SL s p = OStart w /\ fits W (s_res s) w (pi_req p) = true.
Proof. exact start_when_ready_and_fits. Qed.
Print Assumptions C03_started_when_ready_and_pool_can_hold.

(* ... and only then; the worker is the named one or a worker of the chosen pool *)
Theorem C03_started_only_when_ready_and_fits : forall W Ly SL s p w,
  placement_outcome W Ly SL s p = OStart w ->
  exists x, s_tasks s (pi_task p) = Some x /\ is_ready s x = true /\ fits W (s_res s) w (pi_req p) = true /\
            (pi_worker p = Some w \/ (pi_worker p = None /\ In w (workers_of Ly (pi_pool p)))).
Proof. exact start_only_when_ready_and_fits. Qed.
Print Assumptions C03_started_only_when_ready_and_fits.

(* first fit in the pool's order *)
Theorem C03_first_fit_in_pool_order : forall W Ly res p w,
  pi_worker p = None -> choose_worker W Ly res p = Some w ->
  exists l1 l2, workers_of Ly (pi_pool p) = l1 ++ w :: l2 /\ forall w', In w' l1 -> fits W res w' (pi_req p) = false.
Proof. exact choose_worker_first. Qed.
Print Assumptions C03_first_fit_in_pool_order.

(* the two primitive calls of the start path are accepted by the machine; afterwards the task is RUNNING on the chosen
   worker and its start time is the clock = the time of the placement event being handled *)
Theorem C03_start_calls_accepted_start_time_is_event_time : forall W Ly SL s p w draw x,
  placement_outcome W Ly SL s p = OStart w ->
  s_tasks s (pi_task p) = Some x ->
  cur_is s TASK_PLACEMENT (Some (pi_task p)) = true ->
  resident (s_res s) (pi_task p) = false ->
  t_state (t_dyn x) = TS_SCHEDULED -> t_release_time (t_dyn x) <= s_clock s ->
  t_runtime x <= draw -> 100 * draw <= 100 * t_runtime x + t_runtime x * w_variance W + 50 -> 0 <= draw ->
  exists s' x', sim_exec W s (start_calls s p w draw) = Some s' /\ s_tasks s' (pi_task p) = Some x' /\
    t_start_time (t_dyn x') = s_clock s /\ t_state (t_dyn x') = TS_RUNNING /\ resident_on (s_res s') (pi_task p) w = true /\
    s_clock s' = s_clock s.
Proof. exact start_calls_accepted. Qed.
Print Assumptions C03_start_calls_accepted_start_time_is_event_time.

(* the clause itself: the placement event fires at the chosen time, the task is ready, the pool can hold it
   ==> the task starts exactly at the chosen time *)
Theorem C03_starts_exactly_at_chosen_time : forall W Ly SL s p draw x,
  s_tasks s (pi_task p) = Some x -> s_clock s = t_ptime x ->
  is_ready s x = true -> pi_exact p = true -> can_hold W Ly s p ->
  cur_is s TASK_PLACEMENT (Some (pi_task p)) = true -> resident (s_res s) (pi_task p) = false ->
  t_state (t_dyn x) = TS_SCHEDULED -> t_release_time (t_dyn x) <= s_clock s ->
  t_runtime x <= draw -> 100 * draw <= 100 * t_runtime x + t_runtime x * w_variance W + 50 -> 0 <= draw ->
  exists w s' x', placement_outcome W Ly SL s p = OStart w /\
    sim_exec W s (start_calls s p w draw) = Some s' /\ s_tasks s' (pi_task p) = Some x' /\
    t_start_time (t_dyn x') = t_ptime x /\ t_state (t_dyn x') = TS_RUNNING.
Proof. exact starts_exactly_at_chosen_time. Qed.
Print Assumptions C03_starts_exactly_at_chosen_time.

(* a placement that cannot be executed now is retried strictly later (never at the same instant) ... *)
Theorem C03_retry_strictly_later : forall W Ly SL s p time,
  placement_outcome W Ly SL s p = ORetry time -> s_clock s < time.
Proof. exact retry_strictly_later. Qed.
Print Assumptions C03_retry_strictly_later.

(* ... one microsecond later when the pool could not hold it, and not before the estimated completion of any parent
   when the task waits for its parents *)
Theorem C03_retry_time : forall W Ly SL s p time x,
  placement_outcome W Ly SL s p = ORetry time -> s_tasks s (pi_task p) = Some x ->
  (is_ready s x = false /\ forall parent, In parent (ti_parents (t_info x)) -> s_clock s + remaining_of SL s parent <= time) \/
  (is_ready s x = true /\ time = s_clock s + 1 /\ choose_worker W Ly (s_res s) p = None).
Proof. exact retry_time_spec. Qed.
Print Assumptions C03_retry_time.

(* a placement event is dropped only for a task that is not ready and is cancelled (itself or its graph) *)
Theorem C03_placement_dropped_only_if_cancelled : forall W Ly SL s p,
  placement_outcome W Ly SL s p = OConsumed ->
  exists x, s_tasks s (pi_task p) = Some x /\ is_ready s x = false /\
            (t_state (t_dyn x) = TS_CANCELLED \/ pi_gcancelled p = true).
Proof. exact consumed_only_if_cancelled. Qed.
Print Assumptions C03_placement_dropped_only_if_cancelled.

(* non-vacuity: a reachable state with a full first worker: first fit picks the second, an oversized request and a named
   full worker are retried one microsecond later *)
Theorem C03_handler_example :
  match sim_exec ex_world sim_init ex_log with
  | Some s => placement_outcome ex_world ex_layout [] s (mkPI 1 0 None [(0, 1)] false true) = OStart 1 /\
              placement_outcome ex_world ex_layout [] s (mkPI 1 0 None [(0, 3)] false true) = ORetry 1 /\
              placement_outcome ex_world ex_layout [] s (mkPI 1 0 (Some 0) [(0, 1)] false true) = ORetry 1
  | None => False
  end.
Proof. exact handler_example. Qed.
Print Assumptions C03_handler_example.
