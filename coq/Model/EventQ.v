(* The simulator's event queue as an abstract priority queue over the ordering
   translated from simulator.Event.__lt__ (Gen/Src_Event.v).  CPython's heapq is an
   external component: the model's `q_pop` extracts a minimum of the pending events. *)
From Coq Require Import ZArith Bool List.
Import ListNotations.
From Verif Require Import Model.Val Gen.Src_Event.
Open Scope Z_scope.

Definition queue := list event.

Fixpoint q_min (e : event) (l : queue) : event :=
  match l with
  | [] => e
  | x :: l' => if ev_ltb x e then q_min x l' else q_min e l'
  end.

Fixpoint q_remove_id (i : Z) (l : queue) : queue :=
  match l with
  | [] => []
  | x :: l' => if ev_id x =? i then l' else x :: q_remove_id i l'
  end.

Definition q_push (e : event) (q : queue) : queue := q ++ [e].
Definition q_peek (q : queue) : option event :=
  match q with [] => None | e :: l => Some (q_min e l) end.
Definition q_pop (q : queue) : option (event * queue) :=
  match q with [] => None | e :: l => let m := q_min e l in Some (m, q_remove_id (ev_id m) q) end.
(* in-place edit of an event's time followed by reheapify() *)
Definition retime_ev (i t : Z) (e : event) : event :=
  if ev_id e =? i then mkEv t (ev_type e) (ev_task e) (ev_id e) else e.
Definition q_retime (i t : Z) (q : queue) : queue := map (retime_ev i t) q.
Definition q_next_of_type (ty : event_type) (q : queue) : option event :=
  q_peek (filter (fun e => event_type_eqb (ev_type e) ty) q).

Inductive qop := QPush (e : event) | QRemove (i : Z) | QRetime (i t : Z) | QPop.

(* a history: the queue and, for every pop so far (latest first), the popped event
   together with the events that were pending when it was popped *)
Definition qstate := (queue * list (event * queue))%type.
Definition q_step (s : qstate) (o : qop) : qstate :=
  let '(q, outs) := s in
  match o with
  | QPush e => (q_push e q, outs)
  | QRemove i => (q_remove_id i q, outs)
  | QRetime i t => (q_retime i t q, outs)
  | QPop => match q_pop q with Some (m, q') => (q', (m, q) :: outs) | None => (q, outs) end
  end.
Definition q_run (ops : list qop) : qstate := fold_left q_step ops ([], []).

Fixpoint q_drain (fuel : nat) (q : queue) : list event :=
  match fuel with
  | O => []
  | S f => match q_pop q with Some (m, q') => m :: q_drain f q' | None => [] end
  end.

(* the documented ordering key: time, then type priority, then task name *)
Definition key (e : event) : Z * Z * Z :=
  (ev_time e, event_type_value (ev_type e), match ev_task e with Some n => n | None => 0 end).
Definition key_ltb (a b : Z * Z * Z) : bool :=
  let '(t1, v1, n1) := a in let '(t2, v2, n2) := b in
  (t1 <? t2) || ((t1 =? t2) && ((v1 <? v2) || ((v1 =? v2) && (n1 <? n2)))).
Definition key_leb (a b : Z * Z * Z) : bool := negb (key_ltb b a).

(* observation functions for the correspondence check *)
(* the documented priority of each event type at equal times, by NAME (hand-written from the
   documentation; the values in the source are translated separately into event_type_value and
   C16_type_priority proves the two tables equal) *)
Definition doc_code (t : event_type) : Z :=
  match t with
  | SIMULATOR_START => 0 | TASK_CANCEL => 1 | EVICT_PROFILE => 2 | TASK_FINISHED => 3
  | TASK_GRAPH_RELEASE => 4 | TASK_RELEASE => 5 | UPDATE_WORKLOAD => 6 | TASK_PREEMPT => 7
  | TASK_MIGRATION => 8 | LOAD_PROFILE => 9 | TASK_PLACEMENT => 10 | SCHEDULER_START => 11
  | SCHEDULER_FINISHED => 12 | SIMULATOR_END => 13 | LOG_UTILIZATION => 14
  end.
Definition vkey (e : event) : val :=
  L [I (ev_time e); I (doc_code (ev_type e)); vopt I (ev_task e)].
Definition etype_of_code (c : Z) : event_type :=
  match find (fun t => event_type_value t =? c) all_event_types with Some t => t | None => SIMULATOR_START end.

Inductive qobs_op := OPush (e : event) | ORemove (i : Z) | ORetime (i t : Z) | OPop | OPeek | ONext (ty : Z) | OLen.
Fixpoint q_observe (ops : list qobs_op) (q : queue) : list val :=
  match ops with
  | [] => []
  | o :: r =>
      match o with
      | OPush e => q_observe r (q_push e q)
      | ORemove i => q_observe r (q_remove_id i q)
      | ORetime i t => q_observe r (q_retime i t q)
      | OPop => match q_pop q with
                | Some (m, q') => vkey m :: q_observe r q'
                | None => L [] :: q_observe r q
                end
      | OPeek => vopt vkey (q_peek q) :: q_observe r q
      | ONext c => vopt vkey (q_next_of_type (etype_of_code c) q) :: q_observe r q
      | OLen => I (Z.of_nat (length q)) :: q_observe r q
      end
  end.

(* monitor applied to the implementation's own pop log: each popped key is minimal
   among the keys that were pending *)
Definition pop_minimal (k : Z * Z * Z) (pending : list (Z * Z * Z)) : bool :=
  forallb (fun x => key_leb k x) pending.
