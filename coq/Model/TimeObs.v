(* Observation function for the S-time correspondence stream: every EventTime operator a
   user can call, applied to the translated definitions. `<=`, `>`, `>=`, `!=` are what
   functools.total_ordering / Python derive from __lt__ and __eq__. *)
From Coq Require Import ZArith Bool List.
Import ListNotations.
From Verif Require Import Model.Val Gen.Src_Time.
Open Scope Z_scope.

Definition unit_code (u : unit_t) : Z := match u with U_US => 0 | U_MS => 1 | U_S => 2 end.
Definition vet (x : etime) : val := L [I (et_time x); I (unit_code (et_unit x))].

Inductive top :=
| TAdd (a b : etime) | TSub (a b : etime) | TEq (a b : etime) | TLt (a b : etime)
| TLe (a b : etime) | TGt (a b : etime) | TGe (a b : etime) | TNe (a b : etime)
| THash (a : etime) | TTo (a : etime) (u : unit_t) | TMul (a : etime) (k : Z) | TInv (a : etime)
| TAssoc (a b c : etime) | TDict (a b : etime).

Definition t_observe (o : top) : val :=
  match o with
  | TAdd a b => vres vet (et_add a b)
  | TSub a b => vres vet (et_sub a b)
  | TEq a b => vres vbool (et_eqb a b)
  | TLt a b => vres vbool (et_ltb a b)
  | TLe a b => vres vbool (bind (et_ltb a b) (fun l => if l then Ok true else et_eqb a b))
  | TGt a b => vres vbool (bind (et_ltb a b) (fun l => if l then Ok false else bind (et_eqb a b) (fun e => Ok (negb e))))
  | TGe a b => vres vbool (bind (et_ltb a b) (fun l => Ok (negb l)))
  | TNe a b => vres vbool (bind (et_eqb a b) (fun e => Ok (negb e)))
  | THash a => vres I (et_hash a)
  | TTo a u => vres vet (et_to a u)
  | TMul a k => vres vet (Ok (et_mul a k))
  | TInv a => vres vbool (Ok (et_is_invalid a))
  | TAssoc a b c =>
      vres (fun p => L [vet (fst p); vet (snd p)])
        (bind (et_add a b) (fun ab => bind (et_add ab c) (fun l =>
         bind (et_add b c) (fun bc => bind (et_add a bc) (fun r => Ok (l, r))))))
  | TDict a b => vres vbool (bind (et_hash a) (fun ha => bind (et_hash b) (fun hb =>
                   if ha =? hb then et_eqb b a else Ok false)))
  end.
