(* The task-GRAPH level rows of the CSV trace and the three graph counters of the end-of-run summary as an
   OUTPUT of the simulator machine (companion of Model/SimRows.v; simulator.py __handle_task_finished and the
   SIMULATOR_END branch of __handle_event, workload.py get_cancelled_task_graphs):

     after Task.finish of a member of graph g, at event time T
        TASK_GRAPH_FINISHED g deadline max(0, T - deadline)     if every sink of g is complete   (finished graphs += 1,
                                                                 missed graph deadlines += 1 if deadline < T)
        MISSED_TASK_GRAPH_DEADLINE g deadline                   if T > deadline (for EVERY member finishing late)
     SIMULATOR_END   finished graphs, graphs with a CANCELLED sink at that moment, missed graph deadlines

   The static description of the graphs (id, deadline, sinks, members) is given by the harness from the graph
   objects the workload handed to the simulator; the dynamic part (which task finished when, which is complete
   or cancelled) is the machine's own state. *)
From Coq Require Import ZArith Bool List.
Import ListNotations.
From Verif Require Import Model.Val Gen.Src_Task Gen.Src_Event Model.Sim.
Open Scope Z_scope.

Record ginfo := mkG { g_id : Z; g_deadline : Z; g_sinks : list Z; g_members : list Z }.

Inductive grow :=
| RGFinished (time g deadline tardiness : Z)
| RGMissed (time g deadline : Z)
| RGEnd (time gfin gcanc gmiss : Z).

Definition memz (x : Z) (l : list Z) : bool := existsb (Z.eqb x) l.
Definition graph_of (G : list ginfo) (t : Z) : option ginfo := find (fun g => memz t (g_members g)) G.

(* TaskGraph.is_complete / is_cancelled on the machine's task table *)
Definition cancelled (s : sim) (t : Z) : bool :=
  match s_tasks s t with Some x => task_state_eqb (t_state (t_dyn x)) TS_CANCELLED | None => false end.
Definition g_complete (s : sim) (g : ginfo) : bool := forallb (complete s) (g_sinks g).
Definition g_cancelled (s : sim) (g : ginfo) : bool := existsb (cancelled s) (g_sinks g).
Fixpoint count_cancelled (s : sim) (G : list ginfo) : Z :=
  match G with [] => 0 | g :: rest => (if g_cancelled s g then 1 else 0) + count_cancelled s rest end.

(* rows written at the accepted call e (s before, s' after); gf, gm = finished graphs / missed graph deadlines so far *)
Definition grows_ev (G : list ginfo) (gf gm : Z) (s s' : sim) (e : ev) : list grow :=
  match e with
  | EFinish t =>
      match graph_of G t with
      | Some g =>
          (if g_complete s' g
           then [RGFinished (s_clock s) (g_id g) (g_deadline g)
                            (if g_deadline g <? s_clock s then s_clock s - g_deadline g else 0)]
           else [])
          ++ (if g_deadline g <? s_clock s then [RGMissed (s_clock s) (g_id g) (g_deadline g)] else [])
      | None => []
      end
  | EHandle ty time _ =>
      if event_type_eqb ty SIMULATOR_END then [RGEnd time gf (count_cancelled s G) gm] else []
  | _ => []
  end.

Definition is_gfin (r : grow) : Z := match r with RGFinished _ _ _ _ => 1 | _ => 0 end.
Definition is_glate (r : grow) : Z := match r with RGFinished time _ deadline _ => if deadline <? time then 1 else 0 | _ => 0 end.
Fixpoint count_grows (f : grow -> Z) (rs : list grow) : Z :=
  match rs with [] => 0 | r :: rest => f r + count_grows f rest end.

Fixpoint grows_run (W : world) (G : list ginfo) (s : sim) (gf gm : Z) (l : list ev) : option (list grow) :=
  match l with
  | [] => Some []
  | e :: rest =>
      match sim_step W s e with
      | None => None
      | Some s' =>
          let rs := grows_ev G gf gm s s' e in
          match grows_run W G s' (gf + count_grows is_gfin rs) (gm + count_grows is_glate rs) rest with
          | Some rr => Some (rs ++ rr)
          | None => None
          end
      end
  end.

Definition grows_of (W : world) (G : list ginfo) (l : list ev) : option (list grow) := grows_run W G sim_init 0 0 l.

(* ---------- observation for the correspondence check *)
Definition grow_val (r : grow) : val :=
  match r with
  | RGFinished a b c d => L [I 0; I a; I b; I c; I d]
  | RGMissed a b c => L [I 1; I a; I b; I c]
  | RGEnd a b c d => L [I 2; I a; I b; I c; I d]
  end.
Definition observe_grows (W : world) (G : list ginfo) (l : list ev) : val :=
  match grows_of W G l with
  | Some rr => vlist grow_val rr
  | None => L [I (-1)]
  end.
