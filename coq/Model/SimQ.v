(* The simulator machine extended with its event queue (simulator.py: EventQueue + the way
   simulate() uses it).  State: the machine of Model/Sim.v, the multiset of pending events, the event
   popped but not yet handled, and the event being handled.  The queue operations are observed on
   the implementation's own queue object (add_event / next / remove_event / reheapify).

   Guards are again the local facts of the code: an event is popped only when no handler is active,
   it is a minimum of the pending events under the documented key and its time is the clock
   (simulate() steps to peek().time and then pops); the event handled is the event popped; the
   clock step uses the time of the earliest pending event; an event is never queued in the past; a
   placement event is queued no earlier than the time its scheduler chose.  What is proved from them
   (Proofs/SimQP.v): no pending event is ever in the past (so __step never steps backwards), handled
   events are in key order, and a task never starts before the time its scheduler chose. *)
From Coq Require Import ZArith Bool List.
Import ListNotations.
From Verif Require Import Model.Val Gen.Src_Task Gen.Src_Event Model.EventQ Model.Sim.
Open Scope Z_scope.

(* a pending event: time, type, optional task as (task id, rank of its unique name in string order) *)
Record pev := mkPev { pe_time : Z; pe_type : event_type; pe_task : option (Z * Z) }.

Definition pkey (p : pev) : Z * Z * Z :=
  (pe_time p, doc_code (pe_type p), match pe_task p with Some (_, r) => r | None => 0 end).

Definition otask_eqb (a b : option (Z * Z)) : bool :=
  match a, b with
  | Some (t1, r1), Some (t2, r2) => (t1 =? t2) && (r1 =? r2)
  | None, None => true
  | _, _ => false
  end.
Definition shape_eqb (a b : pev) : bool := event_type_eqb (pe_type a) (pe_type b) && otask_eqb (pe_task a) (pe_task b).
Definition pev_eqb (a b : pev) : bool := (pe_time a =? pe_time b) && shape_eqb a b.

Fixpoint remove_one (p : pev) (l : list pev) : list pev :=
  match l with [] => [] | x :: r => if pev_eqb x p then r else x :: remove_one p r end.
Definition mem_pev (p : pev) (l : list pev) : bool := existsb (pev_eqb p) l.
Definition minimal (p : pev) (l : list pev) : bool := forallb (fun x => key_leb (pkey p) (pkey x)) l.
Fixpoint min_time (l : list pev) : option Z :=
  match l with
  | [] => None
  | x :: r => match min_time r with None => Some (pe_time x) | Some m => Some (Z.min (pe_time x) m) end
  end.
Definition count_shape (p : pev) (l : list pev) : nat := length (filter (shape_eqb p) l).
(* re-timing in place + reheapify: same events (type, task), possibly other times *)
Definition same_events (a b : list pev) : bool :=
  forallb (fun p => Nat.eqb (count_shape p a) (count_shape p b)) a &&
  forallb (fun p => Nat.eqb (count_shape p a) (count_shape p b)) b.

Record simq := mkSQ { q_sim : sim; q_pending : list pev; q_popped : option pev; q_handling : option pev }.

Inductive qev :=
| QSim (e : ev) | QPush (p : pev) | QPop (p : pev) | QRemove (p : pev) | QSync (l : list pev).

Definition ptime_of (s : sim) (t : Z) : Z := match s_tasks s t with Some x => t_ptime x | None => -1 end.
(* a placement event is never earlier than the time the scheduler chose for its task *)
Definition place_ok (s : sim) (p : pev) : bool :=
  match pe_type p, pe_task p with
  | TASK_PLACEMENT, Some (t, _) => ptime_of s t <=? pe_time p
  | TASK_PLACEMENT, None => false
  | _, _ => true
  end.
Definition all_place_ok (s : sim) (l : list pev) : bool := forallb (place_ok s) l.

Definition handle_matches (p : pev) (ty : event_type) (time : Z) (t : option Z) : bool :=
  event_type_eqb (pe_type p) ty && (pe_time p =? time) &&
  match pe_task p, t with
  | Some (a, _), Some b => a =? b
  | None, None => true
  | _, _ => false
  end.

Definition in_sched_finish (s : sim) : bool := cur_is s SCHEDULER_FINISHED None.

Definition sq_step (W : world) (q : simq) (e : qev) : option simq :=
  let s := q_sim q in
  match e with
  | QPush p =>
      if (s_clock s <=? pe_time p) && place_ok s p
      then Some (mkSQ s (p :: q_pending q) (q_popped q) (q_handling q)) else None
  | QPop p =>
      match q_popped q, q_handling q, s_cur s with
      | None, None, None =>
          if mem_pev p (q_pending q) && minimal p (q_pending q) && (pe_time p =? s_clock s)
          then Some (mkSQ s (remove_one p (q_pending q)) (Some p) None) else None
      | _, _, _ => None
      end
  | QRemove p =>
      if mem_pev p (q_pending q) then Some (mkSQ s (remove_one p (q_pending q)) (q_popped q) (q_handling q)) else None
  | QSync l =>
      if same_events (q_pending q) l && forallb (fun p => s_clock s <=? pe_time p) l
         && (in_sched_finish s || all_place_ok s l)
      then Some (mkSQ s l (q_popped q) (q_handling q)) else None
  | QSim (EStep d next) =>
      match q_popped q, q_handling q, min_time (q_pending q) with
      | None, None, Some m =>
          if next =? m then
            match sim_step W s (EStep d next) with
            | Some s' => Some (mkSQ s' (q_pending q) None None)
            | None => None
            end
          else None
      | _, _, _ => None
      end
  | QSim (EHandle ty time t) =>
      match q_popped q with
      | Some p =>
          if handle_matches p ty time t then
            match sim_step W s (EHandle ty time t) with
            | Some s' => Some (mkSQ s' (q_pending q) None (Some p))
            | None => None
            end
          else None
      | None => None
      end
  | QSim EHandled =>
      (* at the end of SCHEDULER_FINISHED every re-timed placement event is back at or after its chosen time *)
      if negb (in_sched_finish s) || (all_place_ok s (q_pending q)) then
        match sim_step W s EHandled with
        | Some s' => Some (mkSQ s' (q_pending q) (q_popped q) None)
        | None => None
        end
      else None
  | QSim (ESchedule t time ptime runtime) =>
      match sim_step W s (ESchedule t time ptime runtime) with
      | Some s' => Some (mkSQ s' (q_pending q) (q_popped q) (q_handling q))
      | None => None
      end
  | QSim e' =>
      match sim_step W s e' with
      | Some s' => Some (mkSQ s' (q_pending q) (q_popped q) (q_handling q))
      | None => None
      end
  end.

Definition sq_init : simq := mkSQ sim_init [] None None.

Fixpoint sq_run (W : world) (q : simq) (l : list qev) (i : Z) : simq * option Z :=
  match l with
  | [] => (q, None)
  | e :: rest => match sq_step W q e with Some q' => sq_run W q' rest (i + 1) | None => (q, Some i) end
  end.
Fixpoint sq_exec (W : world) (q : simq) (l : list qev) : option simq :=
  match l with
  | [] => Some q
  | e :: rest => match sq_step W q e with Some q' => sq_exec W q' rest | None => None end
  end.

Definition observe_q (W : world) (l : list qev) : val :=
  let '(q, rej) := sq_run W sq_init l 0 in
  let s := q_sim q in
  L [vopt I rej; I (s_clock s); vlist (observe_task s) (rev (s_dom s)); I (s_fin s); I (s_canc s);
     I (Z.of_nat (length (s_res s))); I (Z.of_nat (length (q_pending q)))].
