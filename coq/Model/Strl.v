(* C20 — STRL lowering of schedulers/tetrisched (C++): executable model, no proofs.

   Follows Expression.cpp / CapacityConstraint.cpp / SolverModel.cpp as written:
     ChooseExpression::parse        Expression.cpp:513-675
     AllocationExpression::parse    Expression.cpp:1469-1513
     ObjectiveExpression::parse     Expression.cpp:1542-1685
     LessThanExpression::parse      Expression.cpp:1757-1986
     MinExpression::parse           Expression.cpp:1993-2339
     MaxExpression::parse           Expression.cpp:2358-2699
     ScaleExpression::parse         Expression.cpp:2722-2798
     Expression::populateResults    Expression.cpp:297-395 (+ Choose 677-713, Objective 1687-1742)
     CapacityConstraintMap::registerUsageForDuration (static discretisation) CapacityConstraint.cpp:206-236
     CapacityConstraint::registerUsage / translate (useOverlapConstraints = false, the only mode
     Scheduler.cpp constructs)     CapacityConstraint.cpp:48-130

   Scope (property is PARTIAL for these reasons, see tools/claims/C20.json):
     - WindowedChoose, MalleableChoose, OptimizationPasses.cpp, dynamic discretisation and
       the overlap constraints are NOT modelled;
     - trees, not DAGs (a shared sub-expression is not expressible);
     - every node carries a distinct identifier [n]; the C++ expression name is "e<n>", so variable
       names are in bijection with [var] and placements (keyed by name in C++) are keyed by [n];
     - Time is uint32_t and coefficients are double in C++; here Z (exact below 2^31 / 2^53).
   Exceptions thrown by the C++ code are [Err 1]. *)
From Coq Require Import ZArith List Bool Lia.
From Verif Require Import Model.Val.
Import ListNotations.
Open Scope Z_scope.

(* ---------------------------------------------------------------- variables *)
Inductive var :=
| VInd (n : Z)          (* "<e>_placed_at_..", "_min_indicator", "_max_indicator", "_is_satisfied" *)
| VAlloc (n p : Z)      (* "<e>_using_partition_<p>_at_<start>" *)
| VStart (n : Z)        (* "_min_start_time" / "_max_start_time" *)
| VEnd (n : Z).         (* "_min_end_time" / "_max_end_time" *)

Definition var_eqb (a b : var) : bool :=
  match a, b with
  | VInd n, VInd m => n =? m
  | VAlloc n p, VAlloc m q => (n =? m) && (p =? q)
  | VStart n, VStart m => n =? m
  | VEnd n, VEnd m => n =? m
  | _, _ => false
  end.

Definition asg := var -> Z.

(* ---------------------------------------------------------------- expressions *)
Inductive expr :=
| Choose (n : Z) (parts : list Z) (amount start dur util : Z)
| Alloc (n : Z) (allocs : list (Z * Z)) (start dur : Z)
| Min (n : Z) (kids : list expr)
| Max (n : Z) (kids : list expr)
| LessThan (n : Z) (x y : expr)
| Scale (n : Z) (factor : Z) (disregard : bool) (kid : expr)
| Objective (n : Z) (kids : list expr).

Definition node_id (e : expr) : Z :=
  match e with
  | Choose n _ _ _ _ _ | Alloc n _ _ _ | Min n _ | Max n _ | LessThan n _ _ | Scale n _ _ _
  | Objective n _ => n
  end.

(* partitions: (id, quantity, available at parse time) *)
Definition ptab := list (Z * Z * bool).

Fixpoint qty_of (pt : ptab) (p : Z) : option Z :=
  match pt with
  | [] => None
  | (q, n, _) :: pt' => if q =? p then Some n else qty_of pt' p
  end.
Fixpoint avail_of (pt : ptab) (p : Z) : bool :=
  match pt with
  | [] => false
  | (q, _, a) :: pt' => if q =? p then a else avail_of pt' p
  end.
Definition qty0 (pt : ptab) (p : Z) : Z := match qty_of pt p with Some n => n | None => 0 end.

(* ---------------------------------------------------------------- parse results *)
Inductive atom := AVar (v : var) | AConst (k : Z).
Definition lin := list (Z * atom).               (* sum of coefficient * atom *)
Inductive pres := PNo | PU (s e : atom) (u : lin) (i : atom).

Definition aval (a : asg) (x : atom) : Z := match x with AVar v => a v | AConst k => k end.
Fixpoint lin_val (a : asg) (l : lin) : Z :=
  match l with [] => 0 | (c, x) :: l' => c * aval a x + lin_val a l' end.

Definition is_pu (r : pres) : bool := match r with PU _ _ _ _ => true | PNo => false end.
Definition pu_util (r : pres) : lin := match r with PU _ _ u _ => u | PNo => [] end.
Definition is_var (x : atom) : bool := match x with AVar _ => true | AConst _ => false end.
Definition pu_ind_var (r : pres) : bool := match r with PU _ _ _ i => is_var i | PNo => false end.

Definition UINT_MAX : Z := 4294967295.

Section Parse.
  Variable pt : ptab.
  Variable now : Z.

  Definition sched (parts : list Z) : list Z := filter (avail_of pt) parts.

  (* ObjectiveFunction::addTerm(coef, XOrVariable): a constant is folded into the coefficient *)
  Definition scaled_ind (f : Z) (i : atom) : Z * atom :=
    match i with AVar v => (f, AVar v) | AConst k => (f * k, AConst 1) end.

  Fixpoint parse (e : expr) : pres :=
    match e with
    | Choose n parts amount start dur util =>
        if now >? start then PNo
        else match sched parts with
             | [] => PNo
             | _ => PU (AConst start) (AConst (start + dur)) [(util, AVar (VInd n))] (AVar (VInd n))
             end
    | Alloc n allocs start dur =>
        PU (AConst start) (AConst (start + dur)) [(0, AConst 1)] (AConst 1)
    | Min n kids =>
        let rs := map parse kids in
        if forallb is_pu rs then
          let cnt := length (filter pu_ind_var rs) in
          PU (AVar (VStart n)) (AVar (VEnd n))
             (concat (map pu_util rs) ++ match cnt with O => [(1, AConst 1)] | _ => [] end)
             (match cnt with O => AConst 1 | _ => AVar (VInd n) end)
        else PNo
    | Max n kids =>
        let rs := map parse kids in
        PU (AVar (VStart n)) (AVar (VEnd n)) (concat (map pu_util rs)) (AVar (VInd n))
    | LessThan n x y =>
        match parse x, parse y with
        | PU sx ex ux ix, PU sy ey uy iy =>
            match ex, sy with
            | AConst a, AConst b => if a <=? b then PU sx ey (ux ++ uy) (AConst 1) else PNo
            | _, _ => PU sx ey (ux ++ uy) (AVar (VInd n))
            end
        | _, _ => PNo
        end
    | Scale n f dis kid =>
        match parse kid with
        | PU s en u i =>
            PU s en (if dis then [scaled_ind f i] else map (fun t => (fst t * f, snd t)) u) i
        | PNo => PNo
        end
    | Objective n kids =>
        PU (AConst 0) (AConst UINT_MAX) (concat (map pu_util (map parse kids))) (AConst 1)
    end.

  (* --------------------------------------------------------------- model pieces *)
  Record vdecl := { vd_var : var; vd_ind : bool; vd_lb : Z; vd_ub : option Z }.
  Inductive sense := LE | EQ | GE.          (* CONSTR_LE = 0, CONSTR_EQ = 1, CONSTR_GE = 2 *)
  Record row := { r_terms : list (Z * var); r_sense : sense; r_rhs : Z }.
  (* a usage registered with the capacity map: partition, slot time, variable or constant *)
  Definition reg := (Z * Z * atom)%type.

  (* Constraint::addTerm: variables are kept, constants are subtracted from the right-hand side *)
  Fixpoint lin_vars (l : lin) : list (Z * var) :=
    match l with
    | [] => []
    | (c, AVar v) :: l' => (c, v) :: lin_vars l'
    | (_, AConst _) :: l' => lin_vars l'
    end.
  Fixpoint lin_const (l : lin) : Z :=
    match l with
    | [] => 0
    | (_, AVar _) :: l' => lin_const l'
    | (c, AConst k) :: l' => c * k + lin_const l'
    end.
  Definition mkrow (s : sense) (l : lin) (rhs : Z) : row :=
    {| r_terms := lin_vars l; r_sense := s; r_rhs := rhs - lin_const l |}.

  (* registerUsageForDuration, static discretisation: for (t = start; t < start + dur; t += g) *)
  Variable g : Z.
  Fixpoint slots_from (fuel : nat) (t : Z) : list Z :=
    match fuel with O => [] | S f => t :: slots_from f (t + g) end.
  Definition slots (start dur : Z) : list Z :=
    slots_from (Z.to_nat ((dur + g - 1) / g)) start.

  Definition ind_decl (n : Z) : vdecl := {| vd_var := VInd n; vd_ind := true; vd_lb := 0; vd_ub := None |}.
  Definition int_decl (v : var) (lb : Z) (ub : option Z) : vdecl :=
    {| vd_var := v; vd_ind := false; vd_lb := lb; vd_ub := ub |}.

  Definition pu_start (r : pres) : atom := match r with PU s _ _ _ => s | PNo => AConst 0 end.
  Definition pu_end (r : pres) : atom := match r with PU _ e _ _ => e | PNo => AConst 0 end.
  Definition pu_ind (r : pres) : atom := match r with PU _ _ _ i => i | PNo => AConst 0 end.

  Definition list_min (d : Z) (l : list Z) : Z := fold_left Z.min l d.
  Definition list_max (d : Z) (l : list Z) : Z := fold_left Z.max l d.

  Definition konst (x : atom) : Z := match x with AConst k => k | AVar _ => 0 end.

  (* all sub-expressions, the node itself first *)
  Fixpoint subs (e : expr) : list expr :=
    e :: match e with
         | Choose _ _ _ _ _ _ | Alloc _ _ _ _ => []
         | Min _ kids | Max _ kids | Objective _ kids => flat_map subs kids
         | LessThan _ x y => subs x ++ subs y
         | Scale _ _ _ kid => subs kid
         end.

  (* what ONE node adds to the model when it is parsed (its children are parsed on their own:
     every node of the tree is parsed exactly once, Expression.cpp:519/1477/1549/1770/2000/2367) *)
  Definition own_vars (e : expr) : list vdecl :=
    match e with
    | Choose n parts amount start dur util =>
        match parse e with
        | PNo => []
        | PU _ _ _ _ =>
            ind_decl n :: map (fun p => int_decl (VAlloc n p) 0 (Some (Z.min (qty0 pt p) amount))) (sched parts)
        end
    | Alloc _ _ _ _ => []
    | Min n kids => [ind_decl n; int_decl (VStart n) 0 None; int_decl (VEnd n) 0 None]
    | Max n kids =>
        let rs := filter is_pu (map parse kids) in
        let lb := list_min UINT_MAX (map (fun r => konst (pu_start r)) rs) in
        let sub := list_max 0 (map (fun r => konst (pu_start r)) rs) in
        let eub := list_max 0 (map (fun r => konst (pu_end r)) rs) in
        [int_decl (VStart n) (- lb) (Some sub); int_decl (VEnd n) 0 (Some eub); ind_decl n]
    | LessThan n x y =>
        match parse x, parse y with
        | PU sx ex ux ix, PU sy ey uy iy =>
            match ex, sy with
            | AConst _, AConst _ => []
            | _, _ => [ind_decl n]
            end
        | _, _ => []
        end
    | Scale _ _ _ _ => []
    | Objective _ _ => []
    end.

  Definition own_rows (e : expr) : list row :=
    match e with
    | Choose n parts amount start dur util =>
        match parse e with
        | PNo => []
        | PU _ _ _ _ =>
            [mkrow EQ (map (fun p => (1, AVar (VAlloc n p))) (sched parts) ++ [(- amount, AVar (VInd n))]) 0]
        end
    | Alloc _ _ _ _ => []
    | Min n kids =>
        let rs := filter is_pu (map parse kids) in
        let inds := filter is_var (map pu_ind rs) in
        flat_map (fun r => [mkrow GE [(1, pu_start r); (-1, AVar (VStart n))] 0;
                            mkrow LE [(1, pu_end r); (-1, AVar (VEnd n))] 0]) rs
        ++ match inds with
           | [] => []
           | _ => [mkrow EQ (map (fun i => (1, i)) inds ++ [(- Z.of_nat (length inds), AVar (VInd n))]) 0]
           end
    | Max n kids =>
        let rs := filter is_pu (map parse kids) in
        let lb := list_min UINT_MAX (map (fun r => konst (pu_start r)) rs) in
        [mkrow GE (map (fun r => (konst (pu_start r), pu_ind r)) rs
                   ++ [(lb, AConst 1); (- lb, AVar (VInd n)); (-1, AVar (VStart n))]) 0;
         mkrow LE (map (fun r => (konst (pu_end r), pu_ind r)) rs ++ [(-1, AVar (VEnd n))]) 0;
         mkrow EQ (map (fun r => (1, pu_ind r)) rs ++ [(-1, AVar (VInd n))]) 0]
    | LessThan n x y =>
        match parse x, parse y with
        | PU sx ex ux ix, PU sy ey uy iy =>
            match ex, sy with
            | AConst _, AConst _ => []
            | _, _ =>
                let inds := filter is_var [ix; iy] in
                [mkrow EQ (map (fun i => (1, i)) inds ++ [(- Z.of_nat (length inds), AVar (VInd n))]) 0;
                 mkrow LE [(1, ex); (-1, sy)] 0]
            end
        | _, _ => []
        end
    | Scale _ _ _ _ => []
    | Objective _ _ => []
    end.

  Definition own_regs (e : expr) : list reg :=
    match e with
    | Choose n parts amount start dur util =>
        match parse e with
        | PNo => []
        | PU _ _ _ _ =>
            flat_map (fun p => map (fun t => (p, t, AVar (VAlloc n p))) (slots start dur)) (sched parts)
        end
    | Alloc n allocs start dur =>
        flat_map (fun pa => map (fun t => (fst pa, t, AConst (snd pa))) (slots start dur)) allocs
    | _ => []
    end.

  Definition e_vars (e : expr) : list vdecl := flat_map own_vars (subs e).
  Definition e_rows (e : expr) : list row := flat_map own_rows (subs e).
  Definition e_regs (e : expr) : list reg := flat_map own_regs (subs e).

  (* ------------------------------------------------- capacity rows (CapacityConstraintMap::translate) *)
  Definition key_eqb (a b : Z * Z) : bool := (fst a =? fst b) && (snd a =? snd b).
  Definition reg_key (r : reg) : Z * Z := (fst (fst r), snd (fst r)).
  Fixpoint key_mem (k : Z * Z) (l : list (Z * Z)) : bool :=
    match l with [] => false | k' :: l' => key_eqb k k' || key_mem k l' end.
  Fixpoint keys_nodup (l : list (Z * Z)) (seen : list (Z * Z)) : list (Z * Z) :=
    match l with
    | [] => []
    | k :: l' => if key_mem k seen then keys_nodup l' seen else k :: keys_nodup l' (k :: seen)
    end.
  Definition reg_keys (rs : list reg) : list (Z * Z) := keys_nodup (map reg_key rs) [].
  Definition regs_at (k : Z * Z) (rs : list reg) : lin :=
    map (fun r => (1, snd r)) (filter (fun r => key_eqb (reg_key r) k) rs).
  Definition cap_row (rs : list reg) (k : Z * Z) : row := mkrow LE (regs_at k rs) (qty0 pt (fst k)).
  Definition cap_rows (rs : list reg) : list row := map (cap_row rs) (reg_keys rs).

  (* ------------------------------------------------- what makes the C++ code throw *)
  Definition is_choose (e : expr) : bool := match e with Choose _ _ _ _ _ _ => true | _ => false end.
  Fixpoint nodupb (l : list Z) : bool :=
    match l with [] => true | x :: l' => negb (existsb (Z.eqb x) l') && nodupb l' end.
  Definition known (p : Z) : bool := match qty_of pt p with Some _ => true | None => false end.

  Fixpoint no_throw (e : expr) : bool :=
    match e with
    | Choose n parts amount start dur util => nodupb parts && forallb known parts
    | Alloc n allocs start dur => forallb (fun pa => known (fst pa)) allocs
    | Min n kids => negb (length kids =? 0)%nat && forallb no_throw kids
    | Max n kids =>
        negb (length kids =? 0)%nat && forallb is_choose kids && forallb no_throw kids
        && existsb is_pu (map parse kids)
    | LessThan n x y => no_throw x && no_throw y
    | Scale n f dis kid => no_throw kid
    | Objective n kids => false            (* nested objectives are outside the model *)
    end.

  Record csys := { cs_vars : list vdecl; cs_rows : list row; cs_obj : lin }.

  Definition compile (e : expr) : result csys :=
    match e with
    | Objective n kids =>
        if forallb no_throw kids then
          Ok {| cs_vars := e_vars e; cs_rows := e_rows e ++ cap_rows (e_regs e); cs_obj := pu_util (parse e) |}
        else Err 1
    | _ => Err 1
    end.

  (* ------------------------------------------------- satisfaction *)
  Fixpoint terms_val (a : asg) (l : list (Z * var)) : Z :=
    match l with [] => 0 | (c, v) :: l' => c * a v + terms_val a l' end.
  Definition row_holds (a : asg) (r : row) : bool :=
    match r_sense r with
    | LE => terms_val a (r_terms r) <=? r_rhs r
    | EQ => terms_val a (r_terms r) =? r_rhs r
    | GE => terms_val a (r_terms r) >=? r_rhs r
    end.
  (* GurobiSolver::translateVariable: indicators are binary, integers range over [lb, ub] *)
  Definition dom_ok (a : asg) (d : vdecl) : bool :=
    let x := a (vd_var d) in
    if vd_ind d then (0 <=? x) && (x <=? 1)
    else (vd_lb d <=? x) && match vd_ub d with Some u => x <=? u | None => true end.
  Definition sat (c : csys) (a : asg) : bool :=
    forallb (row_holds a) (cs_rows c) && forallb (dom_ok a) (cs_vars c).
  Definition objective_value (c : csys) (a : asg) : Z := lin_val a (cs_obj c).

  (* ------------------------------------------------- populateResults *)
  Record placement := { pl_name : Z; pl_start : Z; pl_end : Z; pl_allocs : list (Z * Z * Z) }.
  Inductive sol := SNo | SU (s e u : Z) (pls : list placement).

  Fixpoint pl_insert (acc : list placement) (p : placement) : list placement :=
    match acc with
    | [] => [p]
    | q :: acc' => if pl_name q =? pl_name p then p :: acc' else q :: pl_insert acc' p
    end.
  (* children whose utility is 0 are skipped; an EXPRESSION_NO_UTILITY child has no utility value
     (std::nullopt == 0 is false) and an empty placement map *)
  Definition merge_child (acc : list placement) (s : sol) : list placement :=
    match s with
    | SNo => acc
    | SU _ _ u pls => if u =? 0 then acc else fold_left pl_insert pls acc
    end.
  Definition merge (sols : list sol) : list placement := fold_left merge_child sols [].

  Definition generic (a : asg) (r : pres) (sols : list sol) : sol :=
    match r with
    | PNo => SNo
    | PU s en u i => SU (aval a s) (aval a en) (lin_val a u) (merge sols)
    end.

  Definition sol_live (s : sol) : bool := match s with SU _ _ u _ => negb (u =? 0) | SNo => false end.
  Definition sol_start (s : sol) : Z := match s with SU x _ _ _ => x | SNo => 0 end.
  Definition sol_end (s : sol) : Z := match s with SU _ x _ _ => x | SNo => 0 end.
  Definition sol_util (s : sol) : Z := match s with SU _ _ u _ => u | SNo => 0 end.
  Definition sol_pls (s : sol) : list placement := match s with SU _ _ _ p => p | SNo => [] end.

  Fixpoint solve (a : asg) (e : expr) : sol :=
    match e with
    | Choose n parts amount start dur util =>
        match generic a (parse e) [] with
        | SNo => SNo
        | SU s en u _ =>
            if u =? 0 then SU s en u []
            else SU s en u
                   [{| pl_name := n; pl_start := s; pl_end := en;
                       pl_allocs := map (fun p => (p, s, a (VAlloc n p)))
                                        (filter (fun p => negb (a (VAlloc n p) =? 0)) (sched parts)) |}]
        end
    | Alloc n allocs start dur => generic a (parse e) []
    | Min n kids => generic a (parse e) (map (solve a) kids)
    | Max n kids => generic a (parse e) (map (solve a) kids)
    | LessThan n x y => generic a (parse e) [solve a x; solve a y]
    | Scale n f dis kid => generic a (parse e) [solve a kid]
    | Objective n kids =>
        let sols := map (solve a) kids in
        match generic a (parse e) sols with
        | SNo => SNo
        | SU s en u pls =>
            if u =? 0 then SU s en u pls
            else let live := filter sol_live sols in
                 SU (list_min UINT_MAX (map sol_start live)) (list_max 0 (map sol_end live)) u pls
        end
    end.

  Definition populate (a : asg) (e : expr) : list placement := sol_pls (solve a e).
End Parse.

(* ---------------------------------------------------------------- observations *)
(* usage of partition p at time tau by a list of placements *)
Definition sumZ (l : list Z) : Z := fold_right Z.add 0 l.
Definition pl_active (tau : Z) (p : placement) : bool := (pl_start p <=? tau) && (tau <? pl_end p).
Definition alloc_amount (p : Z) (al : list (Z * Z * Z)) : Z :=
  sumZ (map (fun x => if fst (fst x) =? p then snd x else 0) al).
Definition pl_use (p tau : Z) (pl : placement) : Z :=
  if pl_active tau pl then alloc_amount p (pl_allocs pl) else 0.
Definition usage (pls : list placement) (p tau : Z) : Z := sumZ (map (pl_use p tau) pls).

(* constant usage of the Allocation leaves at (p, tau) *)
Definition leaf_alloc (p tau : Z) (e : expr) : Z :=
  match e with
  | Alloc n allocs start dur =>
      if (start <=? tau) && (tau <? start + dur)
      then sumZ (map (fun pa => if fst pa =? p then snd pa else 0) allocs) else 0
  | _ => 0
  end.
Definition alloc_usage (e : expr) (p tau : Z) : Z := sumZ (map (leaf_alloc p tau) (subs e)).

(* leaves: (start, dur) of every Choose / Allocation *)
Definition leaf_span (e : expr) : list (Z * Z) :=
  match e with
  | Choose _ _ _ start dur _ => [(start, dur)]
  | Alloc _ _ start dur => [(start, dur)]
  | _ => []
  end.
Definition leaf_spans (e : expr) : list (Z * Z) := flat_map leaf_span (subs e).
(* all leaf start times are congruent modulo the granularity *)
Definition alignedb (g : Z) (e : expr) : bool :=
  match leaf_spans e with
  | [] => true
  | (s0, _) :: l => forallb (fun sd => (fst sd - s0) mod g =? 0) l
  end.

(* ---------------------------------------------------------------- canonical dumps (val) *)
Fixpoint val_cmp (a b : val) {struct a} : comparison :=
  match a, b with
  | I x, I y => Z.compare x y
  | I _, L _ => Lt
  | L _, I _ => Gt
  | L xs, L ys =>
      (fix go (xs ys : list val) : comparison :=
         match xs, ys with
         | [], [] => Eq
         | [], _ :: _ => Lt
         | _ :: _, [] => Gt
         | x :: xs', y :: ys' => match val_cmp x y with Eq => go xs' ys' | c => c end
         end) xs ys
  end.
Definition val_leb (a b : val) : bool := match val_cmp a b with Gt => false | _ => true end.
Fixpoint vinsert (x : val) (l : list val) : list val :=
  match l with [] => [x] | y :: l' => if val_leb x y then x :: l else y :: vinsert x l' end.
Definition vsort (l : list val) : list val := fold_right vinsert [] l.

Definition v_var (v : var) : val :=
  match v with
  | VInd n => L [I 0; I n; I 0]
  | VAlloc n p => L [I 1; I n; I p]
  | VStart n => L [I 2; I n; I 0]
  | VEnd n => L [I 3; I n; I 0]
  end.
Definition v_sense (s : sense) : val := I (match s with LE => 0 | EQ => 1 | GE => 2 end).
Definition v_decl (d : vdecl) : val :=
  L [v_var (vd_var d); vbool (vd_ind d); I (vd_lb d); vopt I (vd_ub d)].
(* terms with equal variables are NOT merged (the C++ keeps them apart too); zero coefficients stay *)
Definition v_row (r : row) : val :=
  L [v_sense (r_sense r); I (r_rhs r); L (vsort (map (fun t => L [v_var (snd t); I (fst t)]) (r_terms r)))].
Definition v_lin (l : lin) : val :=
  L [I (lin_const l); L (vsort (map (fun t => L [v_var (snd t); I (fst t)]) (lin_vars l)))].
Definition v_csys (c : csys) : val :=
  L [L (vsort (map v_decl (cs_vars c))); L (vsort (map v_row (cs_rows c))); v_lin (cs_obj c)].

Definition obs_compile (x : ptab * Z * Z * expr) : val :=
  match x with (pt, now, g, e) => vres v_csys (compile pt now g e) end.

(* assignments as association lists (default 0) *)
Fixpoint asg_of (l : list (var * Z)) (v : var) : Z :=
  match l with [] => 0 | (w, x) :: l' => if var_eqb w v then x else asg_of l' v end.

Definition v_alloc (x : Z * Z * Z) : val := L [I (fst (fst x)); I (snd (fst x)); I (snd x)].
Definition v_placement (p : placement) : val :=
  L [I (pl_name p); I (pl_start p); I (pl_end p); L (vsort (map v_alloc (pl_allocs p)))].
Definition v_sol_brief (s : sol) : val :=
  match s with SNo => L [I 1] | SU _ _ u _ => L [I 2; I u] end.

Fixpoint node_sols (pt : ptab) (now : Z) (a : asg) (e : expr) : list val :=
  L [I (node_id e); v_sol_brief (solve pt now a e)] ::
  match e with
  | Choose _ _ _ _ _ _ | Alloc _ _ _ _ => []
  | Min _ kids | Max _ kids | Objective _ kids => flat_map (node_sols pt now a) kids
  | LessThan _ x y => node_sols pt now a x ++ node_sols pt now a y
  | Scale _ _ _ kid => node_sols pt now a kid
  end.

(* [sat?; objective; utility of the root; root start; root end; placements; per node (type, utility)] *)
Definition obs_populate (x : ptab * Z * Z * expr * list (var * Z)) : val :=
  match x with (pt, now, g, e, al) =>
    let a := asg_of al in
    match compile pt now g e with
    | Err c => L [I 1; I c]
    | Ok cs =>
        let s := solve pt now a e in
        L [I 0; vbool (sat cs a); I (objective_value cs a); I (sol_util s); I (sol_start s); I (sol_end s);
           L (vsort (map v_placement (sol_pls s)));
           L (vsort (node_sols pt now a e))]
    end
  end.

(* ---------------------------------------------------------------- monitors (decidable forms) *)
(* times at which usage can change: starts of placements and of allocation leaves *)
Definition pl_starts (pls : list placement) : list Z := map pl_start pls.
Definition leaf_starts (e : expr) : list Z := map fst (leaf_spans e).

(* capacity respected at every listed time for every partition of the table *)
Definition capacity_okb (pt : ptab) (e : expr) (pls : list placement) : bool :=
  forallb (fun pq =>
    forallb (fun tau => usage pls (fst (fst pq)) tau + alloc_usage e (fst (fst pq)) tau <=? snd (fst pq))
            (pl_starts pls ++ leaf_starts e)) pt.

(* every placement is the exact image of a Choose leaf of the tree: same name, start, end = start +
   duration, total amount = requested amount, every allocation drawn from an available partition of
   the Choose at the Choose's start time, positive and within the partition's quantity *)
Definition pl_total (pl : placement) : Z := sumZ (map snd (pl_allocs pl)).
Definition alloc_okb (pt : ptab) (ps : list Z) (s : Z) (x : Z * Z * Z) : bool :=
  existsb (Z.eqb (fst (fst x))) ps && avail_of pt (fst (fst x)) && (snd (fst x) =? s)
  && (0 <? snd x) && (snd x <=? qty0 pt (fst (fst x))).
Definition placement_matchesb (pt : ptab) (now : Z) (pl : placement) (c : expr) : bool :=
  match c with
  | Choose n ps am s d u =>
      (pl_name pl =? n) && (pl_start pl =? s) && (pl_end pl =? s + d) && (pl_total pl =? am)
      && (now <=? s) && forallb (alloc_okb pt ps s) (pl_allocs pl)
  | _ => false
  end.
Definition placements_exactb (pt : ptab) (now : Z) (e : expr) (pls : list placement) : bool :=
  forallb (fun pl => existsb (placement_matchesb pt now pl) (subs e)) pls.

(* Max: all placements named after children of one Max node carry the same name *)
Definition memZ (x : Z) (l : list Z) : bool := existsb (Z.eqb x) l.
Definition max_node_okb (pls : list placement) (e : expr) : bool :=
  match e with
  | Max n ks =>
      let ids := map node_id ks in
      let mine := filter (fun pl => memZ (pl_name pl) ids) pls in
      forallb (fun p1 => forallb (fun p2 => pl_name p1 =? pl_name p2) mine) mine
  | _ => true
  end.
Definition max_okb (e : expr) (pls : list placement) : bool := forallb (max_node_okb pls) (subs e).
Fixpoint nodupZ (l : list Z) : bool :=
  match l with [] => true | x :: l' => negb (memZ x l') && nodupZ l' end.
Definition names_nodupb (pls : list placement) : bool := nodupZ (map pl_name pls).

(* LessThan: every placement named after a Choose below the first child ends before every placement
   named after a Choose below the second child starts *)
Definition choose_id (e : expr) : list Z := match e with Choose n _ _ _ _ _ => [n] | _ => [] end.
Definition choose_ids (e : expr) : list Z := flat_map choose_id (subs e).
Definition lt_node_okb (pls : list placement) (e : expr) : bool :=
  match e with
  | LessThan n x y =>
      let first := filter (fun pl => memZ (pl_name pl) (choose_ids x)) pls in
      let second := filter (fun pl => memZ (pl_name pl) (choose_ids y)) pls in
      forallb (fun p1 => forallb (fun p2 => pl_end p1 <=? pl_start p2) second) first
  | _ => true
  end.
Definition lt_okb (e : expr) (pls : list placement) : bool := forallb (lt_node_okb pls) (subs e).

(* all monitors that hold for every tree *)
Definition structure_okb (pt : ptab) (now : Z) (e : expr) (pls : list placement) : bool :=
  placements_exactb pt now e pls && max_okb e pls && names_nodupb pls.

(* ================================================================ range-based (dynamic) discretisation
   CapacityConstraintMap::registerUsageForDuration, useDynamicDiscretization branch
   (CapacityConstraint.cpp:237-319): the slots of a usage follow the list of (first, second, granularity)
   ranges, starting at the FIRST time of the range that contains the start.  Everything else of the
   lowering is unchanged, so the model is parametrised by the slot function. *)
Section WithSlots.
  Variable pt : ptab.
  Variable now : Z.
  Variable sl : Z -> Z -> list Z.          (* start -> duration -> capacity-map keys *)

  Definition own_regs_with (e : expr) : list reg :=
    match e with
    | Choose n parts amount start dur util =>
        match parse pt now e with
        | PNo => []
        | PU _ _ _ _ =>
            flat_map (fun p => map (fun t => (p, t, AVar (VAlloc n p))) (sl start dur)) (sched pt parts)
        end
    | Alloc n allocs start dur =>
        flat_map (fun pa => map (fun t => (fst pa, t, AConst (snd pa))) (sl start dur)) allocs
    | _ => []
    end.
  Definition e_regs_with (e : expr) : list reg := flat_map own_regs_with (subs e).

  Definition compile_with (e : expr) : result csys :=
    match e with
    | Objective n kids =>
        if forallb (no_throw pt now) kids then
          Ok {| cs_vars := e_vars pt now e; cs_rows := e_rows pt now e ++ cap_rows pt (e_regs_with e);
                cs_obj := pu_util (parse pt now e) |}
        else Err 1
    | _ => Err 1
    end.
End WithSlots.

Definition ranges := list (Z * Z * Z).      (* first, second, granularity *)

Fixpoint find_range (rs : ranges) (start : Z) (i : nat) : option nat :=
  match rs with
  | [] => None
  | (_, s2, _) :: rs' => if start <? s2 then Some i else find_range rs' start (S i)
  end.

(* one iteration of the two nested loops, see the comment in the C++ source; state = (index, current
   time, remainder); stops when the remainder is 0 *)
Fixpoint dyn_loop (fuel : nat) (rs : ranges) (idx : nat) (cur rem stop : Z) : list Z :=
  match fuel with
  | O => []
  | S f =>
      if rem <=? 0 then []
      else match nth_error rs idx with
           | None => []
           | Some (_, s2, g) =>
               let lim := Z.min stop s2 in
               let last := (S idx =? length rs)%nat in
               if (cur <? lim) || last then
                 let cur' := cur + g in
                 let rem' := if rem >? g then rem - g else 0 in
                 cur :: (if negb (rem' =? 0) && (cur' >=? lim) && last then []
                         else dyn_loop f rs idx cur' rem' stop)
               else if (cur >=? s2) && negb last then dyn_loop f rs (S idx) cur rem stop
               else []
           end
  end.

Definition dyn_slots (rs : ranges) (start dur : Z) : list Z :=
  match find_range rs start 0 with
  | None => []
  | Some idx =>
      match nth_error rs idx with
      | None => []
      | Some (f, _, _) => dyn_loop (Z.to_nat (dur + (start - f)) + length rs + 1) rs idx f (dur + (start - f)) (start + dur)
      end
  end.

(* the C++ throws when a start lies beyond the last range; a start before the first time of its range
   makes `startTime - currentTime` wrap around in uint32 arithmetic: outside the model *)
Definition range_ok (rs : ranges) (sd : Z * Z) : bool :=
  match find_range rs (fst sd) 0 with
  | None => false
  | Some idx => match nth_error rs idx with Some (f, _, g) => (f <=? fst sd) | None => false end
  end.
Definition ranges_okb (rs : ranges) : bool := forallb (fun r => 0 <? snd r) rs.

(* only leaves that register something reach registerUsageForDuration *)
Definition reg_span (pt : ptab) (now : Z) (e : expr) : list (Z * Z) :=
  match e with
  | Choose _ _ _ start dur _ => if is_pu (parse pt now e) then [(start, dur)] else []
  | Alloc _ allocs start dur => match allocs with [] => [] | _ => [(start, dur)] end
  | _ => []
  end.
Definition compile_dyn (pt : ptab) (now : Z) (rs : ranges) (e : expr) : result csys :=
  if ranges_okb rs && forallb (range_ok rs) (flat_map (reg_span pt now) (subs e))
  then compile_with pt now (dyn_slots rs) e else Err 1.

Definition obs_compile_dyn (x : ptab * Z * ranges * expr) : val :=
  match x with (pt, now, rs, e) => vres v_csys (compile_dyn pt now rs e) end.

(* the covering condition under which capacity holds for ANY slot function: one key per time, registered by
   every leaf that is active at that time.  Decidable form for the range-based slots: *)
Fixpoint grid_key (rs : ranges) (tau : Z) : Z :=
  match rs with
  | [] => tau
  | (f, s2, g) :: rs' =>
      match rs' with
      | [] => (* beyond the last range nothing more is registered: the last slot stands for all later times *)
              if tau <? s2 then f + ((tau - f) / g) * g else f + ((s2 - 1 - f) / g) * g
      | _ => if tau <? s2 then f + ((tau - f) / g) * g else grid_key rs' tau
      end
  end.
Definition times_of (s d : Z) : list Z := map (fun k => s + Z.of_nat k) (seq 0 (Z.to_nat d)).
Definition coveringb (sl : Z -> Z -> list Z) (key : Z -> Z) (e : expr) : bool :=
  forallb (fun sd => forallb (fun tau => memZ (key tau) (sl (fst sd) (snd sd))) (times_of (fst sd) (snd sd)))
          (leaf_spans e).

(* Min at the level of the read-back: of the members of a Min that contain Choose leaves, either none
   or every one has a placement (judged against the ORIGINAL tree, whatever the lowering did to it) *)
Definition has_placement (pls : list placement) (e : expr) : bool :=
  existsb (fun pl => memZ (pl_name pl) (choose_ids e)) pls.
Definition min_node_okb (pls : list placement) (e : expr) : bool :=
  match e with
  | Min n ks =>
      let ms := filter (fun k => match choose_ids k with [] => false | _ => true end) ks in
      forallb (has_placement pls) ms || negb (existsb (has_placement pls) ms)
  | _ => true
  end.
Definition min_okb (e : expr) (pls : list placement) : bool := forallb (min_node_okb pls) (subs e).
