(* The rows of the CSV trace as an OUTPUT of the simulator machine (Model/Sim.v).

   For every accepted primitive call the machine emits the rows simulator.py writes at that call site,
   computed from the machine's OWN state (never from the row the implementation printed):

     __init__ / __handle_scheduler_start / LOG_UTILIZATION   WORKER_POOL_UTILIZATION (one per pool and resource name)
     __handle_task_release    (after Task.release)            TASK_RELEASE   time, task, release time, deadline
     __handle_task_placement  (after Task.start)              TASK_PLACEMENT time, task, strategy runtime, allocated resources
     __handle_task_finished   (after Task.finish)             TASK_FINISHED  time, task, completion time, deadline
                                                              MISSED_DEADLINE iff event.time > task.deadline
     __handle_task_cancellation                               TASK_CANCEL    time, task
     SIMULATOR_END                                            finished / cancelled / missed-deadline counters

   The tie: the implementation's captured CSV rows of these kinds (canonicalised: names -> ids, resources
   aggregated by name) must equal `rows_of` of the same run's call log, row by row and in order
   (stream S-rows of harness/props/c08.py).  Graph-level rows, scheduler rows and TASK_SCHEDULED / TASK_SKIP rows
   depend on objects outside the machine and stay with the monitors of c08.py. *)
From Coq Require Import ZArith Bool List.
Import ListNotations.
From Verif Require Import Model.Val Gen.Src_Task Gen.Src_Event Model.Sim.
Open Scope Z_scope.

Inductive row :=
| RUtil (time pool res alloc avail : Z)
| RRelease (time t release deadline : Z)
| RPlacement (time t runtime : Z) (req : request)
| RFinished (time t completion deadline : Z)
| RMissed (time t deadline : Z)
| RCancel (time t : Z)
| REnd (time fin canc missed : Z).

(* pools of the cluster description: pool id, its workers, the resource names its ledger lists *)
Definition layout := list (Z * list Z * list Z).

Fixpoint pool_used (res : list (Z * Z * request)) (ws : list Z) (r : Z) : Z :=
  match ws with [] => 0 | w :: rest => used res w r + pool_used res rest r end.
Fixpoint pool_cap (W : world) (ws : list Z) (r : Z) : Z :=
  match ws with [] => 0 | w :: rest => w_cap W w r + pool_cap W rest r end.

Definition util_pool (W : world) (s : sim) (time : Z) (p : Z * list Z * list Z) : list row :=
  map (fun r => RUtil time (fst (fst p)) r (pool_used (s_res s) (snd (fst p)) r)
                      (pool_cap W (snd (fst p)) r - pool_used (s_res s) (snd (fst p)) r)) (snd p).
Definition util_rows (W : world) (L : layout) (s : sim) (time : Z) : list row :=
  flat_map (util_pool W s time) L.

Fixpoint req_of (res : list (Z * Z * request)) (t : Z) : request :=
  match res with
  | [] => []
  | e :: rest => if fst (fst e) =? t then snd e else req_of rest t
  end.

(* rows written while the machine performs the accepted call e (s before, s' after); m = deadline misses so far *)
Definition rows_ev (W : world) (L : layout) (m : Z) (s s' : sim) (e : ev) : list row :=
  match e with
  | EHandle ty time t =>
      if event_type_eqb ty SCHEDULER_START || event_type_eqb ty LOG_UTILIZATION then util_rows W L s time
      else if event_type_eqb ty TASK_CANCEL then [RCancel time (match t with Some u => u | None => -1 end)]
      else if event_type_eqb ty SIMULATOR_END then [REnd time (s_fin s) (s_canc s) m]
      else []
  | ERelease t _ =>
      match s_tasks s' t with
      | Some x => [RRelease (s_clock s) t (t_release_time (t_dyn x)) (t_deadline (t_dyn x))]
      | None => []
      end
  | EStart t _ _ =>
      match s_tasks s' t with
      | Some x => [RPlacement (s_clock s) t (t_runtime x) (req_of (s_res s) t)]
      | None => []
      end
  | EFinish t =>
      match s_tasks s' t with
      | Some x => RFinished (s_clock s) t (t_completion_time (t_dyn x)) (t_deadline (t_dyn x))
                  :: (if t_deadline (t_dyn x) <? s_clock s then [RMissed (s_clock s) t (t_deadline (t_dyn x))] else [])
      | None => []
      end
  | _ => []
  end.

Definition is_missed (r : row) : Z := match r with RMissed _ _ _ => 1 | _ => 0 end.
Definition is_finished (r : row) : Z := match r with RFinished _ _ _ _ => 1 | _ => 0 end.
Definition is_cancel (r : row) : Z := match r with RCancel _ _ => 1 | _ => 0 end.
Fixpoint count_rows (f : row -> Z) (rs : list row) : Z :=
  match rs with [] => 0 | r :: rest => f r + count_rows f rest end.

(* the rows of a log; None if the machine rejects it *)
Fixpoint rows_run (W : world) (L : layout) (s : sim) (m : Z) (l : list ev) : option (list row) :=
  match l with
  | [] => Some []
  | e :: rest =>
      match sim_step W s e with
      | None => None
      | Some s' =>
          let rs := rows_ev W L m s s' e in
          match rows_run W L s' (m + count_rows is_missed rs) rest with
          | Some rr => Some (rs ++ rr)
          | None => None
          end
      end
  end.

(* Simulator.__init__ logs the utilisation of the empty cluster at time 0 before the loop starts *)
Definition rows_of (W : world) (L : layout) (l : list ev) : option (list row) :=
  match rows_run W L sim_init 0 l with
  | Some rr => Some (util_rows W L sim_init 0 ++ rr)
  | None => None
  end.

(* ---------- observation for the correspondence check *)
Definition vreq (q : request) : val := vlist (fun nq => L [I (fst nq); I (snd nq)]) q.
Definition row_val (r : row) : val :=
  match r with
  | RUtil a b c d e => L [I 0; I a; I b; I c; I d; I e]
  | RRelease a b c d => L [I 1; I a; I b; I c; I d]
  | RPlacement a b c q => L [I 2; I a; I b; I c; vreq q]
  | RFinished a b c d => L [I 3; I a; I b; I c; I d]
  | RMissed a b c => L [I 4; I a; I b; I c]
  | RCancel a b => L [I 5; I a; I b]
  | REnd a b c d => L [I 6; I a; I b; I c; I d]
  end.
Definition observe_rows (W : world) (L0 : layout) (l : list ev) : val :=
  match rows_of W L0 l with
  | Some rr => vlist row_val rr
  | None => L [I (-1)]
  end.
