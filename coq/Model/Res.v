(* Model of workload/resource.py (Resource) and workload/resources.py (Resources), as the code is
   NOW (allocate_multiple rolls a partial allocation back before re-raising).  No proofs here
   (Proofs/ResP*.v).  Follows /repo 0f42ab1 (allocate refuses negative quantities, allocate_multiple
   registers the computation, __copy__ copies the ledger, __gt__ plays the requests).

   ===== EXECUTABLE INTERFACE (stable; other modules import it) =====================================
   rid      := RAny | RId n                 the `_id` of a Resource: "any" or a specific id
   rkey     := (name : Z) * rid             a Resource; dict identity is (name,id): rkey_eqb
   res_match a b                            Resource.__eq__  (symmetric, NOT transitive: `any` matches
                                            every id of the same name)
   rvec     := list (rkey * Z)              an insertion-ordered dict Resource -> quantity; a REQUEST
                                            (strategy.resources) is an rvec as well
   comp     := CTask t | CBatch b | CProf p the computation an allocation belongs to (a Task, the
                                            placeholder Task of a batch, a WorkProfile)
   res      := {r_avail; r_total; r_allocs} _resource_vector, __total_resources, _current_allocations
                                            (insertion-ordered dict computation -> list of (key, qty))
   r_new v                                  Resources(resource_vector=v)
   r_available R r / r_total_q R r / r_allocated_q R r      get_available/total/allocated_quantity
   r_allocate R r c q      : res * result unit              allocate            (Err 1 = ValueError)
   r_allocate_multiple R req c : res * result unit          allocate_multiple   (with the rollback)
   r_deallocate R c        : res * result unit              deallocate
   r_get_allocated_resources R c : res * list (rkey*Z)      the getter (it INSERTS an empty entry: defaultdict)
   r_gt R req  (fit test `self > req`, used by can_accomodate_strategy: the requests played in order on a
               scratch copy, /repo 402c33a), r_gt_per_key (the older per-key test), r_eq, r_empty
   r_copy R : result res   (__copy__ copies the cells and the allocation lists; always Ok since /repo cd7cd87)
   r_deepcopy R : res      (__deepcopy__: totals only)
   r_add A B : res         (__add__)
   Every operation that can raise returns the (possibly partially mutated) state AND the outcome.
   sumP P v                 sum of the quantities of the cells of v whose key satisfies P
   ================================================================================================ *)
From Coq Require Import ZArith List Bool.
Import ListNotations.
From Verif Require Import Model.Val.
Open Scope Z_scope.

Inductive rid := RAny | RId (n : Z).
Definition rkey := (Z * rid)%type.
Definition rid_eqb (a b : rid) : bool :=
  match a, b with RAny, RAny => true | RId x, RId y => x =? y | _, _ => false end.
Definition rkey_eqb (a b : rkey) : bool := (fst a =? fst b) && rid_eqb (snd a) (snd b).
Definition rid_match (a b : rid) : bool :=
  match a, b with RAny, _ => true | _, RAny => true | RId x, RId y => x =? y end.
(* Resource.__eq__ *)
Definition res_match (a b : rkey) : bool := (fst a =? fst b) && rid_match (snd a) (snd b).

Definition rvec := list (rkey * Z).

Inductive comp := CTask (t : Z) | CBatch (b : Z) | CProf (p : Z).
Definition comp_eqb (a b : comp) : bool :=
  match a, b with
  | CTask x, CTask y => x =? y
  | CBatch x, CBatch y => x =? y
  | CProf x, CProf y => x =? y
  | _, _ => false
  end.

Definition allocs := list (comp * list (rkey * Z)).
Record res := mkRes { r_avail : rvec; r_total : rvec; r_allocs : allocs }.

Definition r_new (v : rvec) : res := mkRes v v [].

Fixpoint sumP (P : rkey -> bool) (v : rvec) : Z :=
  match v with
  | [] => 0
  | (k, q) :: v' => (if P k then q else 0) + sumP P v'
  end.

(* get_available_quantity / get_total_quantity / get_allocated_quantity *)
Definition vec_quantity (v : rvec) (r : rkey) : Z := sumP (fun k => res_match k r) v.
Definition r_available (R : res) (r : rkey) : Z := vec_quantity (r_avail R) r.
Definition r_total_q (R : res) (r : rkey) : Z := vec_quantity (r_total R) r.
Definition r_allocated_q (R : res) (r : rkey) : Z := r_total_q R r - r_available R r.

(* `d[k] += q` on a defaultdict(int) *)
Fixpoint vec_add (k : rkey) (q : Z) (v : rvec) : rvec :=
  match v with
  | [] => [(k, q)]
  | (k', q') :: v' => if rkey_eqb k' k then (k', q' + q) :: v' else (k', q') :: vec_add k q v'
  end.

(* the dict of current allocations *)
Fixpoint al_find (c : comp) (a : allocs) : option (list (rkey * Z)) :=
  match a with
  | [] => None
  | (c', l) :: a' => if comp_eqb c' c then Some l else al_find c a'
  end.
Fixpoint al_set (c : comp) (l : list (rkey * Z)) (a : allocs) : allocs :=
  match a with
  | [] => [(c, l)]
  | (c', l') :: a' => if comp_eqb c' c then (c', l) :: a' else (c', l') :: al_set c l a'
  end.
Fixpoint al_remove (c : comp) (a : allocs) : allocs :=
  match a with
  | [] => []
  | (c', l) :: a' => if comp_eqb c' c then a' else (c', l) :: al_remove c a'
  end.
Definition al_get (c : comp) (a : allocs) : list (rkey * Z) :=
  match al_find c a with Some l => l | None => [] end.
(* `_current_allocations[c].append(x)` for every x of recs (nothing is touched when recs = []) *)
Definition al_append (c : comp) (recs : list (rkey * Z)) (a : allocs) : allocs :=
  match recs with
  | [] => a
  | _ => al_set c (al_get c a ++ recs) a
  end.

(* the loop of Resources.allocate over the vector: new vector and the records appended *)
Fixpoint alloc_loop (r : rkey) (rem : Z) (v : rvec) : rvec * list (rkey * Z) :=
  match v with
  | [] => ([], [])
  | (k, q) :: v' =>
      if res_match k r then
        if rem <=? q then ((k, q - rem) :: v', [(k, rem)])              (* ... break *)
        else
          let cell := if 0 <? q then (k, 0) else (k, q) in
          let rec_ := if 0 <? q then [(k, q)] else [] in
          let rem' := rem - q in
          if rem' =? 0 then (cell :: v', rec_)
          else let '(v'', rs) := alloc_loop r rem' v' in (cell :: v'', rec_ ++ rs)
      else
        if rem =? 0 then ((k, q) :: v', [])
        else let '(v'', rs) := alloc_loop r rem v' in ((k, q) :: v'', rs)
  end.

Definition E_VALUE : Z := 1.      (* ValueError *)
Definition E_RUNTIME : Z := 2.    (* RuntimeError *)
Definition E_ATTRIBUTE : Z := 3.  (* AttributeError *)
Definition E_KEY : Z := 4.        (* KeyError *)

Definition r_allocate (R : res) (r : rkey) (c : comp) (q : Z) : res * result unit :=
  if q <? 0 then (R, Err E_VALUE)
  else if r_available R r <? q then (R, Err E_VALUE)
  else
    let '(v, recs) := alloc_loop r q (r_avail R) in
    (mkRes v (r_total R) (al_append c recs (r_allocs R)), Ok tt).

Fixpoint alloc_seq (R : res) (req : rvec) (c : comp) : res * result unit :=
  match req with
  | [] => (R, Ok tt)
  | (r, q) :: req' =>
      match r_allocate R r c q with
      | (R', Ok _) => alloc_seq R' req' c
      | (R', Err e) => (R', Err e)
      end
  end.

(* the `except ValueError:` block of allocate_multiple *)
Definition r_rollback (R : res) (c : comp) (num_previous : nat) (had_entry : bool) : res :=
  match al_find c (r_allocs R) with
  | None => R
  | Some l =>
      let v := fold_left (fun v kq => vec_add (fst kq) (snd kq) v) (skipn num_previous l) (r_avail R) in
      let a := al_set c (firstn num_previous l) (r_allocs R) in
      mkRes v (r_total R) (if had_entry then a else al_remove c a)
  end.
(* `self._current_allocations[computation]` after a successful allocation: the computation is
   registered even if nothing was recorded *)
Definition al_register (c : comp) (a : allocs) : allocs :=
  match al_find c a with Some _ => a | None => a ++ [(c, [])] end.

Definition r_allocate_multiple (R : res) (req : rvec) (c : comp) : res * result unit :=
  if existsb (fun rq => r_available R (fst rq) <? snd rq) req then (R, Err E_VALUE)
  else
    let num_previous := length (al_get c (r_allocs R)) in
    let had_entry := match al_find c (r_allocs R) with Some _ => true | None => false end in
    match alloc_seq R req c with
    | (R', Ok _) => (mkRes (r_avail R') (r_total R') (al_register c (r_allocs R')), Ok tt)
    | (R', Err e) => (r_rollback R' c num_previous had_entry, Err e)
    end.

Definition r_deallocate (R : res) (c : comp) : res * result unit :=
  match al_find c (r_allocs R) with
  | None => (R, Err E_VALUE)
  | Some l =>
      (mkRes (fold_left (fun v kq => vec_add (fst kq) (snd kq) v) l (r_avail R)) (r_total R)
             (al_remove c (r_allocs R)), Ok tt)
  end.

(* get_allocated_resources: `self._current_allocations[computation]` on a defaultdict(list) *)
Definition r_get_allocated_resources (R : res) (c : comp) : res * list (rkey * Z) :=
  match al_find c (r_allocs R) with
  | Some l => (R, l)
  | None => (mkRes (r_avail R) (r_total R) (r_allocs R ++ [(c, [])]), [])
  end.

(* get_allocated_computation *)
Definition r_get_allocated_computation (R : res) (r : rkey) : list (comp * Z) :=
  flat_map (fun cl => map (fun kq => (fst cl, snd kq))
                          (filter (fun kq => res_match r (fst kq)) (snd cl))) (r_allocs R).

(* __gt__ (the fit test used by can_accomodate_strategy), as the code is NOW (/repo 402c33a): the
   requests are played on a scratch copy of the available vector, in dict order, every matching cell
   giving min(available, remaining) while something remains; False as soon as a request is left
   unserved.  r_gt_per_key is the older per-key test (each key looked at on its own), which is still
   what allocate_multiple checks first. *)
Fixpoint gt_take (r : rkey) (rem : Z) (v : rvec) : rvec * Z :=
  match v with
  | [] => ([], rem)
  | (k, q) :: v' =>
      if res_match k r && (0 <? rem) then
        let t := Z.min q rem in
        let '(v'', rem') := gt_take r (rem - t) v' in ((k, q - t) :: v'', rem')
      else
        let '(v'', rem') := gt_take r rem v' in ((k, q) :: v'', rem')
  end.
Fixpoint gt_play (v : rvec) (req : rvec) : bool :=
  match req with
  | [] => true
  | (r, q) :: req' => let '(v', rem) := gt_take r q v in if 0 <? rem then false else gt_play v' req'
  end.
Definition r_gt (R : res) (req : rvec) : bool := gt_play (r_avail R) req.
Definition r_gt_per_key (R : res) (req : rvec) : bool :=
  forallb (fun rq => snd rq <=? r_available R (fst rq)) req.
Definition r_eq (R : res) (req : rvec) : bool :=
  forallb (fun rq => r_available R (fst rq) =? snd rq) req.
Definition r_empty (R : res) : bool := forallb (fun kq => snd kq =? 0) (r_avail R).
Definition r_len (R : res) : Z := Z.of_nat (length (r_avail R)).

(* __copy__ (as of /repo cd7cd87): a fresh instance from the totals whose cells are then assigned the
   available quantities, and a copy of every allocation list; it cannot raise (the result type is kept) *)
Fixpoint vec_set (k : rkey) (q : Z) (v : rvec) : rvec :=
  match v with
  | [] => [(k, q)]
  | (k', q') :: v' => if rkey_eqb k' k then (k', q) :: v' else (k', q') :: vec_set k q v'
  end.
Definition r_copy (R : res) : result res :=
  Ok (mkRes (fold_left (fun v kq => vec_set (fst kq) (snd kq) v) (r_avail R) (r_total R)) (r_total R) (r_allocs R)).
Definition r_deepcopy (R : res) : res := r_new (r_total R).

(* __add__ *)
Definition vec_merge (a b : rvec) : rvec :=
  fold_left (fun v kq => vec_add (fst kq) (snd kq) v) (a ++ b) [].
Definition al_extend (a b : allocs) : allocs :=
  fold_left (fun acc cl => al_set (fst cl) (al_get (fst cl) acc ++ snd cl) acc) (a ++ b) [].
Definition r_add (A B : res) : res :=
  mkRes (vec_merge (r_avail A) (r_avail B)) (vec_merge (r_total A) (r_total B))
        (al_extend (r_allocs A) (r_allocs B)).

(* get_unique_resource_types: (name, total of the name) in order of first appearance *)
Fixpoint names_of (v : rvec) (seen : list Z) : list Z :=
  match v with
  | [] => []
  | (k, _) :: v' => if existsb (Z.eqb (fst k)) seen then names_of v' seen
                    else fst k :: names_of v' (fst k :: seen)
  end.
Definition r_unique_types (R : res) : list (Z * Z) :=
  map (fun n => (n, r_total_q R (n, RAny))) (names_of (r_total R) []).

(* ---------------------------------------------------------------------------------------------- *)
(* well-formedness notions used by the theorems (decidable forms)                                   *)
(* a vector as a dict of a sane configuration: no two cells match each other (per name either one
   `any` cell or distinct specific ids) *)
Fixpoint wf_vecb (v : rvec) : bool :=
  match v with
  | [] => true
  | (k, _) :: v' => forallb (fun kq => negb (res_match k (fst kq))) v' && wf_vecb v'
  end.
(* a request whose keys do not compete for the same units, with non-negative quantities *)
Fixpoint wf_requestb (req : rvec) : bool :=
  match req with
  | [] => true
  | (k, q) :: req' => (0 <=? q) && forallb (fun kq => negb (res_match k (fst kq))) req' && wf_requestb req'
  end.

(* histories of operations on one Resources object *)
Inductive rop :=
| RAllocate (r : rkey) (c : comp) (q : Z)
| RAllocateMultiple (req : rvec) (c : comp)
| RDeallocate (c : comp)
| RGetAllocated (c : comp).
Definition r_step (R : res) (o : rop) : res * result unit :=
  match o with
  | RAllocate r c q => r_allocate R r c q
  | RAllocateMultiple req c => r_allocate_multiple R req c
  | RDeallocate c => r_deallocate R c
  | RGetAllocated c => (fst (r_get_allocated_resources R c), Ok tt)
  end.
Definition r_run (ops : list rop) (R : res) : res := fold_left (fun R o => fst (r_step R o)) ops R.

(* the decidable ledger invariant on the cells themselves (monitor form): every available quantity
   is >= 0, the keys are those of the totals in the same order, and cell by cell
   available + allocated = total *)
Definition allocated_cell (a : allocs) (k : rkey) : Z :=
  fold_right (fun cl acc => sumP (rkey_eqb k) (snd cl) + acc) 0 a.
Fixpoint cells_ok (av tot : rvec) (a : allocs) : bool :=
  match av, tot with
  | [], [] => true
  | (k, q) :: av', (k', t) :: tot' =>
      rkey_eqb k k' && (0 <=? q) && (q + allocated_cell a k =? t) && cells_ok av' tot' a
  | _, _ => false
  end.

(* ---------------------------------------------------------------------------------------------- *)
(* observation helpers for the correspondence stream *)
Definition vrid (i : rid) : val := match i with RAny => L [] | RId n => L [I n] end.
Definition vkey (k : rkey) : val := L [I (fst k); vrid (snd k)].
Definition vrvec (v : rvec) : val := L (map (fun kq => L [vkey (fst kq); I (snd kq)]) v).
Definition vcomp (c : comp) : val :=
  match c with CTask t => L [I 0; I t] | CBatch b => L [I 1; I b] | CProf p => L [I 2; I p] end.
Definition vunit_res (r : result unit) : val := match r with Ok _ => I 0 | Err e => I e end.
(* the public getters for a list of probe keys *)
Definition res_getters (R : res) (probes : list rkey) : val :=
  L (map (fun r => L [I (r_available R r); I (r_allocated_q R r); I (r_total_q R r)]) probes).
