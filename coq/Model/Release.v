(* C19 — executable model of the pure core of workload instantiation:
     workload/jobs.py  ReleasePolicy.get_release_times, JobGraph._generate_task_graph,
                       generate_task_graphs / get_next_task_graph
     utils.py          EventTime.fuzz
     workload/workload.py notify_task_graph_completion (closed-loop re-release)
   EventTime arithmetic is the TRANSLATED one (Gen/Src_Time.v).  Random draws are inputs
   (oracles): the numpy arrays returned by rng.poisson / rng.gamma and the value returned
   by random.uniform.  Python floats are modelled exactly as dyadic rationals m * 2^e with
   IEEE-754 binary64 round-to-nearest-even after every operation (53-bit significand;
   overflow to inf and the subnormal range are outside the model: sums of doubles that land
   in the subnormal range are exact, so only |x| >= 2^1024 is not covered).
   Exceptions are values: Err 1 ValueError, 2 ZeroDivisionError, 3 NotImplementedError,
   4 AttributeError, 5 KeyError, 6 RuntimeError, 90 oracle contract broken (an array of the
   wrong length was supplied for the requested size), 91 out of fuel. *)
From Coq Require Import ZArith List Bool.
Import ListNotations.
From Verif Require Import Model.Val Gen.Src_Time.
Open Scope Z_scope.

(* ------------------------------------------------------------------ *)
(* binary64 values                                                     *)
(* ------------------------------------------------------------------ *)
Record fl := mkF { fm : Z; fe : Z }.          (* the real number fm * 2^fe *)

(* m / 2^k rounded to the nearest integer, ties to even (k >= 1) *)
Definition rne_shift (m k : Z) : Z :=
  let p := 2 ^ k in
  let q := m / p in
  let r := m mod p in
  let h := 2 ^ (k - 1) in
  if r <? h then q else if h <? r then q + 1 else if Z.even q then q else q + 1.

(* round to 53 significant bits *)
Definition round53 (x : fl) : fl :=
  let a := Z.abs (fm x) in
  if a <? 2 ^ 53 then x
  else let k := Z.log2 a - 52 in mkF (rne_shift (fm x) k) (fe x + k).

(* both mantissas at the common (smaller) exponent *)
Definition fl_align (x y : fl) : Z * Z * Z :=
  let e := Z.min (fe x) (fe y) in
  (fm x * 2 ^ (fe x - e), fm y * 2 ^ (fe y - e), e).

Definition fl_add (x y : fl) : fl :=
  let '(a, b, e) := fl_align x y in round53 (mkF (a + b) e).
Definition fl_of_Z (z : Z) : fl := round53 (mkF z 0).      (* int -> float conversion *)
Definition fl_neg (x : fl) : fl := mkF (- fm x) (fe x).
Definition fl_sub (x y : fl) : fl := fl_add x (fl_neg y).
Definition fl_mul (x y : fl) : fl := round53 (mkF (fm x * fm y) (fe x + fe y)).
(* correctly rounded quotient: >= 57 quotient bits, the last one sticky *)
Definition fl_div (x y : fl) : result fl :=
  if fm y =? 0 then Err 2
  else if fm x =? 0 then Ok (mkF 0 0)
  else
    let a := Z.abs (fm x) in
    let b := Z.abs (fm y) in
    let sh := Z.max 0 (56 + Z.log2 b - Z.log2 a) in
    let n := a * 2 ^ sh in
    let q := n / b in
    let st := if n mod b =? 0 then 0 else 1 in
    let sg := Z.sgn (fm x) * Z.sgn (fm y) in
    Ok (round53 (mkF (sg * (2 * q + st)) (fe x - fe y - sh - 1))).
Definition fl_floor (x : fl) : Z := if 0 <=? fe x then fm x * 2 ^ (fe x) else fm x / 2 ^ (- fe x).
Definition fl_trunc (x : fl) : Z := if 0 <=? fe x then fm x * 2 ^ (fe x) else Z.quot (fm x) (2 ^ (- fe x)).
Definition fl_is_zero (x : fl) : bool := fm x =? 0.
Definition fl_is_neg (x : fl) : bool := fm x <? 0.
Definition fl_leb (x y : fl) : bool := let '(a, b, _) := fl_align x y in a <=? b.
Definition fl_ltb (x y : fl) : bool := let '(a, b, _) := fl_align x y in a <? b.
(* exact comparisons of a Python int with a float (Python compares them exactly) *)
Definition z_lt_fl (z : Z) (x : fl) : bool := fl_ltb (mkF z 0) x.
Definition fl_lt_z (x : fl) (z : Z) : bool := fl_ltb x (mkF z 0).
(* round(x) of a float: nearest integer, ties to even *)
Definition py_round (x : fl) : Z :=
  if 0 <=? fe x then fm x * 2 ^ (fe x) else rne_shift (fm x) (- fe x).

(* a Python number that is either an int or a float (what min/max return) *)
Inductive num := NZ (z : Z) | NF (f : fl).
Definition num_fl (n : num) : fl := match n with NZ z => mkF z 0 | NF f => f end.
Definition num_ltb (a b : num) : bool := fl_ltb (num_fl a) (num_fl b).
(* Python's two-argument min / max: the first argument unless the second is smaller / larger *)
Definition py_min (a b : num) : num := if num_ltb b a then b else a.
Definition py_max (a b : num) : num := if num_ltb a b then b else a.
(* int + number *)
Definition z_add_num (z : Z) (n : num) : num :=
  match n with NZ y => NZ (z + y) | NF f => NF (fl_add (fl_of_Z z) f) end.
Definition round_num (n : num) : Z := match n with NZ z => z | NF f => py_round f end.

(* utils.py EventTime.fuzz with the value returned by random.uniform as input [u]:
     fuzzed = max(min_bound, min(max_bound, u));  EventTime(round(self.time + fuzzed), self.unit) *)
Definition fuzz_time (t : Z) (u : fl) (minb maxb : Z) : Z :=
  round_num (z_add_num t (py_max (NZ minb) (py_min (NZ maxb) (NF u)))).
Definition et_fuzz (x : etime) (u : fl) (minb maxb : Z) : etime :=
  mkET (fuzz_time (et_time x) u minb maxb) (et_unit x).

(* the two numbers handed to random.uniform are self.time*abs(v)/100.0; the contract of the
   oracle used by the theorems is the INTEGER envelope of that interval (every double in
   [t*|v1|/100, t*|v2|/100], however the division is rounded, lies inside it) *)
Definition var_lo (t minv maxv : Z) : Z := Z.min (t * Z.abs minv) (t * Z.abs maxv) / 100.
Definition var_hi (t minv maxv : Z) : Z := - ((- Z.max (t * Z.abs minv) (t * Z.abs maxv)) / 100).
Definition uniform_contract (t minv maxv : Z) (u : fl) : bool :=
  fl_leb (mkF (var_lo t minv maxv) 0) u && fl_leb u (mkF (var_hi t minv maxv) 0).

(* ------------------------------------------------------------------ *)
(* release policies                                                    *)
(* ------------------------------------------------------------------ *)
Inductive policy_type := PERIODIC | FIXED | POISSON | GAMMA | CLOSED_LOOP | FIXED_AND_GAMMA.

Record policy := mkPol {
  p_type : policy_type;
  p_period : etime;
  p_n : Z;                 (* _fixed_invocation_nums *)
  p_rate : fl;             (* _variable_arrival_rate *)
  p_coef : fl;             (* _coefficient *)
  p_conc : Z;              (* _concurrency *)
  p_start : etime;
  p_base : fl              (* _base_arrival_rate (FIXED_AND_GAMMA) *)
}.

Definition to_us (x : etime) : result Z := bind (et_to x U_US) (fun y => Ok (et_time y)).
Definition us_time (z : Z) : etime := mkET z U_US.

(* numpy.arange(a, b, s) on integers == Python range(a, b, s) *)
Definition range_len (a b s : Z) : Z :=
  if 0 <? s then Z.max 0 ((b - a + s - 1) / s) else Z.max 0 ((a - b - s - 1) / (- s)).
Definition py_range (a b s : Z) : result (list Z) :=
  if s =? 0 then Err 2
  else Ok (map (fun i => a + Z.of_nat i * s) (seq 0 (Z.to_nat (range_len a b s)))).

(* int(v) for v in numpy.linspace(a, a + p*n, num=n, endpoint=False): a + i*p (the doubles are
   exact below 2^53) *)
Definition linspace_ints (a p n : Z) : result (list Z) :=
  if n <? 0 then Err 1 else Ok (map (fun i => a + Z.of_nat i * p) (seq 0 (Z.to_nat n))).

(* int(v) for v in numpy.linspace(a, b, num=n, endpoint=False) as numpy computes it in doubles:
   delta = float(b) - float(a); step = delta / n; y_i = i * step + a  (y_i = (i / n) * delta + a
   when step == 0) *)
Definition linspace_fl (a b n : Z) : result (list Z) :=
  if n <? 0 then Err 1
  else if n =? 0 then Ok []
  else
    let fa := fl_of_Z a in
    let delta := fl_sub (fl_of_Z b) fa in
    bind (fl_div delta (fl_of_Z n)) (fun step =>
    Ok (map (fun i =>
              let fi := fl_of_Z (Z.of_nat i) in
              let y := if fl_is_zero step
                       then match fl_div fi (fl_of_Z n) with Ok w => fl_mul w delta | Err _ => fi end
                       else fl_mul fi step in
              fl_trunc (fl_add y fa))
            (seq 0 (Z.to_nat n)))).

(* arguments of rng.gamma(1/coef, coef/rate, size): ZeroDivisionError for a zero divisor,
   numpy's ValueError for a negative shape or scale *)
Definition gamma_args (coef rate : fl) : result unit :=
  if fl_is_zero coef then Err 2
  else if fl_is_zero rate then Err 2
  else if fl_is_neg coef || fl_is_neg rate then Err 1
  else Ok tt.
Definition poisson_args (rate : fl) : result unit :=
  if fl_is_zero rate then Err 2 else if fl_is_neg rate then Err 1 else Ok tt.

(* rng.poisson(lam, size) / rng.gamma(k, theta, size): the oracle supplies the array; numpy
   raises ValueError for a negative size and returns exactly `size` values otherwise *)
Definition draw_array {A} (size : Z) (oracle : list A) : result (list A) :=
  if size <? 0 then Err 1
  else if Z.of_nat (length oracle) =? size then Ok oracle else Err 90.

Fixpoint poisson_acc (cur : etime) (ds : list Z) : result (list etime) :=
  match ds with
  | [] => Ok []
  | d :: ds' =>
      bind (et_add cur (us_time d)) (fun nxt =>
      bind (poisson_acc nxt ds') (fun rest => Ok (nxt :: rest)))
  end.

Fixpoint gamma_acc (cur : fl) (ds : list fl) : list etime :=
  match ds with
  | [] => []
  | d :: ds' => let nxt := fl_add cur d in us_time (py_round nxt) :: gamma_acc nxt ds'
  end.
(* the GAMMA branch: note `self._start.time` is used WITHOUT conversion to microseconds *)
Definition gamma_times (start : etime) (ds : list fl) : list etime :=
  us_time (et_time start) :: gamma_acc (fl_of_Z (et_time start)) ds.

(* list.sort() of EventTimes all in microseconds: insertion sort (stable, like timsort) *)
Fixpoint ins_us (x : etime) (l : list etime) : list etime :=
  match l with
  | [] => [x]
  | y :: l' => if et_time x <? et_time y then x :: y :: l' else y :: ins_us x l'
  end.
Definition sort_us (l : list etime) : list etime := fold_left (fun acc x => ins_us x acc) l [].

Definition get_release_times (p : policy) (completion : etime) (zd : list Z) (fd : list fl)
  : result (list etime) :=
  if p_n p =? 0 then Ok []
  else match p_type p with
  | PERIODIC =>
      bind (to_us (p_start p)) (fun s => bind (to_us completion) (fun c =>
      bind (to_us (p_period p)) (fun per =>
      bind (py_range s c per) (fun l => Ok (map us_time l)))))
  | FIXED =>
      bind (to_us (p_start p)) (fun s => bind (to_us (p_period p)) (fun per =>
      bind (linspace_ints s per (p_n p)) (fun l => Ok (map us_time l))))
  | POISSON =>
      bind (poisson_args (p_rate p)) (fun _ =>
      bind (draw_array (p_n p - 1) zd) (fun ds =>
      bind (poisson_acc (p_start p) ds) (fun rest => Ok (p_start p :: rest))))
  | GAMMA =>
      bind (gamma_args (p_coef p) (p_rate p)) (fun _ =>
      bind (draw_array (p_n p - 1) fd) (fun ds => Ok (gamma_times (p_start p) ds)))
  | CLOSED_LOOP =>
      let num := if p_conc p <=? p_n p then p_conc p else p_n p in
      Ok (repeat (p_start p) (Z.to_nat num))
  | FIXED_AND_GAMMA =>
      bind (to_us (p_start p)) (fun s =>
      bind (fl_div (fl_of_Z (p_n p)) (fl_add (p_base p) (p_rate p))) (fun q =>
      let span := fl_trunc q in
      let gamma0 := fl_floor (fl_mul (p_rate p) (fl_of_Z span)) in
      let fixed0 := fl_floor (fl_mul (p_base p) (fl_of_Z span)) in
      let g := gamma0 + (p_n p - (fixed0 + gamma0)) in
      bind (gamma_args (p_coef p) (p_rate p)) (fun _ =>
      bind (draw_array (g - 1) fd) (fun ds =>
      bind (linspace_fl s (span + s) fixed0) (fun fixed =>
      Ok (sort_us (gamma_times (p_start p) ds ++ map us_time fixed)))))))
  end.

(* ------------------------------------------------------------------ *)
(* observation functions for the S-release-times stream                 *)
(* ------------------------------------------------------------------ *)
Definition unit_code (u : unit_t) : Z := match u with U_US => 0 | U_MS => 1 | U_S => 2 end.
Definition vet (x : etime) : val := L [I (et_time x); I (unit_code (et_unit x))].

Record rt_case := mkRT { rt_pol : policy; rt_completion : etime; rt_zd : list Z; rt_fd : list fl }.
(* ReleasePolicy.closed_loop(...) refuses concurrency == 0 or num_invocations == 0 (RuntimeError) *)
Definition policy_ctor (p : policy) : result policy :=
  match p_type p with
  | CLOSED_LOOP => if (p_conc p =? 0) || (p_n p =? 0) then Err 6 else Ok p
  | _ => Ok p
  end.
Definition rt_observe (c : rt_case) : val :=
  vres (vlist vet) (bind (policy_ctor (rt_pol c)) (fun p =>
                    get_release_times p (rt_completion c) (rt_zd c) (rt_fd c))).

(* float primitives observed directly (S-float stream) *)
Inductive fop := FAdd (a b : fl) | FOfZ (z : Z) | FRound (a : fl) | FLt (a b : fl) | FFuzz (t : Z) (u : fl) (minb maxb : Z).
Definition vfl (x : fl) : val :=     (* canonical form: odd mantissa (or 0 0) *)
  if fm x =? 0 then L [I 0; I 0]
  else let k := Z.log2 (Z.land (fm x) (- fm x)) in L [I (fm x / 2 ^ k); I (fe x + k)].
Definition f_observe (o : fop) : val :=
  match o with
  | FAdd a b => vfl (fl_add a b)
  | FOfZ z => vfl (fl_of_Z z)
  | FRound a => I (py_round a)
  | FLt a b => vbool (fl_ltb a b)
  | FFuzz t u minb maxb => I (fuzz_time t u minb maxb)
  end.
