(* C19 — executable model of the pure core of workload instantiation:
     workload/jobs.py  ReleasePolicy.get_release_times, JobGraph._generate_task_graph,
                       generate_task_graphs / get_next_task_graph
     utils.py          EventTime.fuzz
     workload/workload.py notify_task_graph_completion (closed-loop re-release)
   EventTime arithmetic is the TRANSLATED one (Gen/Src_Time.v).  Random draws are inputs
   (oracles): the numpy arrays returned by rng.poisson / rng.gamma and the value returned
   by random.uniform.  Python floats are modelled exactly as dyadic rationals m * 2^e with
   IEEE-754 binary64 round-to-nearest-even after every operation (53-bit significand;
   overflow to inf and the subnormal range are outside the model: sums of doubles that land
   in the subnormal range are exact, so only |x| >= 2^1024 is not covered).
   Exceptions are values: Err 1 ValueError, 2 ZeroDivisionError, 3 NotImplementedError,
   4 AttributeError, 5 KeyError, 6 RuntimeError, 90 oracle contract broken (an array of the
   wrong length was supplied for the requested size), 91 out of fuel. *)
From Coq Require Import ZArith List Bool.
Import ListNotations.
From Verif Require Import Model.Val Gen.Src_Time.
Open Scope Z_scope.

(* ------------------------------------------------------------------ *)
(* binary64 values                                                     *)
(* ------------------------------------------------------------------ *)
Record fl := mkF { fm : Z; fe : Z }.          (* the real number fm * 2^fe *)

(* m / 2^k rounded to the nearest integer, ties to even (k >= 1) *)
Definition rne_shift (m k : Z) : Z :=
  let p := 2 ^ k in
  let q := m / p in
  let r := m mod p in
  let h := 2 ^ (k - 1) in
  if r <? h then q else if h <? r then q + 1 else if Z.even q then q else q + 1.

(* round to 53 significant bits *)
Definition round53 (x : fl) : fl :=
  let a := Z.abs (fm x) in
  if a <? 2 ^ 53 then x
  else let k := Z.log2 a - 52 in mkF (rne_shift (fm x) k) (fe x + k).

(* both mantissas at the common (smaller) exponent *)
Definition fl_align (x y : fl) : Z * Z * Z :=
  let e := Z.min (fe x) (fe y) in
  (fm x * 2 ^ (fe x - e), fm y * 2 ^ (fe y - e), e).

Definition fl_add (x y : fl) : fl :=
  let '(a, b, e) := fl_align x y in round53 (mkF (a + b) e).
Definition fl_of_Z (z : Z) : fl := round53 (mkF z 0).      (* int -> float conversion *)
Definition fl_neg (x : fl) : fl := mkF (- fm x) (fe x).
Definition fl_sub (x y : fl) : fl := fl_add x (fl_neg y).
Definition fl_mul (x y : fl) : fl := round53 (mkF (fm x * fm y) (fe x + fe y)).
(* correctly rounded quotient: >= 57 quotient bits, the last one sticky *)
Definition fl_div (x y : fl) : result fl :=
  if fm y =? 0 then Err 2
  else if fm x =? 0 then Ok (mkF 0 0)
  else
    let a := Z.abs (fm x) in
    let b := Z.abs (fm y) in
    let sh := Z.max 0 (56 + Z.log2 b - Z.log2 a) in
    let n := a * 2 ^ sh in
    let q := n / b in
    let st := if n mod b =? 0 then 0 else 1 in
    let sg := Z.sgn (fm x) * Z.sgn (fm y) in
    Ok (round53 (mkF (sg * (2 * q + st)) (fe x - fe y - sh - 1))).
Definition fl_floor (x : fl) : Z := if 0 <=? fe x then fm x * 2 ^ (fe x) else fm x / 2 ^ (- fe x).
Definition fl_trunc (x : fl) : Z := if 0 <=? fe x then fm x * 2 ^ (fe x) else Z.quot (fm x) (2 ^ (- fe x)).
Definition fl_is_zero (x : fl) : bool := fm x =? 0.
Definition fl_is_neg (x : fl) : bool := fm x <? 0.
Definition fl_leb (x y : fl) : bool := let '(a, b, _) := fl_align x y in a <=? b.
Definition fl_ltb (x y : fl) : bool := let '(a, b, _) := fl_align x y in a <? b.
(* exact comparisons of a Python int with a float (Python compares them exactly) *)
Definition z_lt_fl (z : Z) (x : fl) : bool := fl_ltb (mkF z 0) x.
Definition fl_lt_z (x : fl) (z : Z) : bool := fl_ltb x (mkF z 0).
(* round(x) of a float: nearest integer, ties to even *)
Definition py_round (x : fl) : Z :=
  if 0 <=? fe x then fm x * 2 ^ (fe x) else rne_shift (fm x) (- fe x).

(* a Python number that is either an int or a float (what min/max return) *)
Inductive num := NZ (z : Z) | NF (f : fl).
Definition num_fl (n : num) : fl := match n with NZ z => mkF z 0 | NF f => f end.
Definition num_ltb (a b : num) : bool := fl_ltb (num_fl a) (num_fl b).
(* Python's two-argument min / max: the first argument unless the second is smaller / larger *)
Definition py_min (a b : num) : num := if num_ltb b a then b else a.
Definition py_max (a b : num) : num := if num_ltb a b then b else a.
(* int + number *)
Definition z_add_num (z : Z) (n : num) : num :=
  match n with NZ y => NZ (z + y) | NF f => NF (fl_add (fl_of_Z z) f) end.
Definition round_num (n : num) : Z := match n with NZ z => z | NF f => py_round f end.

(* utils.py EventTime.fuzz with the value returned by random.uniform as input [u]:
     fuzzed = max(min_bound, min(max_bound, u));  EventTime(round(self.time + fuzzed), self.unit) *)
Definition fuzz_time (t : Z) (u : fl) (minb maxb : Z) : Z :=
  round_num (z_add_num t (py_max (NZ minb) (py_min (NZ maxb) (NF u)))).
Definition et_fuzz (x : etime) (u : fl) (minb maxb : Z) : etime :=
  mkET (fuzz_time (et_time x) u minb maxb) (et_unit x).

(* the two numbers handed to random.uniform are self.time*abs(v)/100.0; the contract of the
   oracle used by the theorems is the INTEGER envelope of that interval (every double in
   [t*|v1|/100, t*|v2|/100], however the division is rounded, lies inside it) *)
Definition var_lo (t minv maxv : Z) : Z := Z.min (t * Z.abs minv) (t * Z.abs maxv) / 100.
Definition var_hi (t minv maxv : Z) : Z := - ((- Z.max (t * Z.abs minv) (t * Z.abs maxv)) / 100).
Definition uniform_contract (t minv maxv : Z) (u : fl) : bool :=
  fl_leb (mkF (var_lo t minv maxv) 0) u && fl_leb u (mkF (var_hi t minv maxv) 0).

(* ------------------------------------------------------------------ *)
(* release policies                                                    *)
(* ------------------------------------------------------------------ *)
Inductive policy_type := PERIODIC | FIXED | POISSON | GAMMA | CLOSED_LOOP | FIXED_AND_GAMMA.

Record policy := mkPol {
  p_type : policy_type;
  p_period : etime;
  p_n : Z;                 (* _fixed_invocation_nums *)
  p_rate : fl;             (* _variable_arrival_rate *)
  p_coef : fl;             (* _coefficient *)
  p_conc : Z;              (* _concurrency *)
  p_start : etime;
  p_base : fl              (* _base_arrival_rate (FIXED_AND_GAMMA) *)
}.

Definition to_us (x : etime) : result Z := bind (et_to x U_US) (fun y => Ok (et_time y)).
Definition us_time (z : Z) : etime := mkET z U_US.

(* numpy.arange(a, b, s) on integers == Python range(a, b, s) *)
Definition range_len (a b s : Z) : Z :=
  if 0 <? s then Z.max 0 ((b - a + s - 1) / s) else Z.max 0 ((a - b - s - 1) / (- s)).
Definition py_range (a b s : Z) : result (list Z) :=
  if s =? 0 then Err 2
  else Ok (map (fun i => a + Z.of_nat i * s) (seq 0 (Z.to_nat (range_len a b s)))).

(* int(v) for v in numpy.linspace(a, a + p*n, num=n, endpoint=False): a + i*p (the doubles are
   exact below 2^53) *)
Definition linspace_ints (a p n : Z) : result (list Z) :=
  if n <? 0 then Err 1 else Ok (map (fun i => a + Z.of_nat i * p) (seq 0 (Z.to_nat n))).

(* int(v) for v in numpy.linspace(a, b, num=n, endpoint=False) as numpy computes it in doubles:
   delta = float(b) - float(a); step = delta / n; y_i = i * step + a  (y_i = (i / n) * delta + a
   when step == 0) *)
Definition linspace_fl (a b n : Z) : result (list Z) :=
  if n <? 0 then Err 1
  else if n =? 0 then Ok []
  else
    let fa := fl_of_Z a in
    let delta := fl_sub (fl_of_Z b) fa in
    bind (fl_div delta (fl_of_Z n)) (fun step =>
    Ok (map (fun i =>
              let fi := fl_of_Z (Z.of_nat i) in
              let y := if fl_is_zero step
                       then match fl_div fi (fl_of_Z n) with Ok w => fl_mul w delta | Err _ => fi end
                       else fl_mul fi step in
              fl_trunc (fl_add y fa))
            (seq 0 (Z.to_nat n)))).

(* arguments of rng.gamma(1/coef, coef/rate, size): ZeroDivisionError for a zero divisor,
   numpy's ValueError for a negative shape or scale *)
Definition gamma_args (coef rate : fl) : result unit :=
  if fl_is_zero coef then Err 2
  else if fl_is_zero rate then Err 2
  else if fl_is_neg coef || fl_is_neg rate then Err 1
  else Ok tt.
Definition poisson_args (rate : fl) : result unit :=
  if fl_is_zero rate then Err 2 else if fl_is_neg rate then Err 1 else Ok tt.

(* rng.poisson(lam, size) / rng.gamma(k, theta, size): the oracle supplies the array; numpy
   raises ValueError for a negative size and returns exactly `size` values otherwise *)
Definition draw_array {A} (size : Z) (oracle : list A) : result (list A) :=
  if size <? 0 then Err 1
  else if Z.of_nat (length oracle) =? size then Ok oracle else Err 90.

Fixpoint poisson_acc (cur : etime) (ds : list Z) : result (list etime) :=
  match ds with
  | [] => Ok []
  | d :: ds' =>
      bind (et_add cur (us_time d)) (fun nxt =>
      bind (poisson_acc nxt ds') (fun rest => Ok (nxt :: rest)))
  end.

Fixpoint gamma_acc (cur : fl) (ds : list fl) : list etime :=
  match ds with
  | [] => []
  | d :: ds' => let nxt := fl_add cur d in us_time (py_round nxt) :: gamma_acc nxt ds'
  end.
(* the GAMMA branch; [s] = self._start.to(EventTime.Unit.US).time (since /repo eadd800) *)
Definition gamma_times (s : Z) (ds : list fl) : list etime :=
  us_time s :: gamma_acc (fl_of_Z s) ds.

(* list.sort() of EventTimes all in microseconds: insertion sort (stable, like timsort) *)
Fixpoint ins_us (x : etime) (l : list etime) : list etime :=
  match l with
  | [] => [x]
  | y :: l' => if et_time x <? et_time y then x :: y :: l' else y :: ins_us x l'
  end.
Definition sort_us (l : list etime) : list etime := fold_left (fun acc x => ins_us x acc) l [].

Definition get_release_times (p : policy) (completion : etime) (zd : list Z) (fd : list fl)
  : result (list etime) :=
  if p_n p =? 0 then Ok []
  else match p_type p with
  | PERIODIC =>
      bind (to_us (p_start p)) (fun s => bind (to_us completion) (fun c =>
      bind (to_us (p_period p)) (fun per =>
      bind (py_range s c per) (fun l => Ok (map us_time l)))))
  | FIXED =>
      bind (to_us (p_start p)) (fun s => bind (to_us (p_period p)) (fun per =>
      bind (linspace_ints s per (p_n p)) (fun l => Ok (map us_time l))))
  | POISSON =>
      bind (poisson_args (p_rate p)) (fun _ =>
      bind (draw_array (p_n p - 1) zd) (fun ds =>
      bind (poisson_acc (p_start p) ds) (fun rest => Ok (p_start p :: rest))))
  | GAMMA =>
      bind (gamma_args (p_coef p) (p_rate p)) (fun _ =>
      bind (draw_array (p_n p - 1) fd) (fun ds =>
      bind (to_us (p_start p)) (fun s => Ok (gamma_times s ds))))
  | CLOSED_LOOP =>
      let num := if p_conc p <=? p_n p then p_conc p else p_n p in
      Ok (repeat (p_start p) (Z.to_nat num))
  | FIXED_AND_GAMMA =>
      bind (to_us (p_start p)) (fun s =>
      bind (fl_div (fl_of_Z (p_n p)) (fl_add (p_base p) (p_rate p))) (fun q =>
      let span := fl_trunc q in
      let gamma0 := fl_floor (fl_mul (p_rate p) (fl_of_Z span)) in
      let fixed0 := fl_floor (fl_mul (p_base p) (fl_of_Z span)) in
      let g := gamma0 + (p_n p - (fixed0 + gamma0)) in
      bind (gamma_args (p_coef p) (p_rate p)) (fun _ =>
      bind (draw_array (g - 1) fd) (fun ds =>
      bind (linspace_fl s (span + s) fixed0) (fun fixed =>
      Ok (sort_us (gamma_times s ds ++ map us_time fixed)))))))
  end.

(* ------------------------------------------------------------------ *)
(* observation functions for the S-release-times stream                 *)
(* ------------------------------------------------------------------ *)
Definition unit_code (u : unit_t) : Z := match u with U_US => 0 | U_MS => 1 | U_S => 2 end.
Definition vet (x : etime) : val := L [I (et_time x); I (unit_code (et_unit x))].

Record rt_case := mkRT { rt_pol : policy; rt_completion : etime; rt_zd : list Z; rt_fd : list fl }.
(* ReleasePolicy.closed_loop(...) refuses concurrency == 0 or num_invocations == 0 (RuntimeError) *)
Definition policy_ctor (p : policy) : result policy :=
  match p_type p with
  | CLOSED_LOOP => if (p_conc p =? 0) || (p_n p =? 0) then Err 6 else Ok p
  | _ => Ok p
  end.
Definition rt_observe (c : rt_case) : val :=
  vres (vlist vet) (bind (policy_ctor (rt_pol c)) (fun p =>
                    get_release_times p (rt_completion c) (rt_zd c) (rt_fd c))).

(* float primitives observed directly (S-float stream) *)
Inductive fop := FAdd (a b : fl) | FOfZ (z : Z) | FRound (a : fl) | FLt (a b : fl) | FFuzz (t : Z) (u : fl) (minb maxb : Z).
Definition vfl (x : fl) : val :=     (* canonical form: odd mantissa (or 0 0) *)
  if fm x =? 0 then L [I 0; I 0]
  else let k := Z.log2 (Z.land (fm x) (- fm x)) in L [I (fm x / 2 ^ k); I (fe x + k)].
Definition f_observe (o : fop) : val :=
  match o with
  | FAdd a b => vfl (fl_add a b)
  | FOfZ z => vfl (fl_of_Z z)
  | FRound a => I (py_round a)
  | FLt a b => vbool (fl_ltb a b)
  | FFuzz t u minb maxb => I (fuzz_time t u minb maxb)
  end.

(* ------------------------------------------------------------------ *)
(* workload/graph.py: Graph as two insertion-ordered dicts             *)
(* ------------------------------------------------------------------ *)
Definition adj := list (Z * list Z).
Record graph := mkG { g_ch : adj; g_pa : adj }.
Definition g_empty : graph := mkG [] [].

Fixpoint al_mem (k : Z) (l : adj) : bool :=
  match l with [] => false | (k', _) :: l' => (k' =? k) || al_mem k l' end.
Fixpoint al_get (k : Z) (l : adj) : list Z :=            (* defaultdict(list)[k] *)
  match l with [] => [] | (k', v) :: l' => if k' =? k then v else al_get k l' end.
Fixpoint al_app (k x : Z) (l : adj) : adj :=             (* d[k].append(x), creating the key *)
  match l with
  | [] => [(k, [x])]
  | (k', v) :: l' => if k' =? k then (k', v ++ [x]) :: l' else (k', v) :: al_app k x l'
  end.
Definition al_touch (k : Z) (l : adj) : adj := if al_mem k l then l else l ++ [(k, [])].   (* d[k].extend([]) *)
Definition g_nodes (g : graph) : list Z := map fst (g_ch g).

Definition g_add_child (g : graph) (n c : Z) : result graph :=
  if al_mem n (g_ch g) then Ok (mkG (al_touch c (al_app n c (g_ch g))) (al_app c n (g_pa g))) else Err 1.
Definition g_add_node (g : graph) (n : Z) (cs : list Z) : result graph :=
  fold_left (fun acc c => bind acc (fun g' => g_add_child g' n c)) cs (Ok (mkG (al_touch n (g_ch g)) (g_pa g))).
(* Graph.__init__(nodes): for node, children in nodes.items(): add_node(node, *children) *)
Definition graph_of_mapping (m : adj) : result graph :=
  fold_left (fun acc kv => bind acc (fun g => g_add_node g (fst kv) (snd kv))) m (Ok g_empty).

Definition zmem (x : Z) (l : list Z) : bool := existsb (Z.eqb x) l.
Definition g_parents (g : graph) (n : Z) : list Z := al_get n (g_pa g).
Definition g_children (g : graph) (n : Z) : list Z := al_get n (g_ch g).
Definition g_is_source (g : graph) (n : Z) : bool := match g_parents g n with [] => true | _ => false end.
Definition g_sources (g : graph) : list Z := filter (g_is_source g) (g_nodes g).

(* breadth_first() from the sources: a child joins the frontier when the node being expanded is
   its last unvisited parent *)
Fixpoint bfs (fuel : nat) (g : graph) (frontier visited : list Z) : result (list Z) :=
  match frontier with
  | [] => Ok []
  | cur :: fr =>
      match fuel with
      | O => Err 91
      | S f =>
          let visited' := cur :: visited in
          let new := filter (fun c => forallb (fun p => zmem p visited') (g_parents g c)) (g_children g cur) in
          bind (bfs f g (fr ++ new) visited') (fun rest => Ok (cur :: rest))
      end
  end.
Definition edge_count (g : graph) : nat := fold_left (fun a kv => (a + length (snd kv))%nat) (g_ch g) O.
Definition g_bfs (g : graph) : result (list Z) :=
  bfs (S (length (g_ch g) + edge_count g) * S (length (g_ch g))) g (g_sources g) [].

(* topological_sort(): depth-first with marks 0 Unmarked / 1 Temporary / 2 Permanent *)
Definition marks := list (Z * Z).
Fixpoint mark_of (n : Z) (m : marks) : Z :=
  match m with [] => 0 | (k, v) :: m' => if k =? n then v else mark_of n m' end.
Fixpoint set_mark (n v : Z) (m : marks) : marks :=
  match m with [] => [(n, v)] | (k, w) :: m' => if k =? n then (k, v) :: m' else (k, w) :: set_mark n v m' end.
Fixpoint topo_visit (fuel : nat) (g : graph) (n : Z) (st : marks * list Z) : result (marks * list Z) :=
  match fuel with
  | O => Err 91
  | S f =>
      let m := mark_of n (fst st) in
      if m =? 2 then Ok st
      else if m =? 1 then Err 6
      else
        bind (fold_left (fun acc c => bind acc (fun s => topo_visit f g c s)) (g_children g n)
                        (Ok (set_mark n 1 (fst st), snd st)))
             (fun s => Ok (set_mark n 2 (fst s), snd s ++ [n]))
  end.
Definition g_topo (g : graph) : result (list Z) :=
  bind (fold_left (fun acc n => bind acc (fun s => if mark_of n (fst s) =? 0 then topo_visit (S (length (g_ch g))) g n s else Ok s))
                  (g_nodes g) (Ok (map (fun n => (n, 0)) (g_nodes g), [])))
       (fun s => Ok (rev (snd s))).

(* get_longest_path(weights): dict updates in place, first maximum, walk back while the remaining length is positive *)
Definition zl := list (Z * Z).
Fixpoint zl_get (k : Z) (l : zl) : option Z :=
  match l with [] => None | (k', v) :: l' => if k' =? k then Some v else zl_get k l' end.
Fixpoint zl_set (k v : Z) (l : zl) : zl :=
  match l with [] => [(k, v)] | (k', w) :: l' => if k' =? k then (k', v) :: l' else (k', w) :: zl_set k v l' end.
Definition zl_get0 k l := match zl_get k l with Some v => v | None => 0 end.
Fixpoint first_max (best : Z * Z) (l : zl) : Z * Z :=
  match l with [] => best | kv :: l' => if snd best <? snd kv then first_max kv l' else first_max best l' end.
Fixpoint walk_back (fuel : nat) (w : Z -> Z) (pred : zl) (cur cum : Z) (path : list Z) : result (list Z) :=
  if cum <=? 0 then Ok path
  else match fuel with
       | O => Err 91
       | S f => match zl_get cur pred with
                | None => Err 5
                | Some p => walk_back f w pred p (cum - w p) (path ++ [p])
                end
       end.
Definition g_longest_path (g : graph) (w : Z -> Z) : result (list Z) :=
  bind (g_topo g) (fun order =>
  let lpl0 := map (fun n => (n, w n)) (g_nodes g) in
  let '(lpl, pred) :=
    fold_left (fun st n =>
      fold_left (fun st' c =>
        let '(lpl, pred) := st' in
        if zl_get0 c lpl <=? zl_get0 n lpl + w c
        then (zl_set c (zl_get0 n lpl + w c) lpl, zl_set c n pred) else st') (g_children g n) st)
      order (lpl0, []) in
  match lpl with
  | [] => Err 1                                   (* max() of an empty sequence *)
  | kv :: rest =>
      let '(start, cum) := first_max kv rest in
      bind (walk_back (S (length lpl)) w pred start (cum - w start) [start]) (fun p => Ok (rev p))
  end).

(* ------------------------------------------------------------------ *)
(* workload/jobs.py: jobs, completion time, task-graph instantiation   *)
(* ------------------------------------------------------------------ *)
Record job := mkJob {
  j_id : Z; j_name : Z; j_slo : etime; j_cond : bool; j_term : bool; j_prob : fl;
  j_runtimes : list etime       (* runtimes of the execution strategies of the job's profile, in order *)
}.
Record jobgraph := mkJG {
  jg_name : Z; jg_jobs : list job; jg_graph : graph; jg_policy : policy;
  jg_variance : option (Z * Z)
}.
Fixpoint find_job (i : Z) (l : list job) : option job :=
  match l with [] => None | j :: l' => if j_id j =? i then Some j else find_job i l' end.

(* max(strategies, key=lambda s: s.runtime): first maximum under EventTime.__lt__ *)
Fixpoint slowest_from (best : etime) (l : list etime) : result etime :=
  match l with
  | [] => Ok best
  | r :: l' => bind (et_ltb best r) (fun lt => slowest_from (if lt then r else best) l')
  end.
Definition slowest_runtime (j : job) : result etime :=
  match j_runtimes j with [] => Err 4 | r :: l => slowest_from r l end.   (* None.runtime -> AttributeError *)

Definition eps : fl := mkF 1 (-52).                       (* sys.float_info.epsilon *)
Definition job_weight (j : job) : result Z :=
  if fl_ltb eps (j_prob j) then bind (slowest_runtime j) (fun r => to_us r) else Ok 0.

(* JobGraph.__get_completion_time: slo (or slowest runtime) summed along the longest path by slowest runtimes *)
Definition completion_time (jg : jobgraph) : result etime :=
  (* the weights lambda raises for a job without strategies as soon as it is evaluated *)
  bind (fold_left (fun acc i => bind acc (fun ws =>
          match find_job i (jg_jobs jg) with
          | None => Err 5
          | Some j => bind (job_weight j) (fun w => Ok (ws ++ [(i, w)]))
          end)) (g_nodes (jg_graph jg)) (Ok [])) (fun ws =>
  bind (g_longest_path (jg_graph jg) (fun i => zl_get0 i ws)) (fun path =>
  fold_left (fun acc i => bind acc (fun t =>
      match find_job i (jg_jobs jg) with
      | None => Err 5
      | Some j => bind (et_eqb (j_slo j) et_invalid) (fun inv =>
                  if inv then bind (slowest_runtime j) (fun r => et_add t r) else et_add t (j_slo j))
      end)) path (Ok et_zero))).

Record task := mkTask { t_id : Z; t_job : Z; t_name : Z; t_release : etime; t_deadline : etime; t_prob : fl }.
Record taskgraph := mkTG { tg_index : Z; tg_tasks : list task; tg_graph : graph }.

Fixpoint name_lookup (nm : Z) (m : list (Z * task)) : option task :=
  match m with [] => None | (k, t) :: m' => if k =? nm then Some t else name_lookup nm m' end.
Fixpoint name_set (nm : Z) (t : task) (m : list (Z * task)) : list (Z * task) :=
  match m with [] => [(nm, t)] | (k, v) :: m' => if k =? nm then (k, t) :: m' else (k, v) :: name_set nm t m' end.
Fixpoint map_set (k : Z) (v : list Z) (m : adj) : adj :=         (* dict[k] = v *)
  match m with [] => [(k, v)] | (k', w) :: m' => if k' =? k then (k', v) :: m' else (k', w) :: map_set k v m' end.

(* flags that matter: (min_deadline, max_deadline) and the default variance *)
Record iflags := mkIF { if_minb : Z; if_maxb : Z; if_var : Z * Z; if_bpd : bool (* --use_branch_predicated_deadlines *) }.
(* _flags=None: variance (0,0) unless the graph has one, bounds (0, sys.maxsize) *)
Definition no_flags : iflags := mkIF 0 (2 ^ 63 - 1) (0, 0) false.

(* the Task of every job in breadth-first order (job_to_task_mapping, keyed by job NAME) *)
Definition build_tasks (jg : jobgraph) (release d1 : etime) (order : list Z) (next : Z)
  : result (list (Z * task) * list task * Z) :=
  fold_left (fun acc i => bind acc (fun st =>
          let '(m, tasks, nid) := st in
          match find_job i (jg_jobs jg) with
          | None => Err 5
          | Some j =>
              let t := mkTask nid i (j_name j) (if g_is_source (jg_graph jg) i then release else mkET (-1) U_US) d1 (j_prob j) in
              Ok (name_set (j_name j) t m, tasks ++ [t], nid + 1)
          end)) order (Ok ([], [], next)).
Definition name_of (jg : jobgraph) (i : Z) : Z := match find_job i (jg_jobs jg) with Some j => j_name j | None => -1 end.
(* task_graph_mapping: {task(parent): [task(child) ...]} over self._graph.items() *)
Definition build_mapping (jg : jobgraph) (m : list (Z * task)) : result adj :=
  fold_left (fun acc kv => bind acc (fun mp =>
          match name_lookup (name_of jg (fst kv)) m with
          | None => Err 5
          | Some pt =>
              bind (fold_left (fun acc' c => bind acc' (fun cs =>
                      match name_lookup (name_of jg c) m with None => Err 5 | Some ct' => Ok (cs ++ [t_id ct']) end))
                    (snd kv) (Ok [])) (fun cs => Ok (map_set (t_id pt) cs mp))
          end)) (g_ch (jg_graph jg)) (Ok []).

(* _generate_task_graph; [next] is the first unused task id; two uniform draws are consumed *)
(* --use_branch_predicated_deadlines: the slowest strategy's runtime summed along
   task_graph.get_longest_path(weights = runtime.time if probability > epsilon else 0)  (jobs.py:869-882);
   the weight is the bare `.time` of the runtime, not converted to microseconds *)
Definition task_job (jg : jobgraph) (created : list task) (n : Z) : option job :=
  match find (fun t => t_id t =? n) created with
  | Some t => find_job (t_job t) (jg_jobs jg)
  | None => None
  end.
Definition bp_length (jg : jobgraph) (tgg : graph) (created : list task) : result etime :=
  bind (fold_left (fun acc n => bind acc (fun ws =>
          match task_job jg created n, find (fun t => t_id t =? n) created with
          | Some j, Some t =>
              if fl_ltb eps (t_prob t) then bind (slowest_runtime j) (fun r => Ok (ws ++ [(n, et_time r)]))
              else Ok (ws ++ [(n, 0)])
          | _, _ => Err 5
          end)) (g_nodes tgg) (Ok [])) (fun ws =>
  bind (g_longest_path tgg (fun n => zl_get0 n ws)) (fun path =>
  fold_left (fun acc n => bind acc (fun t =>
      match task_job jg created n with
      | None => Err 5
      | Some j => bind (slowest_runtime j) (fun r => et_add t r)
      end)) path (Ok et_zero))).
(* the time the graph's deadline is stretched from *)
Definition deadline_base (jg : jobgraph) (fl_ : iflags) (tgg : graph) (created : list task) : result etime :=
  if if_bpd fl_ then bp_length jg tgg created else completion_time jg.

Definition take_draw (us_ : list fl) : result (fl * list fl) :=
  match us_ with u :: r => Ok (u, r) | [] => Err 90 end.
Definition generate_task_graph (jg : jobgraph) (fl_ : iflags) (release : etime) (index : Z) (next : Z) (us_ : list fl)
  : result (taskgraph * Z * list fl) :=
  let var := match jg_variance jg with Some v => v | None => if_var fl_ end in
  match jg_jobs jg with
  | [] => Err 4                                   (* completion_time is None for an empty graph *)
  | _ =>
  bind (completion_time jg) (fun ct =>
  bind (take_draw us_) (fun ud1 => let '(u1, us1) := ud1 in
  bind (et_add release (et_fuzz ct u1 (if_minb fl_) (if_maxb fl_))) (fun d1 =>
  bind (g_bfs (jg_graph jg)) (fun order =>
  bind (build_tasks jg release d1 order next) (fun st =>
  let '(m, created, nid) := st in
  bind (build_mapping jg m) (fun mapping =>
  bind (graph_of_mapping mapping) (fun tgg =>
  bind (deadline_base jg fl_ tgg created) (fun ct2 =>
  bind (take_draw us1) (fun ud2 => let '(u2, us2) := ud2 in
  bind (et_add release (et_fuzz ct2 u2 (if_minb fl_) (if_maxb fl_))) (fun d2 =>
  bind (et_ltb d2 et_zero) (fun neg =>
  if neg && negb (match g_nodes tgg with [] => true | _ => false end) then Err 1     (* update_deadline refuses a negative deadline *)
  else
    let final := map (fun n => match find (fun t => t_id t =? n) created with
                               | Some t => mkTask (t_id t) (t_job t) (t_name t) (t_release t) d2 (t_prob t)
                               | None => mkTask n (-1) (-1) et_invalid d2 (mkF 0 0)
                               end) (g_nodes tgg) in
    Ok (mkTG index final tgg, nid, us2))))))))))))
  end.

(* generate_task_graphs: one graph per release time; draws are consumed two per graph *)
Fixpoint gen_graphs (jg : jobgraph) (fl_ : iflags) (rels : list etime) (index next : Z) (us_ : list fl)
  : result (list taskgraph * Z * list fl) :=
  match rels with
  | [] => Ok ([], next, us_)
  | r :: rels' =>
      bind (generate_task_graph jg fl_ r index next us_) (fun p =>
      let '(tg, next', us') := p in
      bind (gen_graphs jg fl_ rels' (index + 1) next' us') (fun q =>
      let '(tgs, next'', us'') := q in Ok (tg :: tgs, next'', us'')))
  end.
Definition generate_task_graphs (jg : jobgraph) (fl_ : iflags) (completion : etime) (zd : list Z) (fd us_ : list fl)
  : result (list taskgraph) :=
  bind (get_release_times (jg_policy jg) completion zd fd) (fun rels =>
  bind (gen_graphs jg fl_ rels 0 0 us_) (fun p => Ok (fst (fst p)))).

(* ------------------------------------------------------------------ *)
(* closed-loop re-release: JobGraph.get_next_task_graph +               *)
(* Workload.notify_task_graph_completion as a state machine             *)
(* ------------------------------------------------------------------ *)
Record clstate := mkCL {
  cl_remaining : Z;           (* JobGraph._remaining_task_graphs *)
  cl_index : Z;               (* JobGraph._task_graph_index *)
  cl_live : list Z;           (* released and not yet reported complete (indices of G@i) *)
  cl_all : list Z;            (* every graph in Workload._task_graphs *)
  cl_total : Z                (* number of graphs released so far *)
}.
Definition cl_init (conc n : Z) : clstate :=
  let k := Z.to_nat (if conc <=? n then conc else n) in
  let names := map Z.of_nat (seq 0 k) in
  mkCL (n - Z.of_nat k) (Z.of_nat k - 1) names names (Z.of_nat k).
Fixpoint zremove (x : Z) (l : list Z) : list Z :=
  match l with [] => [] | y :: l' => if y =? x then l' else y :: zremove x l' end.
(* one call of notify_task_graph_completion(G@g): ValueError for an unknown graph; otherwise the
   next graph is released if any remains -- the code does NOT check that G@g was in flight *)
Definition cl_notify (s : clstate) (g : Z) : result (clstate * option Z) :=
  if negb (zmem g (cl_all s)) then Err 1
  else
    let live' := zremove g (cl_live s) in
    if 0 <? cl_remaining s
    then let i := cl_index s + 1 in
         Ok (mkCL (cl_remaining s - 1) i (live' ++ [i]) (cl_all s ++ [i]) (cl_total s + 1), Some i)
    else Ok (mkCL (cl_remaining s) (cl_index s) live' (cl_all s) (cl_total s), None).
(* a run under the caller's contract: every notification is for a graph that is in flight
   (so: exactly one completion notification per graph) *)
Fixpoint cl_run (s : clstate) (gs : list Z) : option clstate :=
  match gs with
  | [] => Some s
  | g :: gs' => if zmem g (cl_live s)
                then match cl_notify s g with Ok (s', _) => cl_run s' gs' | Err _ => None end
                else None
  end.
(* a run WITHOUT the contract (what the simulator does on CANCEL_TASK of an already cancelled graph) *)
Fixpoint cl_run_any (s : clstate) (gs : list Z) : option clstate :=
  match gs with
  | [] => Some s
  | g :: gs' => match cl_notify s g with Ok (s', _) => cl_run_any s' gs' | Err _ => None end
  end.

(* ------------------------------------------------------------------ *)
(* monitors (decidable forms, applied to the implementation's output)  *)
(* ------------------------------------------------------------------ *)
Fixpoint zlist_eqb (a b : list Z) : bool :=
  match a, b with
  | [], [] => true
  | x :: a', y :: b' => (x =? y) && zlist_eqb a' b'
  | _, _ => false
  end.
Fixpoint nondecr_b (l : list Z) : bool :=
  match l with
  | a :: (b :: _) as t => (a <=? b) && nondecr_b t
  | _ => true
  end.
(* observed release instants in microseconds *)
Definition mon_fixed (s per n : Z) (obs : list Z) : bool :=
  zlist_eqb obs (map (fun i => s + Z.of_nat i * per) (seq 0 (Z.to_nat n))).
Definition mon_periodic (s per c : Z) (obs : list Z) : bool :=
  zlist_eqb obs (map (fun i => s + Z.of_nat i * per) (seq 0 (Z.to_nat (range_len s c per)))).
Definition mon_arrivals (s n : Z) (obs : list Z) : bool :=
  (Z.of_nat (length obs) =? n) && match obs with [] => n =? 0 | x :: _ => x =? s end && nondecr_b obs.
(* closed loop: an event log of the run, true = a graph was released, false = a graph was reported complete *)
Fixpoint mon_closed_loop (conc n : Z) (inflight total : Z) (log : list bool) : bool :=
  match log with
  | [] => true
  | true :: log' => (inflight + 1 <=? conc) && (total + 1 <=? n) && mon_closed_loop conc n (inflight + 1) (total + 1) log'
  | false :: log' => mon_closed_loop conc n (inflight - 1) total log'
  end.
(* deadline of a task graph: stretch = deadline - release within the clamped integer envelope *)
Definition mon_deadline (ct minv maxv minb maxb stretch : Z) : bool :=
  (Z.max minb (Z.min maxb (var_lo ct minv maxv)) <=? stretch - ct) &&
  (stretch - ct <=? Z.max minb (Z.min maxb (var_hi ct minv maxv))).

(* ------------------------------------------------------------------ *)
(* data/workload_loader.py: description -> job graphs -> task graphs   *)
(* (the parsed YAML/JSON document is the input; names are numbered)    *)
(* ------------------------------------------------------------------ *)
Definition res_spec := (Z * Z * Z)%type.           (* resource name, id (0 = "any"), quantity *)
Record d_strat := mkDS { ds_res : option (list res_spec); ds_batch : option Z; ds_runtime : option Z }.
Record d_profile := mkDP { dp_name : option Z; dp_load : option (list d_strat); dp_exec : option (list d_strat) }.
Record d_node := mkDN { dn_name : Z; dn_profile : option Z; dn_slo : option Z; dn_cond : bool;
                        dn_prob : option fl; dn_term : bool; dn_children : option (list Z) }.
Record d_graph := mkDG { dg_name : option Z; dg_nodes : option (list d_node); dg_policy : option Z;
                         dg_start : option Z; dg_period : option Z; dg_inv : option Z; dg_conc : option Z;
                         dg_rate : option fl; dg_coef : option fl; dg_var : option (Z * Z) }.
(* the loader's view of the flags (None = no _flags object) *)
Record d_flags := mkDF { df_rate : option fl; df_coef : option fl; df_period : option Z; df_inv : option Z;
                         df_unique : bool; df_repl : Z; df_slo : option Z; df_minb : Z; df_maxb : Z }.

Record strat := mkS { s_res : option (list res_spec); s_batch : Z; s_runtime : etime }.
Record prof := mkP { pf_name : Z; pf_copy : Z; pf_exec : list strat; pf_load : list strat }.

Definition mk_strats (l : list d_strat) : list strat :=
  map (fun d => mkS (ds_res d) (match ds_batch d with Some b => b | None => 1 end)
                    (match ds_runtime d with Some r => us_time r | None => et_zero end)) l.
Definition mk_profile (d : d_profile) : result prof :=
  match dp_name d with
  | None => Err 5
  | Some n => Ok (mkP n 0 (match dp_exec d with Some l => mk_strats l | None => [] end)
                          (match dp_load d with Some l => mk_strats l | None => [] end))
  end.
(* work_profiles[name] = profile: a later profile of the same name replaces the earlier one in place *)
Fixpoint prof_set (p : prof) (l : list prof) : list prof :=
  match l with [] => [p] | q :: l' => if pf_name q =? pf_name p then p :: l' else q :: prof_set p l' end.
Fixpoint prof_get (n : Z) (l : list prof) : option prof :=
  match l with [] => None | q :: l' => if pf_name q =? n then Some q else prof_get n l' end.

Definition opt_or {A} (o : option A) (d : option A) : option A := match o with Some x => Some x | None => d end.

(* __create_release_policy *)
Definition mk_policy (g : d_graph) (f : d_flags) (pol : Z) : result policy :=
  let start := match dg_start g with Some s => us_time s | None => et_zero end in
  let m1 := mkF (-1) 0 in
  if pol =? 0 then
    match opt_or (df_period f) (dg_period g) with
    | None => Err 1
    | Some per => Ok (mkPol PERIODIC (us_time per) (-1) m1 m1 0 start (mkF 0 0))
    end
  else if pol =? 1 then
    match opt_or (df_period f) (dg_period g), opt_or (df_inv f) (dg_inv g) with
    | Some per, Some n => Ok (mkPol FIXED (us_time per) n m1 m1 0 start (mkF 0 0))
    | _, _ => Err 1
    end
  else if pol =? 2 then
    match opt_or (df_rate f) (dg_rate g), dg_inv g with
    | Some r, Some n => Ok (mkPol POISSON et_invalid n r m1 0 start (mkF 0 0))
    | _, _ => Err 1
    end
  else if pol =? 3 then
    match opt_or (df_rate f) (dg_rate g), opt_or (df_coef f) (dg_coef g) with
    | Some r, Some c =>
        match dg_inv g with
        | Some n => Ok (mkPol GAMMA et_invalid n r c 0 start (mkF 0 0))
        | None => Err 5                       (* job["invocations"] is read without a check *)
        end
    | _, _ => Err 1
    end
  else if pol =? 4 then
    match dg_conc g, dg_inv g with
    | Some c, Some n => policy_ctor (mkPol CLOSED_LOOP et_invalid n m1 m1 c start (mkF 0 0))
    | _, _ => Err 1
    end
  else Err 3.

(* a loaded job graph: the model's jobgraph plus the profile of every job (None = the default,
   strategy-less profile a node without `work_profile` gets) and the graph's name (base, replica) *)
Record ljg := mkLJG { l_base : Z; l_repl : Z; l_jg : jobgraph; l_profiles : list (Z * option prof) }.

Fixpoint nm_get (n : Z) (m : list (Z * Z)) : option Z :=
  match m with [] => None | (k, v) :: m' => if k =? n then Some v else nm_get n m' end.
Fixpoint nm_set (n v : Z) (m : list (Z * Z)) : list (Z * Z) :=
  match m with [] => [(n, v)] | (k, w) :: m' => if k =? n then (k, v) :: m' else (k, w) :: nm_set n v m' end.

(* load_job_graph: [copy] is the suffix the deep-copied profiles carry (0 = shared originals) *)
Definition load_job_graph (nodes : list d_node) (profiles : list prof) (copy : Z) (slo : option Z)
                          (next_job : Z) : result (list job * graph * list (Z * option prof) * Z) :=
  bind (fold_left (fun acc nd => bind acc (fun st =>
          let '(jobs, g, pfs, names, jid) := st in
          bind (match dn_profile nd with
                | None => Ok None
                | Some pn => match prof_get pn profiles with
                             | None => Err 5
                             | Some p => Ok (Some (mkP (pf_name p) copy (pf_exec p) (pf_load p)))
                             end
                end) (fun op =>
          let jslo := match slo with
                      | Some s => us_time s
                      | None => match dn_slo nd with Some s => us_time s | None => et_invalid end
                      end in
          let j := mkJob jid (dn_name nd) jslo (dn_cond nd) (dn_term nd)
                         (match dn_prob nd with Some p => p | None => mkF 1 0 end)
                         (match op with Some p => map s_runtime (pf_exec p) | None => [] end) in
          Ok (jobs ++ [j], mkG (al_touch jid (g_ch g)) (g_pa g), pfs ++ [(jid, op)], nm_set (dn_name nd) jid names, jid + 1))))
        nodes (Ok ([], g_empty, [], [], next_job))) (fun st =>
  let '(jobs, g, pfs, names, jid) := st in
  bind (fold_left (fun acc nd => bind acc (fun g' =>
          match nm_get (dn_name nd) names with
          | None => Err 5
          | Some pj =>
              fold_left (fun acc' c => bind acc' (fun g'' =>
                  match nm_get c names with None => Err 1 | Some cj => g_add_child g'' pj cj end))
                (match dn_children nd with Some cs => cs | None => [] end) (Ok g')
          end)) nodes (Ok g)) (fun g' => Ok (jobs, g', pfs, jid))).

Fixpoint ljg_set (x : ljg) (l : list ljg) : list ljg :=
  match l with
  | [] => [x]
  | y :: l' => if (l_base y =? l_base x) && (l_repl y =? l_repl x) then x :: l' else y :: ljg_set x l'
  end.

(* WorkloadLoader.__init__ up to Workload.from_job_graphs *)
Definition load_workload (profiles : option (list d_profile)) (graphs : option (list d_graph)) (f : d_flags)
  : result (list ljg) :=
  match profiles, graphs with
  | Some dps, Some dgs =>
    bind (fold_left (fun acc d => bind acc (fun ps => bind (mk_profile d) (fun p => Ok (prof_set p ps)))) dps (Ok []))
    (fun ps =>
    bind (fold_left (fun acc dg => bind acc (fun st =>
            let '(out, ncopy, jid) := st in
            match dg_name dg with
            | None => Err 1
            | Some gname =>
              match dg_nodes dg, dg_policy dg with
              | Some nodes, Some pol =>
                  bind (mk_policy dg f pol) (fun policy =>
                  let var := match dg_var dg with Some v => v | None => (0, 0) end in
                  let replicas := if 1 <? df_repl f then map (fun i => Z.of_nat i) (seq 1 (Z.to_nat (df_repl f))) else [0] in
                  fold_left (fun acc' r => bind acc' (fun st' =>
                      let '(out', ncopy', jid') := st' in
                      let copy := if df_unique f then 0 else 2 * (ncopy' + 1) in
                      bind (load_job_graph nodes ps copy (df_slo f) jid') (fun res =>
                      let '(jobs, g, pfs, jid'') := res in
                      Ok (ljg_set (mkLJG gname r (mkJG gname jobs g policy (Some var)) pfs) out', ncopy' + 1, jid''))))
                    replicas (Ok (out, ncopy, jid)))
              | _, _ => Err 1
              end
            end)) dgs (Ok ([], 0, 0))) (fun st => Ok (fst (fst st))))
  | _, _ => Err 5
  end.

(* populate_task_graphs: every mapped job graph, in order; numpy arrays are consumed per
   POISSON / GAMMA policy call, uniform draws two per task graph *)
(* [completion] = None models a caller that hands a bare int to generate_task_graphs (what WorkloadLoader did
   before /repo 3effb4b): PERIODIC then calls .to() on an int: AttributeError.  Kept for the regression lemma. *)
Definition release_times_opt (p : policy) (completion : option etime) (zd : list Z) (fd : list fl) : result (list etime) :=
  match completion with
  | Some c => get_release_times p c zd fd
  | None => match p_type p with
            | PERIODIC => if p_n p =? 0 then Ok [] else Err 4
            | _ => get_release_times p et_zero zd fd
            end
  end.
Fixpoint populate (ls : list ljg) (fl_ : iflags) (completion : option etime) (zcalls : list (list Z)) (fcalls : list (list fl))
                  (us_ : list fl) (next : Z) : result (list (Z * Z * list taskgraph)) :=
  match ls with
  | [] => Ok []
  | l :: ls' =>
      let jg := l_jg l in
      let ty := p_type (jg_policy jg) in
      let live := negb (p_n (jg_policy jg) =? 0) in
      let is_p := match ty with POISSON => live | _ => false end in
      let is_g := match ty with GAMMA => live | _ => false end in
      let zd := if is_p then hd [] zcalls else [] in
      let fd := if is_g then hd [] fcalls else [] in
      bind (release_times_opt (jg_policy jg) completion zd fd) (fun rels =>
      bind (gen_graphs jg fl_ rels 0 next us_) (fun p =>
      let '(tgs, next', us') := p in
      bind (populate ls' fl_ completion (if is_p then tl zcalls else zcalls) (if is_g then tl fcalls else fcalls)
                     us' next') (fun rest =>
      Ok ((l_base l, l_repl l, tgs) :: rest))))
  end.

(* data/worker_loader.py: pools -> workers -> resources; a resource name is "name" or "name:id";
   id code 0 = "any", -1 = no id given (a fresh uuid is drawn), -2 = more than one ':' (ValueError) *)
Definition d_worker := (Z * list res_spec)%type.
Definition d_pool := (Z * list d_worker)%type.
Fixpoint res_set (r : res_spec) (l : list res_spec) : list res_spec :=
  match l with
  | [] => [r]
  | q :: l' => let '(n, i, _) := q in let '(n', i', _) := r in
               if (n =? n') && (i =? i') && negb (i =? -1) then (n, i, snd r) :: l' else q :: res_set r l'
  end.
Definition load_worker (w : d_worker) : result d_worker :=
  bind (fold_left (fun acc r => bind acc (fun rs => if snd (fst r) =? -2 then Err 1 else Ok (res_set r rs))) (snd w) (Ok []))
       (fun rs => Ok (fst w, rs)).
Definition load_pools (ps : list d_pool) : result (list d_pool) :=
  fold_left (fun acc p => bind acc (fun out =>
    bind (fold_left (fun acc' w => bind acc' (fun ws => bind (load_worker w) (fun w' => Ok (ws ++ [w'])))) (snd p) (Ok []))
         (fun ws => Ok (out ++ [(fst p, ws)])))) ps (Ok []).

(* ------------------------------------------------------------------ *)
(* observation functions                                               *)
(* ------------------------------------------------------------------ *)
Definition vfl_raw (x : fl) : val := vfl x.
Definition vtask (tg : taskgraph) (t : task) : val :=
  L [I (t_name t); vet (t_release t); vet (t_deadline t); vfl (t_prob t);
     vlist (fun c => match find (fun x => t_id x =? c) (tg_tasks tg) with Some x => I (t_name x) | None => I (-1) end)
           (g_children (tg_graph tg) (t_id t))].
Fixpoint nodup_b (l : list Z) : bool :=
  match l with [] => true | x :: l' => negb (zmem x l') && nodup_b l' end.
Definition vtg (tg : taskgraph) : val := L [I (tg_index tg); vlist (vtask tg) (tg_tasks tg)].
Definition vtgs (l : list taskgraph) : val :=
  L [vlist vtg l; vbool (nodup_b (flat_map (fun tg => map t_id (tg_tasks tg)) l))].

(* JobGraph built the way the loader and the tests build it: add_job for every job, then add_child per edge *)
Definition graph_of_edges (nodes : list Z) (edges : list (Z * Z)) : result graph :=
  fold_left (fun acc e => bind acc (fun g => g_add_child g (fst e) (snd e))) edges
            (Ok (fold_left (fun g n => mkG (al_touch n (g_ch g)) (g_pa g)) nodes g_empty)).
Record inst_case := mkIC { ic_jobs : list job; ic_edges : list (Z * Z); ic_policy : policy; ic_var : option (Z * Z);
                           ic_flags : iflags; ic_completion : etime;
                           ic_zd : list Z; ic_fd : list fl; ic_us : list fl }.
Definition ic_jobgraph (c : inst_case) : result jobgraph :=
  bind (policy_ctor (ic_policy c)) (fun p =>
  bind (graph_of_edges (map j_id (ic_jobs c)) (ic_edges c)) (fun g => Ok (mkJG 0 (ic_jobs c) g p (ic_var c)))).
Definition inst_observe (c : inst_case) : val :=
  vres vtgs (bind (ic_jobgraph c) (fun jg =>
             generate_task_graphs jg (ic_flags c) (ic_completion c) (ic_zd c) (ic_fd c) (ic_us c))).
(* JobGraph.completion_time (None for an empty graph -> observed as L []) *)
Definition ct_observe (c : inst_case) : val :=
  vres (fun x => x) (bind (ic_jobgraph c) (fun jg =>
    match jg_jobs jg with [] => Ok (L []) | _ => bind (completion_time jg) (fun t => Ok (vet t)) end)).

(* closed loop: the released graph (or none) / the error of every notification *)
Definition cl_observe (c : Z * Z * list Z) : val :=
  let '(conc, n, gs) := c in
  L (snd (fold_left (fun st g =>
        let '(s, out) := st in
        match s with
        | None => (None, out)
        | Some s' => match cl_notify s' g with
                     | Ok (s'', r) => (Some s'', out ++ [L [I 0; vopt I r; I (cl_remaining s'')]])
                     | Err e => (Some s', out ++ [L [I 1; I e]])
                     end
        end) gs (Some (cl_init conc n), []))).

Definition vres_spec (r : res_spec) : val := L [I (fst (fst r)); I (snd (fst r)); I (snd r)].
Definition vstrat (s : strat) : val := L [vopt (vlist vres_spec) (s_res s); I (s_batch s); vet (s_runtime s)].
Definition vprof (p : prof) : val := L [I (pf_name p); I (pf_copy p); vlist vstrat (pf_exec p); vlist vstrat (pf_load p)].
Definition ptype_code (t : policy_type) : Z :=
  match t with PERIODIC => 1 | FIXED => 2 | POISSON => 3 | GAMMA => 4 | CLOSED_LOOP => 5 | FIXED_AND_GAMMA => 6 end.
Definition vpolicy (p : policy) : val :=
  L [I (ptype_code (p_type p)); vet (p_period p); I (p_n p); vfl (p_rate p); vfl (p_coef p); I (p_conc p); vet (p_start p)].
Definition vjob (l : ljg) (j : job) : val :=
  let name_of i := match find_job i (jg_jobs (l_jg l)) with Some x => j_name x | None => -1 end in
  L [I (j_name j); vet (j_slo j); vbool (j_cond j); vbool (j_term j); vfl (j_prob j);
     vopt vprof (match find (fun kv => fst kv =? j_id j) (l_profiles l) with Some kv => snd kv | None => None end);
     vlist (fun c => I (name_of c)) (g_children (jg_graph (l_jg l)) (j_id j))].
Definition vljg (l : ljg) : val :=
  L [I (l_base l); I (l_repl l); vpolicy (jg_policy (l_jg l));
     match jg_variance (l_jg l) with Some v => L [I (fst v); I (snd v)] | None => L [] end;
     vlist (fun i => match find_job i (jg_jobs (l_jg l)) with Some j => vjob l j | None => L [] end)
           (g_nodes (jg_graph (l_jg l)))].

(* the raw flag values; WorkloadLoader.__init__ turns them into overrides *)
Record raw_flags := mkRF { rf_rate : fl; rf_coef : fl; rf_period : Z; rf_inv : Z; rf_unique : bool; rf_repl : Z;
                           rf_slo : Z; rf_minb : Z; rf_maxb : Z; rf_timeout : Z; rf_bpd : bool }.
Definition flags_view (o : option raw_flags) : d_flags :=
  match o with
  | None => mkDF None None None None false 1 None 0 (2 ^ 63 - 1)
  | Some r => mkDF (if fl_ltb eps (rf_rate r) then Some (rf_rate r) else None)
                   (if fl_ltb eps (rf_coef r) then Some (rf_coef r) else None)
                   (if 0 <? rf_period r then Some (rf_period r) else None)
                   (if 0 <? rf_inv r then Some (rf_inv r) else None)
                   (rf_unique r) (rf_repl r)
                   (if 0 <? rf_slo r then Some (rf_slo r) else None) (rf_minb r) (rf_maxb r)
  end.
(* the horizon handed to generate_task_graphs: EventTime(sys.maxsize, US) without flags,
   EventTime(loop_timeout, US) with flags (workload_loader.py:76, since /repo 3effb4b; before that fix the bare
   int flag was passed and every `periodic` document raised AttributeError) *)
Definition loader_horizon (o : option raw_flags) : option etime :=
  match o with None => Some (mkET (2 ^ 63 - 1) U_US) | Some r => Some (mkET (rf_timeout r) U_US) end.
Record load_case := mkLC { lc_profiles : option (list d_profile); lc_graphs : option (list d_graph); lc_rflags : option raw_flags;
                           lc_zcalls : list (list Z); lc_fcalls : list (list fl); lc_us : list fl }.
Definition lc_flags (c : load_case) : d_flags := flags_view (lc_rflags c).
Definition lc_completion (c : load_case) : option etime := loader_horizon (lc_rflags c).
Definition lc_bpd (c : load_case) : bool := match lc_rflags c with Some r => rf_bpd r | None => false end.
Definition load_observe (c : load_case) : val :=
  vres (fun p => L [vlist vljg (fst p);
                    vlist (fun x => L [I (fst (fst x)); I (snd (fst x)); vtgs (snd x)]) (snd p)])
       (bind (load_workload (lc_profiles c) (lc_graphs c) (lc_flags c)) (fun ls =>
        bind (populate ls (mkIF (df_minb (lc_flags c)) (df_maxb (lc_flags c)) (0, 0) (lc_bpd c)) (lc_completion c)
                       (lc_zcalls c) (lc_fcalls c) (lc_us c) 0) (fun tgs => Ok (ls, tgs)))).
Definition pools_observe (ps : list d_pool) : val :=
  vres (vlist (fun p => L [I (fst p); vlist (fun w => L [I (fst w); vlist vres_spec (snd w)]) (snd p)])) (load_pools ps).

(* structure of an instantiated graph against its job graph: the same named nodes, each with the
   same children in the same order; the observation is (name, children names) per node *)
Definition nadj := list (Z * list Z).
Fixpoint nadj_get (k : Z) (l : nadj) : option (list Z) :=
  match l with [] => None | (k', v) :: l' => if k' =? k then Some v else nadj_get k l' end.
Definition mon_iso (jobs tasks : nadj) : bool :=
  (length jobs =? length tasks)%nat && nodup_b (map fst tasks) &&
  forallb (fun kv => match nadj_get (fst kv) tasks with Some cs => zlist_eqb cs (snd kv) | None => false end) jobs.

(* what the code ASKS of the random sources (so that a changed request is seen, not only a changed use):
   rng.poisson(1/rate, ..), rng.gamma(1/coef, coef/rate, ..), uniform(t*|minv|/100.0, t*|maxv|/100.0) *)
Definition rng_request (p : policy) : val :=
  let one := mkF 1 0 in
  match p_type p with
  | POISSON => vres vfl (fl_div one (p_rate p))
  | GAMMA | FIXED_AND_GAMMA =>
      vres (fun x => x) (bind (fl_div one (p_coef p)) (fun a => bind (fl_div (p_coef p) (p_rate p)) (fun b => Ok (L [vfl a; vfl b]))))
  | _ => L []
  end.
Definition uniform_request (c : Z * Z * Z) : val :=
  let '(t, minv, maxv) := c in
  let hundred := mkF 100 0 in
  vres (fun x => x) (bind (fl_div (fl_of_Z (t * Z.abs minv)) hundred) (fun a =>
                     bind (fl_div (fl_of_Z (t * Z.abs maxv)) hundred) (fun b => Ok (L [vfl a; vfl b])))).
