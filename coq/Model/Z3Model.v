(* The constraint system that schedulers/z3_scheduler.py hands to z3.Optimize, as an executable
   function of what schedule() reads from the live objects (`instance`), in a deep embedding of the
   fragment of z3's language the scheduler uses (so that the rows can be compared one by one with
   `Optimize.assertions()` of the running scheduler), its satisfaction relation `sat`, and the
   read-back of placements from an assignment.  No proofs here.

   Code followed: TaskOptimizerVariables.__init__ (:38-86), _initialize_timing_constraints
   (:112-141), _initialize_placement_constraints (:143-160), _initialize_resource_constraints
   (:162-236), Z3Scheduler.schedule (:283-386), _add_task_dependency_constraints (:402-433),
   _add_resource_constraints (:435-569), _add_objective (:571-639).  The precedence rows, the parent
   filter, the timing rows, the one-hot rows and the constants come from Gen/Src_Z3.v (translated). *)
From Coq Require Import ZArith Bool List.
Import ListNotations.
From Verif Require Import Model.Val Gen.Src_Z3.
Open Scope Z_scope.

(* ---------------------------------------------------------------- solver variables *)
Inductive var :=
  | VStart (t : Z)                (* Int   "{task}_start" *)
  | VPlaced (t : Z)               (* Bool  "{task}_is_placed" *)
  | VWorker (t : Z)               (* BitVec "{task}_worker", one bit per worker *)
  | VRes (t r : Z)                (* BitVec "{task}_{resource}", one bit per resource slot *)
  | VEnds (t1 t2 : Z)             (* Bool  "{t1}_ends_before_{t2}_starts" *)
  | VOverlap (t1 t2 : Z)          (* Bool  "{t1}_{t2}_overlap" *)
  | VIndep (w r t1 t2 : Z)        (* Bool  "{worker}_{resource}_independent_{t1}_{t2}" *)
  | VPenalty                      (* Int   "TASK_SKIP_PENALTY" *)
  | VSlack (g : Z)                (* Int   "{graph}_slack" *)
  | VGoal.                        (* Int   "TASK_SLACK_SUM" *)

Definition var_code (v : var) : list Z :=
  match v with
  | VStart t => [0; t] | VPlaced t => [1; t] | VWorker t => [2; t] | VRes t r => [3; t; r]
  | VEnds a b => [4; a; b] | VOverlap a b => [5; a; b] | VIndep w r a b => [6; w; r; a; b]
  | VPenalty => [7] | VSlack g => [8; g] | VGoal => [9]
  end.

Fixpoint zlist_eqb (a b : list Z) : bool :=
  match a, b with
  | [], [] => true
  | x :: a', y :: b' => (x =? y) && zlist_eqb a' b'
  | _, _ => false
  end.
Definition var_eqb (a b : var) : bool := zlist_eqb (var_code a) (var_code b).

(* ---------------------------------------------------------------- terms and formulas *)
Inductive iexp :=
  | IConst (z : Z)
  | IVar (v : var)
  | IAdd (l : list iexp)          (* z3 `+`, n-ary *)
  | ISub (a b : iexp)
  | IIte (c : var) (a b : iexp).  (* z3.If(<bool variable>, a, b) *)

Inductive bvexp :=
  | BVar (v : var) (size : Z)
  | BConst (value size : Z)       (* python int coerced to `size` bits: value mod 2^size *)
  | BXor (a b : bvexp)
  | BExtract (hi lo : Z) (a : bvexp).

Inductive bexp :=
  | FVar (v : var)
  | FAnd (l : list bexp)
  | FOr (l : list bexp)
  | FNot (a : bexp)
  | FImp (a b : bexp)
  | FIff (a b : bexp)
  | FEqI (a b : iexp)
  | FEqBV (a b : bvexp)
  | FNeBV (a b : bvexp)
  | FGe (a b : iexp)
  | FLe (a b : iexp)
  | FLt (a b : iexp).

Definition asg := var -> Z.      (* booleans: non-zero = true; bit-vectors: value mod 2^size *)
Definition truth (a : asg) (v : var) : bool := negb (a v =? 0).

Fixpoint ieval (a : asg) (e : iexp) : Z :=
  match e with
  | IConst z => z
  | IVar v => a v
  | IAdd l => (fix go (l : list iexp) : Z := match l with [] => 0 | x :: l' => ieval a x + go l' end) l
  | ISub x y => ieval a x - ieval a y
  | IIte c x y => if truth a c then ieval a x else ieval a y
  end.

Fixpoint bveval (a : asg) (e : bvexp) : Z :=
  match e with
  | BVar v s => (a v) mod 2 ^ s
  | BConst v s => v mod 2 ^ s
  | BXor x y => Z.lxor (bveval a x) (bveval a y)
  | BExtract hi lo x => (bveval a x / 2 ^ lo) mod 2 ^ (hi - lo + 1)
  end.

Fixpoint feval (a : asg) (f : bexp) : bool :=
  match f with
  | FVar v => truth a v
  | FAnd l => (fix go (l : list bexp) : bool := match l with [] => true | x :: l' => feval a x && go l' end) l
  | FOr l => (fix go (l : list bexp) : bool := match l with [] => false | x :: l' => feval a x || go l' end) l
  | FNot x => negb (feval a x)
  | FImp x y => implb (feval a x) (feval a y)
  | FIff x y => Bool.eqb (feval a x) (feval a y)
  | FEqI x y => ieval a x =? ieval a y
  | FEqBV x y => bveval a x =? bveval a y
  | FNeBV x y => negb (bveval a x =? bveval a y)
  | FGe x y => ieval a x >=? ieval a y
  | FLe x y => ieval a x <=? ieval a y
  | FLt x y => ieval a x <? ieval a y
  end.

Definition sat (fs : list bexp) (a : asg) : bool := forallb (feval a) fs.

(* ---------------------------------------------------------------- serialisation (shape of the harness' dump of z3 ASTs) *)
Definition ser_var (v : var) : val := L (map I (var_code v)).
Fixpoint ser_i (e : iexp) : val :=
  match e with
  | IConst z => L [I 0; I z]
  | IVar v => L [I 1; ser_var v]
  | IAdd l => L [I 2; L ((fix go (l : list iexp) : list val := match l with [] => [] | x :: l' => ser_i x :: go l' end) l)]
  | ISub x y => L [I 3; ser_i x; ser_i y]
  | IIte c x y => L [I 4; L [I 29; ser_var c]; ser_i x; ser_i y]
  end.
Fixpoint ser_bv (e : bvexp) : val :=
  match e with
  | BVar v s => L [I 10; ser_var v; I s]
  | BConst v s => L [I 11; I (v mod 2 ^ s); I s]
  | BXor x y => L [I 12; ser_bv x; ser_bv y]
  | BExtract hi lo x => L [I 13; I hi; I lo; ser_bv x]
  end.
Fixpoint ser (f : bexp) : val :=
  match f with
  | FVar v => L [I 29; ser_var v]
  | FAnd l => L [I 20; L ((fix go (l : list bexp) : list val := match l with [] => [] | x :: l' => ser x :: go l' end) l)]
  | FOr l => L [I 21; L ((fix go (l : list bexp) : list val := match l with [] => [] | x :: l' => ser x :: go l' end) l)]
  | FNot x => L [I 22; ser x]
  | FImp x y => L [I 23; ser x; ser y]
  | FIff x y => L [I 24; ser x; ser y]
  | FEqI x y => L [I 24; ser_i x; ser_i y]
  | FEqBV x y => L [I 24; ser_bv x; ser_bv y]
  | FNeBV x y => L [I 25; ser_bv x; ser_bv y]
  | FGe x y => L [I 26; ser_i x; ser_i y]
  | FLe x y => L [I 27; ser_i x; ser_i y]
  | FLt x y => L [I 28; ser_i x; ser_i y]
  end.

(* ---------------------------------------------------------------- the instance *)
Record strat := mkStrat { s_runtime : Z; s_res : list (Z * Z) }.          (* resource name, quantity *)
Record ztask := mkTask {
  zt_id : Z; zt_graph : Z; zt_release : Z; zt_remaining : Z; zt_deadline : Z;
  zt_strats : list strat;           (* available_execution_strategies, in order *)
  zt_parents : list Z;              (* task_graph.get_parents(task), offered or not *)
  zt_depth : Z }.                   (* task_graph.get_node_depth(task) *)
Record zworker := mkWorker {
  zw_name : Z; zw_pool : Z;
  zw_res : list (Z * Z * Z) }.      (* per key of worker.resources.resources: name, total, available *)
Record instance := mkInst {
  i_now : Z; i_enforce : bool;
  i_tasks : list ztask;             (* the offered tasks, in the order of get_schedulable_tasks *)
  i_workers : list zworker;         (* in the order schedule() enumerates them: bit k = k-th worker *)
  i_dep : list (Z * Z);             (* pairs for which TaskGraph.are_dependent holds *)
  i_gdl : list (Z * Z) }.           (* task graph -> TaskGraph.deadline *)

(* Resources.get_available_quantity(Resource(name, "any")) *)
Definition avail (w : zworker) (r : Z) : Z :=
  fold_right (fun k acc => match k with (n, _, av) => if n =? r then av + acc else acc end) 0 (zw_res w).
(* Resources.get_total_quantity on a strategy's request *)
Definition s_total (s : strat) (r : Z) : Z :=
  fold_right (fun k acc => if fst k =? r then snd k + acc else acc) 0 (s_res s).
(* Worker.can_accomodate_strategy = Resources.__gt__ *)
Definition accomodates (w : zworker) (s : strat) : bool :=
  forallb (fun k => avail w (fst k) >=? snd k) (s_res s).
Definition compatible (w : zworker) (t : ztask) : list strat := filter (accomodates w) (zt_strats t).
(* ExecutionStrategies.get_fastest_strategy: min(..., key=runtime) keeps the first minimum *)
Fixpoint fastest_from (best : strat) (l : list strat) : strat :=
  match l with
  | [] => best
  | s :: l' => if s_runtime s <? s_runtime best then fastest_from s l' else fastest_from best l'
  end.
Definition fastest (l : list strat) : option strat :=
  match l with [] => None | s :: l' => Some (fastest_from s l') end.

Fixpoint dedup (l : list Z) : list Z :=
  match l with
  | [] => []
  | x :: l' => if existsb (Z.eqb x) l' then dedup l' else x :: dedup l'
  end.
(* set(resource.name for strategy in strategies for resource, _ in strategy.resources.resources) *)
Definition rtypes (t : ztask) : list Z := dedup (flat_map (fun s => map fst (s_res s)) (zt_strats t)).
Definition zmax_list (l : list Z) : option Z :=
  match l with [] => None | x :: l' => Some (fold_left Z.max l' x) end.
(* width of "{task}_{resource}": max over workers of the available quantity *)
Definition rsize (I : instance) (r : Z) : option Z := zmax_list (map (fun w => avail w r) (i_workers I)).
Definition any_compatible (I : instance) (t : ztask) : bool :=
  existsb (fun w => negb (match compatible w t with [] => true | _ => false end)) (i_workers I).
Definition has_resources (I : instance) (t : ztask) : bool := any_compatible I t.

Definition nworkers (I : instance) : Z := Z.of_nat (length (i_workers I)).

(* quantity the fastest compatible strategy of t on w needs of r *)
Definition req (w : zworker) (t : ztask) (r : Z) : option Z :=
  match fastest (compatible w t) with Some s => Some (s_total s r) | None => None end.

(* python: sum(map(int, bin(val)[2:])) *)
Fixpoint popcount_fuel (n : nat) (x : Z) : Z :=
  match n with O => 0 | S k => (x mod 2) + popcount_fuel k (x / 2) end.
Definition popcount (x : Z) : Z := popcount_fuel (Z.to_nat (Z.log2 x) + 1) x.

(* allowed_values of _initialize_resource_constraints:
   int("1" * top_n_bits + format(val, f"#0{bottom_m_bits+2}b")[2:], base=2) for the val in
   range(2**bottom_m_bits) with num_required_by_task one-bits.  format pads to max(m, 1) digits. *)
Definition allowed_values (size m need : Z) : list Z :=
  let top := size - m in
  let width := Z.max m 1 in
  map (fun v => (2 ^ top - 1) * 2 ^ width + v)
      (filter (fun v => popcount v =? need) (py_range (2 ^ m))).

(* ---------------------------------------------------------------- instantiating the translated rows *)
Definition bundle := ztask.      (* TaskOptimizerVariables: the task and its variables' names *)
Definition worker_bv (I : instance) (t : ztask) : bvexp := BVar (VWorker (zt_id t)) (nworkers I).
Definition ops (I : instance) : zops bexp iexp bvexp bundle :=
  mk_zops bexp iexp bvexp bundle
    FImp FAnd FOr FGe FLe FIff
    (fun e z => IAdd [e; IConst z]) IConst
    (fun w z => match w with BVar _ s => FEqBV w (BConst z s) | _ => FEqBV w (BConst z 0) end)
    (fun w z => match w with BVar _ s => FNeBV w (BConst z s) | _ => FNeBV w (BConst z 0) end)
    (fun t => FVar (VPlaced (zt_id t)))
    (fun t => IVar (VStart (zt_id t)))
    (worker_bv I)
    zt_remaining zt_release zt_deadline.

Definition find_task (ts : list ztask) (id : Z) : option ztask := find (fun t => zt_id t =? id) ts.

(* ---------------------------------------------------------------- per-task rows (TaskOptimizerVariables.__init__) *)
Definition z3_exception : Z := 1.

Definition can_be_placed (w : zworker) (t : ztask) : bool :=
  forallb (fun r => match req w t r with
                    | None => false
                    | Some need => negb (avail w r <? need)
                    end) (rtypes t).

(* rows of _initialize_resource_constraints for the worker with bit value `index` *)
Definition resource_rows (I : instance) (t : ztask) (index : Z) (w : zworker) : result (list bexp) :=
  if can_be_placed w t then
    fold_right (fun r acc =>
      bind acc (fun rows =>
        match rsize I r, req w t r with
        | Some size, Some need =>
            Ok (FImp (o_bv_eq_int (ops I) (worker_bv I t) index)
                     (FOr (map (fun v => FEqBV (BVar (VRes (zt_id t) r) size) (BConst v size))
                               (allowed_values size (avail w r) need))) :: rows)
        | _, _ => Err z3_exception
        end)) (Ok []) (rtypes t)
  else Ok [FImp (FVar (VPlaced (zt_id t))) (o_bv_ne_int (ops I) (worker_bv I t) index)].

Fixpoint indexed_from {A} (k : Z) (l : list A) : list (Z * A) :=
  match l with [] => [] | x :: l' => (k, x) :: indexed_from (k + 1) l' end.
(* workers[2**worker_index] = worker *)
Definition indexed_workers (I : instance) : list (Z * zworker) :=
  map (fun p => (2 ^ fst p, snd p)) (indexed_from 0 (i_workers I)).

Fixpoint concat_results {A} (l : list (result (list A))) : result (list A) :=
  match l with
  | [] => Ok []
  | r :: l' => bind r (fun x => bind (concat_results l') (fun y => Ok (x ++ y)))
  end.

Definition task_rows (I : instance) (t : ztask) : result (list bexp) :=
  if nworkers I <=? 0 then Err z3_exception       (* z3.BitVec(name, 0) *)
  else if any_compatible I t then
    (* the resource bit-vectors are created first: a width of zero raises *)
    if forallb (fun r => match rsize I r with Some s => 0 <? s | None => false end) (rtypes t) then
      bind (concat_results (map (fun p => resource_rows I t (fst p) (snd p)) (indexed_workers I)))
           (fun rr => Ok ([timing (ops I) t (i_now I); one_hot (ops I) t (nworkers I); placed_iff (ops I) t] ++ rr))
    else Err z3_exception
  else Ok [FIff (FVar (VPlaced (zt_id t))) (FOr [])].

(* ---------------------------------------------------------------- precedence rows *)
Definition dependency_rows (I : instance) (t : ztask) : list bexp :=
  let parents := parent_variables_of (find_task (i_tasks I)) (zt_parents t) in
  [dep_placed (ops I) t parents; dep_start (ops I) t parents].

(* ---------------------------------------------------------------- exclusivity rows (_add_resource_constraints) *)
Definition dependent (I : instance) (a b : Z) : bool :=
  existsb (fun p => (fst p =? a) && (snd p =? b)) (i_dep I).

(* the pairs (t1, t2) that end up in task_resource_dependencies: t1 offered before t2 *)
Fixpoint pairs_from (I : instance) (l : list ztask) : list (ztask * ztask) :=
  match l with
  | [] => []
  | t1 :: l' =>
      map (fun t2 => (t1, t2))
          (filter (fun t2 => has_resources I t1 && has_resources I t2 &&
                             (if zt_graph t1 =? zt_graph t2 then negb (dependent I (zt_id t1) (zt_id t2)) else true)) l')
      ++ pairs_from I l'
  end.
Definition pairs (I : instance) : list (ztask * ztask) := pairs_from I (i_tasks I).

Definition in_rtypes (t : ztask) (r : Z) : bool := existsb (Z.eqb r) (rtypes t).
Definition ends_before (t1 t2 : ztask) : bexp :=
  FIff (FVar (VEnds (zt_id t1) (zt_id t2)))
       (FLt (IAdd [IVar (VStart (zt_id t1)); IConst (zt_remaining t1)]) (IVar (VStart (zt_id t2)))).

Definition indep_row (I : instance) (w : zworker) (t1 t2 : ztask) (r quantity : Z) : result bexp :=
  match rsize I r with
  | Some size =>
      (* z3.Extract(quantity - 1, 0, <vector of `size` bits>) *)
      if (0 <? quantity) && (quantity <=? size) then
        Ok (FIff (FVar (VIndep (zw_name w) r (zt_id t1) (zt_id t2)))
                 (FEqBV (BXor (BExtract (quantity - 1) 0 (BVar (VRes (zt_id t1) r) size))
                              (BExtract (quantity - 1) 0 (BVar (VRes (zt_id t2) r) size)))
                        (BConst (2 ^ quantity - 1) quantity)))
      else Err z3_exception
  | None => Err z3_exception
  end.

Definition shared_keys (w : zworker) (t1 t2 : ztask) : list (Z * Z) :=
  flat_map (fun k => match k with (r, q, _) => if in_rtypes t1 r && in_rtypes t2 r then [(r, q)] else [] end) (zw_res w).

Fixpoint sequence {A} (l : list (result A)) : result (list A) :=
  match l with
  | [] => Ok []
  | r :: l' => bind r (fun x => bind (sequence l') (fun y => Ok (x :: y)))
  end.

Definition pair_rows (I : instance) (index : Z) (w : zworker) (p : ztask * ztask) : result (list bexp) :=
  let t1 := fst p in let t2 := snd p in
  let keys := shared_keys w t1 t2 in
  bind (sequence (map (fun k => indep_row I w t1 t2 (fst k) (snd k)) keys)) (fun irows =>
    Ok ([ends_before t1 t2; ends_before t2 t1;
         FIff (FVar (VOverlap (zt_id t1) (zt_id t2)))
              (FNot (FOr [FVar (VEnds (zt_id t1) (zt_id t2)); FVar (VEnds (zt_id t2) (zt_id t1))]))]
        ++ irows ++
        [FImp (FAnd [FVar (VPlaced (zt_id t1)); FVar (VPlaced (zt_id t2));
                     o_bv_eq_int (ops I) (worker_bv I t1) index; o_bv_eq_int (ops I) (worker_bv I t2) index;
                     FVar (VOverlap (zt_id t1) (zt_id t2))])
              (FAnd (map (fun k => FVar (VIndep (zw_name w) (fst k) (zt_id t1) (zt_id t2))) keys))])).

Definition exclusivity_rows (I : instance) : result (list bexp) :=
  concat_results (flat_map (fun iw => map (pair_rows I (fst iw) (snd iw)) (pairs I)) (indexed_workers I)).

(* ---------------------------------------------------------------- objective rows (_add_objective, goal "max_slack") *)
Definition graphs_of (I : instance) : list Z :=
  (fix go (seen : list Z) (l : list ztask) : list Z :=
     match l with
     | [] => []
     | t :: l' => if existsb (Z.eqb (zt_graph t)) seen then go seen l' else zt_graph t :: go (zt_graph t :: seen) l'
     end) [] (i_tasks I).
Fixpoint deepest_from (best : ztask) (l : list ztask) : ztask :=
  match l with
  | [] => best
  | t :: l' => if zt_depth best <? zt_depth t then deepest_from t l' else deepest_from best l'
  end.
Definition graph_deadline (I : instance) (g : Z) : Z :=
  match find (fun p => fst p =? g) (i_gdl I) with Some p => snd p | None => 0 end.
Definition slack_row (I : instance) (g : Z) : list bexp :=
  match filter (fun t => zt_graph t =? g) (i_tasks I) with
  | [] => []
  | t :: l =>
      let last := deepest_from t l in
      [FEqI (IVar (VSlack g)) (ISub (IConst (graph_deadline I g - zt_remaining last)) (IVar (VStart (zt_id last))))]
  end.
Definition isum (l : list iexp) : iexp := match l with [] => IConst 0 | _ => IAdd l end.
Definition objective_rows (I : instance) : list bexp :=
  [FEqI (IVar VPenalty) (IConst TASK_SKIP_PENALTY)]
  ++ flat_map (slack_row I) (graphs_of I)
  ++ [FEqI (IVar VGoal) (isum (map (fun t => IIte (VPlaced (zt_id t)) (IVar (VSlack (zt_graph t))) (IVar VPenalty)) (i_tasks I)))].

(* ---------------------------------------------------------------- the whole system *)
Definition gen_z3 (I : instance) : result (list bexp) :=
  bind (concat_results (map (task_rows I) (i_tasks I))) (fun tr =>
  bind (exclusivity_rows I) (fun er =>
    Ok (tr ++ flat_map (dependency_rows I) (i_tasks I) ++ er ++ objective_rows I))).

(* soft rows (add_soft): not part of the feasible set *)
Definition soft_z3 (I : instance) : list (bexp * Z) :=
  flat_map (fun t => if any_compatible I t then soft_rows (ops I) t (i_enforce I) else []) (i_tasks I).

(* ---------------------------------------------------------------- read-back (schedule(), :345-370) *)
Inductive decision := Placed (t start pool worker : Z) | Unplaced (t : Z).
Definition dec_task (d : decision) : Z := match d with Placed t _ _ _ => t | Unplaced t => t end.
Definition key_error : Z := 2.
(* workers[bits] for the dict built by `workers[2**worker_index] = worker` *)
Fixpoint worker_find (k : Z) (l : list zworker) (bits : Z) : option (Z * zworker) :=
  match l with
  | [] => None
  | w :: l' => if 2 ^ k =? bits then Some (k, w) else worker_find (k + 1) l' bits
  end.
Definition worker_at (I : instance) (bits : Z) : option (Z * zworker) := worker_find 0 (i_workers I) bits.
Definition readback (I : instance) (a : asg) : result (list decision) :=
  sequence (map (fun t =>
    if truth a (VPlaced (zt_id t)) then
      match worker_at I (a (VWorker (zt_id t)) mod 2 ^ nworkers I) with
      | Some (k, w) => Ok (Placed (zt_id t) (a (VStart (zt_id t))) (zw_pool w) k)
      | None => Err key_error
      end
    else Ok (Unplaced (zt_id t))) (i_tasks I)).

(* ---------------------------------------------------------------- assignments as association lists (for the streams) *)
Definition asg_of (l : list (var * Z)) : asg :=
  fun v => match find (fun p => var_eqb (fst p) v) l with Some p => snd p | None => 0 end.

(* multiset difference on serialised rows *)
Fixpoint remove_one (x : val) (l : list val) : option (list val) :=
  match l with
  | [] => None
  | y :: l' => if val_eqb x y then Some l' else match remove_one x l' with Some r => Some (y :: r) | None => None end
  end.
Fixpoint ms_diff (a b : list val) : list val :=      (* a minus b *)
  match a with
  | [] => []
  | x :: a' => match remove_one x b with Some b' => ms_diff a' b' | None => x :: ms_diff a' b end
  end.

(* observation compared with the implementation: error class, or rows missing on either side *)
Definition obs_rows (inp : instance * list val) : val :=
  match gen_z3 (fst inp) with
  | Err c => L [I 1; I c]
  | Ok fs => let m := map ser fs in L [I 0; L (ms_diff m (snd inp)); L (ms_diff (snd inp) m)]
  end.
Definition obs_sat (inp : instance * list (list (var * Z))) : val :=
  match gen_z3 (fst inp) with
  | Err c => L [I 1; I c]
  | Ok fs => L [I 0; L (map (fun l => vbool (sat fs (asg_of l))) (snd inp))]
  end.
Definition ser_dec (d : decision) : val :=
  match d with Placed t s p k => L [I t; I 1; I s; I p; I k] | Unplaced t => L [I t; I 0] end.
Definition obs_readback (inp : instance * list (var * Z)) : val :=
  vres (vlist ser_dec) (readback (fst inp) (asg_of (snd inp))).
Definition obs_soft (ins : instance) : val :=
  L (map (fun p => L [ser (fst p); I (snd p)]) (soft_z3 ins)).

(* ---------------------------------------------------------------- monitors (decidable forms; proved equivalent in Proofs/) *)
(* C11, co-decided parents: stated with the instance's remaining times, not with the translated rows *)
Definition c11_ok (ins : instance) (a : asg) : bool :=
  forallb (fun c =>
    forallb (fun pid =>
      match find_task (i_tasks ins) pid with
      | Some p => implb (truth a (VPlaced (zt_id c)))
                        (truth a (VPlaced (zt_id p)) && (a (VStart (zt_id c)) >=? a (VStart (zt_id p)) + zt_remaining p))
      | None => true
      end) (zt_parents c)) (i_tasks ins).
(* C11, predecessors that are running / scheduled and not offered: (child, expected finish) *)
Definition outside_ok (outs : list (Z * Z)) (a : asg) : bool :=
  forallb (fun o => implb (truth a (VPlaced (fst o))) (a (VStart (fst o)) >=? snd o)) outs.

(* ---------------------------------------------------------------- C10: what a feasible point means as a decision *)
Definition worker_bits (ins : instance) (a : asg) (t : ztask) : Z := a (VWorker (zt_id t)) mod 2 ^ nworkers ins.
Definition placed_on (ins : instance) (a : asg) (t : ztask) (k : Z) : bool :=
  truth a (VPlaced (zt_id t)) && (worker_bits ins a t =? 2 ^ k).
Definition res_bits (ins : instance) (a : asg) (t : ztask) (r : Z) : Z :=
  match rsize ins r with Some s => a (VRes (zt_id t) r) mod 2 ^ s | None => 0 end.
Definition t_start (a : asg) (t : ztask) : Z := a (VStart (zt_id t)).
(* the scheduler's own notion of two executions touching (closed intervals [start, start + remaining]) *)
Definition meets (a : asg) (t1 t2 : ztask) : bool :=
  negb ((t_start a t1 + zt_remaining t1 <? t_start a t2) || (t_start a t2 + zt_remaining t2 <? t_start a t1)).

(* decisions are well formed: existing worker of the named pool, start not before now / release *)
Definition decision_ok (ins : instance) (d : decision) : bool :=
  match d with
  | Unplaced t => existsb (fun x => zt_id x =? t) (i_tasks ins)
  | Placed t s pool k =>
      (0 <=? k) &&
      match nth_error (i_workers ins) (Z.to_nat k) with
      | Some w => zw_pool w =? pool
      | None => false
      end &&
      existsb (fun x => (zt_id x =? t) && (i_now ins <=? s) && (zt_release x <=? s)) (i_tasks ins)
  end.
Definition decisions_ok (ins : instance) (a : asg) : bool :=
  match readback ins a with
  | Ok ds => zlist_eqb (map dec_task ds) (map zt_id (i_tasks ins)) && forallb (decision_ok ins) ds
  | Err _ => false
  end.

(* no resource slot is given to two tasks whose executions touch on the same worker *)
Definition slots_ok (ins : instance) (a : asg) : bool :=
  forallb (fun kw =>
    forallb (fun p =>
      implb (placed_on ins a (fst p) (fst kw) && placed_on ins a (snd p) (fst kw) && meets a (fst p) (snd p))
            (forallb (fun rq => Z.land (res_bits ins a (fst p) (fst rq) mod 2 ^ snd rq)
                                       (res_bits ins a (snd p) (fst rq) mod 2 ^ snd rq) =? 0)
                     (shared_keys (snd kw) (fst p) (snd p))))
      (pairs ins)) (indexed_from 0 (i_workers ins)).

(* worker capacity at the start instants of the placed tasks: demand of the tasks executing there
   (start <= tau < start + remaining), as the scheduler reckons it (fastest compatible strategy), against
   the quantity available when schedule() was called *)
Definition demand (w : zworker) (t : ztask) (r : Z) : Z := match req w t r with Some q => q | None => 0 end.
Definition active_at (a : asg) (t : ztask) (tau : Z) : bool :=
  (t_start a t <=? tau) && (tau <? t_start a t + zt_remaining t).
Definition load (ins : instance) (a : asg) (k : Z) (w : zworker) (r tau : Z) : Z :=
  fold_right (fun t acc => if placed_on ins a t k && active_at a t tau then demand w t r + acc else acc) 0 (i_tasks ins).
Definition names_of (w : zworker) : list Z := dedup (map (fun k => fst (fst k)) (zw_res w)).
Definition capacity_ok (ins : instance) (a : asg) : bool :=
  forallb (fun kw =>
    forallb (fun r =>
      forallb (fun t => load ins a (fst kw) (snd kw) r (t_start a t) <=? avail (snd kw) r) (i_tasks ins))
      (names_of (snd kw))) (indexed_from 0 (i_workers ins)).
Definition returned_ok (ins : instance) (ds : list decision) : bool :=
  zlist_eqb (map dec_task ds) (map zt_id (i_tasks ins)) && forallb (decision_ok ins) ds.

(* ---------------------------------------------------------------- C12: deadlines are soft rows *)
(* weight of the violated soft rows: what z3.Optimize minimises first (objectives are handled in the
   order they were declared; the soft group is declared before maximize(goal)) *)
Definition soft_penalty (ins : instance) (a : asg) : Z :=
  fold_right (fun p acc => (if feval a (fst p) then 0 else snd p) + acc) 0 (soft_z3 ins).
Definition soft_optimal (ins : instance) (fs : list bexp) (a : asg) : Prop :=
  sat fs a = true /\ forall a', sat fs a' = true -> soft_penalty ins a <= soft_penalty ins a'.
(* no start time allowed by the timing row meets the deadline *)
Definition hopeless (ins : instance) (t : ztask) : bool :=
  zt_deadline t <? Z.max (i_now ins) (zt_release t) + zt_remaining t.
Definition meets_deadline (a : asg) (t : ztask) : bool := a (VStart (zt_id t)) + zt_remaining t <=? zt_deadline t.
(* monitor for the returned optimum under enforce_deadlines: a placed task that could meet its deadline does *)
Definition c12_ok (ins : instance) (a : asg) : bool :=
  negb (i_enforce ins) ||
  forallb (fun t => implb (truth a (VPlaced (zt_id t)) && negb (hopeless ins t)) (meets_deadline a t)) (i_tasks ins).
(* the statement without the exemption (planned in DESIGN.md §5 C12): refuted for Z3 *)
Definition c12_strict_ok (ins : instance) (a : asg) : bool :=
  negb (i_enforce ins) || forallb (fun t => implb (truth a (VPlaced (zt_id t))) (meets_deadline a t)) (i_tasks ins).
(* the returned optimum is no worse on the soft rows than other feasible points (checks, on observations,
   the order in which z3.Optimize treats its objectives) *)
Definition soft_opt_ok (ins : instance) (opt : asg) (others : list asg) : bool :=
  forallb (fun b => soft_penalty ins opt <=? soft_penalty ins b) others.
