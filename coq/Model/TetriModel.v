(* TetriModel — the space-time MIP that schedulers/tetrisched_gurobi_scheduler.py and
   schedulers/tetrisched_cplex_scheduler.py hand to their solvers, generated row by row
   with the same shape as the Python code (so that the harness can compare it with the
   live solver model), its satisfaction relation, and the read-back of placements.
   No proofs here.

   Restrictions of the model (stated in the claim): resources are `Resource(name, _id="any")`
   types; batch_size = 1 and `batching=False`; goal max_goodput; preemption off (both
   schedulers refuse it). *)
From Coq Require Import ZArith List Bool.
Import ListNotations.
From Verif Require Import Model.Val Model.PlanSpec.
Open Scope Z_scope.

Inductive flavour := Gurobi | Cplex.

(* state of a task as TaskOptimizerVariables.__init__ distinguishes it *)
Inductive tstate :=
| SFree                                  (* VIRTUAL / RELEASED: decided freely *)
| SScheduled                             (* SCHEDULED: must stay placed unless retract_schedules *)
| SRunning (w : Z) (s : strat) (remaining : Z).   (* RUNNING on worker index w with strategy s *)

Record ttask := mkTT {
  tt_id : Z;
  tt_state : tstate;
  tt_release : Z;             (* task.release_time in us (-1 when invalid) *)
  tt_deadline : Z;
  tt_strats : list strat;     (* available_execution_strategies, in order *)
  tt_parents : list Z;        (* ids of the parents that have optimizer variables in this invocation *)
  tt_nparents : Z;            (* len(task_graph.get_parents(task)): ALL parents in the graph *)
  tt_sink : bool }.           (* task_graph.is_sink_task(task) *)

Record tworker := mkTW { tw_idx : Z; tw_total : rvec }.

Record tinst := mkTI {
  ti_flavour : flavour;
  ti_now : Z;
  ti_plan_ahead : Z;          (* -1 = EventTime.invalid(): use the greatest deadline *)
  ti_disc : Z;                (* time_discretization *)
  ti_enforce : bool;          (* enforce_deadlines *)
  ti_retract : bool;          (* retract_schedules *)
  ti_release_tg : bool;       (* release_taskgraphs (always false for CPLEX) *)
  ti_tasks : list ttask;      (* tasks_to_be_scheduled + previously_placed_tasks, in order *)
  ti_workers : list tworker }.

(* ---- time slots: range(now, now + plan_ahead + 1, disc) *)
Definition horizon (I : tinst) : Z :=
  if ti_plan_ahead I =? -1
  then fold_left (fun m t => if m <? tt_deadline t then tt_deadline t else m) (ti_tasks I) (-1)
  else ti_plan_ahead I.
Definition nslots (I : tinst) : nat := Z.to_nat ((horizon I + ti_disc I) / ti_disc I).   (* ceil((h+1)/d) *)
Definition slot (I : tinst) (k : nat) : Z := ti_now I + ti_disc I * Z.of_nat k.
Definition slots (I : tinst) : list Z := map (slot I) (seq 0 (nslots I)).
Definition first_slot (I : tinst) : Z := ti_now I.
Definition last_slot (I : tinst) : Z := slot I (nslots I - 1).

(* ---- the three tests that are also generated from source (Gen/Src_Tetri.v, bridge lemmas in Proofs/) *)
(* get_partition_variable: start_time <= time and start_time + runtime > time *)
Definition occupies (start runtime time : Z) : bool := (start <=? time) && (time <? start + runtime).
(* a cell is fixed to 0 when enforce_deadlines and start_time + runtime > deadline *)
Definition past_deadline (start runtime deadline : Z) : bool := deadline <? start + runtime.
(* admission test of the CPLEX scheduler: deadline < sim_time + fastest runtime *)
Definition hopeless (deadline now fastest : Z) : bool := deadline <? now + fastest.

(* ---- compatibility: Worker.can_accomodate_strategy on a deepcopy of the worker, which RESETS the
   allocations (Worker.__deepcopy__ / Resources.__deepcopy__): every resource requested is within the worker's
   TOTAL quantity.
   (`strategy not in compatible_strategies` goes through ExecutionStrategy.__eq__; CPython evaluates
   `item == value`, under which an equal compatible strategy requests at least what this one does,
   so membership coincides with fitting; the correspondence stream exercises such twins.) *)
Definition fits (avail : rvec) (s : strat) : bool :=
  forallb (fun rq => snd rq <=? rget avail (fst rq)) (st_req s).

Inductive cellk := CVar | CConst (z : Z).

Definition is_running (t : ttask) : bool := match tt_state t with SRunning _ _ _ => true | _ => false end.

(* status of the cell (worker w, slot time t, strategy index s) of a NON-running task *)
Definition cell_kind (I : tinst) (x : ttask) (w : tworker) (t : Z) (s : strat) : cellk :=
  if negb (fits (tw_total w) s) then CConst 0
  else if t <? tt_release x then CConst 0
  else if ti_enforce I && past_deadline t (st_runtime s) (tt_deadline x) then CConst 0
  else CVar.

Inductive var :=
| VCell (task w t : Z) (s : nat)
| VPlacedAt (task t : Z)
| VNotPlacedAt (task t : Z)
| VPhase (task t : Z)
| VStart (task : Z)
| VIsPlaced (task : Z)
| VAllPar (task : Z)
| VReward (task : Z).

Inductive vtype := TBin | TInt | TCont.
Record vdecl := mkVD { vd_var : var; vd_type : vtype; vd_lb : Z; vd_ub : option Z }.

Inductive sense := SLe | SEq | SGe.
Inductive rname :=
| RPlacedAt (task t : Z) | RNotPlacedAt (task t : Z) | RPhase (task t : Z) | RStartAt (task t : Z)
| RRequired (task : Z) | RConsistent (task : Z) | RIsPlaced (task : Z)
| RAfterRunning (child parent rem : Z) | RAfter (child parent : Z)
| RParFalse (task : Z) | RParTrue (task : Z) | RPlacementFalse (task : Z)
| RCap (res w t : Z) | RRewardRow (task : Z).

Definition lin := list (Z * var).
Inductive constr :=
| CLin (n : rname) (e : lin) (s : sense) (rhs : Z)                       (* e  s  rhs *)
| CInd (n : rname) (b : var) (bv : Z) (e : lin) (s : sense) (rhs : Z)    (* b = bv  ->  e s rhs *)
| CAnd (n : rname) (r : var) (ops : list var).                           (* r = AND ops *)

Record csys := mkCS { cs_vars : list vdecl; cs_rows : list constr; cs_obj : list (Z * var); cs_obj_den : Z }.

(* ---- enumeration of the cells of a task, in the order of the Python dict:
   for worker in workers, for t in time_range, for strategy in strategies *)
Fixpoint indexed {A} (i : nat) (l : list A) : list (nat * A) :=
  match l with [] => [] | a :: l' => (i, a) :: indexed (S i) l' end.

Definition cells (I : tinst) (x : ttask) : list (tworker * Z * (nat * strat)) :=
  flat_map (fun w => flat_map (fun t => map (fun s => (w, t, s)) (indexed 0 (tt_strats x))) (slots I)) (ti_workers I).

Definition var_cells (I : tinst) (x : ttask) : list (tworker * Z * (nat * strat)) :=
  filter (fun c => match c with (w, t, (_, s)) =>
                     match cell_kind I x w t s with CVar => true | _ => false end end) (cells I x).

Definition cell_var (x : ttask) (c : tworker * Z * (nat * strat)) : var :=
  match c with (w, t, (i, _)) => VCell (tt_id x) (tw_idx w) t i end.

Definition cell_terms (I : tinst) (x : ttask) : lin := map (fun c => (1, cell_var x c)) (var_cells I x).
Definition neg (e : lin) : lin := map (fun cv => (- fst cv, snd cv)) e.

Definition cells_at (I : tinst) (x : ttask) (t : Z) : list (tworker * Z * (nat * strat)) :=
  filter (fun c => match c with (_, t', _) => t' =? t end) (var_cells I x).

(* pairs (a, b) of consecutive slots *)
Fixpoint consecutive (l : list Z) : list (Z * Z) :=
  match l with
  | a :: ((b :: _) as l') => (a, b) :: consecutive l'
  | _ => []
  end.

(* rewards: np.interp(time_range, (min, max), (2, 1)) = (2*D - (t - min)) / D with D = max - min;
   a one-slot range gives 1.  Numerators over the common denominator `reward_den`. *)
Definition reward_den (I : tinst) : Z := let d := last_slot I - first_slot I in if d =? 0 then 1 else d.
Definition reward_num (I : tinst) (t : Z) : Z :=
  let d := last_slot I - first_slot I in if d =? 0 then 1 else 2 * d - (t - first_slot I).

Definition must_stay (I : tinst) (x : ttask) : bool :=
  match tt_state x with SScheduled => negb (ti_retract I) | _ => false end.

(* ---- variables and rows contributed by TaskOptimizerVariables.__init__ for a non-running task *)
Definition task_vars (I : tinst) (x : ttask) : list vdecl :=
  let id := tt_id x in
  map (fun c => mkVD (cell_var x c) TBin 0 (Some 1)) (var_cells I x) ++
  match ti_flavour I with
  | Gurobi =>
      flat_map (fun t => [mkVD (VPlacedAt id t) TBin 0 (Some 1); mkVD (VNotPlacedAt id t) TBin 0 (Some 1)]) (slots I) ++
      [mkVD (VStart id) TInt 0 None] ++
      map (fun ab => mkVD (VPhase id (snd ab)) TBin 0 (Some 1)) (consecutive (slots I))
  | Cplex => []
  end ++
  (if must_stay I x then [] else [mkVD (VIsPlaced id) TBin 0 (Some 1)]) ++
  match ti_flavour I with
  | Gurobi => []
  | Cplex => [mkVD (VReward id) TCont 0 (Some (4 * reward_den I))]     (* in units of 1/reward_den *)
  end.

Definition task_rows (I : tinst) (x : ttask) : list constr :=
  let id := tt_id x in
  match ti_flavour I with
  | Gurobi =>
      flat_map (fun t =>
        [CLin (RPlacedAt id t) ((1, VPlacedAt id t) :: neg (map (fun c => (1, cell_var x c)) (cells_at I x t))) SEq 0;
         CLin (RNotPlacedAt id t) [(1, VNotPlacedAt id t); (1, VPlacedAt id t)] SEq 1]) (slots I) ++
      flat_map (fun ab =>
        [CAnd (RPhase id (snd ab)) (VPhase id (snd ab)) [VNotPlacedAt id (fst ab); VPlacedAt id (snd ab)];
         CInd (RStartAt id (snd ab)) (VPhase id (snd ab)) 1 [(1, VStart id)] SEq (snd ab)]) (consecutive (slots I)) ++
      [CInd (RStartAt id (first_slot I)) (VPlacedAt id (first_slot I)) 1 [(1, VStart id)] SEq (first_slot I)]
  | Cplex => []
  end ++
  (if must_stay I x
   then [CLin (RRequired id) (cell_terms I x) SEq 1]
   else [CLin (RConsistent id) (cell_terms I x) SLe 1;
         CLin (RIsPlaced id) ((1, VIsPlaced id) :: neg (cell_terms I x)) SEq 0]) ++
  match ti_flavour I with
  | Gurobi => []
  | Cplex => [CLin (RRewardRow id)
                ((1, VReward id) ::
                 map (fun c => match c with (_, t, _) => (- reward_num I t, cell_var x c) end) (var_cells I x)) SEq 0]
  end.

(* ---- dependencies (Gurobi only): _add_task_dependency_constraints *)
Fixpoint find_tt (ts : list ttask) (id : Z) : option ttask :=
  match ts with
  | [] => None
  | t :: ts' => if tt_id t =? id then Some t else find_tt ts' id
  end.

(* start time of a task as a linear expression: a variable, or the constant `now` for a running task *)
Definition start_expr (I : tinst) (x : ttask) : lin * Z :=
  if is_running x then ([], ti_now I) else ([(1, VStart (tt_id x))], 0).
(* is_placed of a task: a variable, or the constant 1 (running, or scheduled without retraction) *)
Definition placed_expr (I : tinst) (x : ttask) : lin * Z :=
  if is_running x || must_stay I x then ([], 1) else ([(1, VIsPlaced (tt_id x))], 0).

Definition parents_of (I : tinst) (x : ttask) : list ttask :=
  flat_map (fun pid => match find_tt (ti_tasks I) pid with Some p => [p] | None => [] end) (tt_parents x).

Definition dep_rows (I : tinst) (x : ttask) : list constr :=
  match ti_flavour I with
  | Cplex => []
  | Gurobi =>
      if is_running x then [] else
      let ps := parents_of I x in
      match ps with
      | [] => []
      | _ =>
          let id := tt_id x in
          map (fun p =>
                 let '(pe, pc) := start_expr I p in
                 match tt_state p with
                 | SRunning _ _ rem =>
                     (* start_x >= start_p + (remaining + 1) *)
                     CLin (RAfterRunning id (tt_id p) (rem + 1)) ((1, VStart id) :: neg pe) SGe (pc + rem + 1)
                 | _ =>
                     CLin (RAfter id (tt_id p)) ((1, VStart id) :: neg pe) SGe (pc + slowest_runtime (tt_strats p) + 1)
                 end) ps ++
          let sum_e := flat_map (fun p => fst (placed_expr I p)) ps in
          let sum_c := fold_right Z.add 0 (map (fun p => snd (placed_expr I p)) ps) in
          let '(xe, xc) := placed_expr I x in
          [CInd (RParFalse id) (VAllPar id) 0 sum_e SLe (tt_nparents x - 1 - sum_c);
           CInd (RParTrue id) (VAllPar id) 1 sum_e SEq (tt_nparents x - sum_c);
           CInd (RPlacementFalse id) (VAllPar id) 0 xe SEq (0 - xc)]
      end
  end.
Definition dep_vars (I : tinst) (x : ttask) : list vdecl :=
  match ti_flavour I with
  | Cplex => []
  | Gurobi => if is_running x then [] else
              match parents_of I x with [] => [] | _ => [mkVD (VAllPar (tt_id x)) TBin 0 (Some 1)] end
  end.

(* ---- capacity rows: for t in slots, for worker, for resource type of the worker *)
(* resource types of a worker: first occurrence of each name, with the total quantity of that name *)
Fixpoint uniq_types_aux (seen : list Z) (v total : rvec) : rvec :=
  match v with
  | [] => []
  | (k, _) :: v' => if existsb (Z.eqb k) seen then uniq_types_aux seen v' total
                    else (k, rget total k) :: uniq_types_aux (k :: seen) v' total
  end.
Definition uniq_types (total : rvec) : rvec := uniq_types_aux [] total total.

(* the terms a non-running task contributes at (t, w, r): its variable cells on w that occupy t,
   weighted by the request of their strategy for r (skipped when that request is 0) *)
Definition cap_terms (I : tinst) (w : tworker) (r t : Z) (x : ttask) : lin :=
  if is_running x then [] else
  flat_map (fun c => match c with (w', t0, (_, s)) =>
                       if (tw_idx w' =? tw_idx w) && occupies t0 (st_runtime s) t && negb (rget (st_req s) r =? 0)
                       then [(rget (st_req s) r, cell_var x c)] else [] end) (var_cells I x).
(* the constant a RUNNING task contributes: its whole runtime is charged from `now` *)
Definition cap_const (I : tinst) (w : tworker) (r t : Z) (x : ttask) : Z :=
  match tt_state x with
  | SRunning w' s _ => if (w' =? tw_idx w) && occupies (ti_now I) (st_runtime s) t then rget (st_req s) r else 0
  | _ => 0
  end.
(* a RUNNING task contributes a (constant) term: active on w at t with a non-zero request for r *)
Definition cap_running_term (I : tinst) (w : tworker) (r t : Z) (x : ttask) : bool :=
  match tt_state x with
  | SRunning w' s _ => (w' =? tw_idx w) && occupies (ti_now I) (st_runtime s) t && negb (rget (st_req s) r =? 0)
  | _ => false
  end.
Definition cap_rows (I : tinst) : list constr :=
  flat_map (fun t => flat_map (fun w => flat_map (fun rq =>
     let e := flat_map (cap_terms I w (fst rq) t) (ti_tasks I) in
     let c := fold_right Z.add 0 (map (cap_const I w (fst rq) t) (ti_tasks I)) in
     (* Gurobi skips the row when the expression has no VARIABLE term (LinExpr.size() == 0); the CPLEX version
        counts the constant terms of running tasks too (len(resource_constraint_terms) == 0) *)
     let empty := match e, ti_flavour I with
                  | [], Gurobi => true
                  | [], Cplex => forallb (fun x => negb (cap_running_term I w (fst rq) t x)) (ti_tasks I)
                  | _, _ => false
                  end in
     if empty || (snd rq =? 0) then [] else [CLin (RCap (fst rq) (tw_idx w) t) e SLe (snd rq - c)])
     (uniq_types (tw_total w))) (ti_workers I)) (slots I).

(* ---- objective (numerators over reward_den) *)
Definition rewarded (I : tinst) (x : ttask) : bool := negb (ti_release_tg I) || tt_sink x.
Definition obj_terms (I : tinst) : list (Z * var) :=
  match ti_flavour I with
  | Gurobi =>
      flat_map (fun x => if is_running x || negb (rewarded I x) then [] else
                         map (fun c => match c with (_, t, _) => (reward_num I t, cell_var x c) end) (var_cells I x))
               (ti_tasks I)
  | Cplex => flat_map (fun x => if is_running x then [] else [(1, VReward (tt_id x))]) (ti_tasks I)
  end.

Definition free_tasks (I : tinst) : list ttask := filter (fun x => negb (is_running x)) (ti_tasks I).

Definition gen_tetri (I : tinst) : csys :=
  mkCS (flat_map (task_vars I) (free_tasks I) ++ flat_map (dep_vars I) (ti_tasks I))
       (flat_map (task_rows I) (free_tasks I) ++ flat_map (dep_rows I) (ti_tasks I) ++ cap_rows I)
       (obj_terms I) (reward_den I).

(* ---- satisfaction *)
Definition assignment := var -> Z.
Definition eval_lin (a : assignment) (e : lin) : Z := fold_right (fun cv acc => fst cv * a (snd cv) + acc) 0 e.
Definition cmp (s : sense) (l r : Z) : bool :=
  match s with SLe => l <=? r | SEq => l =? r | SGe => r <=? l end.
Definition sat_constr (a : assignment) (c : constr) : bool :=
  match c with
  | CLin _ e s rhs => cmp s (eval_lin a e) rhs
  | CInd _ b bv e s rhs => negb (a b =? bv) || cmp s (eval_lin a e) rhs
  | CAnd _ r ops => a r =? (if forallb (fun v => a v =? 1) ops then 1 else 0)
  end.
Definition sat_bound (a : assignment) (d : vdecl) : bool :=
  (vd_lb d <=? a (vd_var d)) && match vd_ub d with Some u => a (vd_var d) <=? u | None => true end.
Definition sat (cs : csys) (a : assignment) : bool :=
  forallb (sat_bound a) (cs_vars cs) && forallb (sat_constr a) (cs_rows cs).
Definition objective (cs : csys) (a : assignment) : Z := eval_lin a (cs_obj cs).     (* times cs_obj_den *)

(* ---- read-back: get_placements — the first cell (dict order) whose variable is 1 *)
Definition readback_task (I : tinst) (a : assignment) (x : ttask) : option placement :=
  match find (fun c => a (cell_var x c) =? 1) (var_cells I x) with
  | Some (w, t, (i, _)) => Some (mkPl (tt_id x) (tw_idx w) i t)
  | None => None
  end.
(* one answer per non-running task, in the order of the variable map *)
Definition readback (I : tinst) (a : assignment) : list (Z * option placement) :=
  map (fun x => (tt_id x, readback_task I a x)) (free_tasks I).
Definition plan_of (rb : list (Z * option placement)) : plan :=
  flat_map (fun r => match snd r with Some p => [p] | None => [] end) rb.

(* CPLEX admission control: the tasks cancelled before the model is built *)
Definition admission_cancels (I : tinst) (offered : list ttask) : list Z :=
  if ti_enforce I
  then map tt_id (filter (fun x => hopeless (tt_deadline x) (ti_now I) (fastest_runtime (tt_strats x))) offered)
  else [].

(* ---- the PlanSpec instance and convention the formulation answers to *)
Definition to_ptask (I : tinst) (x : ttask) : ptask :=
  mkPTask (tt_id x) (tt_release x) (tt_deadline x) (tt_strats x)
          (match ti_flavour I with Gurobi => tt_parents x | Cplex => [] end)
          (match tt_state x with SRunning w s rem => Some (mkFixed w s rem) | _ => None end).
Definition to_pinst (I : tinst) : pinst :=
  mkPInst (ti_now I) (map (to_ptask I) (ti_tasks I)) (map (fun w => mkPWorker (tw_idx w) (tw_total w)) (ti_workers I)).
Definition on_grid (I : tinst) (t : Z) : bool := existsb (Z.eqb t) (slots I).
(* the convention of the formulation: half-open occupation, start on the grid from `now`, a child starts
   at least one microsecond after its parent's start plus the parent's SLOWEST runtime, a running task is
   charged its whole runtime from now *)
Definition conv_tetri (I : tinst) : conv := mkConv 0 0 1 true true (on_grid I) (ti_enforce I).

(* ---- observations for the correspondence streams *)
Definition v_var (v : var) : val :=
  match v with
  | VCell x w t s => L [I 0; I x; I w; I t; vnat s]
  | VPlacedAt x t => L [I 1; I x; I t]
  | VNotPlacedAt x t => L [I 2; I x; I t]
  | VPhase x t => L [I 3; I x; I t]
  | VStart x => L [I 4; I x]
  | VIsPlaced x => L [I 5; I x]
  | VAllPar x => L [I 6; I x]
  | VReward x => L [I 7; I x]
  end.
Definition v_rname (n : rname) : val :=
  match n with
  | RPlacedAt x t => L [I 0; I x; I t] | RNotPlacedAt x t => L [I 1; I x; I t] | RPhase x t => L [I 2; I x; I t]
  | RStartAt x t => L [I 3; I x; I t] | RRequired x => L [I 4; I x] | RConsistent x => L [I 5; I x]
  | RIsPlaced x => L [I 6; I x] | RAfterRunning c p r => L [I 7; I c; I p; I r] | RAfter c p => L [I 8; I c; I p]
  | RParFalse x => L [I 9; I x] | RParTrue x => L [I 10; I x] | RPlacementFalse x => L [I 11; I x]
  | RCap r w t => L [I 12; I r; I w; I t] | RRewardRow x => L [I 13; I x]
  end.
Definition v_sense (s : sense) : val := I (match s with SLe => 0 | SEq => 1 | SGe => 2 end).

(* canonical order of terms: lexicographic on the encoded variable *)
Fixpoint lex_leb (a b : list Z) : bool :=
  match a, b with
  | [], _ => true
  | _ :: _, [] => false
  | x :: a', y :: b' => (x <? y) || ((x =? y) && lex_leb a' b')
  end.
Definition var_key (v : var) : list Z :=
  match v with
  | VCell x w t s => [0; x; w; t; Z.of_nat s]
  | VPlacedAt x t => [1; x; t] | VNotPlacedAt x t => [2; x; t] | VPhase x t => [3; x; t]
  | VStart x => [4; x] | VIsPlaced x => [5; x] | VAllPar x => [6; x] | VReward x => [7; x]
  end.
Fixpoint insert_term (t : Z * var) (l : lin) : lin :=
  match l with
  | [] => [t]
  | u :: l' => if lex_leb (var_key (snd t)) (var_key (snd u)) then t :: l else u :: insert_term t l'
  end.
Definition sort_terms (e : lin) : lin := fold_right insert_term [] e.
Definition v_lin (e : lin) : val := vlist (fun cv => L [v_var (snd cv); I (fst cv)]) (sort_terms e).

Definition v_constr (c : constr) : val :=
  match c with
  | CLin n e s rhs => L [I 0; v_rname n; v_lin e; v_sense s; I rhs]
  | CInd n b bv e s rhs => L [I 1; v_rname n; v_var b; I bv; v_lin e; v_sense s; I rhs]
  | CAnd n r ops => L [I 2; v_rname n; v_var r; vlist v_var ops]
  end.
Definition v_vdecl (d : vdecl) : val :=
  L [v_var (vd_var d); I (match vd_type d with TBin => 0 | TInt => 1 | TCont => 2 end); I (vd_lb d);
     vopt I (vd_ub d)].
Definition v_csys (cs : csys) : val :=
  L [vlist v_vdecl (cs_vars cs); vlist v_constr (cs_rows cs); v_lin (cs_obj cs); I (cs_obj_den cs)].

Definition v_placement (p : option placement) : val :=
  match p with
  | Some x => L [I (pl_worker x); vnat (pl_strat x); I (pl_start x)]
  | None => L []
  end.
Definition v_readback (rb : list (Z * option placement)) : val := vlist (fun r => L [I (fst r); v_placement (snd r)]) rb.

(* an assignment given as an association list (solver values), default 0 *)
Fixpoint zlist_eqb (x y : list Z) : bool :=
  match x, y with [], [] => true | p :: x', q :: y' => (p =? q) && zlist_eqb x' y' | _, _ => false end.
Definition var_eqb (a b : var) : bool := zlist_eqb (var_key a) (var_key b).
Definition assign_of_list (l : list (var * Z)) : assignment :=
  fun v => match find (fun p => var_eqb (fst p) v) l with Some p => snd p | None => 0 end.

(* ---- comparison of a generated system with the canonicalised dump of the live solver model:
   [model vars not in dump; dump vars not in model; model rows not in dump; dump rows not in model;
    objective equal; denominator equal; same numbers of vars and rows] *)
Definition val_in (v : val) (l : list val) : bool := existsb (val_eqb v) l.
Definition list_diff (a b : list val) : list val := filter (fun v => negb (val_in v b)) a.
Definition csys_diff (cs : csys) (e : val) : val :=
  match e with
  | L [L ev; L er; eo; I ed] =>
      let mv := map v_vdecl (cs_vars cs) in
      let mr := map v_constr (cs_rows cs) in
      L [L (list_diff mv ev); L (list_diff ev mv); L (list_diff mr er); L (list_diff er mr);
         vbool (val_eqb (v_lin (cs_obj cs)) eo); vbool (ed =? cs_obj_den cs);
         vbool ((Z.of_nat (length mv) =? Z.of_nat (length ev)) && (Z.of_nat (length mr) =? Z.of_nat (length er)))]
  | _ => L [I (-1)]
  end.

(* decoding of variables written by the harness as key lists *)
Definition var_of_key (k : list Z) : var :=
  match k with
  | [0; x; w; t; s] => VCell x w t (Z.to_nat s)
  | [1; x; t] => VPlacedAt x t | [2; x; t] => VNotPlacedAt x t | [3; x; t] => VPhase x t
  | [4; x] => VStart x | [5; x] => VIsPlaced x | [6; x] => VAllPar x | [7; x] => VReward x
  | _ => VStart (-1)
  end.
Definition assign_of_keys (l : list (list Z * Z)) : assignment :=
  assign_of_list (map (fun p => (var_of_key (fst p), snd p)) l).

(* ---- decidable monitors applied to the Placements the implementation returns.  They are PlanSpec
   predicates under conventions that do NOT follow the formulation (the simulator's half-open
   occupation with running tasks at their remaining time; chosen runtimes), so that an edit of
   the formulation shows up as a concrete infeasible plan. *)
Definition zrange (lo : Z) (n : nat) : list Z := map (fun k => lo + Z.of_nat k) (seq 0 n).
Definition plan_end (I : pinst) (p : plan) : Z :=
  fold_right Z.max (pi_now I)
    (map (fun x => match pl_strategy I x with Some s => pl_start x + st_runtime s | None => pl_start x end) p ++
     map (fun f => pi_now I + fx_remaining f) (fixed_of I)).
Definition instants (I : pinst) (p : plan) : list Z := zrange (pi_now I) (Z.to_nat (plan_end I p - pi_now I) + 1).

Definition conv_c10 : conv := mkConv 0 0 0 false false (fun _ => true) false.
Definition conv_c12 : conv := mkConv 0 0 0 false false (fun _ => true) true.
Definition contract_okb (I : tinst) (p : plan) : bool :=
  let PI := to_pinst I in
  nodupb (map pl_task p) && forallb (pl_wellformedb PI) p && forallb (timing_okb conv_c10 PI) p &&
  capacity_okb_at conv_c10 PI p (instants PI p).
Definition precedence_c11b (I : tinst) (p : plan) : bool :=
  forallb (precedence_okb conv_c10 (to_pinst I) p) p.
Definition deadlines_c12b (I : tinst) (p : plan) : bool :=
  negb (ti_enforce I) || forallb (timing_okb conv_c12 (to_pinst I)) p.

(* answer to one offered task under enforce_deadlines, by the documented rule (independent of the source):
   hopeless = deadline < now + fastest.  A hopeless task is not placed; the CPLEX scheduler cancels it and
   cancels nothing else; the Gurobi scheduler never cancels. *)
Definition hopeless_answer_okb (deadline now fastest : Z) (placed cancelled cplex : bool) : bool :=
  let h := deadline <? now + fastest in
  (negb h || negb placed) && (if cplex then Bool.eqb cancelled h else negb cancelled).

(* ---- decidable well-formedness of an instance (the hypotheses of the theorems, checked on every
   instance the implementation builds) *)
(* request of a running task on worker index w for resource r *)
Definition running_req (x : ttask) (w r : Z) : Z :=
  match tt_state x with
  | SRunning w' s _ => if w' =? w then rget (st_req s) r else 0
  | _ => 0
  end.
Definition nonneg_vec (v : rvec) : bool := forallb (fun rq => 0 <=? snd rq) v.
Definition running_keys (I : tinst) : list Z :=
  flat_map (fun x => match tt_state x with SRunning _ s _ => map fst (st_req s) | _ => [] end) (ti_tasks I).
Definition wf_instb (I : tinst) : bool :=
  (0 <? ti_disc I) && (0 <=? horizon I) &&
  nodupb (map tt_id (ti_tasks I)) && nodupb (map tw_idx (ti_workers I)) &&
  forallb (fun x => forallb (fun s => nonneg_vec (st_req s) && nodupb (map fst (st_req s))) (tt_strats x)) (ti_tasks I) &&
  forallb (fun w => nonneg_vec (tw_total w)) (ti_workers I) &&
  forallb (fun x => match tt_state x with
                    | SRunning _ s rem => (0 <=? rem) && (rem <=? st_runtime s) && nonneg_vec (st_req s)
                    | _ => true end) (ti_tasks I) &&
  forallb (fun w => forallb (fun r => fold_right Z.add 0 (map (fun x => running_req x (tw_idx w) r) (ti_tasks I))
                                      <=? rget (tw_total w) r) (running_keys I)) (ti_workers I) &&
  forallb (fun x => forallb (fun pid => match find_tt (ti_tasks I) pid with Some _ => true | None => false end) (tt_parents x)
                    && (Z.of_nat (length (tt_parents x)) <=? tt_nparents x)) (ti_tasks I).

(* ---- maximality monitor and brute-force optimum (C14 part): PlanSpec evaluated on every candidate
   (slot, worker, strategy) of every task; independent of the formulation's rows *)
Definition rewarded_fb (I : tinst) (x : ttask) : bool :=
  match ti_flavour I with Gurobi => rewarded I x | Cplex => true end.
Definition candidates (I : tinst) (x : ttask) : list placement :=
  map (fun c => match c with (w, t, (i, _)) => mkPl (tt_id x) (tw_idx w) i t end) (cells I x).
Definition feasible_tetrib (I : tinst) (p : plan) : bool := feasibleb_at (conv_tetri I) (to_pinst I) p (slots I).
Definition placed_in (p : plan) (id : Z) : bool := existsb (fun pl => pl_task pl =? id) p.
Definition addable (I : tinst) (p : plan) (x : ttask) : bool :=
  existsb (fun pl => feasible_tetrib I (pl :: p)) (candidates I x).
Definition maximal_okb (I : tinst) (p : plan) : bool :=
  forallb (fun x => is_running x || negb (rewarded_fb I x) || placed_in p (tt_id x) || negb (addable I p x)) (ti_tasks I).
(* the same with the simulator's convention for RUNNING tasks (remaining time) and chosen runtimes, on the grid *)
Definition conv_sim_grid (I : tinst) : conv := mkConv 0 0 0 false false (on_grid I) (ti_enforce I).
Definition addable_sim (I : tinst) (p : plan) (x : ttask) : bool :=
  existsb (fun pl => feasibleb_at (conv_sim_grid I) (to_pinst I) (pl :: p) (instants (to_pinst I) (pl :: p))) (candidates I x).

(* hypotheses of the maximality theorem, decidable part *)
Definition max_hypb (I : tinst) : bool :=
  wf_instb I && (0 <=? ti_now I) &&
  forallb (fun x => negb (is_running x) && (tt_nparents x =? Z.of_nat (length (tt_parents x))) &&
                    forallb (fun s => 0 <? st_runtime s) (tt_strats x)) (ti_tasks I).

Fixpoint all_plans (I : tinst) (xs : list ttask) : list plan :=
  match xs with
  | [] => [[]]
  | x :: xs' =>
      let rest := all_plans I xs' in
      let cands := filter (fun pl => timing_okb (conv_tetri I) (to_pinst I) pl && pl_wellformedb (to_pinst I) pl) (candidates I x) in
      (if must_stay I x then [] else rest) ++ flat_map (fun pl => map (cons pl) rest) cands
  end.
Definition plan_value (I : tinst) (p : plan) : Z :=
  fold_right Z.add 0 (map (fun pl => match find_tt (ti_tasks I) (pl_task pl) with
                                     | Some x => if rewarded_fb I x then reward_num I (pl_start pl) else 0
                                     | None => 0 end) p).
Definition brute_best (I : tinst) : Z :=
  fold_right Z.max 0 (map (plan_value I) (filter (feasible_tetrib I) (all_plans I (free_tasks I)))).
(* [hypotheses hold; solver value <= brute-force optimum; within the 10% gap; solver's plan maximal] *)
Definition brute_check (I : tinst) (objval : Z) (p : plan) : val :=
  let b := brute_best I in
  L [vbool (max_hypb I); vbool (objval <=? b); vbool (10 * b <=? 11 * objval); vbool (maximal_okb I p);
     vbool (plan_value I p =? objval)].
