(* Executable model of workload/tasks.py at the TaskGraph level
   (TaskGraph.cancel, notify_task_completion, get_releasable_tasks, get_schedulable_tasks,
    resolve_conditional, is_complete / is_cancelled) and of Workload.get_schedulable_tasks.
   No proofs in this file (Proofs/TaskGraphP*.v).

   ============================ INTERFACE (stable) ============================
   Built on Gen/Src_Task.v (task_state TS_*, task_dyn, task_cancel, task_is_complete) and on
   Gen/Src_TaskGraph.v (guards / state tuples / horizon comparisons translated from the source).

     Record ttask  := mkTT { tt_dyn : task_dyn;          dynamic part (Src_Task)
                             tt_prob : Z;                probability = tt_prob / g_den
                             tt_terminal tt_conditional : bool;
                             tt_expected_start : Z;      placement time while SCHEDULED
                             tt_runtimes : list Z }.     runtimes of the available strategies
     Record tgraph := mkTG { g_adj : list (Z * list Z);  Graph._graph in key insertion order: id -> children
                             g_tasks : list (Z * ttask); g_den : Z }.

     tg_cancel          : tgraph -> Z(task) -> Z(time) -> tgraph * result (list Z)
          TaskGraph.cancel; Ok = the cancelled ids in the order returned by the code.  On Err the
          graph is the PARTIALLY mutated one (the code raises from Task.cancel in the middle).
     notify_completion  : tgraph -> Z(task) -> Z(finish time) -> Z(draw) -> tgraph * result (list Z * list Z)
          TaskGraph.notify_task_completion; Ok (released, cancelled).  `draw` = index, among the
          children of the task, of the element returned by random.choices (an INPUT; read only when
          notify_consumes_draw g task = true).
     notify_consumes_draw : tgraph -> Z -> bool
     tg_releasable      : tgraph -> list Z                         get_releasable_tasks
     tg_schedulable     : tgraph -> sched_opts -> list Z(draws) -> result (list Z * list Z)
          get_schedulable_tasks; Ok (tasks in order, draws left).
     wl_schedulable     : list tgraph -> sched_opts -> list Z -> result (list (Z * Z) * list Z)
          Workload.get_schedulable_tasks; tasks as (graph index, id).
     tg_is_complete / tg_is_cancelled : tgraph -> bool
     tg_get g id : option ttask;  tg_state g id : task_state;  tg_set g id tk;  tg_set_dyn g id d.

   Err codes: 1 ValueError, 3 RuntimeError (child moved beyond SCHEDULED), 4 ill-formed input
   (unknown id, child that is not a node, duplicate key/edge, task without strategy: the model refuses
   them up front, the code would raise KeyError/AttributeError when it reaches them), 5 draw out of
   range or IndexError (conditional without children, random.choice of an empty list), 6 cyclic graph (RuntimeError of topological_sort), 7 fuel exhausted (never on a DAG; every
   theorem excludes it by asking for Ok).
   ============================================================================ *)
From Coq Require Import ZArith Bool List.
Import ListNotations.
From Verif Require Import Model.Val Gen.Src_Task Gen.Src_TaskGraph.
From Verif Require Model.Graph.      (* breadth_first of the job graph, for resolution at submission *)
Open Scope Z_scope.

Record ttask := mkTT {
  tt_dyn : task_dyn;
  tt_prob : Z;
  tt_terminal : bool;
  tt_conditional : bool;
  tt_expected_start : Z;
  tt_runtimes : list Z }.

Record tgraph := mkTG {
  g_adj : list (Z * list Z);
  g_tasks : list (Z * ttask);
  g_den : Z }.

(* ---------- association lists, membership ---------- *)
Fixpoint al_get {A} (k : Z) (l : list (Z * A)) : option A :=
  match l with
  | [] => None
  | (k', v) :: l' => if k' =? k then Some v else al_get k l'
  end.
Fixpoint al_set {A} (k : Z) (v : A) (l : list (Z * A)) : list (Z * A) :=
  match l with
  | [] => []
  | (k', v') :: l' => if k' =? k then (k', v) :: l' else (k', v') :: al_set k v l'
  end.
Fixpoint al_put {A} (k : Z) (v : A) (l : list (Z * A)) : list (Z * A) :=   (* dict[k] = v *)
  match l with
  | [] => [(k, v)]
  | (k', v') :: l' => if k' =? k then (k', v) :: l' else (k', v') :: al_put k v l'
  end.
Fixpoint zmem (x : Z) (l : list Z) : bool :=
  match l with [] => false | y :: l' => (y =? x) || zmem x l' end.
Fixpoint znodup (l : list Z) : bool :=
  match l with [] => true | x :: l' => negb (zmem x l') && znodup l' end.

(* ---------- accessors ---------- *)
Definition dummy_dyn : task_dyn := task_init (-1) (-1).
Definition dummy_task : ttask := mkTT dummy_dyn 0 false false (-1) [].
Definition tg_nodes (g : tgraph) : list Z := map fst (g_adj g).
Definition tg_children (g : tgraph) (n : Z) : list Z :=
  match al_get n (g_adj g) with Some c => c | None => [] end.
(* Graph._parent_graph[n]: only read through any()/all(), so order is not observable *)
Definition tg_parents (g : tgraph) (n : Z) : list Z :=
  map fst (filter (fun pc => zmem n (snd pc)) (g_adj g)).
Definition tg_get (g : tgraph) (n : Z) : option ttask := al_get n (g_tasks g).
Definition tg_task (g : tgraph) (n : Z) : ttask :=
  match tg_get g n with Some t => t | None => dummy_task end.
Definition tg_state (g : tgraph) (n : Z) : task_state := t_state (tt_dyn (tg_task g n)).
Definition tg_set (g : tgraph) (n : Z) (t : ttask) : tgraph :=
  mkTG (g_adj g) (al_set n t (g_tasks g)) (g_den g).
Definition with_dyn (t : ttask) (d : task_dyn) : ttask :=
  mkTT d (tt_prob t) (tt_terminal t) (tt_conditional t) (tt_expected_start t) (tt_runtimes t).
Definition with_prob (t : ttask) (p : Z) : ttask :=
  mkTT (tt_dyn t) p (tt_terminal t) (tt_conditional t) (tt_expected_start t) (tt_runtimes t).
Definition tg_set_dyn (g : tgraph) (n : Z) (d : task_dyn) : tgraph := tg_set g n (with_dyn (tg_task g n) d).
Definition tg_complete (g : tgraph) (n : Z) : bool := task_is_complete (tt_dyn (tg_task g n)).
Definition tg_terminal (g : tgraph) (n : Z) : bool := tt_terminal (tg_task g n).
Definition tg_conditional (g : tgraph) (n : Z) : bool := tt_conditional (tg_task g n).
Definition tg_prob (g : tgraph) (n : Z) : Z := tt_prob (tg_task g n).

(* max(strategies, key=runtime).runtime *)
Fixpoint zmax_list (d : Z) (l : list Z) : Z :=
  match l with [] => d | x :: l' => zmax_list (Z.max d x) l' end.
Definition slowest_of (t : ttask) : Z :=
  match tt_runtimes t with [] => 0 | r :: l => zmax_list r l end.
Definition tg_slowest (g : tgraph) (n : Z) : Z := slowest_of (tg_task g n).
(* Task.remaining_time (property) *)
Definition tg_remaining (g : tgraph) (n : Z) : Z :=
  let t := tg_task g n in
  task_remaining_time (t_state (tt_dyn t)) (t_remaining_time (tt_dyn t)) (slowest_of t).

(* inputs the model refuses up front (Err 4) *)
Definition tg_ok (g : tgraph) : bool :=
  znodup (tg_nodes g)
  && forallb (fun nc => znodup (snd nc) && forallb (fun c => zmem c (tg_nodes g)) (snd nc)) (g_adj g)
  && forallb (fun n => match tg_get g n with
                       | Some t => match tt_runtimes t with [] => false | _ => true end
                       | None => false end) (tg_nodes g)
  && znodup (map fst (g_tasks g))
  && (0 <? g_den g).

(* ---------- Graph.depth_first(node): explicit stack, last child first ---------- *)
Fixpoint dfs_go (fuel : nat) (g : tgraph) (stack : list Z) (visited : list Z) : option (list Z) :=
  match fuel with
  | O => None
  | S f =>
      match stack with
      | [] => Some (rev visited)
      | n :: st =>
          if zmem n visited then dfs_go f g st visited
          else let v' := n :: visited in
               dfs_go f g (rev (filter (fun c => negb (zmem c v')) (tg_children g n)) ++ st) v'
      end
  end.
Definition tg_edges (g : tgraph) : nat := fold_right (fun nc a => (length (snd nc) + a)%nat) O (g_adj g).
Definition dfs_fuel (g : tgraph) : nat := S (S (length (g_adj g) + tg_edges g)).
Definition depth_first (g : tgraph) (n : Z) : option (list Z) := dfs_go (dfs_fuel g) g [n] [].

(* ---------- Graph.topological_sort: recursive visit with marks; Temporary marks = the current
   recursion path, Permanent marks = membership in the output; the output is built reversed, so the
   accumulated list IS topological_sort[::-1] reversed, i.e. the returned order ---------- *)
Fixpoint tvisit (fuel : nat) (g : tgraph) (path : list Z) (n : Z) (out : list Z) : result (list Z) :=
  match fuel with
  | O => Err 7
  | S f =>
      if zmem n out then Ok out
      else if zmem n path then Err 6
      else bind ((fix go (cs : list Z) (o : list Z) : result (list Z) :=
                    match cs with
                    | [] => Ok o
                    | c :: cs' => bind (tvisit f g (n :: path) c o) (go cs')
                    end) (tg_children g n) out)
                (fun o => Ok (n :: o))
  end.
Fixpoint tvisit_all (fuel : nat) (g : tgraph) (ns : list Z) (out : list Z) : result (list Z) :=
  match ns with
  | [] => Ok out
  | n :: ns' => bind (tvisit fuel g [] n out) (tvisit_all fuel g ns')
  end.
Definition topo_sort (g : tgraph) : result (list Z) :=
  tvisit_all (S (length (g_adj g))) g (tg_nodes g) [].

(* ---------- TaskGraph.cancel ---------- *)
(* Task.cancel (Src_Task.task_cancel) + update_probability(0.0) *)
Definition cancel_task (t : ttask) (time : Z) : result ttask :=
  match task_cancel (tt_dyn t) time with
  | Ok (d, _) => Ok (with_prob (with_dyn t d) 0)
  | Err c => Err c
  end.

Fixpoint cancel_loop (t time : Z) (desc : list Z) (order : list Z) (g : tgraph) (now : list Z)
  : tgraph * result (list Z) :=
  match order with
  | [] => (g, Ok (rev now))
  | c :: rest =>
      if negb (zmem c desc) then cancel_loop t time desc rest g now
      else if tgc_proceeds (tg_state g) (fun p => zmem p now) (c =? t) (tg_terminal g c)
                           (tg_parents g c) (tg_state g c)
      then match cancel_task (tg_task g c) time with
           | Ok tk => cancel_loop t time desc rest (tg_set g c tk) (c :: now)
           | Err e => (g, Err e)
           end
      else cancel_loop t time desc rest g now
  end.

(* the traversal for a given visiting order (the code uses topological_sort()) *)
Definition tg_cancel_with (order : list Z) (g : tgraph) (t time : Z) : tgraph * result (list Z) :=
  match depth_first g t with
  | None => (g, Err 7)
  | Some desc => cancel_loop t time desc order g []
  end.

Definition tg_cancel (g : tgraph) (t time : Z) : tgraph * result (list Z) :=
  if negb (tg_ok g && zmem t (tg_nodes g)) then (g, Err 4)
  else match topo_sort g with
       | Err e => (g, Err e)
       | Ok order => tg_cancel_with order g t time
       end.

(* ---------- TaskGraph.notify_task_completion ---------- *)
Definition zsum (l : list Z) : Z := fold_right Z.add 0 l.

(* for child in children: cancelled_tasks.extend(self.cancel(child, time)) *)
Fixpoint cancel_each (cs : list Z) (time : Z) (g : tgraph) (acc : list Z) : tgraph * result (list Z) :=
  match cs with
  | [] => (g, Ok acc)
  | c :: cs' =>
      match tg_cancel g c time with
      | (g', Ok l) => cancel_each cs' time g' (acc ++ l)
      | (g', Err e) => (g', Err e)
      end
  end.

(* the loop after random.choices: the chosen child gets probability 1.0; an untaken child that is a join
   which another parent (not the conditional t, not CANCELLED) still leads to is left alone
   (Src_TaskGraph.notify_keeps_join); every other child is cancelled *)
Definition keeps_join (g : tgraph) (t c : Z) : bool :=
  notify_keeps_join (tg_state g) (fun p => p =? t) (tg_terminal g c) (tg_parents g c).
Fixpoint choose_loop (t : Z) (cs : list Z) (k time : Z) (g : tgraph) (acc : list Z) : tgraph * result (list Z) :=
  match cs with
  | [] => (g, Ok acc)
  | c :: cs' =>
      if c =? k then choose_loop t cs' k time (tg_set g c (with_prob (tg_task g c) (g_den g))) acc
      else if keeps_join g t c then choose_loop t cs' k time g acc
      else match tg_cancel g c time with
           | (g', Ok l) => choose_loop t cs' k time g' (acc ++ l)
           | (g', Err e) => (g', Err e)
           end
  end.

Fixpoint release_loop (g : tgraph) (cs : list Z) (acc : list Z) : result (list Z) :=
  match cs with
  | [] => Ok acc
  | c :: cs' =>
      match notify_child_guard (tg_state g c) with
      | Err e => Err e
      | Ok false => release_loop g cs' acc
      | Ok true =>
          if notify_releases (tg_terminal g c) (map (tg_complete g) (tg_parents g c))
          then release_loop g cs' (acc ++ [c])
          else release_loop g cs' acc
      end
  end.

(* probabilities are tt_prob / g_den with exactly representable quotients (the harness uses dyadic
   values), so `p <= epsilon` is `tt_prob <= 0` and `sum - 1.0 > epsilon` is `g_den < sum` *)
Definition all_children_zero (g : tgraph) (t : Z) : bool :=
  probs_all_zero (map (tg_prob g) (tg_children g t)).
(* the sanity test on the sum of the children's probabilities (translated: Src_TaskGraph.probs_rejected) *)
Definition probs_refused (g : tgraph) (t : Z) : bool :=
  probs_rejected (zsum (map (tg_prob g) (tg_children g t))) (g_den g).

Definition notify_consumes_draw (g : tgraph) (t : Z) : bool :=
  tg_ok g && zmem t (tg_nodes g) && tg_complete g t && tg_conditional g t
  && negb (all_children_zero g t) && negb (probs_refused g t).

Definition notify_completion (g : tgraph) (t finish draw : Z) : tgraph * result (list Z * list Z) :=
  if negb (tg_ok g && zmem t (tg_nodes g)) then (g, Err 4)
  else if negb (tg_complete g t) then (g, Err 1)
  else if tg_conditional g t then
    let ks := tg_children g t in
    if all_children_zero g t then
      match cancel_each ks finish g [] with
      | (g', Ok cs) => (g', Ok ([], cs))
      | (g', Err e) => (g', Err e)
      end
    else if probs_refused g t then (g, Err 1)
    else match (if draw <? 0 then None else nth_error ks (Z.to_nat draw)) with
         | None => (g, Err 5)
         | Some k =>
             if notify_moved_beyond (tg_state g k) then (g, Err 3)
             else match choose_loop t ks k finish g [] with
                  | (g', Ok cs) => (g', Ok ([k], cs))
                  | (g', Err e) => (g', Err e)
                  end
         end
  else match release_loop g (tg_children g t) [] with
       | Ok rel => (g, Ok (rel, []))
       | Err e => (g, Err e)
       end.

(* ---------- get_releasable_tasks, is_complete, is_cancelled ---------- *)
Definition tg_releasable (g : tgraph) : list Z :=
  filter (fun n => releasable_state (tg_state g n)
                   && releasable_parents_ok (map (tg_complete g) (tg_parents g n))) (tg_nodes g).

(* is_sink_task: no children, or a single child that is the same operator at the next timestamp
   (names/timestamps are not modelled: graphs of one timestamp, so a sink is a node without children) *)
Definition tg_sinks (g : tgraph) : list Z :=
  filter (fun n => match tg_children g n with [] => true | _ => false end) (tg_nodes g).
Definition tg_is_complete (g : tgraph) : bool := forallb (tg_complete g) (tg_sinks g).
Definition tg_is_cancelled (g : tgraph) : bool :=
  existsb (fun n => task_state_eqb (tg_state g n) TS_CANCELLED) (tg_sinks g).

(* ---------- resolve_conditional ---------- *)
Inductive bp_policy := WORST_CASE | BEST_CASE | MAXIMUM | RANDOM | ALL.

(* first element maximal / minimal by probability (strict comparison keeps the earlier one) *)
Fixpoint pick_by (better : Z -> Z -> bool) (g : tgraph) (best : Z) (cs : list Z) : Z :=
  match cs with
  | [] => best
  | c :: cs' => pick_by better g (if better (tg_prob g c) (tg_prob g best) then c else best) cs'
  end.
Definition pick_max_prob (g : tgraph) (cs : list Z) : option Z :=
  match cs with [] => None | c :: cs' => Some (pick_by (fun a b => b <? a) g c cs') end.
Definition pick_min_prob (g : tgraph) (cs : list Z) : option Z :=
  match cs with [] => None | c :: cs' => Some (pick_by (fun a b => a <? b) g c cs') end.

(* MAXIMUM: branch_time = sum of remaining_time over depth_first(child) up to the first terminal node *)
Fixpoint branch_time (g : tgraph) (ns : list Z) (acc : Z) : Z :=
  match ns with
  | [] => acc
  | n :: ns' => if tg_terminal g n then acc else branch_time g ns' (acc + tg_remaining g n)
  end.
Fixpoint pick_max_branch (g : tgraph) (cs : list Z) (best : Z) (best_time : Z) : option Z :=
  match cs with
  | [] => Some best
  | c :: cs' =>
      match depth_first g c with
      | None => None
      | Some ns => let bt := branch_time g ns 0 in
                   if best_time <? bt then pick_max_branch g cs' c bt else pick_max_branch g cs' best best_time
      end
  end.

Definition nth_z (l : list Z) (i : Z) : option Z := if i <? 0 then None else nth_error l (Z.to_nat i).
Fixpoint find_first (f : Z -> bool) (l : list Z) : option Z :=
  match l with [] => None | x :: l' => if f x then Some x else find_first f l' end.

(* RANDOM reads draws: one for random.choice(children); when the children were resolved at submission
   (every probability is 0 or 1) first one for `random.random() < accuracy` (non-zero = true) and, if
   false, one for random.choice(other_tasks) *)
Definition resolve_conditional (g : tgraph) (t : Z) (policy : bp_policy) (draws : list Z)
  : result (list Z * list Z) :=
  let ks := tg_children g t in
  if negb (tg_conditional g t) then Err 1 else
  match ks with
  | [] => if tg_complete g t then Err 5        (* children_tasks[0]: IndexError *)
          else match policy with ALL => Ok ([], draws) | _ => Err 5 end
  | k0 :: krest =>
    if tg_complete g t then
      match pick_max_prob g ks with Some c => Ok ([c], draws) | None => Err 4 end
    else match policy with
    | WORST_CASE => match pick_min_prob g ks with Some c => Ok ([c], draws) | None => Err 4 end
    | BEST_CASE => match pick_max_prob g ks with Some c => Ok ([c], draws) | None => Err 4 end
    | MAXIMUM => match pick_max_branch g ks k0 0 with Some c => Ok ([c], draws) | None => Err 7 end
    | RANDOM =>
        match find_first (fun c => 3 <=? task_state_value (tg_state g c)) ks with
        | Some c => Ok ([c], draws)
        | None =>
            if forallb (fun c => (tg_prob g c =? g_den g) || (tg_prob g c <=? 0)) ks then
              match pick_max_prob g ks, draws with
              | Some best, d :: ds =>
                  if negb (d =? 0) then Ok ([best], ds)
                  else match ds with
                       | i :: ds' =>
                           match nth_z (filter (fun c => negb (c =? best)) ks) i with
                           | Some c => Ok ([c], ds')
                           | None => Err 5
                           end
                       | [] => Err 5
                       end
              | _, _ => Err 5
              end
            else match draws with
                 | i :: ds => match nth_z ks i with Some c => Ok ([c], ds) | None => Err 5 end
                 | [] => Err 5
                 end
        end
    | ALL => Ok (ks, draws)
    end
  end.

(* ---------- get_schedulable_tasks ---------- *)
Record sched_opts := mkSO {
  so_time : Z; so_lookahead : Z; so_preemption : bool; so_retract : bool;
  so_placed : option (list Z);       (* worker_pools.get_placed_tasks() when worker pools are given *)
  so_policy : bp_policy; so_release_tg : bool }.

Definition ect_map := list (Z * Z).   (* estimated_completion_time, insertion ordered *)

(* phase 1: materialised tasks *)
Fixpoint ect_init (g : tgraph) (time : Z) (retract : bool) (ns : list Z) (ect : ect_map) (queue : list Z)
  : result (ect_map * list Z) :=
  match ns with
  | [] => Ok (ect, queue)
  | n :: ns' =>
      let t := tg_task g n in
      match ect_initial (tg_state g n) (t_completion_time (tt_dyn t)) time (tg_remaining g n)
                        (t_release_time (tt_dyn t)) (tt_expected_start t) (slowest_of t) retract with
      | Err e => Err e
      | Ok None => ect_init g time retract ns' ect queue
      | Ok (Some v) => ect_init g time retract ns' (al_put n v ect) (queue ++ [n])
      end
  end.

(* the estimate that a parent with estimate `ct` proposes for its child c *)
Definition child_estimate (g : tgraph) (ct c : Z) : Z :=
  let sl := tg_slowest g c in Z.max (ct + sl) (t_release_time (tt_dyn (tg_task g c)) + sl).

(* propagation to the children of one popped task *)
Fixpoint ect_children (g : tgraph) (retract : bool) (ct : Z) (cs : list Z) (ect : ect_map) (queue : list Z)
  : ect_map * list Z :=
  match cs with
  | [] => (ect, queue)
  | c :: cs' =>
      if sched_child_skipped retract (tg_state g c) then ect_children g retract ct cs' ect queue
      else
        let cct := child_estimate g ct c in
        let cur := al_get c ect in
        if sched_child_updates (match cur with Some _ => true | None => false end) cct
                               (match cur with Some v => v | None => 0 end)
        then ect_children g retract ct cs' (al_put c cct ect) (queue ++ [c])
        else ect_children g retract ct cs' ect queue
  end.

(* phase 2: the work-list loop *)
Fixpoint ect_prop (fuel : nat) (g : tgraph) (retract : bool) (policy : bp_policy) (ect : ect_map)
                  (queue : list Z) (draws : list Z) : result (ect_map * list Z) :=
  match queue with
  | [] => Ok (ect, draws)
  | t :: q =>
      match fuel with
      | O => Err 7
      | S f =>
          match al_get t ect with
          | None => Err 4
          | Some ct =>
              match (if tg_conditional g t then resolve_conditional g t policy draws
                     else Ok (tg_children g t, draws)) with
              | Err e => Err e
              | Ok (cs, draws') =>
                  let '(ect', q') := ect_children g retract ct cs ect q in
                  ect_prop f g retract policy ect' q' draws'
              end
          end
      end
  end.

Definition ect_fuel (g : tgraph) : nat :=
  let n := length (g_adj g) in S (n + n * (n + tg_edges g) * 4)%nat.

(* phase 3: the offer, in topological order *)
Fixpoint offer_loop (g : tgraph) (o : sched_opts) (ect : ect_map) (order : list Z) (any_released : bool)
  : list Z :=
  match order with
  | [] => []
  | n :: rest =>
      let t := tg_task g n in
      let cur := al_get n ect in
      let '(offered, any') :=
        sched_offer (tg_state g n) (t_release_time (tt_dyn t)) (so_time o) (so_lookahead o)
                    (match cur with Some _ => true | None => false end)
                    (match cur with Some v => v | None => 0 end)
                    any_released (so_release_tg o) (so_retract o) (tg_remaining g n) (slowest_of t) in
      if offered then n :: offer_loop g o ect rest any' else offer_loop g o ect rest any'
  end.

Definition preempt_extra (g : tgraph) (o : sched_opts) : list Z :=
  if so_preemption o then
    match so_placed o with
    | Some l => l
    | None => filter (fun n => sched_preempt_filter (tg_state g n)) (tg_nodes g)
    end
  else [].

Definition tg_ect (g : tgraph) (time : Z) (retract : bool) (policy : bp_policy) (draws : list Z)
  : result (ect_map * list Z) :=
  bind (ect_init g time retract (tg_nodes g) [] [])
       (fun eq => ect_prop (ect_fuel g) g retract policy (fst eq) (snd eq) draws).

Definition tg_schedulable (g : tgraph) (o : sched_opts) (draws : list Z) : result (list Z * list Z) :=
  if negb (tg_ok g) then Err 4
  else bind (tg_ect g (so_time o) (so_retract o) (so_policy o) draws) (fun ed =>
       bind (topo_sort g) (fun order =>
       Ok (offer_loop g o (fst ed) order false ++ preempt_extra g o, snd ed))).

Fixpoint wl_schedulable_from (i : Z) (gs : list tgraph) (o : sched_opts) (draws : list Z)
  : result (list (Z * Z) * list Z) :=
  match gs with
  | [] => Ok ([], draws)
  | g :: gs' =>
      bind (tg_schedulable g o draws) (fun r =>
      bind (wl_schedulable_from (i + 1) gs' o (snd r)) (fun r' =>
      Ok (map (fun n => (i, n)) (fst r) ++ fst r', snd r')))
  end.
Definition wl_schedulable (gs : list tgraph) (o : sched_opts) (draws : list Z) := wl_schedulable_from 0 gs o draws.

(* ---------- observation functions for the correspondence stream ---------- *)
Definition vstate (g : tgraph) : val :=
  L (map (fun n => let t := tg_task g n in
                   L [I n; I (task_state_value (t_state (tt_dyn t))); I (tt_prob t);
                      I (tg_remaining g n)]) (tg_nodes g)).
Definition vzl (l : list Z) : val := L (map I l).

Inductive tg_op :=
| OCancel (t time : Z)
| ONotify (t time draw : Z)
| OReleasable
| OSched (o : sched_opts) (draws : list Z)
| OReady (t : Z)
| OFlags
| OTopo
| ODfs (t : Z)
| OResolve (t : Z) (p : bp_policy) (draws : list Z).

Definition tg_observe (gop : tgraph * tg_op) : val :=
  let '(g, op) := gop in
  match op with
  | OCancel t time =>
      let '(g', r) := tg_cancel g t time in L [vres vzl r; vstate g']
  | ONotify t time draw =>
      let '(g', r) := notify_completion g t time draw in
      L [vres (fun p => L [vzl (fst p); vzl (snd p)]) r; vstate g'; vbool (notify_consumes_draw g t)]
  | OReleasable => vzl (tg_releasable g)
  | OSched o draws => vres (fun p => L [vzl (fst p); vnat (length (snd p))]) (tg_schedulable g o draws)
  | OReady t => vbool (is_ready_to_run (tg_complete g) (tg_state g) (tg_terminal g t) (tg_parents g t) (tg_state g t))
  | OFlags => L [vbool (tg_is_complete g); vbool (tg_is_cancelled g)]
  | OTopo => vres vzl (topo_sort g)
  | ODfs t => vopt vzl (depth_first g t)
  | OResolve t p draws => vres (fun r => L [vzl (fst r); vnat (length (snd r))]) (resolve_conditional g t p draws)
  end.

Definition wl_observe (x : list tgraph * sched_opts * list Z) : val :=
  let '(gs, o, draws) := x in
  vres (fun p => L [L (map (fun a => L [I (fst a); I (snd a)]) (fst p)); vnat (length (snd p))])
       (wl_schedulable gs o draws).

(* constructor used by the harness to write a task in a given state *)
Definition mk_ttask (s : task_state) (release deadline raw completion prob : Z) (term cond : bool)
                    (estart : Z) (rts : list Z) : ttask :=
  mkTT (mkTask s TS_VIRTUAL release (-1) completion raw (-1) (-1) deadline) prob term cond estart rts.

(* ====================== monitors: decidable forms of the properties ======================
   They are applied to the IMPLEMENTATION's observations and do not follow the traversal of the
   code: the doomed set is computed by fixpoint iteration, untaken branches by a reachability closure. *)
Definition is_cancelled (g : tgraph) (n : Z) : bool := task_state_eqb (tg_state g n) TS_CANCELLED.
Definition cancellableb (s : task_state) : bool :=
  task_state_eqb s TS_VIRTUAL || task_state_eqb s TS_RELEASED || task_state_eqb s TS_SCHEDULED.

Definition doomed_step (g : tgraph) (s : list Z) : list Z :=
  s ++ filter (fun c => negb (zmem c s) &&
                 existsb (fun p => zmem p s) (tg_parents g c) &&
                 (negb (tg_terminal g c) ||
                  forallb (fun p => zmem p s || is_cancelled g p) (tg_parents g c))) (tg_nodes g).
Fixpoint doomed_iter (k : nat) (g : tgraph) (s : list Z) : list Z :=
  match k with O => s | S k' => doomed_iter k' g (doomed_step g s) end.
Definition doomed_fix (g : tgraph) (t : Z) : list Z := doomed_iter (length (tg_nodes g)) g [t].

Definition cancel_closedb (g : tgraph) : bool :=
  forallb (fun p => negb (is_cancelled g p) ||
                    forallb (fun c => tg_terminal g c || is_cancelled g c) (tg_children g p)) (tg_nodes g)
  && forallb (fun c => negb (tg_terminal g c) || match tg_parents g c with [] => true | _ => false end
                       || negb (forallb (is_cancelled g) (tg_parents g c)) || is_cancelled g c) (tg_nodes g).

Definition same_set (a b : list Z) : bool := forallb (fun x => zmem x b) a && forallb (fun x => zmem x a) b.
Definition state_after (after : list (Z * Z)) (n : Z) : Z := match al_get n after with Some s => s | None => 0 end.
Definition cancelled_value : Z := task_state_value TS_CANCELLED.

(* one successful TaskGraph.cancel call: graph before, requested task, returned tasks, state values after *)
Definition closure_check (x : tgraph * Z * list Z * list (Z * Z)) : bool :=
  let '(g, t, cs, after) := x in
  let d := filter (fun n => negb (is_cancelled g n)) (doomed_fix g t) in
  cancel_closedb g && znodup cs && same_set cs d &&
  forallb (fun n => cancellableb (tg_state g n)) cs &&
  forallb (fun n => state_after after n =? (if zmem n cs then cancelled_value else task_state_value (tg_state g n)))
          (tg_nodes g).
(* a TaskGraph.cancel call that raised ValueError: some doomed task was in a non-cancellable state *)
Definition closure_err_check (x : tgraph * Z) : bool :=
  let '(g, t) := x in
  negb (cancel_closedb g) ||
  existsb (fun n => negb (is_cancelled g n) && negb (cancellableb (tg_state g n))) (doomed_fix g t).

(* C07: nodes reachable from u through non-terminal nodes only (u included when it is not terminal) *)
Definition branch_step (g : tgraph) (s : list Z) : list Z :=
  s ++ filter (fun c => negb (zmem c s) && negb (tg_terminal g c) &&
                        existsb (fun p => zmem p s) (tg_parents g c)) (tg_nodes g).
Fixpoint branch_iter (k : nat) (g : tgraph) (s : list Z) : list Z :=
  match k with O => s | S k' => branch_iter k' g (branch_step g s) end.
Definition branch_of (g : tgraph) (u : Z) : list Z :=
  if tg_terminal g u then [] else branch_iter (length (tg_nodes g)) g [u].

(* one successful notify_task_completion of a completed CONDITIONAL task that drew a child:
   graph before, task, draw, released, cancelled, state values after *)
Definition c07_check (x : tgraph * Z * Z * list Z * list Z * list (Z * Z)) : bool :=
  let '(g, t, draw, rel, canc, after) := x in
  let ks := tg_children g t in
  match nth_z ks draw with
  | None => false
  | Some k =>
      let untaken := filter (fun u => negb (u =? k)) ks in
      (* exactly the drawn child is released, and it has a non-zero probability *)
      (match rel with [r] => r =? k | _ => false end) && (0 <? tg_prob g k) &&
      (* every task of an untaken branch, up to but excluding the join, is cancelled *)
      forallb (fun u => forallb (fun d => state_after after d =? cancelled_value) (branch_of g u)) untaken &&
      (* a join that keeps a live parent other than the conditional itself is not cancelled by this *)
      forallb (fun j => negb (tg_terminal g j) || is_cancelled g j ||
                        negb (existsb (fun p => negb (p =? t) && negb (state_after after p =? cancelled_value))
                                      (tg_parents g j)) ||
                        negb (state_after after j =? cancelled_value)) (tg_nodes g) &&
      (* the returned list is exactly the set of tasks that became CANCELLED, nothing else changed *)
      forallb (fun n => if zmem n canc then (state_after after n =? cancelled_value) && negb (is_cancelled g n)
                        else state_after after n =? task_state_value (tg_state g n)) (tg_nodes g)
  end.

(* C18: one get_schedulable_tasks call without worker pools: graph, options, returned tasks *)
Definition c18_frontier_check (x : tgraph * sched_opts * list Z) : bool :=
  let '(g, o, fr) := x in
  forallb (fun n => negb (task_state_eqb (tg_state g n) TS_RELEASED
                          && (t_release_time (tt_dyn (tg_task g n)) <=? so_time o + so_lookahead o))
                    || zmem n fr) (tg_nodes g) &&
  forallb (fun n => let s := tg_state g n in
                    negb (task_state_eqb s TS_COMPLETED) && negb (task_state_eqb s TS_CANCELLED) &&
                    (negb (task_state_eqb s TS_SCHEDULED) || so_retract o || so_preemption o) &&
                    (negb (task_state_eqb s TS_RUNNING) || so_preemption o) &&
                    zmem n (tg_nodes g)) fr.
(* monotonicity: two calls on the same graph and draws, the second with a larger lookahead and/or
   release_taskgraphs switched on *)
Definition c18_mono_check (x : list Z * list Z) : bool := forallb (fun n => zmem n (snd x)) (fst x).
(* states in which a policy that does not plan ahead is never offered an unreleased task early *)
Definition frontier_sane (g : tgraph) (time : Z) : bool :=
  forallb (fun n =>
    let s := tg_state g n in
    (0 <? tg_slowest g n) &&
    (negb (task_state_eqb s TS_RUNNING || task_state_eqb s TS_PREEMPTED) || (0 <? tg_remaining g n)) &&
    (negb (task_state_eqb s TS_SCHEDULED) || (time <? tt_expected_start (tg_task g n) + tg_remaining g n)) &&
    (negb (task_state_eqb s TS_COMPLETED || task_state_eqb s TS_EVICTED) ||
       (t_completion_time (tt_dyn (tg_task g n)) <=? time)) &&
    negb (tg_conditional g n) &&
    (* a VIRTUAL task with an unfinished parent hangs below a task that is released / scheduled / running,
       or below another such VIRTUAL task *)
    (negb (task_state_eqb s TS_VIRTUAL) || forallb (tg_complete g) (tg_parents g n) ||
     existsb (fun p => let sp := tg_state g p in
                task_state_eqb sp TS_RELEASED || task_state_eqb sp TS_SCHEDULED || task_state_eqb sp TS_RUNNING
                || task_state_eqb sp TS_PREEMPTED
                || (task_state_eqb sp TS_VIRTUAL && negb (forallb (tg_complete g) (tg_parents g p))))
             (tg_parents g n))) (tg_nodes g).
Definition c18_no_plan_ahead_check (x : tgraph * sched_opts * list Z) : bool :=
  let '(g, o, fr) := x in
  negb ((so_lookahead o =? 0) && negb (so_retract o) && negb (so_release_tg o) && frontier_sane g (so_time o)) ||
  forallb (fun n => negb (task_state_eqb (tg_state g n) TS_VIRTUAL) || forallb (tg_complete g) (tg_parents g n)) fr.
(* notify_task_completion of a completed non-conditional task: graph, task, released tasks *)
Definition c18_children_check (x : tgraph * Z * list Z) : bool :=
  let '(g, t, rel) := x in
  same_set rel (filter (fun c => negb (is_cancelled g c) &&
                                 (tg_terminal g c || forallb (tg_complete g) (tg_parents g c))) (tg_children g t))
  && znodup rel.
Definition c18_no_plan_ahead_applies (x : tgraph * sched_opts * list Z) : bool :=
  let '(g, o, fr) := x in
  (so_lookahead o =? 0) && negb (so_retract o) && negb (so_release_tg o) && frontier_sane g (so_time o).

(* ---------- documented forms, written by hand (they do NOT follow the regenerated source) ---------- *)
(* a task may start when it is SCHEDULED / PREEMPTED and its inputs are there: every parent complete; for the
   join of a conditional: one parent complete and no parent still alive (every parent complete or CANCELLED) *)
Definition doc_ready (g : tgraph) (t : Z) : bool :=
  (if tg_terminal g t
   then existsb (tg_complete g) (tg_parents g t) &&
        forallb (fun p => tg_complete g p || is_cancelled g p) (tg_parents g t)
   else forallb (tg_complete g) (tg_parents g t))
  && (task_state_eqb (tg_state g t) TS_SCHEDULED || task_state_eqb (tg_state g t) TS_PREEMPTED).
Definition c18_ready_check (x : tgraph * Z * bool) : bool :=
  let '(g, t, answer) := x in Bool.eqb answer (doc_ready g t).
(* releasable: not yet released (VIRTUAL, or SCHEDULED / PREEMPTED ahead of release) and every parent complete *)
Definition doc_releasable (g : tgraph) : list Z :=
  filter (fun n => (task_state_eqb (tg_state g n) TS_VIRTUAL || task_state_eqb (tg_state g n) TS_SCHEDULED
                    || task_state_eqb (tg_state g n) TS_PREEMPTED)
                   && forallb (tg_complete g) (tg_parents g n)) (tg_nodes g).
Definition c18_releasable_check (x : tgraph * list Z) : bool :=
  let '(g, rel) := x in same_set rel (doc_releasable g) && znodup rel.
(* notify_task_completion of a non-conditional task raised RuntimeError: some child had started *)
Definition c18_children_err_check (x : tgraph * Z) : bool :=
  let '(g, t) := x in
  existsb (fun c => let s := tg_state g c in
                    task_state_eqb s TS_RUNNING || task_state_eqb s TS_PREEMPTED || task_state_eqb s TS_EVICTED
                    || task_state_eqb s TS_COMPLETED) (tg_children g t).

(* reference estimate of the completion time (no retraction, no conditional task): the estimate of a
   materialised task, and for a VIRTUAL task the latest estimate proposed by a parent; recursion over the
   parents instead of the work-list of the code *)
Definition ref_init (g : tgraph) (time n : Z) : option Z :=
  let t := tg_task g n in
  match tg_state g n with
  | TS_COMPLETED => Some (t_completion_time (tt_dyn t))
  | TS_RUNNING | TS_PREEMPTED | TS_EVICTED => Some (time + t_remaining_time (tt_dyn t))
  | TS_RELEASED => Some (Z.max (t_release_time (tt_dyn t)) time + slowest_of t)
  | TS_SCHEDULED => Some (tt_expected_start t + t_remaining_time (tt_dyn t))
  | TS_VIRTUAL | TS_CANCELLED => None
  end.
Fixpoint ref_est (fuel : nat) (g : tgraph) (time n : Z) : option Z :=
  match fuel with
  | O => None
  | S f =>
      match tg_state g n with
      | TS_VIRTUAL =>
          let sl := tg_slowest g n in
          fold_left (fun acc p =>
                       match ref_est f g time p with
                       | None => acc
                       | Some e => let v := Z.max (e + sl) (t_release_time (tt_dyn (tg_task g n)) + sl) in
                                   match acc with None => Some v | Some a => Some (Z.max a v) end
                       end) (tg_parents g n) None
      | _ => ref_init g time n
      end
  end.
(* the VIRTUAL tasks of the frontier are exactly those estimated to be releasable within the horizon *)
Definition c18_virtual_offer_check (x : tgraph * sched_opts * list Z) : bool :=
  let '(g, o, fr) := x in
  so_retract o || so_release_tg o || existsb (tg_conditional g) (tg_nodes g) ||
  forallb (fun n => negb (task_state_eqb (tg_state g n) TS_VIRTUAL) ||
                    Bool.eqb (zmem n fr)
                             (match ref_est (S (length (tg_nodes g))) g (so_time o) n with
                              | Some e => e <=? so_time o + so_lookahead o + tg_slowest g n
                              | None => false end)) (tg_nodes g).


(* ====================== resolution of the conditionals at submission ======================
   JobGraph._generate_task_graph with resolve_conditionals_at_submission (workload/jobs.py:839-861), over the
   JOB graph (Model/Graph.v: of_mapping, children_of, breadth_first).  The submission-time generator
   (FakeRandomNumberGenerator) is a round-robin counter, one per generated task graph.  `probs` maps every
   job id to the numerator of its task's probability.  Err 8: ZeroDivisionError (conditional without children). *)
Fixpoint zero_prefix (term : Z -> bool) (l : list Z) (probs : list (Z * Z)) : list (Z * Z) :=
  match l with
  | [] => probs
  | n :: l' => if term n then probs else zero_prefix term l' (al_put n 0 probs)     (* `break` at the first terminal *)
  end.
Fixpoint resolve_children (jg : Graph.graph) (term : Z -> bool) (chosen : Z) (ks : list Z) (den : Z)
                          (probs : list (Z * Z)) : result (list (Z * Z)) :=
  match ks with
  | [] => Ok probs
  | c :: ks' =>
      if c =? chosen then resolve_children jg term chosen ks' den (al_put c den probs)
      else let '(l, st) := Graph.breadth_first jg (Some c) in
           if st =? 0 then resolve_children jg term chosen ks' den (zero_prefix term l (al_put c 0 probs))
           else Err st
  end.
Fixpoint resolve_loop (jg : Graph.graph) (term cond : Z -> bool) (ns : list Z) (counter den : Z)
                      (probs : list (Z * Z)) : result (list (Z * Z)) :=
  match ns with
  | [] => Ok probs
  | n :: ns' =>
      if cond n then
        let ks := Graph.children_of jg n in
        let len := Z.of_nat (length ks) in
        if len =? 0 then Err 8
        else let idx := if len <=? counter then counter mod len else counter in
             match nth_z ks idx with
             | None => Err 5
             | Some chosen =>
                 bind (resolve_children jg term chosen ks den probs)
                      (fun p => resolve_loop jg term cond ns' (idx + 1) den p)
             end
      else resolve_loop jg term cond ns' counter den probs
  end.
Definition resolve_at_submission (adj : list (Z * list Z)) (terminals conditionals : list Z) (den : Z)
                                 (probs : list (Z * Z)) : result (list (Z * Z)) :=
  bind (Graph.of_mapping adj) (fun jg =>
    resolve_loop jg (fun n => zmem n terminals) (fun n => zmem n conditionals) (Graph.nodes jg) 0 den probs).

Definition sub_observe (x : list (Z * list Z) * list Z * list Z * Z * list (Z * Z)) : val :=
  let '(adj, terms, conds, den, probs) := x in
  vres (fun p => L (map (fun kv => L [I (fst kv); I (snd kv)]) p)) (resolve_at_submission adj terms conds den probs).

(* reference, independent of breadth_first: every conditional in declaration order, round-robin choice; the
   chosen child gets 1, every other child and the interior of its branch (reachability through non-terminal
   jobs, up to but excluding the joins) gets 0 *)
Fixpoint interior_iter (k : nat) (adj : list (Z * list Z)) (term : Z -> bool) (s : list Z) : list Z :=
  match k with
  | O => s
  | S k' =>
      interior_iter k' adj term
        (s ++ filter (fun c => negb (zmem c s) && negb (term c) &&
                               existsb (fun pc => zmem (fst pc) s && zmem c (snd pc)) adj) (map fst adj))
  end.
Definition interior_of (adj : list (Z * list Z)) (term : Z -> bool) (u : Z) : list Z :=
  if term u then [] else interior_iter (length adj) adj term [u].
Fixpoint ref_resolve_loop (adj : list (Z * list Z)) (term cond : Z -> bool) (ns : list Z) (counter den : Z)
                          (probs : list (Z * Z)) : list (Z * Z) :=
  match ns with
  | [] => probs
  | n :: ns' =>
      if cond n then
        let ks := match al_get n adj with Some c => c | None => [] end in
        let len := Z.of_nat (length ks) in
        if len =? 0 then probs
        else let idx := if len <=? counter then counter mod len else counter in
             match nth_z ks idx with
             | None => probs
             | Some chosen =>
                 let p1 := fold_left (fun p c => if c =? chosen then al_put c den p
                                                 else fold_left (fun p' d => al_put d 0 p') (interior_of adj term c) (al_put c 0 p))
                                     ks probs in
                 ref_resolve_loop adj term cond ns' (idx + 1) den p1
             end
      else ref_resolve_loop adj term cond ns' counter den probs
  end.
(* observed: the canonical job graph (key order of Graph._graph, children lists), flags, probabilities before / after *)
Definition sub_check (x : list (Z * list Z) * list Z * list Z * Z * list (Z * Z) * list (Z * Z)) : bool :=
  let '(adj, terms, conds, den, before, after) := x in
  let want := ref_resolve_loop adj (fun n => zmem n terms) (fun n => zmem n conds) (map fst adj) 0 den before in
  forallb (fun n => match al_get n after, al_get n want with Some a, Some b => a =? b | _, _ => false end) (map fst adj).
