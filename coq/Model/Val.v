(* Universal observation type used to compare model outputs with the
   implementation's canonicalised outputs inside Coq. *)
From Coq Require Import ZArith List Bool.
Import ListNotations.
Open Scope Z_scope.

Inductive val := I (z : Z) | L (l : list val).

Fixpoint val_eqb (a b : val) {struct a} : bool :=
  match a, b with
  | I x, I y => Z.eqb x y
  | L xs, L ys =>
      (fix go (xs ys : list val) : bool :=
         match xs, ys with
         | [], [] => true
         | x :: xs', y :: ys' => val_eqb x y && go xs' ys'
         | _, _ => false
         end) xs ys
  | _, _ => false
  end.

Definition vbool (b : bool) : val := I (if b then 1 else 0).
Definition vopt {A} (f : A -> val) (o : option A) : val :=
  match o with None => L [] | Some a => L [f a] end.
Definition vlist {A} (f : A -> val) (l : list A) : val := L (map f l).
Definition vpair {A B} (f : A -> val) (g : B -> val) (p : A * B) : val := L [f (fst p); g (snd p)].
Definition vnat (n : nat) : val := I (Z.of_nat n).

(* indices (from i) of the cases on which f disagrees with the expected value,
   with the model's value *)
Fixpoint mismatches {A} (f : A -> val) (cs : list (A * val)) (i : Z) : list (Z * val) :=
  match cs with
  | [] => []
  | (a, e) :: cs' =>
      let m := f a in
      if val_eqb m e then mismatches f cs' (i + 1) else (i, m) :: mismatches f cs' (i + 1)
  end.

Fixpoint failing {A} (f : A -> bool) (cs : list A) (i : Z) : list Z :=
  match cs with
  | [] => []
  | a :: cs' => if f a then failing f cs' (i + 1) else i :: failing f cs' (i + 1)
  end.

(* exceptions of the implementation are values of the model *)
Inductive result (A : Type) := Ok (a : A) | Err (code : Z).
Arguments Ok {A} a.
Arguments Err {A} code.
Definition bind {A B} (r : result A) (f : A -> result B) : result B :=
  match r with Ok a => f a | Err c => Err c end.
Definition vres {A} (f : A -> val) (r : result A) : val :=
  match r with Ok a => L [I 0; f a] | Err c => L [I 1; I c] end.
