(* Model of workers/workers.py (Worker, WorkerPool, WorkerPools) as the code is NOW (remove_task no
   longer re-registers an emptied batch).  No proofs here (Proofs/WorkerP*.v).

   ===== EXECUTABLE INTERFACE (stable; other modules import it) =====================================
   Identities (tasks, strategies, profiles, workers, pools) are integers (Z).
   strategy := {s_id; s_is_batch; s_req : rvec; s_bsize; s_runtime}
       an ExecutionStrategy (s_is_batch = false) or a BatchStrategy (s_is_batch = true; dict identity
       s_id).  s_req is `strategy.resources` as an insertion-ordered request vector, s_runtime in us.
   worker := {w_id; w_res : res; w_placed : list (task * strategy)      (_placed_tasks, dict order)
              w_batches : list (batch-strategy id * list task)          (_placed_batches)
              w_btask   : list (batch-strategy id * placeholder id)     (_batch_tasks_for_strategy)
              w_avail_prof, w_pend_prof : list (profile * strategy)     (_available/_pending_profiles)
              w_fresh : Z }   next identity for objects the worker creates (batch placeholder Task,
                              the copy of a loading strategy); never observable
   w_new id vec                                 Worker(name, Resources(vec))
   w_place t s w       : worker * result unit   Worker.place_task (plain and BatchStrategy)
   w_remove t w        : worker * result unit   Worker.remove_task
   w_load p s w        : worker * result unit   Worker.load_profile
   w_evict p w         : worker * result unit   Worker.evict_profile
   w_step dt w         : worker                 the profile part of Worker.step (pending -> available);
                                                stepping the RUNNING tasks belongs to the Task model
   w_fits s w          : bool                   Worker.can_accomodate_strategy
   w_placed_tasks w    : list Z                 get_placed_tasks
   w_get_allocated_resources t w, w_is_available p w, w_is_full w, w_compatible strats w
   w_copy w : result worker (always Ok since /repo cd7cd87; batches and pending strategies are copied), w_deepcopy w : worker
   pool := {p_id; p_workers : list worker (dict worker-id -> Worker, insertion order); p_placed : list (task * worker id)}
   p_place t strats es wid P : pool * result bool   WorkerPool.place_task, every branch except the
                                                second-level scheduler (`_scheduler is None`):
                                                strats = task.available_execution_strategies,
                                                es = execution_strategy, wid = worker_id; Ok false = "return False"
   p_remove t P, p_load p s wid P (with the pre-check of /repo 0f42ab1), p_evict p wid P : pool * result unit ; p_step dt P : pool
   p_fits s P, p_placed_tasks P, p_is_full P, p_resources P, p_utilization P
   p_copy P : result pool, p_deepcopy P : pool
   pools := list pool; pools_placed_tasks, pools_get, pools_copy, pools_deepcopy, pools_is_full
   Errors: Err 1 ValueError, 2 RuntimeError, 3 AttributeError, 4 KeyError (the E_ constants of Res.v).
   Every operation that can raise returns the (possibly partially mutated) state AND the outcome.
   demand_name w n     : the C01 demand of worker w for resource name n (resident plain tasks' requests
                         + each resident batch once + loaded/pending profiles)
   ================================================================================================ *)
From Coq Require Import ZArith List Bool.
Import ListNotations.
From Verif Require Import Model.Val Model.Res.
Open Scope Z_scope.

Record strategy := mkStrat {
  s_id : Z; s_is_batch : bool; s_req : rvec; s_bsize : Z; s_runtime : Z }.

(* insertion-ordered dicts with integer keys *)
Section ZDict.
  Context {A : Type}.
  Fixpoint zfind (k : Z) (d : list (Z * A)) : option A :=
    match d with [] => None | (k', a) :: d' => if k' =? k then Some a else zfind k d' end.
  Fixpoint zset (k : Z) (a : A) (d : list (Z * A)) : list (Z * A) :=
    match d with
    | [] => [(k, a)]
    | (k', a') :: d' => if k' =? k then (k', a) :: d' else (k', a') :: zset k a d'
    end.
  Fixpoint zremove (k : Z) (d : list (Z * A)) : list (Z * A) :=
    match d with [] => [] | (k', a) :: d' => if k' =? k then d' else (k', a) :: zremove k d' end.
  Definition zmem (k : Z) (d : list (Z * A)) : bool :=
    match zfind k d with Some _ => true | None => false end.
End ZDict.

(* Python sets of tasks (only membership and size are used) *)
Definition set_mem (t : Z) (s : list Z) : bool := existsb (Z.eqb t) s.
Definition set_add (t : Z) (s : list Z) : list Z := if set_mem t s then s else s ++ [t].
Fixpoint set_remove (t : Z) (s : list Z) : list Z :=
  match s with [] => [] | x :: s' => if x =? t then s' else x :: set_remove t s' end.

Record worker := mkWorker {
  w_id : Z;
  w_res : res;
  w_placed : list (Z * strategy);
  w_batches : list (Z * list Z);
  w_btask : list (Z * Z);
  w_avail_prof : list (Z * strategy);
  w_pend_prof : list (Z * strategy);
  w_fresh : Z }.

Definition w_new (id : Z) (v : rvec) : worker := mkWorker id (r_new v) [] [] [] [] [] 0.

Definition w_set_res (w : worker) (R : res) : worker :=
  mkWorker (w_id w) R (w_placed w) (w_batches w) (w_btask w) (w_avail_prof w) (w_pend_prof w) (w_fresh w).
Definition w_set_batches (w : worker) (b : list (Z * list Z)) : worker :=
  mkWorker (w_id w) (w_res w) (w_placed w) b (w_btask w) (w_avail_prof w) (w_pend_prof w) (w_fresh w).
Definition w_rebase (n : Z) (w : worker) : worker :=
  mkWorker (w_id w) (w_res w) (w_placed w) (w_batches w) (w_btask w) (w_avail_prof w) (w_pend_prof w) n.

(* Worker.place_task *)
Definition w_place (t : Z) (s : strategy) (w : worker) : worker * result unit :=
  if zmem t (w_placed w) then (w, Err E_VALUE)      (* already placed (/repo 17757a8) *)
  else if s_is_batch s then
    match zfind (s_id s) (w_batches w) with
    | None =>
        if s_bsize s <? 1 then (w, Err E_VALUE)
        else
          let b := w_fresh w in      (* the placeholder Task "BatchFor<task>" *)
          match r_allocate_multiple (w_res w) (s_req s) (CBatch b) with
          | (R, Err e) => (w_set_res w R, Err e)
          | (R, Ok _) =>
              (mkWorker (w_id w) R (zset t s (w_placed w)) (zset (s_id s) [t] (w_batches w))
                        (zset (s_id s) b (w_btask w)) (w_avail_prof w) (w_pend_prof w) (b + 1), Ok tt)
          end
    | Some members =>
        if s_bsize s <? Z.of_nat (length members) + 1 then (w, Err E_RUNTIME)
        else
          (mkWorker (w_id w) (w_res w) (zset t s (w_placed w))
                    (zset (s_id s) (set_add t members) (w_batches w))
                    (w_btask w) (w_avail_prof w) (w_pend_prof w) (w_fresh w), Ok tt)
    end
  else
    match r_allocate_multiple (w_res w) (s_req s) (CTask t) with
    | (R, Err e) => (w_set_res w R, Err e)
    | (R, Ok _) =>
        (mkWorker (w_id w) R (zset t s (w_placed w)) (w_batches w) (w_btask w)
                  (w_avail_prof w) (w_pend_prof w) (w_fresh w), Ok tt)
    end.

(* Worker.remove_task *)
Definition w_remove (t : Z) (w : worker) : worker * result unit :=
  match zfind t (w_placed w) with
  | None => (w, Err E_VALUE)
  | Some s =>
      if s_is_batch s then
        match zfind (s_id s) (w_batches w) with
        | None => (w, Err E_RUNTIME)
        | Some members =>
            if negb (set_mem t members) then (w, Err E_RUNTIME)
            else
              let members' := set_remove t members in       (* the set is mutated in place *)
              match members' with
              | [] =>
                  match zfind (s_id s) (w_btask w) with
                  | None => (w_set_batches w (zset (s_id s) members' (w_batches w)), Err E_RUNTIME)
                  | Some b =>
                      match r_deallocate (w_res w) (CBatch b) with
                      | (R, Err e) =>
                          (w_set_batches (w_set_res w R) (zset (s_id s) members' (w_batches w)), Err e)
                      | (R, Ok _) =>
                          (mkWorker (w_id w) R (zremove t (w_placed w)) (zremove (s_id s) (w_batches w))
                                    (zremove (s_id s) (w_btask w)) (w_avail_prof w) (w_pend_prof w)
                                    (w_fresh w), Ok tt)
                      end
                  end
              | _ =>
                  (mkWorker (w_id w) (w_res w) (zremove t (w_placed w))
                            (zset (s_id s) members' (w_batches w)) (w_btask w)
                            (w_avail_prof w) (w_pend_prof w) (w_fresh w), Ok tt)
              end
        end
      else
        match r_deallocate (w_res w) (CTask t) with
        | (R, Err e) => (w_set_res w R, Err e)
        | (R, Ok _) =>
            (mkWorker (w_id w) R (zremove t (w_placed w)) (w_batches w) (w_btask w)
                      (w_avail_prof w) (w_pend_prof w) (w_fresh w), Ok tt)
        end
  end.

(* Worker.load_profile: the pending entry holds copy(loading_strategy), a fresh plain strategy *)
Definition w_load (p : Z) (s : strategy) (w : worker) : worker * result unit :=
  match r_allocate_multiple (w_res w) (s_req s) (CProf p) with
  | (R, Err e) => (w_set_res w R, Err e)
  | (R, Ok _) =>
      (mkWorker (w_id w) R (w_placed w) (w_batches w) (w_btask w) (w_avail_prof w)
                (zset p (mkStrat (w_fresh w) false (s_req s) (s_bsize s) (s_runtime s)) (w_pend_prof w))
                (w_fresh w + 1), Ok tt)
  end.

(* Worker.evict_profile *)
Definition w_evict (p : Z) (w : worker) : worker * result unit :=
  if negb (zmem p (w_avail_prof w)) && negb (zmem p (w_pend_prof w)) then (w, Err E_VALUE)
  else
    match r_deallocate (w_res w) (CProf p) with
    | (R, Err e) => (w_set_res w R, Err e)
    | (R, Ok _) =>
        if zmem p (w_avail_prof w) then
          (mkWorker (w_id w) R (w_placed w) (w_batches w) (w_btask w) (zremove p (w_avail_prof w))
                    (w_pend_prof w) (w_fresh w), Ok tt)
        else
          (mkWorker (w_id w) R (w_placed w) (w_batches w) (w_btask w) (w_avail_prof w)
                    (zremove p (w_pend_prof w)) (w_fresh w), Ok tt)
    end.

(* the profile part of Worker.step *)
Fixpoint step_pend (dt : Z) (pend avail : list (Z * strategy)) : list (Z * strategy) * list (Z * strategy) :=
  match pend with
  | [] => ([], avail)
  | (p, s) :: pend' =>
      let rem := s_runtime s - dt in
      if rem <=? 0 then
        step_pend dt pend' (zset p (mkStrat (s_id s) false (s_req s) (s_bsize s) 0) avail)
      else
        let '(pd, av) := step_pend dt pend' avail in
        ((p, mkStrat (s_id s) (s_is_batch s) (s_req s) (s_bsize s) rem) :: pd, av)
  end.
Definition w_step (dt : Z) (w : worker) : worker :=
  let '(pd, av) := step_pend dt (w_pend_prof w) (w_avail_prof w) in
  mkWorker (w_id w) (w_res w) (w_placed w) (w_batches w) (w_btask w) av pd (w_fresh w).

(* Worker.can_accomodate_strategy *)
Definition w_fits (s : strategy) (w : worker) : bool :=
  r_gt (w_res w) (s_req s) || (s_is_batch s && zmem (s_id s) (w_batches w)).
Definition w_compatible (strats : list strategy) (w : worker) : list strategy :=
  filter (fun s => w_fits s w) strats.
Definition w_placed_tasks (w : worker) : list Z := map fst (w_placed w).
Definition w_available_profiles (w : worker) : list Z := map fst (w_avail_prof w).
Definition w_pending_profiles (w : worker) : list Z := map fst (w_pend_prof w).
Definition w_is_available (p : Z) (w : worker) : Z :=
  if zmem p (w_avail_prof w) then 0
  else match zfind p (w_pend_prof w) with Some s => s_runtime s | None => -1 end.
Definition w_is_full (w : worker) : bool := r_empty (w_res w).
Definition w_get_allocated_resources (t : Z) (w : worker) : worker * result (list (rkey * Z)) :=
  match zfind t (w_placed w) with
  | None => (w, Err E_RUNTIME)
  | Some s =>
      if s_is_batch s then
        match zfind (s_id s) (w_btask w) with
        | None => (w, Err E_RUNTIME)
        | Some b => let '(R, l) := r_get_allocated_resources (w_res w) (CBatch b) in (w_set_res w R, Ok l)
        end
      else let '(R, l) := r_get_allocated_resources (w_res w) (CTask t) in (w_set_res w R, Ok l)
  end.

(* Worker.__copy__ (as of /repo b0287db: the batch bookkeeping is copied, every pending profile gets
   its own copy of the loading strategy, i.e. a fresh object) and __deepcopy__ *)
Fixpoint renumber_pend (n : Z) (pend : list (Z * strategy)) : list (Z * strategy) :=
  match pend with
  | [] => []
  | (p, s) :: pend' => (p, mkStrat n false (s_req s) (s_bsize s) (s_runtime s)) :: renumber_pend (n + 1) pend'
  end.
Definition w_copy (w : worker) : result worker :=
  match r_copy (w_res w) with
  | Ok R => Ok (mkWorker (w_id w) R (w_placed w) (w_batches w) (w_btask w) (w_avail_prof w)
                         (renumber_pend (w_fresh w) (w_pend_prof w))
                         (w_fresh w + Z.of_nat (length (w_pend_prof w))))
  | Err e => Err e
  end.
Definition w_deepcopy (w : worker) : worker :=
  mkWorker (w_id w) (r_deepcopy (w_res w)) [] [] [] [] [] (w_fresh w).

(* ---------------------------------------------------------------------------------------------- *)
Record pool := mkPool { p_id : Z; p_workers : list worker; p_placed : list (Z * Z) }.
Definition p_new (id : Z) (ws : list worker) : pool := mkPool id ws [].

Fixpoint pw_find (wid : Z) (ws : list worker) : option worker :=
  match ws with [] => None | W :: ws' => if w_id W =? wid then Some W else pw_find wid ws' end.
Fixpoint pw_set (W : worker) (ws : list worker) : list worker :=
  match ws with
  | [] => []
  | W' :: ws' => if w_id W' =? w_id W then W :: ws' else W' :: pw_set W ws'
  end.

Definition first_fit_strategy (W : worker) (strats : list strategy) : option strategy :=
  find (fun s => w_fits s W) strats.
Fixpoint first_worker_strategy (ws : list worker) (strats : list strategy) : option (Z * strategy) :=
  match ws with
  | [] => None
  | W :: ws' =>
      match first_fit_strategy W strats with
      | Some s => Some (w_id W, s)
      | None => first_worker_strategy ws' strats
      end
  end.

(* the first part of WorkerPool.place_task: Err, or "return False" (Ok None), or the chosen
   (worker id, strategy-or-None) *)
Definition p_choose (strats : list strategy) (es : option strategy) (wid : option Z) (P : pool)
  : result (option (Z * option strategy)) :=
  match wid with
  | Some w =>
      match pw_find w (p_workers P) with
      | None => Err E_VALUE
      | Some W =>
          match es with
          | Some s => if negb (w_fits s W) then Ok None else Ok (Some (w, Some s))
          | None => Ok (Some (w, first_fit_strategy W strats))
          end
      end
  | None =>
      match es with
      | Some s =>
          match find (fun W => w_fits s W) (p_workers P) with
          | Some W => Ok (Some (w_id W, Some s))
          | None => Ok None
          end
      | None =>
          match first_worker_strategy (p_workers P) strats with
          | Some (w, s) => Ok (Some (w, Some s))
          | None => Ok None
          end
      end
  end.

Definition p_place (t : Z) (strats : list strategy) (es : option strategy) (wid : option Z) (P : pool)
  : pool * result bool :=
  if zmem t (p_placed P) then (P, Err E_VALUE) else      (* already placed (/repo 17757a8) *)
  match p_choose strats es wid P with
  | Err e => (P, Err e)
  | Ok None => (P, Ok false)
  | Ok (Some (w, None)) => (P, Err E_ATTRIBUTE)      (* place_task(task, None) *)
  | Ok (Some (w, Some s)) =>
      match pw_find w (p_workers P) with
      | None => (P, Err E_KEY)
      | Some W =>
          match w_place t s W with
          | (W', Err e) => (mkPool (p_id P) (pw_set W' (p_workers P)) (p_placed P), Err e)
          | (W', Ok _) => (mkPool (p_id P) (pw_set W' (p_workers P)) (zset t w (p_placed P)), Ok true)
          end
      end
  end.

Definition p_remove (t : Z) (P : pool) : pool * result unit :=
  match zfind t (p_placed P) with
  | None => (P, Err E_VALUE)
  | Some w =>
      match pw_find w (p_workers P) with
      | None => (P, Err E_KEY)
      | Some W =>
          match w_remove t W with
          | (W', Err e) => (mkPool (p_id P) (pw_set W' (p_workers P)) (p_placed P), Err e)
          | (W', Ok _) => (mkPool (p_id P) (pw_set W' (p_workers P)) (zremove t (p_placed P)), Ok tt)
          end
      end
  end.

(* load_profile / evict_profile of the pool: one worker, or every worker in turn (a raise in the
   middle leaves the earlier workers changed) *)
Fixpoint p_each (f : worker -> worker * result unit) (ids : list Z) (ws : list worker)
  : list worker * result unit :=
  match ids with
  | [] => (ws, Ok tt)
  | i :: ids' =>
      match pw_find i ws with
      | None => (ws, Err E_KEY)
      | Some W =>
          match f W with
          | (W', Err e) => (pw_set W' ws, Err e)
          | (W', Ok _) => p_each f ids' (pw_set W' ws)
          end
      end
  end.
Definition p_ids (wid : option Z) (P : pool) : list Z :=
  match wid with Some w => [w] | None => map w_id (p_workers P) end.
(* the pre-check of load_profile (/repo 0f42ab1): every targeted worker must accomodate the strategy *)
Fixpoint p_precheck (s : strategy) (ids : list Z) (ws : list worker) : result unit :=
  match ids with
  | [] => Ok tt
  | i :: ids' =>
      match pw_find i ws with
      | None => Err E_KEY
      | Some W => if w_fits s W then p_precheck s ids' ws else Err E_VALUE
      end
  end.
Definition p_load (p : Z) (s : strategy) (wid : option Z) (P : pool) : pool * result unit :=
  match p_precheck s (p_ids wid P) (p_workers P) with
  | Err e => (P, Err e)
  | Ok _ =>
      let '(ws, r) := p_each (w_load p s) (p_ids wid P) (p_workers P) in (mkPool (p_id P) ws (p_placed P), r)
  end.
Definition p_evict (p : Z) (wid : option Z) (P : pool) : pool * result unit :=
  let '(ws, r) := p_each (w_evict p) (p_ids wid P) (p_workers P) in (mkPool (p_id P) ws (p_placed P), r).

Definition p_step (dt : Z) (P : pool) : pool := mkPool (p_id P) (map (w_step dt) (p_workers P)) (p_placed P).
Definition p_fits (s : strategy) (P : pool) : bool := existsb (w_fits s) (p_workers P).
Definition p_placed_tasks (P : pool) : list Z := map fst (p_placed P).
Definition p_is_full (P : pool) : bool := forallb w_is_full (p_workers P).
Definition p_resources (P : pool) : res := fold_left (fun acc W => r_add acc (w_res W)) (p_workers P) (r_new []).
(* get_utilization: (name, id, allocated, available) for every key of the summed totals *)
Definition p_utilization (P : pool) : list (rkey * Z * Z) :=
  let R := p_resources P in map (fun kq => (fst kq, r_allocated_q R (fst kq), r_available R (fst kq))) (r_total R).
Definition p_get_allocated_resources (t : Z) (P : pool) : pool * result (list (rkey * Z)) :=
  match zfind t (p_placed P) with
  | None => (P, Err E_KEY)
  | Some w =>
      match pw_find w (p_workers P) with
      | None => (P, Err E_KEY)
      | Some W => let '(W', r) := w_get_allocated_resources t W in
                  (mkPool (p_id P) (pw_set W' (p_workers P)) (p_placed P), r)
      end
  end.

Fixpoint copy_workers (ws : list worker) : result (list worker) :=
  match ws with
  | [] => Ok []
  | W :: ws' =>
      match w_copy W with
      | Err e => Err e
      | Ok W' => match copy_workers ws' with Ok l => Ok (W' :: l) | Err e => Err e end
      end
  end.
Definition p_copy (P : pool) : result pool :=
  match copy_workers (p_workers P) with
  | Ok ws => Ok (mkPool (p_id P) ws (p_placed P))
  | Err e => Err e
  end.
Definition p_deepcopy (P : pool) : pool := mkPool (p_id P) (map w_deepcopy (p_workers P)) [].

Definition pools := list pool.
Definition pools_placed_tasks (Ps : pools) : list Z := flat_map p_placed_tasks Ps.
Definition pools_get (id : Z) (Ps : pools) : option pool := find (fun P => p_id P =? id) Ps.
Definition pools_is_full (Ps : pools) : bool := forallb p_is_full Ps.
Fixpoint pools_copy (Ps : pools) : result pools :=
  match Ps with
  | [] => Ok []
  | P :: Ps' =>
      match p_copy P with
      | Err e => Err e
      | Ok P' => match pools_copy Ps' with Ok l => Ok (P' :: l) | Err e => Err e end
      end
  end.
Definition pools_deepcopy (Ps : pools) : pools := map p_deepcopy Ps.

(* ---------------------------------------------------------------------------------------------- *)
(* histories *)
Inductive wop :=
| WPlace (t : Z) (s : strategy) | WRemove (t : Z) | WLoad (p : Z) (s : strategy) | WEvict (p : Z)
| WStep (dt : Z) | WGetAllocated (t : Z).
Definition w_opstep (w : worker) (o : wop) : worker * result unit :=
  match o with
  | WPlace t s => w_place t s w
  | WRemove t => w_remove t w
  | WLoad p s => w_load p s w
  | WEvict p => w_evict p w
  | WStep dt => (w_step dt w, Ok tt)
  | WGetAllocated t => let '(w', r) := w_get_allocated_resources t w in
                       (w', match r with Ok _ => Ok tt | Err e => Err e end)
  end.
Definition w_run (ops : list wop) (w : worker) : worker := fold_left (fun w o => fst (w_opstep w o)) ops w.

Inductive pop :=
| PPlace (t : Z) (strats : list strategy) (es : option strategy) (wid : option Z)
| PRemove (t : Z) | PLoad (p : Z) (s : strategy) (wid : option Z) | PEvict (p : Z) (wid : option Z)
| PStep (dt : Z).
Definition p_opstep (P : pool) (o : pop) : pool * result bool :=
  match o with
  | PPlace t strats es wid => p_place t strats es wid P
  | PRemove t => let '(P', r) := p_remove t P in (P', match r with Ok _ => Ok true | Err e => Err e end)
  | PLoad p s wid => let '(P', r) := p_load p s wid P in (P', match r with Ok _ => Ok true | Err e => Err e end)
  | PEvict p wid => let '(P', r) := p_evict p wid P in (P', match r with Ok _ => Ok true | Err e => Err e end)
  | PStep dt => (p_step dt P, Ok true)
  end.
Definition p_run (ops : list pop) (P : pool) : pool := fold_left (fun P o => fst (p_opstep P o)) ops P.

(* ---------------------------------------------------------------------------------------------- *)
(* C01: the demand of a worker for a resource name *)
Definition req_name (n : Z) (req : rvec) : Z := sumP (fun k => fst k =? n) req.
(* the batch strategies that have a resident member, each once (first occurrence in _placed_tasks) *)
Fixpoint resident_batches (pl : list (Z * strategy)) (seen : list Z) : list strategy :=
  match pl with
  | [] => []
  | (_, s) :: pl' =>
      if s_is_batch s && negb (set_mem (s_id s) seen) then s :: resident_batches pl' (s_id s :: seen)
      else resident_batches pl' seen
  end.
Definition demand_tasks (n : Z) (w : worker) : Z :=
  fold_right (fun ts acc => (if s_is_batch (snd ts) then 0 else req_name n (s_req (snd ts))) + acc) 0 (w_placed w).
Definition demand_batches (n : Z) (w : worker) : Z :=
  fold_right (fun s acc => req_name n (s_req s) + acc) 0 (resident_batches (w_placed w) []).
Definition demand_profiles (n : Z) (w : worker) : Z :=
  fold_right (fun ps acc => req_name n (s_req (snd ps)) + acc) 0 (w_avail_prof w ++ w_pend_prof w).
Definition demand_name (w : worker) (n : Z) : Z := demand_tasks n w + demand_batches n w + demand_profiles n w.
Definition cap_name (w : worker) (n : Z) : Z := sumP (fun k => fst k =? n) (r_total (w_res w)).

(* ---------------------------------------------------------------------------------------------- *)
(* A world of several objects (Resources / Worker / WorkerPool and their copies), for the
   correspondence stream S-ledger and for the statements about copies.  A copy shares with its
   original the task, strategy and profile objects, none of which is mutated by these classes: since
   /repo b0287db the copied loading strategy of a pending profile (the one object Worker.step mutates)
   is copied again by Worker.__copy__, so an operation on one object touches no other object.
   (obj_sync below is what the world needed before that repair; it is no longer used by world_step.) *)
Inductive obj := ORes (R : res) | OWorker (w : worker) | OPool (P : pool) | ODead (e : Z).
Inductive wcmd :=
| CRes (i : nat) (o : rop) | CWorker (i : nat) (o : wop) | CPool (i : nat) (o : pop)
| CCopy (i : nat) | CDeepCopy (i : nat).
Record world := mkWorld { wo_objs : list obj; wo_base : Z }.

Fixpoint set_nth {A} (n : nat) (a : A) (l : list A) : list A :=
  match l, n with
  | [], _ => []
  | _ :: l', O => a :: l'
  | x :: l', S n' => x :: set_nth n' a l'
  end.

Definition sync_pend (src pend : list (Z * strategy)) : list (Z * strategy) :=
  map (fun ps => match find (fun ps' => s_id (snd ps') =? s_id (snd ps)) src with
                 | Some ps' => (fst ps, mkStrat (s_id (snd ps)) (s_is_batch (snd ps)) (s_req (snd ps))
                                               (s_bsize (snd ps)) (s_runtime (snd ps')))
                 | None => ps
                 end) pend.
Definition w_sync (src : list (Z * strategy)) (w : worker) : worker :=
  mkWorker (w_id w) (w_res w) (w_placed w) (w_batches w) (w_btask w) (w_avail_prof w)
           (sync_pend src (w_pend_prof w)) (w_fresh w).
Definition obj_sync (src : list (Z * strategy)) (o : obj) : obj :=
  match o with
  | OWorker w => OWorker (w_sync src w)
  | OPool P => OPool (mkPool (p_id P) (map (w_sync src) (p_workers P)) (p_placed P))
  | _ => o
  end.
Definition obj_pending (o : obj) : list (Z * strategy) :=
  match o with
  | OWorker w => w_pend_prof w
  | OPool P => flat_map w_pend_prof (p_workers P)
  | _ => []
  end.
Definition is_step_w (o : wop) : bool := match o with WStep _ => true | _ => false end.
Definition is_step_p (o : pop) : bool := match o with PStep _ => true | _ => false end.

(* outcome codes: 0 = done / True, -1 = returned False, e > 0 = raised error e, -2 = bad command *)
Definition code_unit (r : result unit) : Z := match r with Ok _ => 0 | Err e => e end.
Definition code_bool (r : result bool) : Z := match r with Ok true => 0 | Ok false => -1 | Err e => e end.

Fixpoint rebase_workers (base : Z) (ws : list worker) : list worker * Z :=
  match ws with
  | [] => ([], base)
  | W :: ws' => let '(l, b) := rebase_workers (base + 1000) ws' in (w_rebase base W :: l, b)
  end.

Definition world_step (W : world) (c : wcmd) : world * Z :=
  let objs := wo_objs W in
  match c with
  | CRes i o =>
      match nth_error objs i with
      | Some (ORes R) => let '(R', r) := r_step R o in (mkWorld (set_nth i (ORes R') objs) (wo_base W), code_unit r)
      | _ => (W, -2)
      end
  | CWorker i o =>
      match nth_error objs i with
      | Some (OWorker w) =>
          let '(w', r) := w_opstep w o in
          (mkWorld (set_nth i (OWorker w') objs) (wo_base W), code_unit r)
      | _ => (W, -2)
      end
  | CPool i o =>
      match nth_error objs i with
      | Some (OPool P) =>
          let '(P', r) := p_opstep P o in
          (mkWorld (set_nth i (OPool P') objs) (wo_base W), code_bool r)
      | _ => (W, -2)
      end
  | CCopy i =>
      match nth_error objs i with
      | Some (ORes R) =>
          match r_copy R with
          | Ok R' => (mkWorld (objs ++ [ORes R']) (wo_base W), 0)
          | Err e => (mkWorld (objs ++ [ODead e]) (wo_base W), e)
          end
      | Some (OWorker w) =>
          match w_copy w with
          | Ok w' => (mkWorld (objs ++ [OWorker (w_rebase (wo_base W) w')]) (wo_base W + 1000), 0)
          | Err e => (mkWorld (objs ++ [ODead e]) (wo_base W), e)
          end
      | Some (OPool P) =>
          match p_copy P with
          | Ok P' => let '(ws, b) := rebase_workers (wo_base W) (p_workers P') in
                     (mkWorld (objs ++ [OPool (mkPool (p_id P') ws (p_placed P'))]) b, 0)
          | Err e => (mkWorld (objs ++ [ODead e]) (wo_base W), e)
          end
      | _ => (W, -2)
      end
  | CDeepCopy i =>
      match nth_error objs i with
      | Some (ORes R) => (mkWorld (objs ++ [ORes (r_deepcopy R)]) (wo_base W), 0)
      | Some (OWorker w) => (mkWorld (objs ++ [OWorker (w_rebase (wo_base W) (w_deepcopy w))]) (wo_base W + 1000), 0)
      | Some (OPool P) => let '(ws, b) := rebase_workers (wo_base W) (p_workers (p_deepcopy P)) in
                          (mkWorld (objs ++ [OPool (mkPool (p_id P) ws [])]) b, 0)
      | _ => (W, -2)
      end
  end.

(* observations *)
Record probes := mkProbes { pr_keys : list rkey; pr_strats : list strategy; pr_profs : list Z; pr_tasks : list Z }.

Definition sum_alloc_comp (R : res) (r : rkey) : Z :=
  fold_right (fun cq acc => snd cq + acc) 0 (r_get_allocated_computation R r).
(* a batch placeholder is shown as the batch strategy it is registered for (-1: not registered) *)
Definition vcomp_in (bt : list (Z * Z)) (c : comp) : val :=
  match c with
  | CBatch b => match find (fun sb => snd sb =? b) bt with
                | Some sb => L [I 1; I (fst sb)]
                | None => L [I 1; I (-1)]
                end
  | _ => vcomp c
  end.
Definition obs_res (pr : probes) (vc : comp -> val) (R : res) : val :=
  L [ L (map (fun r => L [I (r_available R r); I (r_allocated_q R r); I (r_total_q R r); I (sum_alloc_comp R r)])
             (pr_keys pr));
      vbool (r_empty R);
      L (map (fun s => vbool (r_gt R (s_req s))) (pr_strats pr));
      L (map (fun cl => L [vc (fst cl); vrvec (snd cl)]) (r_allocs R));
      vrvec (r_avail R) ].
Definition obs_worker (pr : probes) (w : worker) : val :=
  L [ obs_res pr (vcomp_in (w_btask w)) (w_res w);
      L (map (fun ts => L [I (fst ts); I (s_id (snd ts))]) (w_placed w));
      L (map (fun s => vbool (w_fits s w)) (pr_strats pr));
      L (map I (w_available_profiles w));
      L (map I (w_pending_profiles w));
      L (map (fun p => I (w_is_available p w)) (pr_profs pr));
      vbool (w_is_full w);
      L (map (fun sm => L [I (fst sm); L (map (fun t => vbool (set_mem t (snd sm))) (pr_tasks pr))]) (w_batches w));
      L (map (fun sb => I (fst sb)) (w_btask w));
      L (map (fun ps => L [I (fst ps); vrvec (s_req (snd ps))]) (w_avail_prof w ++ w_pend_prof w)) ].
Definition obs_pool (pr : probes) (P : pool) : val :=
  L [ L (map (obs_worker pr) (p_workers P));
      L (map (fun tw => L [I (fst tw); I (snd tw)]) (p_placed P));
      L (map (fun s => vbool (p_fits s P)) (pr_strats pr));
      vbool (p_is_full P);
      L (map (fun kav => L [vkey (fst (fst kav)); I (snd (fst kav)); I (snd kav)]) (p_utilization P)) ].
Definition obs_obj (pr : probes) (o : obj) : val :=
  match o with
  | ORes R => L [I 0; obs_res pr vcomp R]
  | OWorker w => L [I 1; obs_worker pr w]
  | OPool P => L [I 2; obs_pool pr P]
  | ODead e => L [I 3; I e]
  end.
Fixpoint world_observe (pr : probes) (W : world) (cs : list wcmd) : list val :=
  match cs with
  | [] => []
  | c :: cs' =>
      let '(W', code) := world_step W c in
      L [I code; L (map (obs_obj pr) (wo_objs W'))] :: world_observe pr W' cs'
  end.
Fixpoint world_codes (W : world) (cs : list wcmd) : list Z * world :=
  match cs with
  | [] => ([], W)
  | c :: cs' => let '(W', code) := world_step W c in let '(l, Wf) := world_codes W' cs' in (code :: l, Wf)
  end.
Definition world_case := (probes * list obj * list wcmd)%type.
(* outcome codes of every command and the observation of the final world only *)
Definition world_obs_last (x : world_case) : val :=
  let '(pr, objs, cs) := x in
  let '(codes, Wf) := world_codes (mkWorld objs 1000000) cs in
  L [L (map I codes); L (map (obs_obj pr) (wo_objs Wf))].
Definition world_obs (x : world_case) : val :=
  let '(pr, objs, cs) := x in
  L (L (map (obs_obj pr) objs) :: world_observe pr (mkWorld objs 1000000) cs).

(* ---------------------------------------------------------------------------------------------- *)
(* MONITORS: decidable forms of the C04 / C01 statements, applied by the harness to the
   IMPLEMENTATION's observations (Proofs/MonitorP.v proves them equivalent to the Props). *)
Fixpoint keys_nodupb (v : rvec) : bool :=
  match v with
  | [] => true
  | (k, _) :: v' => negb (existsb (fun kq => rkey_eqb k (fst kq)) v') && keys_nodupb v'
  end.
Definition recs_inb (v : rvec) (a : allocs) : bool :=
  forallb (fun cl => forallb (fun kq => existsb (fun kq' => rkey_eqb (fst kq) (fst kq')) v) (snd cl)) a.
(* tot: the CONFIGURED totals (given by the harness, not read from the implementation);
   av: the implementation's available cells; a: its allocation records *)
Definition check_ledger (tot av : rvec) (a : allocs) : bool :=
  keys_nodupb av && recs_inb av a && cells_ok av tot a.
(* the public getters agree with the cells: per probe key (available, allocated, total, sum of
   get_allocated_computation) *)
Definition check_getters (tot av : rvec) (a : allocs) (g : list (rkey * (Z * Z * Z * Z))) : bool :=
  forallb (fun rg => let '(r, (x, al, t, sc)) := rg in
                     (x =? vec_quantity av r) && (t =? vec_quantity tot r) && (al =? t - x) &&
                     (sc =? fold_right (fun cl acc => sumP (fun k => res_match r k) (snd cl) + acc) 0 a)) g.

(* residency: placed = the implementation's get_placed_tasks with the strategy of each task (a batch
   placeholder is named by its batch strategy id), profs = loaded/pending profiles with the request of
   their loading strategy *)
Definition holder_ok (placed : list (Z * strategy)) (profs : list (Z * rvec)) (c : comp) : bool :=
  match c with
  | CTask t => match zfind t placed with Some s => negb (s_is_batch s) | None => false end
  | CBatch sid => existsb (fun ts => s_is_batch (snd ts) && (s_id (snd ts) =? sid)) placed
  | CProf p => zmem p profs
  end.
Definition name_sum (n : Z) (l : rvec) : Z := sumP (fun k => fst k =? n) l.
Definition exact_for (names : list Z) (a : allocs) (c : comp) (req : rvec) : bool :=
  forallb (fun n => name_sum n (al_get c a) =? name_sum n req) names.
Definition check_held (names : list Z) (a : allocs) (placed : list (Z * strategy)) (profs : list (Z * rvec)) : bool :=
  forallb (fun cl => holder_ok placed profs (fst cl)) a &&
  forallb (fun ts => if s_is_batch (snd ts) then exact_for names a (CBatch (s_id (snd ts))) (s_req (snd ts))
                     else exact_for names a (CTask (fst ts)) (s_req (snd ts))) placed &&
  forallb (fun pr => exact_for names a (CProf (fst pr)) (snd pr)) profs.
Definition obs_worker_of (tot : rvec) (placed : list (Z * strategy)) (profs : list (Z * rvec)) : worker :=
  mkWorker 0 (r_new tot) placed [] [] (map (fun pr => (fst pr, mkStrat 0 false (snd pr) 1 0)) profs) [] 0.
Definition check_demand (names : list Z) (tot : rvec) (placed : list (Z * strategy)) (profs : list (Z * rvec)) : bool :=
  let w := obs_worker_of tot placed profs in
  forallb (fun n => demand_name w n <=? cap_name w n) names.
(* everything together for one worker observation *)
Record wobs := mkWobs { wo_names : list Z; wo_tot : rvec; wo_av : rvec; wo_allocs : allocs;
                        wo_getters : list (rkey * (Z * Z * Z * Z));
                        wo_placed : list (Z * strategy); wo_profs : list (Z * rvec) }.
Definition check_wobs (o : wobs) : bool :=
  check_ledger (wo_tot o) (wo_av o) (wo_allocs o) &&
  check_getters (wo_tot o) (wo_av o) (wo_allocs o) (wo_getters o) &&
  check_held (wo_names o) (wo_allocs o) (wo_placed o) (wo_profs o) &&
  check_demand (wo_names o) (wo_tot o) (wo_placed o) (wo_profs o).
(* nothing resident => full capacity *)
Definition check_full (tot av : rvec) (a : allocs) : bool :=
  match a with [] => true | _ => false end &&
  (fix eqv (x y : rvec) : bool :=
     match x, y with
     | [], [] => true
     | (k, q) :: x', (k', q') :: y' => rkey_eqb k k' && (q =? q') && eqv x' y'
     | _, _ => false
     end) av tot.
(* two observations are the same value (refusal changes nothing / copy has the same getters /
   an operation on one object does not change another) *)
Definition check_same (p : val * val) : bool := val_eqb (fst p) (snd p).
(* the pool's task map and its workers' placed tasks agree; a task is on at most one worker *)
Definition check_pool_placed (pp : list (Z * Z)) (wp : list (Z * list Z)) : bool :=
  forallb (fun tw => match zfind (snd tw) wp with Some l => set_mem (fst tw) l | None => false end) pp &&
  forallb (fun wl => forallb (fun t => match zfind t pp with Some w => w =? fst wl | None => false end) (snd wl)) wp.
Definition check_full_all (x : rvec * rvec * allocs) : bool :=
  let '(tot, av, a) := x in check_full tot av (filter (fun cl => match snd cl with [] => false | _ => true end) a).
Definition check_res_obs (x : rvec * rvec * allocs * list (rkey * (Z * Z * Z * Z))) : bool :=
  let '(tot, av, a, g) := x in check_ledger tot av a && check_getters tot av a g.

(* end-to-end runs: per resource name (allocated, total) of a live worker through the public getters;
   idle = no task placed on the worker (and no profile loaded) *)
Definition check_usage (u : list (Z * Z)) : bool := forallb (fun at_ => (0 <=? fst at_) && (fst at_ <=? snd at_)) u.
Definition check_idle (u : list (Z * Z)) : bool := forallb (fun at_ => (fst at_ =? 0) && (0 <=? snd at_)) u.
