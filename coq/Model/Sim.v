(* The simulator as an abstract machine over the PRIMITIVE CALLS it makes
   (simulator.py: simulate / __step / __handle_event and the handlers), at the level at which
   the implementation is observed by the harness (class-level wrappers on Task.*, Worker.place_task /
   remove_task, Simulator.__step / __handle_event).

   `sim_step` consumes one observed call and either produces the next state or REJECTS it (None).
   Every guard is a test the code itself performs at that call site (is_ready_to_run before a
   placement, the fit test of the resource ledger, the state guards of Task.* translated from
   source in Gen/Src_Task.v, the min(remaining, time-to-next-event) rule of the main loop, "the
   event handled is the one at the current clock"); the properties C01-C03, C06 are NOT guards:
   they are invariants proved in Proofs/SimP*.v for every accepted log, for every scheduler.
   The tie to /repo: the harness feeds the implementation's own call log of whole simulations to
   `sim_run` inside Coq; a rejected log is a disagreement between the code and this machine. *)
From Coq Require Import ZArith Bool List.
Import ListNotations.
From Verif Require Import Model.Val Gen.Src_Task Gen.Src_Event Gen.Src_TaskGraph.
Open Scope Z_scope.

(* ---------- static description of a task, given when its graph is loaded *)
Record tinfo := mkTI { ti_parents : list Z; ti_terminal : bool }.

Record tst := mkT {
  t_dyn : task_dyn;          (* the fields Task.* read and write (translated record) *)
  t_info : tinfo;
  t_runtime : Z;             (* runtime of the strategy of the current placement *)
  t_ptime : Z;               (* placement time chosen by the scheduler *)
  t_drawn : Z;               (* runtime drawn at start (fuzzed) *)
  t_starts : Z;              (* number of successful Task.start calls *)
  t_finishes : Z             (* number of successful Task.finish calls *)
}.

Definition request := list (Z * Z).                       (* resource name -> quantity *)
Record sim := mkSim {
  s_clock : Z;
  s_tasks : Z -> option tst;
  s_dom : list Z;                                          (* ids of the tasks known so far *)
  s_res : list (Z * Z * request);                          (* (task, worker, request) resident on the live cluster *)
  s_cur : option (event_type * option Z);                  (* the event being handled *)
  s_fin : Z; s_canc : Z                                    (* counters kept by the simulator *)
}.

(* static world: worker capacities, runtime variance *)
Record world := mkWorld { w_cap : Z -> Z -> Z; w_variance : Z }.

Definition upd (f : Z -> option tst) (k : Z) (v : tst) : Z -> option tst :=
  fun x => if x =? k then Some v else f x.

Definition set_dyn (t : tst) (d : task_dyn) : tst :=
  mkT d (t_info t) (t_runtime t) (t_ptime t) (t_drawn t) (t_starts t) (t_finishes t).

Fixpoint qty (req : request) (r : Z) : Z :=
  match req with [] => 0 | (n, q) :: rest => (if n =? r then q else 0) + qty rest r end.

Fixpoint used (res : list (Z * Z * request)) (w r : Z) : Z :=
  match res with
  | [] => 0
  | (_, w', req) :: rest => (if w' =? w then qty req r else 0) + used rest w r
  end.

Definition resident (res : list (Z * Z * request)) (t : Z) : bool :=
  existsb (fun e => fst (fst e) =? t) res.
Definition resident_on (res : list (Z * Z * request)) (t w : Z) : bool :=
  existsb (fun e => (fst (fst e) =? t) && (snd (fst e) =? w)) res.
Fixpoint remove_res (res : list (Z * Z * request)) (t : Z) : list (Z * Z * request) :=
  match res with
  | [] => []
  | e :: rest => if fst (fst e) =? t then rest else e :: remove_res rest t
  end.

(* the fit test of the ledger for `any`-id requests: every requested name has room *)
Definition fits (W : world) (res : list (Z * Z * request)) (w : Z) (req : request) : bool :=
  forallb (fun nq => used res w (fst nq) + qty req (fst nq) <=? w_cap W w (fst nq)) req
  && forallb (fun nq => 0 <=? snd nq) req.

Definition st_of (s : sim) (t : Z) : option task_state :=
  match s_tasks s t with Some x => Some (t_state (t_dyn x)) | None => None end.

Definition complete (s : sim) (p : Z) : bool :=
  match s_tasks s p with Some x => task_is_complete (t_dyn x) | None => false end.

(* Task.is_ready_to_run: parents complete (any for a terminal task) and SCHEDULED / PREEMPTED *)
Definition parents_ok (s : sim) (x : tst) : bool :=
  if ti_terminal (t_info x) then existsb (complete s) (ti_parents (t_info x))
  else forallb (complete s) (ti_parents (t_info x)).
(* the readiness test itself is the one TRANSLATED FROM SOURCE (Gen/Src_TaskGraph.is_ready_to_run, regenerated from
   workload/tasks.py on every run) applied to the machine's task table; `parents_ok` above is what the proofs need from it
   (Proofs/SimP.v: is_ready_spec — a source edit that weakens the test breaks that lemma and every theorem after it) *)
Definition state_of (s : sim) (p : Z) : task_state :=
  match s_tasks s p with Some y => t_state (t_dyn y) | None => TS_VIRTUAL end.
Definition is_ready (s : sim) (x : tst) : bool :=
  is_ready_to_run (complete s) (state_of s) (ti_terminal (t_info x)) (ti_parents (t_info x)) (t_state (t_dyn x)).

(* Task.remaining_time as the main loop reads it for a placed task *)
Definition rem_of (s : sim) (t : Z) : Z :=
  match s_tasks s t with Some x => t_remaining_time (t_dyn x) | None => 0 end.
Fixpoint min_rem (s : sim) (res : list (Z * Z * request)) : option Z :=
  match res with
  | [] => None
  | (t, _, _) :: rest =>
      match min_rem s rest with None => Some (rem_of s t) | Some m => Some (Z.min (rem_of s t) m) end
  end.

(* Worker.step / Task.step applied to every resident task (source-translated task_step) *)
Fixpoint step_tasks (f : Z -> option tst) (res : list (Z * Z * request)) (now d : Z) : option (Z -> option tst) :=
  match res with
  | [] => Some f
  | (t, _, _) :: rest =>
      match f t with
      | None => None
      | Some x =>
          match task_step (t_dyn x) now d with
          | Ok (dy, _) => step_tasks (upd f t (set_dyn x dy)) rest now d
          | Err _ => None
          end
      end
  end.

Definition running (s : sim) (t : Z) : bool :=
  match s_tasks s t with Some x => task_state_eqb (t_state (t_dyn x)) TS_RUNNING | None => false end.
(* at the end of a handler nothing is half-done: every task on a worker is RUNNING and every
   RUNNING task is on a worker (place+start and remove+finish happen inside one handler) *)
Definition quiescent_ok (s : sim) : bool :=
  forallb (fun e => running s (fst (fst e))) (s_res s) &&
  forallb (fun t => negb (running s t) || resident (s_res s) t) (s_dom s).

Inductive ev :=
| EGraph (ts : list (Z * tinfo * Z * Z))        (* tasks of a newly loaded graph: id, info, release, deadline *)
| EStep (d next : Z)                            (* Simulator.__step(d); next = time of the next pending event *)
| EHandle (ty : event_type) (time : Z) (t : option Z)
| EHandled
| ERelease (t time : Z)
| ESchedule (t time ptime runtime : Z)
| EUnschedule (t time : Z)
| EPlace (t w : Z) (req : request)              (* Worker.place_task succeeded on a live worker *)
| EStart (t time draw : Z)
| ERemove (t w : Z)
| EFinish (t : Z)
| ECancel (t time : Z).

Definition cur_is (s : sim) (ty : event_type) (t : option Z) : bool :=
  match s_cur s with
  | Some (ty', t') => event_type_eqb ty ty' &&
                      match t, t' with Some a, Some b => a =? b | None, _ => true | Some _, None => false end
  | None => false
  end.

Definition with_tasks (s : sim) f := mkSim (s_clock s) f (s_dom s) (s_res s) (s_cur s) (s_fin s) (s_canc s).

Definition fresh (s : sim) (ts : list (Z * tinfo * Z * Z)) : bool :=
  forallb (fun e => match s_tasks s (fst (fst (fst e))) with None => true | Some _ => false end) ts.
Fixpoint add_tasks (f : Z -> option tst) (ts : list (Z * tinfo * Z * Z)) : Z -> option tst :=
  match ts with
  | [] => f
  | (id, info, rel, dl) :: rest => add_tasks (upd f id (mkT (task_init rel dl) info 0 (-1) (-1) 0 0)) rest
  end.
Fixpoint nodup_ids (ts : list (Z * tinfo * Z * Z)) : bool :=
  match ts with
  | [] => true
  | e :: rest => negb (existsb (fun e' => fst (fst (fst e')) =? fst (fst (fst e))) rest) && nodup_ids rest
  end.

Definition sim_step (W : world) (s : sim) (e : ev) : option sim :=
  match e with
  | EGraph ts =>
      if fresh s ts && nodup_ids ts then
        Some (mkSim (s_clock s) (add_tasks (s_tasks s) ts) (map (fun e => fst (fst (fst e))) ts ++ s_dom s)
                    (s_res s) (s_cur s) (s_fin s) (s_canc s))
      else None
  | EStep d next =>
      (* simulate(): step by min(min remaining time of the placed tasks, time to the next event) *)
      let until := next - s_clock s in
      let expect := match min_rem s (s_res s) with
                    | None => until
                    | Some m => if m <? until then m else until
                    end in
      match s_cur s with
      | Some _ => None
      | None =>
          if (d =? expect) && (0 <=? d) then
            match step_tasks (s_tasks s) (s_res s) (s_clock s) d with
            | Some f => Some (mkSim (s_clock s + d) f (s_dom s) (s_res s) None (s_fin s) (s_canc s))
            | None => None
            end
          else None
      end
  | EHandle ty time t =>
      match s_cur s with
      | Some _ => None
      | None => if time =? s_clock s
                then Some (mkSim (s_clock s) (s_tasks s) (s_dom s) (s_res s) (Some (ty, t)) (s_fin s)
                                 (if event_type_eqb ty TASK_CANCEL then s_canc s + 1 else s_canc s))
                else None
      end
  | EHandled =>
      match s_cur s with
      | Some _ => if quiescent_ok s
                  then Some (mkSim (s_clock s) (s_tasks s) (s_dom s) (s_res s) None (s_fin s) (s_canc s))
                  else None
      | None => None
      end
  | ERelease t time =>
      match s_tasks s t with
      | Some x =>
          if cur_is s TASK_RELEASE (Some t) && (time =? s_clock s) then
            match task_release (t_dyn x) (Some time) with
            | Ok (dy, _) => Some (with_tasks s (upd (s_tasks s) t (set_dyn x dy)))
            | Err _ => None
            end
          else None
      | None => None
      end
  | ESchedule t time ptime runtime =>
      match s_tasks s t with
      | Some x =>
          if cur_is s SCHEDULER_FINISHED None && (time =? s_clock s) && (s_clock s <=? ptime) then
            match task_schedule (t_dyn x) time runtime with
            | Ok (dy, _) =>
                Some (with_tasks s (upd (s_tasks s) t
                        (mkT dy (t_info x) runtime ptime (t_drawn x) (t_starts x) (t_finishes x))))
            | Err _ => None
            end
          else None
      | None => None
      end
  | EUnschedule t time =>
      match s_tasks s t with
      | Some x =>
          if cur_is s SCHEDULER_FINISHED None && (time =? s_clock s) then
            match task_unschedule (t_dyn x) time with
            | Ok (dy, _) => Some (with_tasks s (upd (s_tasks s) t (set_dyn x dy)))
            | Err _ => None
            end
          else None
      | None => None
      end
  | EPlace t w req =>
      match s_tasks s t with
      | Some x =>
          if cur_is s TASK_PLACEMENT (Some t) && is_ready s x && fits W (s_res s) w req && negb (resident (s_res s) t) then
            Some (mkSim (s_clock s) (s_tasks s) (s_dom s) ((t, w, req) :: s_res s) (s_cur s) (s_fin s) (s_canc s))
          else None
      | None => None
      end
  | EStart t time draw =>
      match s_tasks s t with
      | Some x =>
          (* utils.EventTime.fuzz with variance (0, v): runtime <= draw <= runtime + runtime*v/100 *)
          if cur_is s TASK_PLACEMENT (Some t) && (time =? s_clock s) && resident (s_res s) t
             && (t_runtime x <=? draw) && (100 * draw <=? 100 * t_runtime x + t_runtime x * w_variance W + 50) then
            match task_start (t_dyn x) (Some time) draw with
            | Ok (dy, _) =>
                Some (with_tasks s (upd (s_tasks s) t
                        (mkT dy (t_info x) (t_runtime x) (t_ptime x) draw (t_starts x + 1) (t_finishes x))))
            | Err _ => None
            end
          else None
      | None => None
      end
  | ERemove t w =>
      if cur_is s TASK_FINISHED (Some t) && resident_on (s_res s) t w then
        Some (mkSim (s_clock s) (s_tasks s) (s_dom s) (remove_res (s_res s) t) (s_cur s) (s_fin s) (s_canc s))
      else None
  | EFinish t =>
      match s_tasks s t with
      | Some x =>
          if cur_is s TASK_FINISHED (Some t) && negb (resident (s_res s) t) then
            match task_finish (t_dyn x) None with
            | Ok (dy, _) =>
                Some (mkSim (s_clock s)
                        (upd (s_tasks s) t (mkT dy (t_info x) (t_runtime x) (t_ptime x) (t_drawn x) (t_starts x) (t_finishes x + 1)))
                        (s_dom s) (s_res s) (s_cur s) (s_fin s + 1) (s_canc s))
            | Err _ => None
            end
          else None
      | None => None
      end
  | ECancel t time =>
      match s_tasks s t with
      | Some x =>
          if (time =? s_clock s) && negb (resident (s_res s) t) then
            match task_cancel (t_dyn x) time with
            | Ok (dy, _) => Some (with_tasks s (upd (s_tasks s) t (set_dyn x dy)))
            | Err _ => None
            end
          else None
      | None => None
      end
  end.

Definition sim_init : sim := mkSim 0 (fun _ => None) [] [] None 0 0.

(* run a log; on rejection report the index of the offending entry *)
Fixpoint sim_run (W : world) (s : sim) (l : list ev) (i : Z) : sim * option Z :=
  match l with
  | [] => (s, None)
  | e :: rest => match sim_step W s e with
                 | Some s' => sim_run W s' rest (i + 1)
                 | None => (s, Some i)
                 end
  end.

Fixpoint sim_exec (W : world) (s : sim) (l : list ev) : option sim :=
  match l with
  | [] => Some s
  | e :: rest => match sim_step W s e with Some s' => sim_exec W s' rest | None => None end
  end.

(* ---------- observation for the correspondence check *)
Definition state_code (st : task_state) : Z := task_state_value st.
Definition observe_task (s : sim) (t : Z) : val :=
  match s_tasks s t with
  | None => L []
  | Some x => L [I t; I (state_code (t_state (t_dyn x))); I (t_start_time (t_dyn x)); I (t_completion_time (t_dyn x));
                 I (t_release_time (t_dyn x))]
  end.
Definition observe (W : world) (l : list ev) : val :=
  let '(s, rej) := sim_run W sim_init l 0 in
  L [vopt I rej; I (s_clock s); vlist (observe_task s) (rev (s_dom s)); I (s_fin s); I (s_canc s);
     I (Z.of_nat (length (s_res s)))].

Definition mk_cap (caps : list (Z * list (Z * Z))) : Z -> Z -> Z :=
  fun w r => match find (fun e => fst e =? w) caps with
             | Some (_, l) => qty l r
             | None => 0
             end.
