(* C09 — reproducibility from the random seed: the inputs that the CPython runtime hides are made
   explicit, and a run's "random tape" is computed from (seed, hidden inputs) through the generator
   sites that the translator (translator/frag_repro.py -> Gen/Src_Repro.v) extracted from /repo.
   Model only; the proofs are in Proofs/ReproP.v. *)
From Coq Require Import ZArith List Bool Permutation.
Import ListNotations.
From Verif Require Import Model.Val.
Open Scope Z_scope.

(* ------------------------------------------------------------------ hidden inputs *)
Record hidden := mkHidden {
  h_entropy : nat -> Z;              (* OS entropy: unseeded generators, uuid4, os.urandom *)
  h_setorder : list Z -> list Z;     (* iteration order of a set holding these (distinct) keys: str hashes are salted per process *)
  h_clock : nat -> Z                 (* wall clock readings *)
}.
(* contract of the iteration-order oracle: a set yields each of its elements exactly once *)
Definition order_contract (h : hidden) : Prop := forall l, NoDup l -> Permutation (h_setorder h l) l.

(* ------------------------------------------------------------------ where random-looking values come from *)
Inductive source := GlobalRandom | Seeded (s : Z) | Entropy.
(* the seed expression a generator is constructed / seeded with, as written in the source *)
Inductive seed_expr :=
  | SE_flag                (* FLAGS.random_seed *)
  | SE_const (c : Z)       (* a literal *)
  | SE_arg                 (* the seed argument handed in by the caller (None -> no seed) *)
  | SE_none.               (* no seed: the runtime seeds from OS entropy *)
Definition source_of (seed : Z) (arg : option Z) (e : seed_expr) : source :=
  match e with
  | SE_flag => Seeded seed
  | SE_const c => Seeded c
  | SE_arg => match arg with Some s => Seeded s | None => Entropy end
  | SE_none => Entropy
  end.

(* which generator object a draw site reads *)
Inductive gen :=
  | G_global     (* module-level functions of `random`: the process-global generator *)
  | G_fuzz       (* EventTime._rng, one per process (class attribute) *)
  | G_policy     (* ReleasePolicy._rng, one per release-policy object *)
  | G_os.        (* uuid4 / os.urandom / numpy's unseeded legacy generator: OS entropy directly *)

Inductive role :=
  | R_draw (g : gen)              (* a value is drawn from g and reaches the run *)
  | R_ctor_fuzz (e : seed_expr)   (* `type(self)._rng = random.Random(e)` *)
  | R_other.                      (* not a generator site (or outside the claim's scope): cannot be requested *)

(* what main() does before it constructs loaders, scheduler and simulator *)
Inductive boot := BSeedGlobal (e : seed_expr).

Inductive request :=
  | RNewFuzz (site : nat)          (* first EventTime constructed: the fuzz generator is created at this site *)
  | RNewPolicy (kind : Z)          (* the loader constructs a release policy of this ReleasePolicyType value *)
  | RDraw (site : nat) (inst : nat).   (* the code at `site` draws one value (inst: which policy object, for G_policy sites) *)

Record program := mkProgram {
  p_sites : list role;                     (* by index in the audit table *)
  p_kinds : list (Z * (bool * bool));      (* ReleasePolicyType value -> (its branch of get_release_times reads self._rng,
                                              the loader hands it rng_seed) *)
  p_policy_ctor : seed_expr * seed_expr;   (* ReleasePolicy.__init__: generator when rng_seed is None / otherwise *)
  p_loader_seed : seed_expr;               (* what WorkloadLoader keeps as its rng_seed *)
  p_prefix : list boot
}.

(* ------------------------------------------------------------------ run state: positions of every generator *)
Definition cell := (source * nat)%type.
Record state := mkState {
  s_global : cell;                       (* never GlobalRandom *)
  s_fuzz : option cell;
  s_pols : list (bool * cell);           (* per policy object: (reads its generator, generator) *)
  s_epos : nat                           (* how much OS entropy has been consumed *)
}.
Definition init_state : state := mkState (Entropy, O) None [] O.   (* CPython seeds `random` from the OS at start-up *)

(* one drawn value, symbolically: which stream and which position *)
Inductive pcell := PC_prng (s : Z) (n : nat) | PC_entropy (k : nat).
Definition pcell_val (prng : Z -> nat -> Z) (h : hidden) (c : pcell) : Z :=
  match c with PC_prng s n => prng s n | PC_entropy k => h_entropy h k end.

(* draw from the global generator *)
Definition draw_global (st : state) : option (state * pcell) :=
  match s_global st with
  | (Seeded s, n) => Some (mkState (Seeded s, S n) (s_fuzz st) (s_pols st) (s_epos st), PC_prng s n)
  | (Entropy, n) => Some (mkState (Entropy, S n) (s_fuzz st) (s_pols st) (S (s_epos st)), PC_entropy (s_epos st))
  | (GlobalRandom, _) => None
  end.

(* draw from a generator object c; returns the new c *)
Definition draw_cell (st : state) (c : cell) : option (state * cell * pcell) :=
  match c with
  | (Seeded s, n) => Some (st, (Seeded s, S n), PC_prng s n)
  | (Entropy, n) => Some (mkState (s_global st) (s_fuzz st) (s_pols st) (S (s_epos st)), (Entropy, S n), PC_entropy (s_epos st))
  | (GlobalRandom, n) => match draw_global st with Some (st', v) => Some (st', (GlobalRandom, S n), v) | None => None end
  end.

Fixpoint set_nth {A} (l : list A) (i : nat) (a : A) : list A :=
  match l, i with
  | [], _ => []
  | _ :: t, O => a :: t
  | x :: t, S j => x :: set_nth t j a
  end.

Fixpoint lookupZ {A} (k : Z) (l : list (Z * A)) : option A :=
  match l with [] => None | (k', a) :: t => if k =? k' then Some a else lookupZ k t end.

Definition policy_source (p : program) (seed : Z) (passes : bool) : source :=
  let arg := if passes then match source_of seed None (p_loader_seed p) with Seeded s => Some s | _ => None end else None in
  match arg with
  | None => source_of seed None (fst (p_policy_ctor p))
  | Some s => source_of seed (Some s) (snd (p_policy_ctor p))
  end.

(* symbolic step: the state evolution and the stream positions read do not mention the hidden inputs at all;
   whether the VALUES do depends on whether a PC_entropy is produced *)
Definition pstep (p : program) (seed : Z) (st : state) (r : request) : option (state * list pcell) :=
  match r with
  | RNewFuzz i =>
      match nth_error (p_sites p) i, s_fuzz st with
      | Some (R_ctor_fuzz e), None =>
          Some (mkState (s_global st) (Some (source_of seed None e, O)) (s_pols st) (s_epos st), [])
      | _, _ => None
      end
  | RNewPolicy k =>
      match lookupZ k (p_kinds p) with
      | Some (reads, passes) =>
          Some (mkState (s_global st) (s_fuzz st) (s_pols st ++ [(reads, (policy_source p seed passes, O))]) (s_epos st), [])
      | None => None
      end
  | RDraw i inst =>
      match nth_error (p_sites p) i with
      | Some (R_draw G_global) =>
          match draw_global st with Some (st', v) => Some (st', [v]) | None => None end
      | Some (R_draw G_fuzz) =>
          match s_fuzz st with
          | Some c => match draw_cell st c with
                      | Some (st', c', v) => Some (mkState (s_global st') (Some c') (s_pols st') (s_epos st'), [v])
                      | None => None
                      end
          | None => None
          end
      | Some (R_draw G_policy) =>
          match nth_error (s_pols st) inst with
          | Some (true, c) => match draw_cell st c with
                              | Some (st', c', v) =>
                                  Some (mkState (s_global st') (s_fuzz st') (set_nth (s_pols st') inst (true, c')) (s_epos st'), [v])
                              | None => None
                              end
          | _ => None          (* no such object, or an object whose code path never reads its generator *)
          end
      | Some (R_draw G_os) =>
          Some (mkState (s_global st) (s_fuzz st) (s_pols st) (S (s_epos st)), [PC_entropy (s_epos st)])
      | _ => None
      end
  end.

Definition bstep (seed : Z) (st : state) (b : boot) : state :=
  match b with
  | BSeedGlobal e => mkState (source_of seed None e, O) (s_fuzz st) (s_pols st) (s_epos st)
  end.

Fixpoint plan_reqs (p : program) (seed : Z) (st : state) (rs : list request) : option (state * list pcell) :=
  match rs with
  | [] => Some (st, [])
  | r :: rs' =>
      match pstep p seed st r with
      | None => None
      | Some (st', cs) =>
          match plan_reqs p seed st' rs' with
          | None => None
          | Some (st'', cs') => Some (st'', cs ++ cs')
          end
      end
  end.

(* import-time requests (module bodies, default arguments), then main()'s prefix *)
Definition boot_state (p : program) (seed : Z) (imports : list request) : option (state * list pcell) :=
  match plan_reqs p seed init_state imports with
  | None => None
  | Some (st, cs) => Some (fold_left (bstep seed) (p_prefix p) st, cs)
  end.

Definition is_ctor (r : request) : bool := match r with RDraw _ _ => false | _ => true end.

(* ------------------------------------------------------------------ the run: the rest of the simulator is an arbitrary
   deterministic controller that sees only the values drawn so far and decides the next request *)
Definition controller := list Z -> option request.
Inductive outcome := Done | OutOfFuel | Invalid.

Fixpoint run_ctl (fuel : nat) (p : program) (prng : Z -> nat -> Z) (seed : Z) (h : hidden)
         (ctl : controller) (st : state) (tape : list Z) : outcome * list Z :=
  match fuel with
  | O => (OutOfFuel, tape)
  | S f =>
      match ctl tape with
      | None => (Done, tape)
      | Some r =>
          match pstep p seed st r with
          | None => (Invalid, tape)
          | Some (st', cs) => run_ctl f p prng seed h ctl st' (tape ++ map (pcell_val prng h) cs)
          end
      end
  end.

Definition run (p : program) (prng : Z -> nat -> Z) (seed : Z) (h : hidden) (imports : list request)
           (ctl : controller) (fuel : nat) : option (outcome * list Z) :=
  match boot_state p seed imports with
  | None => None
  | Some (st, cs) => Some (run_ctl fuel p prng seed h ctl st (map (pcell_val prng h) cs))
  end.

(* the tape of a fixed call sequence *)
Definition tape_reqs (p : program) (prng : Z -> nat -> Z) (seed : Z) (h : hidden) (imports rs : list request) : option (list Z) :=
  match boot_state p seed imports with
  | None => None
  | Some (st, cs) =>
      match plan_reqs p seed st rs with
      | None => None
      | Some (_, cs') => Some (map (pcell_val prng h) (cs ++ cs'))
      end
  end.
Definition plan_of (p : program) (seed : Z) (imports rs : list request) : option (list pcell) :=
  match boot_state p seed imports with
  | None => None
  | Some (st, cs) => match plan_reqs p seed st rs with None => None | Some (_, cs') => Some (cs ++ cs') end
  end.

(* ------------------------------------------------------------------ the decidable side condition on a translated program *)
Definition expr_ok (has_arg : bool) (e : seed_expr) : bool :=
  match e with SE_none => false | SE_arg => has_arg | _ => true end.
Definition role_ok (r : role) : bool :=
  match r with R_draw G_os => false | R_ctor_fuzz e => expr_ok false e | _ => true end.
Definition passes_arg (p : program) (passes : bool) : bool := passes && expr_ok false (p_loader_seed p).
Definition kind_ok (p : program) (k : Z * (bool * bool)) : bool :=
  let '(_, (reads, passes)) := k in
  negb reads ||
  (if passes_arg p passes then expr_ok true (snd (p_policy_ctor p)) else expr_ok false (fst (p_policy_ctor p))).
Definition prefix_ok (p : program) : bool :=
  match p_prefix p with [BSeedGlobal e] => expr_ok false e | _ => false end.
Definition prog_ok (p : program) : bool :=
  prefix_ok p && forallb role_ok (p_sites p) && forallb (kind_ok p) (p_kinds p).

(* ------------------------------------------------------------------ rows written in an iteration order *)
Inductive iter_discipline := ordered | set_order.
(* first occurrences, in order of appearance: what dict.fromkeys(...) iterates *)
Fixpoint dedup (l : list Z) : list Z :=
  match l with [] => [] | x :: t => x :: filter (fun y => negb (y =? x)) (dedup t) end.
Definition iterate (d : iter_discipline) (h : hidden) (names : list Z) : list Z :=
  match d with ordered => dedup names | set_order => h_setorder h (dedup names) end.
(* WORKER_POOL_UTILIZATION rows of one log instant: (pool, resource name) in the order written *)
Definition util_rows (d : iter_discipline) (h : hidden) (pools : list (Z * list Z)) : list (Z * Z) :=
  flat_map (fun pn => map (fun n => (fst pn, n)) (iterate d h (snd pn))) pools.

(* ------------------------------------------------------------------ the audit table emitted by the translator *)
Inductive aclass :=
  | C_draw (g : gen)
  | C_ctor_fuzz (e : seed_expr)
  | C_ctor_policy                (* the two constructions in ReleasePolicy.__init__; their seed expressions are p_policy_ctor *)
  | C_seeding                    (* random.seed(FLAGS.random_seed) in main() *)
  | C_import_time_unused         (* drawn while importing, value overridden by the explicit --random_seed *)
  | C_wall_measure               (* wall clock that only measures the scheduler's duration (masked field; unused with a fixed runtime) *)
  | C_wall_decision              (* wall clock that reaches a decision *)
  | C_hash_def                   (* defines __hash__ / caches hash of a seeded uuid: membership only *)
  | C_memo_key                   (* id(self) as a deepcopy memo key *)
  | C_hash_value_used            (* a hash()/id() value reaches an ordering or an output *)
  | C_iter_ordered               (* insertion-ordered container *)
  | C_iter_commutative           (* a set iterated only into an order-insensitive accumulation *)
  | C_iter_idhash                (* a set whose elements hash by their seeded uuid (integer hash, not salted) *)
  | C_iter_set_order             (* a set of strings iterated into an ordered result *)
  | C_private_gen                (* construction of / draw from a generator PRIVATE to a trace loader (Alibaba replay, bursty
                                    Clockwork, ...): outside the modelled generator program, recorded with scope false *)
  | C_unclassified.

Record asite := mkSite { a_file : Z; a_line : Z; a_class : aclass; a_scope : bool }.

(* classes that read no hidden input in the model (C_wall_measure reads the clock, but only into the field the
   property masks; C_iter_idhash relies on CPython's integer hashing being unsalted: trusted, see the claim) *)
Definition hidden_free (c : aclass) : bool :=
  match c with
  | C_draw G_os => false
  | C_ctor_fuzz e => expr_ok false e
  | C_wall_decision | C_hash_value_used | C_iter_set_order | C_unclassified => false
  | _ => true
  end.
Definition audit_ok (a : list asite) : bool := forallb (fun s => negb (a_scope s) || hidden_free (a_class s)) a.

Definition role_of (s : asite) : role :=
  if a_scope s then
    match a_class s with C_draw g => R_draw g | C_ctor_fuzz e => R_ctor_fuzz e | _ => R_other end
  else R_other.

Definition is_gen_site (s : asite) : bool := match role_of s with R_other => false | _ => true end.
(* index of the generator site (in scope) at file:line *)
Fixpoint find_site (a : list asite) (file line : Z) (i : nat) : option nat :=
  match a with
  | [] => None
  | s :: t => if (a_file s =? file) && (a_line s =? line) && is_gen_site s then Some i else find_site t file line (S i)
  end.

(* ------------------------------------------------------------------ observation functions for the S-tape stream *)
Inductive obs_req := ONewFuzz (file line : Z) | ONewPolicy (kind : Z) | ODraw (file line : Z) (inst : nat).
Fixpoint resolve (a : list asite) (os : list obs_req) : option (list request) :=
  match os with
  | [] => Some []
  | o :: t =>
      match resolve a t with
      | None => None
      | Some rs =>
          match o with
          | ONewFuzz f l => match find_site a f l O with Some i => Some (RNewFuzz i :: rs) | None => None end
          | ONewPolicy k => Some (RNewPolicy k :: rs)
          | ODraw f l inst => match find_site a f l O with Some i => Some (RDraw i inst :: rs) | None => None end
          end
      end
  end.
Definition vsource (c : cell) : val :=
  match fst c with Seeded s => L [I 1; I s] | Entropy => L [I 2; I 0] | GlobalRandom => L [I 0; I 0] end.
Definition vpcell (c : pcell) : val :=
  match c with PC_prng s n => L [I 1; I s; vnat n] | PC_entropy k => L [I 2; I 0; vnat k] end.
(* input: (seed, import-time requests, requests after main() started); output: [ok; plan; final generators] *)
Definition observe_plan (a : list asite) (p : program) (x : Z * (list obs_req * list obs_req)) : val :=
  let '(seed, (imps, rs)) := x in
  match resolve a imps, resolve a rs with
  | Some imps', Some rs' =>
      match boot_state p seed imps' with
      | None => L [I 1]
      | Some (st, cs) =>
          match plan_reqs p seed st rs' with
          | None => L [I 2]
          | Some (st', cs') =>
              L [I 0; vlist vpcell (cs ++ cs');
                 vopt vsource (s_fuzz st'); vlist (fun bc => vsource (snd bc)) (s_pols st')]
          end
      end
  | _, _ => L [I 3]
  end.

(* uuid.UUID(int=v, version=4): the variant and version bits are overwritten *)
Definition uuid4_of_bits (v : Z) : Z :=
  let v1 := Z.land v (Z.lnot (Z.shiftl 49152 48)) in      (* 0xc000 << 48 *)
  let v2 := Z.lor v1 (Z.shiftl 32768 48) in               (* 0x8000 << 48 *)
  let v3 := Z.land v2 (Z.lnot (Z.shiftl 61440 64)) in     (* 0xf000 << 64 *)
  Z.lor v3 (Z.shiftl 4 76).
(* monitor: every id is the uuid4 form of the value drawn for it from the global generator *)
Definition ids_from_draws (l : list (Z * Z)) : bool :=
  forallb (fun p => (0 <=? fst p) && (fst p <? 2 ^ 128) && (uuid4_of_bits (fst p) =? snd p)) l.
