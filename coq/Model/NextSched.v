(* The rule that decides when the scheduler runs next, or that the simulation ends
   (simulator.py __get_next_scheduler_event), as a pure function of the quantities it reads.
   Hand-written from the source; tied by the S-nextsched stream (inputs and answer of every
   call observed in whole simulations). *)
From Coq Require Import ZArith Bool List.
Import ListNotations.
From Verif Require Import Model.Val.
Open Scope Z_scope.

Definition MAXSIZE : Z := 9223372036854775807.       (* sys.maxsize *)

Record ns_in := mkNS {
  ns_now : Z; ns_freq : Z; ns_last : Z; ns_timeout : Z; ns_delay : Z; ns_worker_free : bool;
  ns_min_completion : option Z;        (* earliest expected completion among running and scheduled tasks *)
  ns_n_running : Z; ns_n_sched : Z; ns_all_rs : bool; ns_full : bool; ns_no_compat : bool;
  ns_next_release : option Z; ns_next_update : option Z; ns_queue_empty : bool }.

Inductive ns_out := NsStart (t : Z) | NsEnd (t : Z).

Definition odef (o : option Z) : Z := match o with Some x => x | None => MAXSIZE end.

Definition next_sched (i : ns_in) : ns_out :=
  let now := ns_now i in
  let start0 :=
    if ns_freq i <=? 0 then now + 1
    else let nst := ns_last i + ns_freq i in if nst <? now then now + 1 else nst in
  if ns_timeout i <=? start0 then NsEnd (ns_timeout i) else
  let mrc := odef (ns_min_completion i) + ns_delay i in
  if ns_queue_empty i && (ns_n_sched i =? 0) && (ns_n_running i =? 0) then NsEnd (now + 1)
  else if (0 <? ns_n_running i) && ns_worker_free i then
    let st := Z.max mrc now + 1 in
    if ns_timeout i <=? st then NsEnd (ns_timeout i) else NsStart st
  else if (ns_n_sched i =? 0) || ns_all_rs i || ns_full i || ns_no_compat i then
    let nrel := match ns_next_release i with Some r => r + ns_delay i | None => MAXSIZE end in
    let nupd := odef (ns_next_update i) in
    let nev := Z.min mrc (Z.min nrel nupd) in
    let adj := Z.max start0 nev in
    if negb (start0 =? adj) then (if ns_timeout i <=? adj then NsEnd (ns_timeout i) else NsStart adj)
    else NsStart start0
  else NsStart start0.

Definition v_ns_out (o : ns_out) : val := match o with NsStart t => L [I 0; I t] | NsEnd t => L [I 1; I t] end.
