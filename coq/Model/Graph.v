(* Executable model of workload/graph.py (class Graph) as the code is written:
   `_graph` / `_parent_graph` are dicts in insertion order (association lists), the
   traversals are the loops of the source with explicit fuel, exceptions are `Err` codes.
   No proofs here (Proofs/GraphP*.v). *)
From Coq Require Import ZArith List Bool.
Import ListNotations.
From Verif Require Import Model.Val.
Open Scope Z_scope.

Definition node := Z.
Definition adj := list (node * list node).

(* exceptions of the implementation *)
Definition E_VALUE : Z := 1.     (* ValueError: node not in graph / max() of an empty dict *)
Definition E_RUNTIME : Z := 2.   (* RuntimeError: "The given graph is not a DAG." *)
Definition E_KEY : Z := 3.       (* KeyError *)
Definition E_TYPE : Z := 4.      (* get_node_depth fell off its loop (returns None; the caller fails) *)
Definition E_FUEL : Z := 99.     (* the model ran out of fuel: never an answer of the implementation *)

Record graph := mkG { g_children : adj; g_parents : adj }.
Definition g_empty : graph := mkG [] [].

Fixpoint mem (x : node) (l : list node) : bool :=
  match l with [] => false | y :: l' => if x =? y then true else mem x l' end.

Fixpoint lookup {A} (k : node) (a : list (node * A)) : option A :=
  match a with
  | [] => None
  | (k', v) :: a' => if k =? k' then Some v else lookup k a'
  end.

(* d[k] = v on an insertion-ordered dict *)
Fixpoint set_key {A} (k : node) (v : A) (a : list (node * A)) : list (node * A) :=
  match a with
  | [] => [(k, v)]
  | (k', v') :: a' => if k =? k' then (k', v) :: a' else (k', v') :: set_key k v a'
  end.

(* defaultdict(list): a[k].extend(vs) *)
Fixpoint extend_key (k : node) (vs : list node) (a : adj) : adj :=
  match a with
  | [] => [(k, vs)]
  | (k', v') :: a' => if k =? k' then (k', v' ++ vs) :: a' else (k', v') :: extend_key k vs a'
  end.

Definition nodes (g : graph) : list node := map fst (g_children g).
Definition has_node (g : graph) (n : node) : bool :=
  match lookup n (g_children g) with Some _ => true | None => false end.
Definition children_of (g : graph) (n : node) : list node :=
  match lookup n (g_children g) with Some l => l | None => [] end.
Definition parents_of (g : graph) (n : node) : list node :=
  match lookup n (g_parents g) with Some l => l | None => [] end.

(* graph.py:39-54 *)
Definition add_child (g : graph) (n c : node) : result graph :=
  if has_node g n then
    Ok (mkG (extend_key c [] (extend_key n [c] (g_children g)))
            (extend_key c [n] (g_parents g)))
  else Err E_VALUE.
(* NOTE on the parent dict: `_parent_graph` is a defaultdict that is only ever read by key
   (`get_parents`, which inserts an empty list on a miss); its key order is never observed, so
   the insertion-on-read is not modelled: `parents_of` defaults to []. *)

Fixpoint add_children (g : graph) (n : node) (cs : list node) : result graph :=
  match cs with
  | [] => Ok g
  | c :: cs' => bind (add_child g n c) (fun g' => add_children g' n cs')
  end.

(* graph.py:28-37 *)
Definition add_node (g : graph) (n : node) (cs : list node) : result graph :=
  add_children (mkG (extend_key n [] (g_children g)) (g_parents g)) n cs.

(* graph.py:21-26, the constructor applied to a mapping given in its iteration order *)
Fixpoint of_mapping_from (g : graph) (m : adj) : result graph :=
  match m with
  | [] => Ok g
  | (n, cs) :: m' => bind (add_node g n cs) (fun g' => of_mapping_from g' m')
  end.
Definition of_mapping (m : adj) : result graph := of_mapping_from g_empty m.

(* graph.py:56-88 *)
Definition get_children (g : graph) (n : node) : result (list node) :=
  match lookup n (g_children g) with Some l => Ok l | None => Err E_VALUE end.
Definition get_parents (g : graph) (n : node) : result (list node) :=
  if has_node g n then Ok (parents_of g n) else Err E_VALUE.

(* graph.py:90-100, 150-165 *)
Definition get_sources (g : graph) : list node :=
  filter (fun n => match parents_of g n with [] => true | _ => false end) (nodes g).
Definition is_source (g : graph) (n : node) : result bool :=
  bind (get_parents g n) (fun ps => Ok (match ps with [] => true | _ => false end)).
(* TaskGraph.get_sink_tasks (tasks.py) for task graphs of a single timestamp: no children *)
Definition get_sinks (g : graph) : list node :=
  filter (fun n => match children_of g n with [] => true | _ => false end) (nodes g).
Definition get_edges (g : graph) : list (node * node) :=
  flat_map (fun p => map (fun c => (fst p, c)) (snd p)) (g_children g).
Definition num_edges (g : graph) : nat :=
  fold_right (fun p s => (length (snd p) + s)%nat) 0%nat (g_children g).

(* ---------------------------------------------------------------- depth_first
   graph.py:225-241.  A generator: the observation is (nodes yielded, status); status 0 is a
   normal end, otherwise the exception that ended the iteration.  `stack` has the right end
   of the deque first; `acc` is the visited set = the nodes yielded so far, latest first. *)
Fixpoint dfs_loop (fuel : nat) (g : graph) (stack acc : list node) : list node * Z :=
  match fuel with
  | O => (rev acc, E_FUEL)
  | S f =>
      match stack with
      | [] => (rev acc, 0)
      | n :: rest =>
          if mem n acc then dfs_loop f g rest acc
          else match get_children g n with
               | Err c => (rev (n :: acc), c)
               | Ok cs => dfs_loop f g (rev (filter (fun c => negb (mem c (n :: acc))) cs) ++ rest) (n :: acc)
               end
      end
  end.
Definition dfs_start (g : graph) (start : option node) : list node :=
  match start with None => rev (get_sources g) | Some n => [n] end.
Definition dfs_fuel (g : graph) (stack : list node) : nat := S (length stack + num_edges g).
Definition depth_first (g : graph) (start : option node) : list node * Z :=
  dfs_loop (dfs_fuel g (dfs_start g start)) g (dfs_start g start) [].

(* ---------------------------------------------------------------- topological_sort
   graph.py:243-273 *)
Inductive mark := Unmarked | Temporary | Permanent.
Definition marks := list (node * mark).
Definition tstate := (marks * list node)%type.   (* node_marks, topological_sort (post-order) *)
Definition is_perm (m : mark) : bool := match m with Permanent => true | _ => false end.
Definition is_unmarked (m : mark) : bool := match m with Unmarked => true | _ => false end.

Fixpoint visit_children (v : node -> tstate -> result tstate) (cs : list node) (s : tstate) : result tstate :=
  match cs with
  | [] => Ok s
  | c :: cs' => bind (v c s) (visit_children v cs')
  end.

Fixpoint visit (fuel : nat) (g : graph) (n : node) (s : tstate) : result tstate :=
  match fuel with
  | O => Err E_FUEL
  | S f =>
      match lookup n (fst s) with
      | None => Err E_KEY
      | Some Permanent => Ok s
      | Some Temporary => Err E_RUNTIME
      | Some Unmarked =>
          bind (get_children g n) (fun cs =>
          bind (visit_children (visit f g) cs (set_key n Temporary (fst s), snd s)) (fun s2 =>
          Ok (set_key n Permanent (fst s2), snd s2 ++ [n])))
      end
  end.

(* `for node, mark in node_marks.items(): if mark == "Unmarked": visit(node)`; the items view is
   live, so the mark tested is the current one *)
Fixpoint topo_pass (f : nat) (g : graph) (ns : list node) (s : tstate) : result tstate :=
  match ns with
  | [] => Ok s
  | n :: ns' =>
      match lookup n (fst s) with
      | None => Err E_KEY
      | Some Unmarked => bind (visit f g n s) (topo_pass f g ns')
      | Some _ => topo_pass f g ns' s
      end
  end.
Definition all_perm (m : marks) : bool := forallb (fun p => is_perm (snd p)) m.
(* `while any(mark != "Permanent" ...)` *)
Fixpoint topo_while (k f : nat) (g : graph) (s : tstate) : result tstate :=
  match k with
  | O => Err E_FUEL
  | S k' => if all_perm (fst s) then Ok s
            else bind (topo_pass f g (map fst (fst s)) s) (topo_while k' f g)
  end.
Definition init_marks (g : graph) : marks := map (fun n => (n, Unmarked)) (nodes g).
Definition topo_fuel (g : graph) : nat := S (length (nodes g)).
Definition topological_sort (g : graph) : result (list node) :=
  bind (topo_while 2 (topo_fuel g) g (init_marks g, [])) (fun s => Ok (rev (snd s))).

(* ---------------------------------------------------------------- get_node_depth
   graph.py:122-148; `func` is max (default) or min *)
Definition dget (d : list (node * Z)) (n : node) : Z :=
  match lookup n d with Some x => x | None => 1 end.          (* defaultdict(lambda: 1) *)
Definition fold_mm (is_max : bool) (x : Z) (l : list Z) : Z :=
  fold_left (fun a b => if is_max then Z.max a b else Z.min a b) l x.
Fixpoint depth_loop (g : graph) (is_max : bool) (target : node) (order : list node)
         (d : list (node * Z)) : result Z :=
  match order with
  | [] => Err E_TYPE
  | x :: rest =>
      bind (get_parents g x) (fun ps =>
        let d' := match ps with
                  | [] => d
                  | p :: ps' => set_key x (fold_mm is_max (dget d p) (map (dget d) ps') + 1) d
                  end in
        if target =? x then Ok (dget d' target) else depth_loop g is_max target rest d')
  end.
Definition get_node_depth (g : graph) (n : node) (is_max : bool) : result Z :=
  if has_node g n then bind (topological_sort g) (fun l => depth_loop g is_max n l [])
  else Err E_VALUE.

(* ---------------------------------------------------------------- are_dependent
   graph.py:312-345 *)
Definition check_dependency (g : graph) (top bottom : node) : result bool :=
  let '(l, st) := depth_first g (Some top) in
  if mem bottom l then Ok true else if st =? 0 then Ok false else Err st.
Definition are_dependent (g : graph) (n1 n2 : node) : result bool :=
  bind (get_node_depth g n1 true) (fun d1 =>
  bind (get_node_depth g n2 true) (fun d2 =>
  if d1 =? d2 then Ok false
  else if d1 >? d2 then check_dependency g n2 n1
  else check_dependency g n1 n2)).

(* ---------------------------------------------------------------- breadth_first
   graph.py:189-223.  `start = None`: the no-argument form.  (`if node:` is the truth value of
   the start node; every node object used by the simulator is truthy.) *)
Fixpoint all_dep_visited (g : graph) (s : node) (visited ps : list node) : result bool :=
  match ps with
  | [] => Ok true
  | p :: ps' =>
      bind (are_dependent g s p) (fun d =>
        if d && negb (mem p visited) then Ok false else all_dep_visited g s visited ps')
  end.
Fixpoint bfs_children (g : graph) (start : option node) (visited cs : list node) : result (list node) :=
  match cs with
  | [] => Ok []
  | c :: cs' =>
      bind (get_parents g c) (fun ps =>
      bind (match start with
            | None => Ok (forallb (fun p => mem p visited) ps)
            | Some s => all_dep_visited g s visited ps
            end) (fun b =>
      bind (bfs_children g start visited cs') (fun r => Ok (if b then c :: r else r))))
  end.
Fixpoint bfs_loop (fuel : nat) (g : graph) (start : option node) (queue visited acc : list node)
  : list node * Z :=
  match fuel with
  | O => (rev acc, E_FUEL)
  | S f =>
      match queue with
      | [] => (rev acc, 0)
      | cur :: rest =>
          match get_children g cur with
          | Err c => (rev acc, c)
          | Ok cs =>
              match bfs_children g start (cur :: visited) cs with
              | Err c => (rev acc, c)
              | Ok app => bfs_loop f g start (rest ++ app) (cur :: visited) (cur :: acc)
              end
          end
      end
  end.
Definition bfs_fuel (g : graph) : nat := S (length (nodes g) + num_edges g).
Definition breadth_first_fuel (fuel : nat) (g : graph) (start : option node) : list node * Z :=
  bfs_loop fuel g start (match start with None => get_sources g | Some n => [n] end) [] [].
Definition breadth_first (g : graph) (start : option node) : list node * Z :=
  breadth_first_fuel (bfs_fuel g) g start.

(* ---------------------------------------------------------------- get_longest_path
   graph.py:275-310; `w` is the weights callback *)
Definition lp_state := (list (node * Z) * list (node * node))%type.   (* longest_path_length, predecessor *)
Definition lp_relax (w : node -> Z) (n : node) (st : result lp_state) (c : node) : result lp_state :=
  bind st (fun st =>
  match lookup c (fst st), lookup n (fst st) with
  | Some lc, Some ln =>
      if lc <=? ln + w c then Ok (set_key c (ln + w c) (fst st), set_key c n (snd st)) else Ok st
  | _, _ => Err E_KEY
  end).
Definition lp_node (w : node -> Z) (g : graph) (st : result lp_state) (n : node) : result lp_state :=
  bind st (fun st0 => bind (get_children g n) (fun cs => fold_left (lp_relax w n) cs (Ok st0))).
(* max(d.items(), key=lambda val: val[1]): the first maximal entry *)
Fixpoint first_max (best : node * Z) (l : list (node * Z)) : node * Z :=
  match l with
  | [] => best
  | x :: l' => if snd x >? snd best then first_max x l' else first_max best l'
  end.
Fixpoint lp_back (fuel : nat) (w : node -> Z) (pred : list (node * node)) (cur : node) (cum : Z)
         (path : list node) : result (list node) :=
  match fuel with
  | O => Err E_FUEL
  | S f =>
      if cum >? 0 then
        match lookup cur pred with
        | None => Err E_KEY
        | Some p => lp_back f w pred p (cum - w p) (path ++ [p])
        end
      else Ok (rev path)
  end.
Definition longest_path_w (w : node -> Z) (g : graph) : result (list node) :=
  bind (topological_sort g) (fun order =>
  bind (fold_left (lp_node w g) order (@Ok lp_state (map (fun n => (n, w n)) (nodes g), []))) (fun st =>
  match fst st with
  | [] => Err E_VALUE
  | x :: l => let '(s, cum) := first_max x l in
              lp_back (S (length (nodes g))) w (snd st) s (cum - w s) [s]
  end)).
(* weights=None: 1 for a source, 2 otherwise *)
Definition default_weight (g : graph) (n : node) : Z :=
  match parents_of g n with [] => 1 | _ => 2 end.
Definition get_longest_path (g : graph) (w : option (node -> Z)) : result (list node) :=
  longest_path_w (match w with Some f => f | None => default_weight g end) g.
(* critical_path_runtime of TaskGraph (tasks.py) / JobGraph (jobs.py): the weights summed over
   the longest path *)
Definition sum_w (w : node -> Z) (l : list node) : Z := fold_right (fun n s => w n + s) 0 l.
Definition critical_path (w : node -> Z) (g : graph) : result Z :=
  bind (longest_path_w w g) (fun p => Ok (sum_w w p)).

(* ================================================================ specification side:
   independent brute-force definitions used by the monitors (no fuel subtleties: plain
   bounded iteration over the node list) *)
Definition edgeb (g : graph) (u v : node) : bool := mem v (children_of g u).
(* nodes reachable from the set `s` in <= k steps (k = number of nodes is the closure) *)
Fixpoint reach_iter (k : nat) (g : graph) (s : list node) : list node :=
  match k with
  | O => s
  | S k' => reach_iter k' g
              (s ++ filter (fun v => negb (mem v s) && existsb (fun u => edgeb g u v) s) (nodes g))
  end.
Definition reach_set (g : graph) (n : node) : list node := reach_iter (length (nodes g)) g [n].
Definition reachb (g : graph) (u v : node) : bool := mem v (reach_set g u).
Definition reachpb (g : graph) (u v : node) : bool :=      (* at least one edge *)
  existsb (fun c => reachb g c v) (children_of g u).
Fixpoint nodupb (l : list node) : bool :=
  match l with [] => true | x :: l' => negb (mem x l') && nodupb l' end.
Definition same_set (a b : list node) : bool :=
  forallb (fun x => mem x b) a && forallb (fun x => mem x a) b.
Fixpoint index_of (x : node) (l : list node) : nat :=
  match l with [] => O | y :: l' => if x =? y then O else S (index_of x l') end.
Fixpoint is_path (g : graph) (p : list node) : bool :=
  match p with
  | [] => false
  | [x] => has_node g x
  | x :: ((y :: _) as p') => edgeb g x y && is_path g p'
  end.
(* maximum weight of a path that starts at n, by plain recursion over the graph with fuel
   (exponential path enumeration: the brute-force reference) *)
Fixpoint best_from (k : nat) (w : node -> Z) (g : graph) (n : node) : Z :=
  match k with
  | O => w n
  | S k' => w n + fold_left (fun a c => Z.max a (best_from k' w g c)) (children_of g n) 0
  end.
Definition best_path_weight (w : node -> Z) (g : graph) : Z :=
  fold_left (fun a n => Z.max a (best_from (length (nodes g)) w g n)) (nodes g) 0.

(* monitors on the implementation's outputs *)
Definition mon_topo (g : graph) (l : list node) : bool :=
  nodupb l && same_set l (nodes g) &&
  forallb (fun e => Nat.ltb (index_of (fst e) l) (index_of (snd e) l)) (get_edges g).
Definition mon_dfs (g : graph) (n : node) (l : list node) : bool :=
  nodupb l && same_set l (reach_set g n).
Definition mon_bfs (g : graph) (l : list node) : bool :=
  nodupb l && same_set l (nodes g) &&
  forallb (fun e => Nat.ltb (index_of (fst e) l) (index_of (snd e) l)) (get_edges g).
Definition mon_dependent (g : graph) (u v : node) (b : bool) : bool :=
  Bool.eqb b (reachpb g u v || reachpb g v u).
Definition mon_longest (w : node -> Z) (g : graph) (p : list node) : bool :=
  is_path g p &&
  match p with [] => false | x :: _ => match parents_of g x with [] => true | _ => false end end &&
  match children_of g (last p 0) with [] => true | _ => false end &&
  (sum_w w p =? best_path_weight w g).

(* ================================================================ observation function of
   the correspondence stream S-graph *)
Record gcase := mkCase {
  gc_map : adj;                    (* the mapping given to Graph(...) in iteration order *)
  gc_w : list (node * Z);          (* weights callback as a table (default 1) *)
  gc_nodes : list node;            (* nodes queried one by one *)
  gc_pairs : list (node * node);   (* pairs given to are_dependent *)
  gc_fuel : nat                    (* fuel of the breadth-first loops *)
}.
Definition vgen (r : list node * Z) : val := L [vlist I (fst r); I (snd r)].
Definition vresl (r : result (list node)) : val := vres (vlist I) r.
Definition w_of (t : list (node * Z)) (n : node) : Z := match lookup n t with Some x => x | None => 1 end.
Definition g_observe (c : gcase) : val :=
  match of_mapping (gc_map c) with
  | Err e => L [I 1; I e]
  | Ok g =>
      let w := w_of (gc_w c) in
      L [ I 0; vlist I (nodes g);
          vlist (fun e => L [I (fst e); I (snd e)]) (get_edges g);
          vlist I (get_sources g); vlist I (get_sinks g);
          vresl (topological_sort g);
          vgen (breadth_first_fuel (gc_fuel c) g None);
          vgen (depth_first g None);
          vresl (get_longest_path g None);
          vresl (longest_path_w w g);
          vres I (critical_path w g);
          L (map (fun n => L [ vresl (get_children g n); vresl (get_parents g n);
                               vres vbool (is_source g n);
                               vres I (get_node_depth g n true); vres I (get_node_depth g n false);
                               vgen (depth_first g (Some n));
                               vgen (breadth_first_fuel (gc_fuel c) g (Some n)) ]) (gc_nodes c));
          L (map (fun p => vres vbool (are_dependent g (fst p) (snd p))) (gc_pairs c)) ]
  end.

(* the wrappers of TaskGraph / JobGraph (tied by correspondence only) *)
Definition g_observe_wrappers (p : adj * list (node * Z)) : val :=
  match of_mapping (fst p) with
  | Err e => L [I 1; I e]
  | Ok g =>
      let w := w_of (snd p) in
      L [ vres I (critical_path w g);          (* JobGraph.critical_path_runtime *)
          vres I (critical_path w g);          (* JobGraph.completion_time (no slo) *)
          vres I (critical_path w g);          (* TaskGraph.critical_path_runtime *)
          vgen (breadth_first g None);         (* JobGraph.breadth_first *)
          vlist I (get_sources g);             (* JobGraph.get_sources *)
          vlist I (get_sources g);             (* TaskGraph.get_source_tasks *)
          vlist I (get_sinks g);               (* TaskGraph.get_sink_tasks *)
          vresl (topological_sort g);          (* TaskGraph.topological_sort *)
          vgen (depth_first g None) ]          (* TaskGraph.depth_first *)
  end.

(* ================================================================ monitors: the decidable
   definitions applied to the IMPLEMENTATION's outputs.  They use only `of_mapping`, the
   children lists and brute force (closure iteration, path enumeration, n rounds of
   relaxation); none of the routines above. *)
Definition preds (g : graph) (n : node) : list node := filter (fun u => edgeb g u n) (nodes g).
Definition cyclicb (g : graph) : bool := existsb (fun n => reachpb g n n) (nodes g).
(* length of the longest chain of edges that ends in n, counted in nodes *)
Fixpoint depth_ref (k : nat) (g : graph) (n : node) : Z :=
  match k with
  | O => 1
  | S k' => 1 + fold_left (fun a p => Z.max a (depth_ref k' g p)) (preds g n) 0
  end.
(* n rounds of relaxation over a table: after k rounds the entry of a node is the maximum
   weight of a path that starts there and has at most k+1 nodes *)
Fixpoint relax_rounds (k : nat) (w : node -> Z) (g : graph) (d : list (node * Z)) : list (node * Z) :=
  match k with
  | O => d
  | S k' => relax_rounds k' w g
              (map (fun n => (n, w n + fold_left (fun a c => Z.max a (match lookup c d with Some x => x | None => 0 end))
                                                 (children_of g n) 0)) (nodes g))
  end.
Definition best_weight_relax (w : node -> Z) (g : graph) : Z :=
  fold_left (fun a p => Z.max a (snd p))
            (relax_rounds (length (nodes g)) w g (map (fun n => (n, w n)) (nodes g))) 0.
Definition mon_longest_by (enum : bool) (w : node -> Z) (g : graph) (p : list node) : bool :=
  is_path g p &&
  match p with [] => false | x :: _ => match preds g x with [] => true | _ => false end end &&
  match children_of g (last p 0) with [] => true | _ => false end &&
  (sum_w w p =? (if enum then best_path_weight w g else best_weight_relax w g)).

Inductive mobs :=
| MTopo (m : adj) (l : list node)
| MTopoErr (m : adj) (code : Z)
| MBfs (m : adj) (l : list node) (st : Z)
| MDfs (m : adj) (n : node) (l : list node) (st : Z)
| MDepth (m : adj) (n : node) (d : Z)
| MDep (m : adj) (u v : node) (tag b : Z)
| MLong (m : adj) (w : list (node * Z)) (p : list node) (enum : bool)
| MLongDefault (m : adj) (p : list node) (enum : bool)
| MCrit (m : adj) (w : list (node * Z)) (z : Z).

Definition mon (o : mobs) : bool :=
  let with_g (m : adj) (f : graph -> bool) := match of_mapping m with Ok g => f g | Err _ => false end in
  match o with
  | MTopo m l => with_g m (fun g => negb (cyclicb g) && mon_topo g l)
  | MTopoErr m c => with_g m (fun g => (c =? E_RUNTIME) && cyclicb g)
  | MBfs m l st => with_g m (fun g => (st =? 0) && mon_bfs g l)
  | MDfs m n l st => with_g m (fun g => (st =? 0) && mon_dfs g n l)
  | MDepth m n d => with_g m (fun g => d =? depth_ref (length (nodes g)) g n)
  | MDep m u v tag b => with_g m (fun g => (tag =? 0) && mon_dependent g u v (b =? 1))
  | MLong m w p enum => with_g m (fun g => mon_longest_by enum (w_of w) g p)
  | MLongDefault m p enum =>
      with_g m (fun g => mon_longest_by enum (fun n => match preds g n with [] => 1 | _ => 2 end) g p)
  | MCrit m w z => with_g m (fun g => z =? best_weight_relax (w_of w) g)
  end.

(* ---------------------------------------------------------------- remove (graph.py:179-187;
   only used by TaskGraph.clean, which the simulator never calls).  The node is deleted from
   `_graph` and from the parent lists of its children, but NOT from the children lists of its
   parents. *)
Fixpoint remove_first (x : node) (l : list node) : option (list node) :=
  match l with
  | [] => None                                   (* list.remove raises ValueError *)
  | y :: l' => if x =? y then Some l' else match remove_first x l' with Some r => Some (y :: r) | None => None end
  end.
Fixpoint del_key {A} (k : node) (a : list (node * A)) : list (node * A) :=
  match a with
  | [] => []
  | (k', v) :: a' => if k =? k' then a' else (k', v) :: del_key k a'
  end.
Definition remove_node (g : graph) (n : node) : result graph :=
  bind (get_children g n) (fun cs =>
  bind (fold_left (fun (r : result adj) c =>
                     bind r (fun par => match remove_first n (match lookup c par with Some l => l | None => [] end) with
                                        | Some l' => Ok (set_key c l' par)
                                        | None => Err E_VALUE
                                        end)) cs (Ok (g_parents g))) (fun par =>
  Ok (mkG (del_key n (g_children g)) par))).
Definition g_observe_remove (p : adj * node) : val :=
  match of_mapping (fst p) with
  | Err e => L [I 1; I e]
  | Ok g0 =>
      match remove_node g0 (snd p) with
      | Err e => L [I 1; I e]
      | Ok g => L [ I 0; vlist I (nodes g); vlist (fun e => L [I (fst e); I (snd e)]) (get_edges g);
                    vlist I (get_sources g); vresl (topological_sort g);
                    vgen (breadth_first g None); vgen (depth_first g None) ]
      end
  end.

(* all the observations of one generated case, checked together (the mapping is written once) *)
Inductive sobs :=
| STopo (l : list node)
| STopoErr (code : Z)
| SBfs (l : list node) (st : Z)
| SDfs (n : node) (l : list node) (st : Z)
| SDepth (n : node) (d : Z)
| SDep (u v : node) (tag b : Z)
| SLong (p : list node) (enum : bool)
| SLongDefault (p : list node) (enum : bool)
| SCrit (z : Z).
Definition to_mobs (m : adj) (w : list (node * Z)) (s : sobs) : mobs :=
  match s with
  | STopo l => MTopo m l
  | STopoErr c => MTopoErr m c
  | SBfs l st => MBfs m l st
  | SDfs n l st => MDfs m n l st
  | SDepth n d => MDepth m n d
  | SDep u v tag b => MDep m u v tag b
  | SLong p enum => MLong m w p enum
  | SLongDefault p enum => MLongDefault m p enum
  | SCrit z => MCrit m w z
  end.
Definition mon_case (c : adj * list (node * Z) * list sobs) : bool :=
  let '(m, w, l) := c in forallb (fun s => mon (to_mobs m w s)) l.

(* JobGraph with probability-0 jobs (weight 0 in the path search, runtime still summed) and slo's:
   critical_path_runtime sums the runtimes over the path, completion_time sums slo-or-runtime *)
Definition g_observe_jobgraph (p : adj * list (node * Z) * list node * list (node * Z)) : val :=
  let '(m, rt, p0, slo) := p in
  match of_mapping m with
  | Err e => L [I 1; I e]
  | Ok g =>
      let r := w_of rt in
      let w0 := fun n => if mem n p0 then 0 else r n in
      let s := fun n => match lookup n slo with Some x => x | None => r n end in
      L [ vres I (bind (longest_path_w w0 g) (fun path => Ok (sum_w r path)));
          vres I (bind (longest_path_w w0 g) (fun path => Ok (sum_w s path)));
          vresl (longest_path_w w0 g) ]
  end.

(* ---------------------------------------------------------------- histories on ONE live graph
   object: public mutators interleaved with queries.  Every routine above is a pure function
   of the current adjacency, so the answer expected after a mutation is the routine applied
   to the graph as it is at that moment (nothing may be remembered from earlier queries). *)
Inductive hop :=
| HAddNode (n : node) (cs : list node)     (* add_node / TaskGraph.add_task / JobGraph.add_job *)
| HAddChild (n c : node)                   (* add_child *)
| HRemove (n : node)                       (* remove *)
| HNodes | HSources
| HTopo
| HDepth (n : node) (is_max : bool)
| HDep (u v : node)
| HLong | HLongW
| HBfs (start : option node)
| HDfs (start : option node).
Definition h_mut (r : result graph) (g : graph) : graph * val :=
  match r with Ok g' => (g', L [I 0]) | Err e => (g, L [I 1; I e]) end.
Definition h_step (w : node -> Z) (g : graph) (o : hop) : graph * val :=
  match o with
  | HAddNode n cs => h_mut (add_node g n cs) g
  | HAddChild n c => h_mut (add_child g n c) g
  | HRemove n => h_mut (remove_node g n) g
  | HNodes => (g, vlist I (nodes g))
  | HSources => (g, vlist I (get_sources g))
  | HTopo => (g, vresl (topological_sort g))
  | HDepth n mx => (g, vres I (get_node_depth g n mx))
  | HDep u v => (g, vres vbool (are_dependent g u v))
  | HLong => (g, vresl (get_longest_path g None))
  | HLongW => (g, vresl (longest_path_w w g))
  | HBfs s => (g, vgen (breadth_first_fuel 400 g s))
  | HDfs s => (g, vgen (depth_first g s))
  end.
Fixpoint h_run (w : node -> Z) (g : graph) (ops : list hop) : list val :=
  match ops with
  | [] => []
  | o :: r => let '(g', v) := h_step w g o in v :: h_run w g' r
  end.
Definition g_observe_history (c : adj * list (node * Z) * list hop) : val :=
  let '(m, wt, ops) := c in
  match of_mapping m with
  | Err e => L [I 1; I e]
  | Ok g => L (h_run (w_of wt) g ops)
  end.
