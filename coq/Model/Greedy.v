(* The greedy policies EDF / FIFO / LSF (schedulers/{edf,fifo,lsf}_scheduler.py) as one executable
   function over an abstract worker ledger, plus a simple concrete ledger (named integer resources,
   `any`-id requests) so that the model can be run against the real classes.

   What follows the code, statement by statement:
     schedule():   offered tasks -> copy()/deepcopy() of the pools -> stable sort by the policy's key
                   -> for each task: admission test (cancel) | first fit over strategies x pools on the
                   virtual pools | unplaced
     WorkerPool.can_accomodate_strategy = any worker can;  WorkerPool.place_task(task, strategy) =
                   first worker (dict order) that can, nothing if none
   The sort keys, the admission comparison and the copy mode are TRANSLATED from the source
   (Gen/Src_Greedy.v); the documented keys are written here by hand (the doc_ definitions) as the independent
   reference.  No proofs in this file. *)
From Coq Require Import ZArith Bool List.
Import ListNotations.
From Verif Require Import Model.Val Gen.Src_Greedy.
Open Scope Z_scope.

(* ---------- Python tuple order on keys (equal lengths: lexicographic; a proper prefix is smaller) *)
Fixpoint lex_ltb (a b : list Z) : bool :=
  match a, b with
  | [], [] => false
  | [], _ :: _ => true
  | _ :: _, [] => false
  | x :: a', y :: b' => (x <? y) || ((x =? y) && lex_ltb a' b')
  end.
Definition lex_leb (a b : list Z) : bool := negb (lex_ltb b a).

(* ---------- sorted(xs, key=k): the stable sort.  x is inserted before the first element that is
   not strictly smaller, and elements are inserted from the right, so equal keys keep input order *)
Section Sort.
  Context {A : Type}.
  Variable key : A -> list Z.
  Fixpoint insert_by (x : A) (l : list A) : list A :=
    match l with
    | [] => [x]
    | y :: r => if lex_ltb (key y) (key x) then y :: insert_by x r else x :: y :: r
    end.
  Fixpoint sort_by (l : list A) : list A :=
    match l with
    | [] => []
    | x :: r => insert_by x (sort_by r)
    end.
End Sort.

(* ---------- the abstract worker ledger *)
Record ledger := mkLedger {
  wk : Type;                         (* a Worker: its resources and what is allocated *)
  st : Type;                         (* an ExecutionStrategy *)
  can : wk -> st -> bool;            (* Worker.can_accomodate_strategy *)
  wplace : wk -> Z -> st -> wk;      (* Worker.place_task(task, strategy) *)
  wreset : wk -> wk;                 (* Worker.__deepcopy__: every allocation undone *)
  runtime : st -> Z                  (* ExecutionStrategy.runtime, microseconds *)
}.

Record policy := mkPolicy {
  p_key : Z -> tattrs -> list Z;                       (* sim_time -> task -> key *)
  p_has_adm : bool;
  p_cancel : bool -> Z -> tattrs -> Z -> bool;         (* enforce, sim_time, task, fastest runtime *)
  p_reset : bool -> bool                               (* preemptive -> deepcopy? *)
}.
Definition edf : policy := mkPolicy edf_key edf_has_admission edf_cancel_test edf_reset_on.
Definition fifo : policy := mkPolicy fifo_key fifo_has_admission fifo_cancel_test fifo_reset_on.
Definition lsf : policy := mkPolicy lsf_key lsf_has_admission lsf_cancel_test lsf_reset_on.

(* the documented priorities, by hand: earliest deadline (then graph name), earliest release,
   least slack = deadline - now - remaining *)
Definition doc_edf_key (now : Z) (t : tattrs) : list Z := [ta_deadline t; ta_task_graph t].
Definition doc_fifo_key (now : Z) (t : tattrs) : list Z := [ta_release_time t].
Definition doc_lsf_key (now : Z) (t : tattrs) : list Z := [ta_deadline t - now - ta_remaining_time t].
(* the documented admission rule: a task that cannot finish by its deadline even with its fastest
   strategy starting now is hopeless *)
Definition hopeless (now : Z) (t : tattrs) (fastest : Z) : bool := ta_deadline t <? now + fastest.

Inductive decision :=
| DCancel (t : Z)
| DPlace (t : Z) (pool : Z) (sidx : nat) (time : Z)
| DUnplaced (t : Z).
Definition dec_task (d : decision) : Z :=
  match d with DCancel t => t | DPlace t _ _ _ => t | DUnplaced t => t end.
Definition is_cancel (d : decision) : bool := match d with DCancel _ => true | _ => false end.

Section Policy.
  Variable L : ledger.

  Record task := mkTask { t_id : Z; t_attrs : tattrs; t_strats : list (st L) }.
  Definition pool := (Z * list (wk L))%type.       (* pool id, workers in dict order *)
  Definition cluster := list pool.                 (* WorkerPools, dict order *)

  Definition pool_can (p : pool) (s : st L) : bool := existsb (fun w => can L w s) (snd p).
  Fixpoint place_first (ws : list (wk L)) (t : Z) (s : st L) : option (list (wk L)) :=
    match ws with
    | [] => None
    | w :: r => if can L w s then Some (wplace L w t s :: r)
                else match place_first r t s with Some r' => Some (w :: r') | None => None end
    end.
  Definition pool_place (p : pool) (t : Z) (s : st L) : pool :=
    match place_first (snd p) t s with Some ws => (fst p, ws) | None => p end.

  (* for worker_pool in pools: if worker_pool.can_accomodate_strategy(s): place; break *)
  Fixpoint try_pools (ps : cluster) (t : Z) (s : st L) : option (Z * cluster) :=
    match ps with
    | [] => None
    | p :: r => if pool_can p s then Some (fst p, pool_place p t s :: r)
                else match try_pools r t s with Some (i, r') => Some (i, p :: r') | None => None end
    end.
  (* for execution_strategy in task.available_execution_strategies: ... *)
  Fixpoint try_strats (c : cluster) (t : Z) (ss : list (st L)) (i : nat) : option (nat * Z * cluster) :=
    match ss with
    | [] => None
    | s :: r => match try_pools c t s with
                | Some (pid, c') => Some (i, pid, c')
                | None => try_strats c t r (S i)
                end
    end.

  (* min(strategies, key=runtime).runtime; None when there is no strategy *)
  Fixpoint min_runtime (ss : list (st L)) : option Z :=
    match ss with
    | [] => None
    | s :: r => match min_runtime r with None => Some (runtime L s) | Some m => Some (Z.min (runtime L s) m) end
    end.

  (* `self.enforce_deadlines and task.deadline < sim_time + fastest.runtime`: Python's `and` looks the
     fastest strategy up only when enforce_deadlines is set; a task without strategies then makes
     schedule() raise (AttributeError on None) *)
  Definition admission (P : policy) (enforce : bool) (now : Z) (t : task) : result bool :=
    if p_has_adm P && enforce then
      match min_runtime (t_strats t) with
      | None => Err 2
      | Some f => Ok (p_cancel P enforce now (t_attrs t) f)
      end
    else Ok false.

  Fixpoint run (P : policy) (enforce : bool) (now : Z) (c : cluster) (ts : list task)
    : result (list decision * cluster) :=
    match ts with
    | [] => Ok ([], c)
    | t :: r =>
        bind (admission P enforce now t) (fun cancel =>
        if cancel then
          bind (run P enforce now c r) (fun o => Ok (DCancel (t_id t) :: fst o, snd o))
        else
          match try_strats c (t_id t) (t_strats t) 0%nat with
          | Some (i, pid, c') =>
              bind (run P enforce now c' r) (fun o => Ok (DPlace (t_id t) pid i now :: fst o, snd o))
          | None =>
              bind (run P enforce now c r) (fun o => Ok (DUnplaced (t_id t) :: fst o, snd o))
          end)
    end.

  (* copy(worker_pools) keeps every allocation (the virtual workers have the availability of the
     live ones); deepcopy(worker_pools) undoes them all *)
  Definition virtual (P : policy) (preemptive : bool) (c : cluster) : cluster :=
    if p_reset P preemptive then map (fun p => (fst p, map (wreset L) (snd p))) c else c.
  Definition ordered (P : policy) (now : Z) (offered : list task) : list task :=
    sort_by (fun t => p_key P now (t_attrs t)) offered.
  (* WorkerPool.place_task refuses (ValueError) a task that is already placed on that pool (/repo 17757a8).  On the
     planning copy this can only happen to a task that the policy itself placed there earlier in the same invocation,
     i.e. when a task is offered twice and its first fitting pool is the same both times; the exception ends
     schedule().  (A task already resident on the copy is never offered: not modelled.) *)
  Fixpoint placed_on (t pid : Z) (ds : list decision) : bool :=
    match ds with
    | [] => false
    | DPlace t' pid' _ _ :: r => ((t' =? t) && (pid' =? pid)) || placed_on t pid r
    | _ :: r => placed_on t pid r
    end.
  Fixpoint place_twice (ds : list decision) : bool :=
    match ds with
    | [] => false
    | DPlace t pid _ _ :: r => placed_on t pid r || place_twice r
    | _ :: r => place_twice r
    end.
  Definition schedule_full (P : policy) (enforce preemptive : bool) (now : Z) (c : cluster) (offered : list task)
    : result (list decision * cluster) :=
    bind (run P enforce now (virtual P preemptive c) (ordered P now offered))
         (fun o => if place_twice (fst o) then Err 3 else Ok o).
  Definition schedule (P : policy) (enforce preemptive : bool) (now : Z) (c : cluster) (offered : list task)
    : result (list decision) :=
    bind (schedule_full P enforce preemptive now c offered) (fun o => Ok (fst o)).

  (* ---------- replaying decisions (what the simulator does with the returned placements, in order:
     WorkerPool.place_task(task, execution_strategy)); None if a placement names no pool / no
     strategy of its task / a pool that cannot accommodate it at that point *)
  Fixpoint pool_update (c : cluster) (pid : Z) (f : pool -> option pool) : option cluster :=
    match c with
    | [] => None
    | p :: r => if fst p =? pid then match f p with Some p' => Some (p' :: r) | None => None end
                else match pool_update r pid f with Some r' => Some (p :: r') | None => None end
    end.
  Definition find_task (ts : list task) (i : Z) : option task := find (fun t => t_id t =? i) ts.
  Definition apply_decision (ts : list task) (c : cluster) (d : decision) : option cluster :=
    match d with
    | DPlace t pid k _ =>
        match find_task ts t with
        | None => None
        | Some tk =>
            match nth_error (t_strats tk) k with
            | None => None
            | Some s => pool_update c pid (fun p => if pool_can p s then Some (pool_place p t s) else None)
            end
        end
    | _ => Some c
    end.
  Fixpoint replay (ts : list task) (c : cluster) (ds : list decision) : option cluster :=
    match ds with
    | [] => Some c
    | d :: r => match apply_decision ts c d with Some c' => replay ts c' r | None => None end
    end.

  (* a strategy fits the cluster somewhere *)
  Definition fits_somewhere (c : cluster) (s : st L) : bool := existsb (fun p => pool_can p s) c.
  Definition task_fits (c : cluster) (t : task) : bool := existsb (fits_somewhere c) (t_strats t).

  (* ---------- C10 contract, decidable form, for a list of decisions `ds` answering `offered` at `now`
     on virtual cluster `v` *)
  Fixpoint nodupb (l : list Z) : bool :=
    match l with [] => true | x :: r => negb (existsb (Z.eqb x) r) && nodupb r end.
  Definition dec_wellformed (ts : list task) (v : cluster) (now : Z) (d : decision) : bool :=
    match d with
    | DPlace t pid k time =>
        existsb (fun p => fst p =? pid) v &&
        match find_task ts t with Some tk => (k <? length (t_strats tk))%nat | None => false end &&
        (time =? now)
    | DCancel t | DUnplaced t => match find_task ts t with Some _ => true | None => false end
    end.
  Definition subsetb (a b : list Z) : bool := forallb (fun x => existsb (Z.eqb x) b) a.
  Definition contract_check (offered : list task) (v : cluster) (now : Z) (ds : list decision) : bool :=
    nodupb (map dec_task ds) &&
    subsetb (map dec_task ds) (map t_id offered) && subsetb (map t_id offered) (map dec_task ds) &&
    forallb (dec_wellformed offered v now) ds &&
    match replay offered v ds with Some _ => true | None => false end.

  (* ---------- C12 (greedy part), decidable form: under enforcement, cancelled <-> hopeless *)
  Definition c12_dec_ok (offered : list task) (now : Z) (d : decision) : bool :=
    match find_task offered (dec_task d) with
    | None => false
    | Some tk =>
        match min_runtime (t_strats tk) with
        | None => false
        | Some f => Bool.eqb (hopeless now (t_attrs tk) f) (match d with DCancel _ => true | _ => false end)
        end
    end.
  Definition c12_check (offered : list task) (now : Z) (ds : list decision) : bool :=
    forallb (c12_dec_ok offered now) ds.

  (* ---------- C13 monitor for clusters whose pools have ONE worker each: a placement then names its
     worker, so placements commute and any subset of them can be accounted for on its own.
     `account` applies the placements of the tasks selected by `sel`; the check: every unplaced task x
     fits nowhere once the placed tasks whose DOCUMENTED key is <= key x are accounted for. *)
  Definition placed_sel (ts : list task) (sel : task -> bool) (d : decision) : bool :=
    match d with
    | DPlace t _ _ _ => match find_task ts t with Some tk => sel tk | None => false end
    | _ => false
    end.
  Definition account (ts : list task) (v : cluster) (ds : list decision) (sel : task -> bool) : option cluster :=
    replay ts v (filter (placed_sel ts sel) ds).
  Definition single_worker (v : cluster) : bool := forallb (fun p => (length (snd p) =? 1)%nat) v.
  Definition c13_task_ok (dkey : tattrs -> list Z) (ts : list task) (v : cluster) (ds : list decision) (d : decision) : bool :=
    match d with
    | DUnplaced t =>
        match find_task ts t with
        | None => false
        | Some x =>
            match account ts v ds (fun y => negb (t_id y =? t) && lex_leb (dkey (t_attrs y)) (dkey (t_attrs x))) with
            | None => false
            | Some vx => negb (task_fits vx x)
            end
        end
    | _ => true
    end.
  Definition c13_check (dkey : tattrs -> list Z) (ts : list task) (v : cluster) (ds : list decision) : bool :=
    forallb (c13_task_ok dkey ts v ds) ds.
End Policy.

Arguments mkTask {L}.
Arguments t_id {L}.
Arguments t_attrs {L}.
Arguments t_strats {L}.

(* ==================================================================================
   A simple concrete ledger: a worker is the list of its Resource entries in insertion order
   (name, available, total) -- several entries may carry the same name (different ids); a strategy
   requests `any`-id quantities by name (distinct names: they are keys of one dict).
   Follows workload/resources.py: __gt__ (cumulative play of the requests on a scratch vector), allocate
   (walk the entries in order, take what each has), __deepcopy__ (availability := total). *)
Record entry := mkE { e_name : Z; e_avail : Z; e_total : Z }.
Definition sworker := list entry.
Record sstrat := mkSS { ss_runtime : Z; ss_req : list (Z * Z) }.

Fixpoint avail_of (w : sworker) (n : Z) : Z :=
  match w with
  | [] => 0
  | e :: r => if e_name e =? n then e_avail e + avail_of r n else avail_of r n
  end.
(* Resources.__gt__ as it is now: the requests are played one after the other on a scratch copy of the
   available quantities -- from every matching cell, in order, min(available, remaining) while something
   remains -- and the test fails as soon as a request cannot be served completely *)
Fixpoint s_play (w : sworker) (n q : Z) : sworker * Z :=
  match w with
  | [] => ([], q)
  | e :: r =>
      if (e_name e =? n) && (0 <? q) then
        let taken := Z.min (e_avail e) q in
        let '(r', rem) := s_play r n (q - taken) in
        (mkE (e_name e) (e_avail e - taken) (e_total e) :: r', rem)
      else
        let '(r', rem) := s_play r n q in (e :: r', rem)
  end.
Fixpoint s_can_from (w : sworker) (req : list (Z * Z)) : bool :=
  match req with
  | [] => true
  | r :: rest => let '(w', rem) := s_play w (fst r) (snd r) in
                 if 0 <? rem then false else s_can_from w' rest
  end.
Definition s_can (w : sworker) (s : sstrat) : bool := s_can_from w (ss_req s).
(* the per-request form (each request against the untouched availability); Proofs/GreedyP3.v: the two agree
   for non-negative requests on distinct names *)
Definition s_can_each (w : sworker) (s : sstrat) : bool :=
  forallb (fun r => snd r <=? avail_of w (fst r)) (ss_req s).
Fixpoint s_take (w : sworker) (n q : Z) : sworker :=
  match w with
  | [] => []
  | e :: r =>
      if e_name e =? n then
        if q <=? e_avail e then mkE (e_name e) (e_avail e - q) (e_total e) :: r
        else mkE (e_name e) 0 (e_total e) :: s_take r n (q - e_avail e)
      else e :: s_take r n q
  end.
Definition s_wplace (w : sworker) (t : Z) (s : sstrat) : sworker :=
  fold_left (fun w r => s_take w (fst r) (snd r)) (ss_req s) w.
Definition s_wreset (w : sworker) : sworker := map (fun e => mkE (e_name e) (e_total e) (e_total e)) w.
Definition SL : ledger := mkLedger sworker sstrat s_can s_wplace s_wreset ss_runtime.
Definition stask (i : Z) (a : tattrs) (ss : list sstrat) : task SL := @mkTask SL i a ss.

(* ---------- observation functions for the correspondence / monitor streams *)
Definition policy_of_code (c : Z) : policy := if c =? 0 then edf else if c =? 1 then fifo else lsf.
Definition doc_key_of_code (c : Z) (now : Z) : tattrs -> list Z :=
  if c =? 0 then doc_edf_key now else if c =? 1 then doc_fifo_key now else doc_lsf_key now.
Definition vdec (d : decision) : val :=
  match d with
  | DCancel t => L [I 0; I t]
  | DPlace t p k time => L [I 1; I t; I p; vnat k; I time]
  | DUnplaced t => L [I 2; I t]
  end.
Record ginput := mkGI {
  gi_policy : Z; gi_enforce : bool; gi_preemptive : bool; gi_now : Z;
  gi_cluster : cluster SL; gi_offered : list (task SL) }.
Definition g_observe (i : ginput) : val :=
  vres (vlist vdec)
       (schedule SL (policy_of_code (gi_policy i)) (gi_enforce i) (gi_preemptive i) (gi_now i)
                 (gi_cluster i) (gi_offered i)).
(* the availability of the virtual cluster at the end, per pool, per worker, per entry *)
Definition vcluster (c : cluster SL) : val :=
  vlist (fun p => L [I (fst p); vlist (vlist (fun e => L [I (e_name e); I (e_avail e)])) (snd p)]) c.
Definition g_observe_final (i : ginput) : val :=
  vres vcluster
       (bind (schedule_full SL (policy_of_code (gi_policy i)) (gi_enforce i) (gi_preemptive i) (gi_now i)
                            (gi_cluster i) (gi_offered i)) (fun o => Ok (snd o))).

Definition g_observe_both (i : ginput) : val := L [g_observe i; g_observe_final i].

(* monitors on the implementation's own decisions *)
Record gobs := mkGO { go_in : ginput; go_decisions : list decision }.
(* the documented planning state, by hand: EDF and LSF restart from the empty cluster when preemptive (deepcopy),
   otherwise -- and FIFO always -- the policy plans on the live occupancy (copy) *)
Definition doc_reset (code : Z) (preemptive : bool) : bool := if code =? 1 then false else preemptive.
Definition doc_policy_shell (code : Z) : policy := mkPolicy (fun _ _ => []) false (fun _ _ _ _ => false) (doc_reset code).
Definition go_virtual (o : gobs) : cluster SL :=
  virtual SL (doc_policy_shell (gi_policy (go_in o))) (gi_preemptive (go_in o)) (gi_cluster (go_in o)).
Definition mon_contract (o : gobs) : bool :=
  contract_check SL (gi_offered (go_in o)) (go_virtual o) (gi_now (go_in o)) (go_decisions o).
Definition mon_c12 (o : gobs) : bool :=
  c12_check SL (gi_offered (go_in o)) (gi_now (go_in o)) (go_decisions o).
Definition mon_no_cancel (o : gobs) : bool := forallb (fun d => negb (is_cancel d)) (go_decisions o).
Definition mon_c13 (o : gobs) : bool :=
  negb (single_worker SL (go_virtual o)) ||
  c13_check SL (doc_key_of_code (gi_policy (go_in o)) (gi_now (go_in o))) (gi_offered (go_in o))
            (go_virtual o) (go_decisions o).
