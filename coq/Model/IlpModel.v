(* The ILP planner of schedulers/ilp_scheduler.py (non-batching mode) as an executable
   generator of constraint systems:  gen_ilp : instance -> csys  builds, in the order and shape
   of the Python, the variables (with bounds), linear rows, indicator rows, AND rows,
   quadratic capacity rows and the objective that ILPScheduler.schedule() hands to Gurobi;
   `sat` is the meaning of such a system over exact integers, `readback` is
   TaskOptimizerVariables.get_placements.  The decisive constants (start lower bound, deadline
   row, precedence offset, overlap indicator senses/right-hand sides ...) are NOT written here:
   they come from Gen/Src_Ilp.v, regenerated from the source on every run.
   No proofs in this file. *)
From Coq Require Import ZArith List Bool.
Import ListNotations.
From Verif Require Import Model.Val Gen.Src_Ilp.
Open Scope Z_scope.

(* ------------------------------------------------------------------ instance *)
Record strat := mkStrat { s_batch : Z; s_rt : Z; s_res : list (Z * Z) }.
Inductive tstate := TVirtual | TReleased | TScheduled | TRunning.
Record task := mkTask {
  t_id : Z;                       (* unique name *)
  t_graph : Z;
  t_state : tstate;
  t_release : Z;                  (* release_time in us (-1 when not set) *)
  t_deadline : Z;
  t_strats : list strat;          (* available_execution_strategies, in order *)
  t_prev : option (Z * Z);        (* RUNNING: (worker index, strategy index) of current_placement *)
  t_remaining : Z                 (* task.remaining_time (the planner never reads it: F11-iii) *)
}.
Record worker := mkWorker { w_id : Z; w_res : list (Z * Z) }.   (* get_unique_resource_types *)
Record graph := mkGraph { g_id : Z; g_nodes : list Z; g_edges : list (Z * Z) }.
Inductive goal := Goodput | Slack.
Record instance := mkInst {
  i_now : Z;
  i_workers : list worker;        (* worker index = position + 1 *)
  i_tasks : list task;            (* tasks_to_be_scheduled + previously_placed_tasks, in order *)
  i_noffered : nat;               (* how many of them were offered (the rest is previously placed) *)
  i_graphs : list graph;
  i_enforce : bool;
  i_retract : bool;
  i_release_tg : bool;
  i_goal : goal;
  i_allowed0 : list Z             (* _allowed_to_miss_deadlines left by earlier invocations *)
}.

(* ------------------------------------------------------------------ variables *)
Inductive var :=
| VStart (t : Z) | VPlaced (t w k : Z) | VApp (t : Z) | VOverlap (a b : Z)
| VAfter (a b : Z) | VBefore (a b : Z) | VGReward (g : Z) | VTReward (t : Z).
Definition var_key (v : var) : list Z :=
  match v with
  | VStart t => [0; t] | VPlaced t w k => [1; t; w; k] | VApp t => [2; t] | VOverlap a b => [3; a; b]
  | VAfter a b => [4; a; b] | VBefore a b => [5; a; b] | VGReward g => [6; g] | VTReward t => [7; t]
  end.
Fixpoint lex_cmp (a b : list Z) : comparison :=
  match a, b with
  | [], [] => Eq | [], _ => Lt | _, [] => Gt
  | x :: a', y :: b' => match Z.compare x y with Eq => lex_cmp a' b' | c => c end
  end.
Definition lex_leb a b := match lex_cmp a b with Gt => false | _ => true end.
Definition lex_eqb a b := match lex_cmp a b with Eq => true | _ => false end.
Definition var_eqb (a b : var) : bool := lex_eqb (var_key a) (var_key b).

Inductive pterm := PConst (z : Z) | PVar (v : var).
Definition assignment := var -> Z.
Definition eval_pterm (a : assignment) (p : pterm) : Z := match p with PConst z => z | PVar v => a v end.

(* ------------------------------------------------------------------ expressions *)
Definition lin := (list (Z * var) * Z)%type.
Definition quad := list (Z * var * var).
Definition lin_zero : lin := ([], 0).
Definition lin_term (c : Z) (p : pterm) : lin :=
  match p with PConst z => ([], c * z) | PVar v => ([(c, v)], 0) end.
Definition lin_plus (a b : lin) : lin := (fst a ++ fst b, snd a + snd b).
Definition lin_scale (c : Z) (l : lin) : lin := (map (fun cv => (c * fst cv, snd cv)) (fst l), c * snd l).
Definition lin_sum {A} (f : A -> lin) (l : list A) : lin :=
  fold_right (fun x acc => lin_plus (f x) acc) lin_zero l.
Definition sum_list {A} (f : A -> Z) (l : list A) : Z := fold_right (fun x acc => f x + acc) 0 l.
Definition eval_terms (a : assignment) (ts : list (Z * var)) : Z := sum_list (fun cv => fst cv * a (snd cv)) ts.
Definition eval_lin (a : assignment) (l : lin) : Z := eval_terms a (fst l) + snd l.
Definition eval_quad (a : assignment) (q : quad) : Z :=
  sum_list (fun t => fst (fst t) * a (snd (fst t)) * a (snd t)) q.
(* product of two linear forms (used by the slack objective) *)
Definition lin_mul (x y : lin) : lin * quad :=
  ((map (fun cv => (snd y * fst cv, snd cv)) (fst x) ++ map (fun cv => (snd x * fst cv, snd cv)) (fst y), snd x * snd y),
   flat_map (fun cv => map (fun dw => (fst cv * fst dw, snd cv, snd dw)) (fst y)) (fst x)).

(* ------------------------------------------------------------------ rows *)
Record lrow := mkL { l_key : list Z; l_lin : lin; l_sense : sense; l_rhs : Z }.
Record irow := mkI { n_key : list Z; n_bvar : var; n_bval : Z; n_lin : lin; n_sense : sense; n_rhs : Z }.
Record arow := mkA { a_key : list Z; a_res : var; a_ops : list var }.
Record qrow := mkQ { q_key : list Z; q_lin : lin; q_quad : quad; q_sense : sense; q_rhs : Z }.
Inductive vtype := VBin | VInt.
Record vdecl := mkV { v_var : var; v_type : vtype; v_lb : option Z; v_ub : option Z }.
Record csys := mkSys {
  c_vars : list vdecl; c_lin : list lrow; c_ind : list irow; c_and : list arow; c_quad : list qrow;
  c_obj : lin * quad              (* maximised *)
}.

Definition holds (s : sense) (x y : Z) : Prop := match s with SLe => x <= y | SGe => x >= y | SEq => x = y end.
Definition holdsb (s : sense) (x y : Z) : bool := match s with SLe => x <=? y | SGe => y <=? x | SEq => x =? y end.
Definition bound_ok (a : assignment) (d : vdecl) : Prop :=
  match v_lb d with Some l => l <= a (v_var d) | None => True end /\
  match v_ub d with Some u => a (v_var d) <= u | None => True end.
Definition bound_okb (a : assignment) (d : vdecl) : bool :=
  match v_lb d with Some l => l <=? a (v_var d) | None => true end &&
  match v_ub d with Some u => a (v_var d) <=? u | None => true end.
Definition lrow_ok a r := holds (l_sense r) (eval_lin a (l_lin r)) (l_rhs r).
Definition lrow_okb a r := holdsb (l_sense r) (eval_lin a (l_lin r)) (l_rhs r).
Definition irow_ok a r := a (n_bvar r) = n_bval r -> holds (n_sense r) (eval_lin a (n_lin r)) (n_rhs r).
Definition irow_okb a r := negb (a (n_bvar r) =? n_bval r) || holdsb (n_sense r) (eval_lin a (n_lin r)) (n_rhs r).
Definition all_one (a : assignment) (ops : list var) : bool := forallb (fun v => a v =? 1) ops.
Definition arow_ok a r := a (a_res r) = (if all_one a (a_ops r) then 1 else 0).
Definition arow_okb a r := a (a_res r) =? (if all_one a (a_ops r) then 1 else 0).
Definition qrow_ok a r := holds (q_sense r) (eval_lin a (q_lin r) + eval_quad a (q_quad r)) (q_rhs r).
Definition qrow_okb a r := holdsb (q_sense r) (eval_lin a (q_lin r) + eval_quad a (q_quad r)) (q_rhs r).

Definition sat (sys : csys) (a : assignment) : Prop :=
  Forall (bound_ok a) (c_vars sys) /\ Forall (lrow_ok a) (c_lin sys) /\ Forall (irow_ok a) (c_ind sys) /\
  Forall (arow_ok a) (c_and sys) /\ Forall (qrow_ok a) (c_quad sys).
Definition satb (sys : csys) (a : assignment) : bool :=
  forallb (bound_okb a) (c_vars sys) && forallb (lrow_okb a) (c_lin sys) && forallb (irow_okb a) (c_ind sys) &&
  forallb (arow_okb a) (c_and sys) && forallb (qrow_okb a) (c_quad sys).
Definition objective (sys : csys) (a : assignment) : Z :=
  eval_lin a (fst (c_obj sys)) + eval_quad a (snd (c_obj sys)).

(* ------------------------------------------------------------------ instance helpers *)
Fixpoint zenum {A} (i : Z) (l : list A) : list (Z * A) :=
  match l with [] => [] | x :: r => (i, x) :: zenum (i + 1) r end.
Definition memZ (x : Z) (l : list Z) : bool := existsb (Z.eqb x) l.
Fixpoint nodupZ (l : list Z) : list Z :=
  match l with [] => [] | x :: r => if memZ x r then nodupZ r else x :: nodupZ r end.
(* first occurrences kept, in order (dict / set insertion) *)
Fixpoint firsts (seen l : list Z) : list Z :=
  match l with [] => [] | x :: r => if memZ x seen then firsts seen r else x :: firsts (x :: seen) r end.

Definition is_running (t : task) : bool := match t_state t with TRunning => true | _ => false end.
Definition is_scheduled (t : task) : bool := match t_state t with TScheduled => true | _ => false end.
Definition qty (l : list (Z * Z)) (r : Z) : Z := sum_list (fun p => if fst p =? r then snd p else 0) l.
Definition total (w : worker) (r : Z) : Z := qty (w_res w) r.
Definition req (s : strat) (r : Z) : Z := qty (s_res s) r.
(* Worker.can_accomodate_strategy on the deep copy (all resources free): Resources.__gt__ *)
Definition compat (w : worker) (s : strat) : bool := forallb (fun rq => snd rq <=? total w (fst rq)) (s_res s).

Definition wenum (I : instance) := zenum 1 (i_workers I).
Definition senum (t : task) := zenum 0 (t_strats t).
Definition slot := ((Z * worker) * (Z * strat))%type.
Definition pairs (I : instance) (t : task) : list slot := list_prod (wenum I) (senum t).
Definition slot_w (p : slot) := fst (fst p).
Definition slot_k (p : slot) := fst (snd p).
Definition slot_rt (p : slot) := s_rt (snd (snd p)).

(* _placed_on_worker_with_strategy[(worker, strategy)]: 0, 1 (RUNNING) or a binary variable *)
Definition pv (t : task) (p : slot) : pterm :=
  if is_running t then
    match t_prev t with
    | Some (pw, pk) => if (pw =? slot_w p) && (pk =? slot_k p) then PConst 1 else PConst 0
    | None => PConst 0
    end
  else if compat (snd (fst p)) (snd (snd p)) then PVar (VPlaced (t_id t) (slot_w p) (slot_k p)) else PConst 0.
Definition startv (I : instance) (t : task) : pterm :=
  if is_running t then PConst (running_start (i_now I)) else PVar (VStart (t_id t)).
Definition placed_lin (I : instance) (t : task) (coef : slot -> Z) : lin :=
  lin_sum (fun p => lin_term (coef p) (pv t p)) (pairs I t).
Definition one_coef (_ : slot) : Z := 1.

(* ---- task graphs *)
Definition graph_of (I : instance) (g : Z) : option graph := find (fun x => g_id x =? g) (i_graphs I).
Definition edges_of (I : instance) (g : Z) : list (Z * Z) := match graph_of I g with Some x => g_edges x | None => [] end.
Definition nodes_of (I : instance) (g : Z) : list Z := match graph_of I g with Some x => g_nodes x | None => [] end.
Definition parents_of (I : instance) (t : task) : list Z :=
  nodupZ (map fst (filter (fun e => snd e =? t_id t) (edges_of I (t_graph t)))).
Definition children_of (I : instance) (t : task) : list Z :=
  nodupZ (map snd (filter (fun e => fst e =? t_id t) (edges_of I (t_graph t)))).
Definition sources_of (I : instance) (g : Z) : list Z :=
  filter (fun n => negb (memZ n (map snd (edges_of I g)))) (nodes_of I g).
Fixpoint reach (fuel : nat) (edges : list (Z * Z)) (a b : Z) : bool :=
  match fuel with
  | O => false
  | S f => existsb (fun e => (fst e =? a) && ((snd e =? b) || reach f edges (snd e) b)) edges
  end.
(* Graph.are_dependent: one of the two is reachable from the other *)
Definition dependent (I : instance) (t1 t2 : task) : bool :=
  (t_graph t1 =? t_graph t2) &&
  (let e := edges_of I (t_graph t1) in
   reach (length e) e (t_id t1) (t_id t2) || reach (length e) e (t_id t2) (t_id t1)).
Definition ids (I : instance) : list Z := map t_id (i_tasks I).

(* ---- _add_variables: which graphs may miss their deadlines *)
Definition all_sources_present (I : instance) (t : task) : bool :=
  forallb (fun s => memZ s (ids I)) (sources_of I (t_graph t)).
Definition newly_allowed (I : instance) : list Z :=
  map t_graph (filter (fun t => negb (is_scheduled t || is_running t) && negb (all_sources_present I t)) (i_tasks I)).
Definition allowed (I : instance) : list Z := i_allowed0 I ++ newly_allowed I.
Definition enforce_for (I : instance) (t : task) : bool :=
  if i_release_tg I && memZ (t_graph t) (allowed I) then false else i_enforce I.

Definition nonrunning (I : instance) : list task := filter (fun t => negb (is_running t)) (i_tasks I).

(* ------------------------------------------------------------------ TaskOptimizerVariables *)
Definition pvar_decls (I : instance) (t : task) : list vdecl :=
  flat_map (fun p => match pv t p with PVar v => [mkV v VBin (Some 0) (Some 1)] | PConst _ => [] end) (pairs I t).
Definition task_decls (I : instance) (t : task) : list vdecl :=
  mkV (VStart (t_id t)) VInt (Some (start_lb (i_now I) (t_release t))) None :: pvar_decls I t.
Definition deadline_row (I : instance) (t : task) : lrow :=
  mkL [10; t_id t]
      (lin_plus (lin_term deadline_start_coef (startv I t))
                (placed_lin I t (fun p => deadline_term_coef (slot_rt p))))
      deadline_sense (deadline_rhs (t_deadline t)).
Definition placement_row (I : instance) (t : task) : lrow :=
  if is_scheduled t && negb (i_retract I)
  then mkL [12; t_id t] (placed_lin I t one_coef) (fst placement_required) (snd placement_required)
  else mkL [11; t_id t] (placed_lin I t one_coef) (fst placement_consistent) (snd placement_consistent).
Definition task_rows (I : instance) (t : task) : list lrow :=
  (if enforce_for I t then [deadline_row I t] else []) ++ [placement_row I t].

(* schedule() raises: (a) `placement_variable.Start = ..` on the constant 0 of an incompatible
   (worker, strategy) pair of a SCHEDULED task — only if the warm-start loop does not skip such
   pairs (it does since the fix of finding ILP-H1; `warm_start_guarded` is read from the source);
   (b) a RUNNING task without a usable cached placement (ValueError, :181-188, :401-406) *)
Definition hint_raises (I : instance) (t : task) : bool :=
  negb warm_start_guarded && is_scheduled t && existsb (fun p => match pv t p with PConst _ => true | PVar _ => false end) (pairs I t).
Definition valid_prev (I : instance) (t : task) : bool :=
  match t_prev t with
  | Some (w, k) => existsb (fun p => (slot_w p =? w) && (slot_k p =? k)) (pairs I t)
  | None => false
  end.
Definition ilp_raises (I : instance) : bool :=
  existsb (fun t => hint_raises I t || (is_running t && negb (valid_prev I t))) (i_tasks I).

(* ------------------------------------------------------------------ dependencies *)
Definition decided_parents (I : instance) (c : task) : list task :=
  filter (fun p => memZ (t_id p) (parents_of I c)) (i_tasks I).
Definition nparents (I : instance) (c : task) : Z := Z.of_nat (length (parents_of I c)).
Definition prec_row (I : instance) (c p : task) (sl : slot) : lrow :=
  mkL [20; t_id c; t_id p; slot_w sl; slot_k sl]
      (lin_plus (lin_term 1 (startv I c))
                (lin_plus (lin_term (- prec_parent_coef) (startv I p))
                          (lin_term (- prec_x_coef (slot_rt sl)) (pv p sl))))
      prec_sense 0.
Definition parent_sum (I : instance) (c : task) : lin :=
  lin_sum (fun p => placed_lin I p one_coef) (decided_parents I c).
Definition has_dep (I : instance) (c : task) : bool :=
  match decided_parents I c with [] => false | _ => true end.
Definition dep_decls (I : instance) (c : task) : list vdecl :=
  if has_dep I c then [mkV (VApp (t_id c)) VBin (Some 0) (Some 1)] else [].
Definition dep_lrows (I : instance) (c : task) : list lrow :=
  flat_map (fun p => map (prec_row I c p) (pairs I p)) (decided_parents I c).
Definition ind_of (key : list Z) (b : var) (spec : Z * sense * Z) (e : lin) : irow :=
  mkI key b (fst (fst spec)) e (snd (fst spec)) (snd spec).
Definition dep_irows (I : instance) (c : task) : list irow :=
  if has_dep I c then
    [ ind_of [21; t_id c] (VApp (t_id c)) (app_false (nparents I c)) (parent_sum I c);
      ind_of [22; t_id c] (VApp (t_id c)) (app_true (nparents I c)) (parent_sum I c);
      ind_of [23; t_id c] (VApp (t_id c)) (app_child (nparents I c)) (placed_lin I c one_coef) ]
  else [].

(* ------------------------------------------------------------------ resources *)
Definition opairs (I : instance) : list (task * task) :=
  filter (fun p => negb (t_id (fst p) =? t_id (snd p))) (list_prod (i_tasks I) (i_tasks I)).
Definition rem_lin (I : instance) (t : task) : lin := placed_lin I t slot_rt.
Definition ov_expr (I : instance) (co : Z * Z * Z * Z) (t1 t2 : task) : lin :=
  let '(c1, cr1, c2, cr2) := co in
  lin_plus (lin_term c1 (startv I t1))
    (lin_plus (lin_scale cr1 (rem_lin I t1))
      (lin_plus (lin_term c2 (startv I t2)) (lin_scale cr2 (rem_lin I t2)))).
Definition ov_ind (I : instance) (key : Z) (b : var) (spec : (Z * Z * Z * Z) * Z * sense * Z) (t1 t2 : task) : irow :=
  let '(co, bv, s, r) := spec in mkI [key; t_id t1; t_id t2] b bv (ov_expr I co t1 t2) s r.
Definition pair_decls (I : instance) (p : task * task) : list vdecl :=
  let a := t_id (fst p) in let b := t_id (snd p) in
  if dependent I (fst p) (snd p) then []
  else [mkV (VAfter a b) VBin (Some 0) (Some 1); mkV (VBefore a b) VBin (Some 0) (Some 1)].
Definition pair_lrows (I : instance) (p : task * task) : list lrow :=
  let a := t_id (fst p) in let b := t_id (snd p) in
  if dependent I (fst p) (snd p)
  then [mkL [30; a; b] ([(1, VOverlap a b)], 0) (fst dep_row) (snd dep_row)]
  else let '(ca, cb, co, s, r) := ov_sum in
       [mkL [35; a; b] ([(ca, VAfter a b); (cb, VBefore a b); (co, VOverlap a b)], 0) s r].
Definition pair_irows (I : instance) (p : task * task) : list irow :=
  let a := t_id (fst p) in let b := t_id (snd p) in
  if dependent I (fst p) (snd p) then []
  else [ ov_ind I 31 (VAfter a b) ov_after_false (fst p) (snd p);
         ov_ind I 32 (VAfter a b) ov_after_true (fst p) (snd p);
         ov_ind I 33 (VBefore a b) ov_before_false (fst p) (snd p);
         ov_ind I 34 (VBefore a b) ov_before_true (fst p) (snd p) ].

(* `previously_placed and all(placed(worker, s) == 0 for s in strategies)` *)
Definition off_worker (t : task) (wi : Z * worker) : bool :=
  is_running t && forallb (fun ks => match pv t (wi, ks) with PConst 0 => true | _ => false end) (senum t).
Definition own_lin (t1 : task) (wi : Z * worker) (r : Z) : lin :=
  lin_sum (fun ks => if req (snd ks) r =? 0 then lin_zero else lin_term (req (snd ks) r) (pv t1 (wi, ks))) (senum t1).
Definition other_terms (t1 t2 : task) (wi : Z * worker) (r : Z) : lin * quad :=
  fold_right (fun ks acc =>
      let q := req (snd ks) r in
      if q =? 0 then acc else
      match pv t2 (wi, ks) with
      | PConst z => (lin_plus ([(z * q, VOverlap (t_id t1) (t_id t2))], 0) (fst acc), snd acc)
      | PVar x => (fst acc, (q, x, VOverlap (t_id t1) (t_id t2)) :: snd acc)
      end) (lin_zero, []) (senum t2).
Definition others (I : instance) (t1 : task) : list task :=
  filter (fun t2 => negb (t_id t1 =? t_id t2)) (i_tasks I).
Definition cap_row (I : instance) (t1 : task) (wi : Z * worker) (rq : Z * Z) : qrow :=
  let parts := map (fun t2 => other_terms t1 t2 wi (fst rq))
                   (filter (fun t2 => negb (off_worker t2 wi)) (others I t1)) in
  mkQ [40; t_id t1; fst wi; fst rq]
      (lin_plus (own_lin t1 wi (fst rq)) (lin_sum fst parts))
      (flat_map snd parts) cap_sense (snd rq).
Definition cap_rows (I : instance) (t1 : task) : list qrow :=
  flat_map (fun wi => if off_worker t1 wi then [] else map (cap_row I t1 wi) (w_res (snd wi))) (wenum I).

(* ------------------------------------------------------------------ objective *)
Definition graphs_in_order (I : instance) : list Z := firsts [] (map t_graph (i_tasks I)).
Definition no_child_offered (I : instance) (t : task) : bool :=
  forallb (fun c => negb (memZ c (ids I))) (children_of I t).
Definition is_sink (I : instance) (t : task) : bool := match children_of I t with [] => true | _ => false end.
Definition is_reward (I : instance) (t : task) : bool :=
  if i_release_tg I then is_sink I t else no_child_offered I t.
Definition reward_tasks (I : instance) (g : Z) : list task :=
  filter (fun t => (t_graph t =? g) && is_reward I t) (i_tasks I).
Definition treward_row (I : instance) (t : task) : lrow :=
  mkL [50; t_id t] (lin_plus ([(1, VTReward (t_id t))], 0) (lin_scale (-1) (placed_lin I t one_coef))) SEq 0.
Definition slack_tasks (I : instance) : list task :=
  filter (fun t => is_sink I t || no_child_offered I t) (i_tasks I).
Definition slack_obj (I : instance) : lin * quad :=
  fold_right (fun t acc =>
      let m := lin_mul (placed_lin I t one_coef)
                       (lin_plus ([], t_deadline t) (lin_scale (-1) (lin_term 1 (startv I t)))) in
      (lin_plus (fst m) (fst acc), snd m ++ snd acc)) (lin_zero, []) (slack_tasks I).

Definition gen_ilp (I : instance) : csys :=
  let ts := i_tasks I in
  let nr := nonrunning I in
  let gs := graphs_in_order I in
  let good := match i_goal I with Goodput => true | Slack => false end in
  let rts := if good then flat_map (reward_tasks I) gs else [] in
  mkSys
    (flat_map (task_decls I) nr ++ flat_map (dep_decls I) nr
       ++ map (fun p => mkV (VOverlap (t_id (fst p)) (t_id (snd p))) VBin (Some 0) (Some 1)) (opairs I)
       ++ flat_map (pair_decls I) (opairs I)
       ++ map (fun g => mkV (VGReward g) VInt None None) gs
       ++ map (fun t => mkV (VTReward (t_id t)) VBin (Some 0) (Some 1)) rts)
    (flat_map (task_rows I) nr ++ flat_map (dep_lrows I) nr ++ flat_map (pair_lrows I) (opairs I)
       ++ map (treward_row I) rts)
    (flat_map (dep_irows I) nr ++ flat_map (pair_irows I) (opairs I))
    (if good then map (fun g => mkA [51; g] (VGReward g) (map (fun t => VTReward (t_id t)) (reward_tasks I g))) gs else [])
    (flat_map (cap_rows I) ts)
    (if good then (lin_sum (fun g => ([(1, VGReward g)], 0)) gs, []) else slack_obj I).

(* ------------------------------------------------------------------ readback *)
Definition plan := list (Z * option (Z * Z * Z)).          (* task, Some (start, worker index, strategy index) *)
Definition slot_hit (a : assignment) (t : task) (p : slot) : bool :=
  match pv t p with PVar v => a v =? 1 | PConst _ => false end.
(* the inner loop breaks at the first strategy, the outer loop goes on: the last worker wins *)
Definition chosen (I : instance) (a : assignment) (t : task) : option (Z * Z) :=
  fold_left (fun acc wi =>
      match find (fun ks => slot_hit a t (wi, ks)) (senum t) with
      | Some ks => Some (fst wi, fst ks)
      | None => acc
      end) (wenum I) None.
Definition decision (I : instance) (a : assignment) (t : task) : option (Z * Z * Z) :=
  match chosen I a t with
  | Some (w, k) => Some (a (VStart (t_id t)), w, k)
  | None => None
  end.
Definition readback (I : instance) (a : assignment) : plan :=
  map (fun t => (t_id t, decision I a t)) (nonrunning I).
(* schedule(): with no solution every OFFERED task is answered `unplaced` *)
Definition answer (I : instance) (sol : option assignment) : plan :=
  match sol with
  | Some a => readback I a
  | None => map (fun t => (t_id t, None)) (firstn (i_noffered I) (i_tasks I))
  end.

(* an assignment given as an association list (what the solver returned) *)
Definition asg_of (l : list (var * Z)) : assignment :=
  fun v => match find (fun p => var_eqb (fst p) v) l with Some p => snd p | None => 0 end.

(* ------------------------------------------------------------------ rendering (for the row-by-row tie) *)
Fixpoint insert_by {A} (key : A -> list Z) (x : A) (l : list A) : list A :=
  match l with [] => [x] | y :: r => if lex_leb (key x) (key y) then x :: l else y :: insert_by key x r end.
Definition sort_by {A} (key : A -> list Z) (l : list A) : list A := fold_right (insert_by key) [] l.
(* sorted by variable, equal variables merged, zero coefficients dropped *)
Fixpoint merge_terms (l : list (Z * var)) : list (Z * var) :=
  match l with
  | [] => []
  | (c, v) :: r =>
      match merge_terms r with
      | (c', v') :: r' => if var_eqb v v' then (if c + c' =? 0 then r' else (c + c', v) :: r')
                          else (if c =? 0 then (c', v') :: r' else (c, v) :: (c', v') :: r')
      | [] => if c =? 0 then [] else [(c, v)]
      end
  end.
Definition canon_terms (l : list (Z * var)) : list (Z * var) := merge_terms (sort_by (fun cv => var_key (snd cv)) l).
Definition vkey (k : list Z) : val := L (map I k).
Definition vvar (v : var) : val := vkey (var_key v).
Definition vterms (l : list (Z * var)) : val := L (map (fun cv => L [vvar (snd cv); I (fst cv)]) (canon_terms l)).
Definition vsense (s : sense) : val := I (match s with SLe => 0 | SGe => 1 | SEq => 2 end).
Definition qkey (t : Z * var * var) : list Z :=
  let a := var_key (snd (fst t)) in let b := var_key (snd t) in
  if lex_leb a b then a ++ b else b ++ a.
Definition qnorm (t : Z * var * var) : Z * var * var :=
  if lex_leb (var_key (snd (fst t))) (var_key (snd t)) then t else (fst (fst t), snd t, snd (fst t)).
Fixpoint merge_quad (l : list (Z * var * var)) : list (Z * var * var) :=
  match l with
  | [] => []
  | t :: r =>
      match merge_quad r with
      | t' :: r' => if lex_eqb (qkey t) (qkey t')
                    then (if fst (fst t) + fst (fst t') =? 0 then r' else (fst (fst t) + fst (fst t'), snd (fst t), snd t) :: r')
                    else (if fst (fst t) =? 0 then t' :: r' else t :: t' :: r')
      | [] => if fst (fst t) =? 0 then [] else [t]
      end
  end.
Definition vquad (q : quad) : val :=
  L (map (fun t => L [vvar (snd (fst t)); vvar (snd t); I (fst (fst t))]) (merge_quad (sort_by qkey (map qnorm q)))).
Definition vbound (o : option Z) : val := match o with Some z => L [I z] | None => L [] end.
Definition render_sys (s : csys) : val :=
  L [ L (map (fun d => L [vvar (v_var d); I (match v_type d with VBin => 0 | VInt => 1 end); vbound (v_lb d); vbound (v_ub d)])
             (sort_by (fun d => var_key (v_var d)) (c_vars s)));
      L (map (fun r => L [vkey (l_key r); vterms (fst (l_lin r)); vsense (l_sense r); I (l_rhs r - snd (l_lin r))])
             (sort_by l_key (c_lin s)));
      L (map (fun r => L [vkey (n_key r); vvar (n_bvar r); I (n_bval r); vterms (fst (n_lin r)); vsense (n_sense r);
                          I (n_rhs r - snd (n_lin r))])
             (sort_by n_key (c_ind s)));
      L (map (fun r => L [vkey (a_key r); vvar (a_res r); L (map vvar (sort_by var_key (a_ops r)))])
             (sort_by a_key (c_and s)));
      L (map (fun r => L [vkey (q_key r); vterms (fst (q_lin r)); vquad (q_quad r); vsense (q_sense r);
                          I (q_rhs r - snd (q_lin r))])
             (sort_by q_key (c_quad s)));
      L [vterms (fst (fst (c_obj s))); vquad (snd (c_obj s)); I (snd (fst (c_obj s)))] ].
Definition vplan (p : plan) : val :=
  L (map (fun d => L [I (fst d);
                      match snd d with Some (s, w, k) => L [I s; I w; I k] | None => L [] end]) p).

(* ------------------------------------------------------------------ the specification of plans *)
Definition find_task (I : instance) (id : Z) : option task := find (fun t => t_id t =? id) (i_tasks I).
Definition nth_strat (t : task) (k : Z) : option strat :=
  if k <? 0 then None else nth_error (t_strats t) (Z.to_nat k).
Definition nth_worker (I : instance) (w : Z) : option worker :=
  if w <? 1 then None else nth_error (i_workers I) (Z.to_nat (w - 1)).
Definition plan_get (p : plan) (id : Z) : option (option (Z * Z * Z)) :=
  match find (fun d => fst d =? id) p with Some d => Some (snd d) | None => None end.
(* where a task sits according to the plan and the running tasks: (start, worker, strategy index, runtime) *)
Definition sits (I : instance) (p : plan) (t : task) : option (Z * Z * Z * Z) :=
  if is_running t then
    match t_prev t with
    | Some (w, k) => match nth_strat t k with Some s => Some (i_now I, w, k, s_rt s) | None => None end
    | None => None
    end
  else match plan_get p (t_id t) with
       | Some (Some (s, w, k)) => match nth_strat t k with Some st => Some (s, w, k, s_rt st) | None => None end
       | _ => None
       end.
Definition dur (t : task) (rt : Z) : Z := if is_running t then t_remaining t else rt.
(* closed intervals [start, start + runtime]; a running task occupies [now, now + remaining] *)
Definition active_cl (I : instance) (p : plan) (t : task) (w tau : Z) : bool :=
  match sits I p t with
  | Some (s, w', _, rt) => (w' =? w) && (s <=? tau) && (tau <=? s + dur t rt)
  | None => false
  end.
(* the ILP's own view: a running task is charged its FULL runtime from now (F11-iii) *)
Definition active_clf (I : instance) (p : plan) (t : task) (w tau : Z) : bool :=
  match sits I p t with
  | Some (s, w', _, rt) => (w' =? w) && (s <=? tau) && (tau <=? s + rt)
  | None => false
  end.
Definition req_at (I : instance) (p : plan) (t : task) (r : Z) : Z :=
  match sits I p t with
  | Some (_, _, k, _) => match nth_strat t k with Some s => req s r | None => 0 end
  | None => 0
  end.
Definition usage_cl (I : instance) (p : plan) (w r tau : Z) : Z :=
  sum_list (fun t => if active_cl I p t w tau then req_at I p t r else 0) (i_tasks I).
Definition usage_clf (I : instance) (p : plan) (w r tau : Z) : Z :=
  sum_list (fun t => if active_clf I p t w tau then req_at I p t r else 0) (i_tasks I).
(* the simulator's truth: half-open [start, start + runtime), a running task [now, now + remaining) *)
Definition active_ho (I : instance) (p : plan) (t : task) (w tau : Z) : bool :=
  match sits I p t with
  | Some (s, w', _, rt) => (w' =? w) && (s <=? tau) && (tau <? s + dur t rt)
  | None => false
  end.
Definition usage_ho (I : instance) (p : plan) (w r tau : Z) : Z :=
  sum_list (fun t => if active_ho I p t w tau then req_at I p t r else 0) (i_tasks I).

(* ---- decidable monitors over a plan (independent of Gen/: the property's own bounds) *)
Definition placed_in (I : instance) (p : plan) (t : task) : bool :=
  match sits I p t with Some _ => true | None => false end.
Definition start_in (I : instance) (p : plan) (t : task) : Z :=
  match sits I p t with Some (s, _, _, _) => s | None => 0 end.
Definition rt_in (I : instance) (p : plan) (t : task) : Z :=
  match sits I p t with Some (_, _, _, rt) => rt | None => 0 end.
(* C11: a placed child has every co-decided parent placed and starts at or after its end;
   a running parent: at or after its expected finish now + remaining *)
Definition c11_check (I : instance) (p : plan) : bool :=
  forallb (fun c =>
     negb (placed_in I p c) || is_running c ||
     forallb (fun q => placed_in I p q &&
                       (start_in I p q + (if is_running q then t_remaining q else rt_in I p q) <=? start_in I p c))
             (decided_parents I c)) (i_tasks I).
(* C12: placed => start + runtime <= deadline (when deadlines are enforced for that task) *)
Definition c12_check (I : instance) (p : plan) : bool :=
  forallb (fun t =>
     is_running t || negb (placed_in I p t) || negb (i_enforce I) || i_release_tg I ||
     (start_in I p t + rt_in I p t <=? t_deadline t)) (i_tasks I).
Definition fastest (t : task) : Z := fold_right (fun s acc => Z.min (s_rt s) acc) (match t_strats t with s :: _ => s_rt s | [] => 0 end) (t_strats t).
Definition hopeless (I : instance) (t : task) : bool := t_deadline t <? i_now I + fastest t.
Definition c12_hopeless_check (I : instance) (p : plan) : bool :=
  forallb (fun t => is_running t || negb (i_enforce I) || i_release_tg I || negb (hopeless I t) || negb (placed_in I p t)) (i_tasks I).
(* C10: exactly one decision per non-running task, existing worker / strategy that fits, start >= now and >= release,
   and no worker over capacity at the start instant of any task (half-open truth) *)
Definition decision_ok (I : instance) (t : task) (d : option (Z * Z * Z)) : bool :=
  match d with
  | None => true
  | Some (s, w, k) =>
      match nth_worker I w, nth_strat t k with
      | Some wk, Some st => compat wk st && (i_now I <=? s) && (t_release t <=? s)
      | _, _ => false
      end
  end.
Definition capacity_ho_check (I : instance) (p : plan) : bool :=
  forallb (fun t1 => negb (placed_in I p t1) ||
     forallb (fun wi => forallb (fun rq => usage_ho I p (fst wi) (fst rq) (start_in I p t1) <=? snd rq) (w_res (snd wi)))
             (wenum I)) (i_tasks I).
Definition c10_check (I : instance) (p : plan) : bool :=
  (* one decision per non-running task, in order *)
  (fix eqs (a b : list Z) : bool := match a, b with [] , [] => true | x :: a', y :: b' => (x =? y) && eqs a' b' | _, _ => false end)
     (map fst p) (map t_id (nonrunning I)) &&
  forallb (fun t => match plan_get p (t_id t) with Some d => decision_ok I t d | None => false end) (nonrunning I) &&
  capacity_ho_check I p.

(* ------------------------------------------------------------------ occupancy read directly off an assignment *)
Definition on (a : assignment) (t : task) (sl : slot) : Z := eval_pterm a (pv t sl).
Definition st_of (I : instance) (a : assignment) (t : task) : Z := eval_pterm a (startv I t).
(* t occupies slot sl (worker, strategy) at instant tau, closed interval [start, start + runtime] *)
Definition active_a (I : instance) (a : assignment) (t : task) (sl : slot) (tau : Z) : bool :=
  (on a t sl =? 1) && (st_of I a t <=? tau) && (tau <=? st_of I a t + slot_rt sl).
Definition usage_a (I : instance) (a : assignment) (w : Z * worker) (r tau : Z) : Z :=
  sum_list (fun t => sum_list (fun ks => if active_a I a t (w, ks) tau then req (snd ks) r else 0) (senum t)) (i_tasks I).
(* decided tasks that depend on one another are linked by a chain of co-decided parents *)
Inductive linked (I : instance) : task -> task -> Prop :=
| linked_step : forall x y, In y (nonrunning I) -> In x (decided_parents I y) -> linked I x y
| linked_trans : forall x z y, linked I x z -> In y (nonrunning I) -> In z (decided_parents I y) -> linked I x y.
Definition dep_linked (I : instance) : Prop :=
  forall x y, In x (i_tasks I) -> In y (i_tasks I) -> dependent I x y = true -> linked I x y \/ linked I y x.
Fixpoint linkedb (fuel : nat) (I : instance) (x y : task) : bool :=
  match fuel with
  | O => false
  | S f => negb (is_running y) &&
           existsb (fun z => (t_id z =? t_id x) || linkedb f I x z) (decided_parents I y)
  end.
Definition dep_linkedb (I : instance) : bool :=
  forallb (fun p => negb (dependent I (fst p) (snd p)) ||
                    linkedb (length (i_tasks I)) I (fst p) (snd p) || linkedb (length (i_tasks I)) I (snd p) (fst p))
          (list_prod (i_tasks I) (i_tasks I)).

(* ------------------------------------------------------------------ C14: the specification of feasible plans *)
(* `feasible_clb`: the convention the ILP applies consistently — closed intervals, starts >= now + 1, one
   microsecond between a parent's end and its child's start — with a running task occupying
   [now, now + remaining].  Decidable; capacity is checked at the start instants (enough: an interval
   that contains tau contains the latest start <= tau). *)
Definition decision_clb (I : instance) (t : task) (d : option (Z * Z * Z)) : bool :=
  match d with
  | None => negb (is_scheduled t && negb (i_retract I))
  | Some (s, w, k) =>
      match nth_worker I w, nth_strat t k with
      | Some wk, Some st =>
          compat wk st && (i_now I + 1 <=? s) && (t_release t <=? s) &&
          (negb (enforce_for I t) || (s + s_rt st <=? t_deadline t))
      | _, _ => false
      end
  end.
Definition precedence_clb (I : instance) (p : plan) : bool :=
  forallb (fun c => is_running c || negb (placed_in I p c) ||
                    forallb (fun q => placed_in I p q && (start_in I p q + dur q (rt_in I p q) + 1 <=? start_in I p c))
                            (decided_parents I c)) (i_tasks I).
Definition starts_of (I : instance) (p : plan) : list Z :=
  map (start_in I p) (filter (placed_in I p) (i_tasks I)).
Definition capacity_clb (I : instance) (p : plan) : bool :=
  forallb (fun tau => forallb (fun wi => forallb (fun rq => usage_cl I p (fst wi) (fst rq) tau <=? snd rq) (w_res (snd wi)))
                              (wenum I)) (starts_of I p).
Fixpoint eqlZ (a b : list Z) : bool :=
  match a, b with [], [] => true | x :: a', y :: b' => (x =? y) && eqlZ a' b' | _, _ => false end.
Definition feasible_clb (I : instance) (p : plan) : bool :=
  eqlZ (map fst p) (map t_id (nonrunning I)) &&
  forallb (fun t => match plan_get p (t_id t) with Some d => decision_clb I t d | None => false end) (nonrunning I) &&
  precedence_clb I p && capacity_clb I p.
(* goodput of a plan: graphs all of whose reward tasks are placed (or running) *)
Definition goodput (I : instance) (p : plan) : Z :=
  sum_list (fun g => if forallb (placed_in I p) (reward_tasks I g) then 1 else 0) (graphs_in_order I).
(* the same, read off an assignment *)
Definition placedb_a (I : instance) (a : assignment) (t : task) : bool := existsb (fun sl => on a t sl =? 1) (pairs I t).
Definition goodput_a (I : instance) (a : assignment) : Z :=
  sum_list (fun g => if forallb (placedb_a I a) (reward_tasks I g) then 1 else 0) (graphs_in_order I).

(* exhaustive search over the plans with starts up to a horizon (thorough tier / small instances) *)
Fixpoint zrange (lo : Z) (n : nat) : list Z := match n with O => [] | S m => lo :: zrange (lo + 1) m end.
Definition options (I : instance) (horizon : Z) (t : task) : list (option (Z * Z * Z)) :=
  filter (decision_clb I t)
    (None :: flat_map (fun s => flat_map (fun wi => map (fun ks => Some (s, fst wi, fst ks)) (senum t)) (wenum I))
                      (zrange (i_now I + 1) (Z.to_nat (horizon - i_now I)))).
Fixpoint plans_of (I : instance) (horizon : Z) (ts : list task) : list plan :=
  match ts with
  | [] => [[]]
  | t :: r => flat_map (fun p => map (fun d => (t_id t, d) :: p) (options I horizon t)) (plans_of I horizon r)
  end.
Definition best_goodput (I : instance) (horizon : Z) : Z :=
  fold_right (fun p acc => if precedence_clb I p && capacity_clb I p then Z.max (goodput I p) acc else acc) (-1)
             (plans_of I horizon (nonrunning I)).

(* ------------------------------------------------------------------ hypotheses of the conditional completeness theorem (C14) *)
Definition lbv (I : instance) (t : task) : Z := Z.max (i_now I + 1) (t_release t).
(* the interval a task occupies in a plan; an unplaced task is the single instant of its earliest start *)
Definition Sv (I : instance) (p : plan) (t : task) : Z := if placed_in I p t then start_in I p t else lbv I t.
Definition Rv (I : instance) (p : plan) (t : task) : Z := if placed_in I p t then rt_in I p t else 0.
Definition w_in (I : instance) (p : plan) (t : task) : Z := match sits I p t with Some (_, w, _, _) => w | None => 0 end.
Definition k_in (I : instance) (p : plan) (t : task) : Z := match sits I p t with Some (_, _, k, _) => k | None => 0 end.
Definition overl (I : instance) (p : plan) (x y : task) : bool :=
  (Sv I p x <=? Sv I p y + Rv I p y) && (Sv I p y <=? Sv I p x + Rv I p x).
(* two tasks of one worker that both overlap a third task (wherever that one runs) overlap each other *)
Definition no_three_way (I : instance) (p : plan) : Prop :=
  forall t1 t2 t3, In t1 (i_tasks I) -> In t2 (i_tasks I) -> In t3 (i_tasks I) ->
  placed_in I p t2 = true -> placed_in I p t3 = true -> w_in I p t2 = w_in I p t3 ->
  overl I p t1 t2 = true -> overl I p t1 t3 = true -> overl I p t2 t3 = true.
Definition no_running (I : instance) : Prop := forall t, In t (i_tasks I) -> is_running t = false.
(* task-by-task mode: no two decided tasks depend on one another *)
Definition taskwise (I : instance) : Prop :=
  (forall x y, In x (i_tasks I) -> In y (i_tasks I) -> dependent I x y = false) /\
  (forall c, In c (i_tasks I) -> decided_parents I c = []).
(* every task whose deadline is enforced could at least start by its deadline (otherwise: finding F22) *)
Definition startable (I : instance) : Prop :=
  forall t, In t (i_tasks I) -> enforce_for I t = true -> lbv I t <= t_deadline t.
Definition caps_nonneg (I : instance) : Prop := forall w rq, In w (wenum I) -> In rq (w_res (snd w)) -> 0 <= snd rq.

(* ---- the same with co-decided parents and children (whole graphs offered together): the unplaced tasks need start
   values too (their start variables are bound by their deadline rows and by the precedence rows) *)
Definition overl_sv (I : instance) (p : plan) (sv : task -> Z) (x y : task) : bool :=
  (sv x <=? sv y + Rv I p y) && (sv y <=? sv x + Rv I p x).
Definition no_three_way_sv (I : instance) (p : plan) (sv : task -> Z) : Prop :=
  forall t1 t2 t3, In t1 (i_tasks I) -> In t2 (i_tasks I) -> In t3 (i_tasks I) ->
  placed_in I p t2 = true -> placed_in I p t3 = true -> w_in I p t2 = w_in I p t3 ->
  overl_sv I p sv t1 t2 = true -> overl_sv I p sv t1 t3 = true -> overl_sv I p sv t2 t3 = true.
(* sv extends the plan's start times to the unplaced tasks within their bounds, after their co-decided parents *)
Definition startable_with (I : instance) (p : plan) (sv : task -> Z) : Prop :=
  (forall t, In t (i_tasks I) -> placed_in I p t = true -> sv t = start_in I p t) /\
  (forall t, In t (i_tasks I) -> placed_in I p t = false ->
     lbv I t <= sv t /\ (enforce_for I t = true -> sv t <= t_deadline t)) /\
  (forall c q, In c (i_tasks I) -> In q (decided_parents I c) -> placed_in I p c = false ->
     sv c >= sv q + (if placed_in I p q then rt_in I p q + 1 else 0)).
(* a placed task has all its parents among the decided tasks (otherwise: finding F11-iv) *)
Definition parents_decided (I : instance) (p : plan) : Prop :=
  forall c, In c (i_tasks I) -> decided_parents I c <> [] -> placed_in I p c = true ->
  Z.of_nat (length (decided_parents I c)) = nparents I c.

(* ------------------------------------------------------------------ reservations made by earlier invocations *)
(* a SCHEDULED task that gets no (or no positive) decision keeps its earlier reservation: the capacity monitor counts it
   from the world description, whatever the planner fed to its model *)
Definition overlay (resv p : plan) : plan :=
  map (fun d => match snd d with
                | Some _ => d
                | None => match plan_get resv (fst d) with Some (Some r) => (fst d, Some r) | _ => d end
                end) p.
