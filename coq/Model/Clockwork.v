(* Executable model of schedulers/clockwork_scheduler.py: Model (per-strategy request queues,
   task map, num_strategies counters, expiry, available strategies, batch extraction),
   admission control, the inference loop and schedule().  The decisive comparisons are the
   definitions GENERATED from the source (Gen/Src_Clockwork.v).  Times are microsecond integers
   (C16).  Python dicts are association lists in insertion order.  No proofs here.

   Exceptions of the implementation are `Err` codes:
     2 ValueError (allocation refused, batch size < 1)   3 RuntimeError (queue shorter than batch)
     5 IndexError (head of an empty queue)               6 KeyError (strategy without a queue)
     7 AttributeError (profile without strategies)
   Codes that do not correspond to an exception of the implementation:
     8 model lookup failed (the deque holds object references; shown unreachable)
     9 a task whose profile is not part of the world description
     99 fuel of the inference loop exhausted (the implementation would not terminate) *)
From Coq Require Import ZArith Bool List.
Import ListNotations.
From Verif Require Import Model.Val Gen.Src_Clockwork.
Open Scope Z_scope.

(* ---------------------------------------------------------------- data *)
(* resource vectors: (name, id, quantity); id 0 is the id "any" *)
Definition resvec := list (Z * Z * Z).
Record strategy := mkS { s_id : Z; s_bs : Z; s_rt : Z; s_res : resvec }.
Record task := mkT { t_id : Z; t_model : Z; t_deadline : Z }.
(* Model: _request_queues (strategy -> sorted list), _tasks (task -> counter of its Request) *)
Record cmodel := mkM { m_id : Z; m_queues : list (strategy * list task); m_tasks : list (task * Z) }.
Definition cw_state := list cmodel.
(* the work profiles of the world: profile id -> execution strategies (in order) *)
Definition world := list (Z * list strategy).
(* a worker as the scheduler sees it: available resource vector (in the order of the
   Resources dict), is_available(profile) for the profiles it knows (0 = loaded), the ids of the tasks
   placed on it (Worker._placed_tasks, copied by Worker.__copy__), and what each profile holds of the worker's resources
   (Resources._current_allocations[profile]: (name, id, quantity) records, given back by evict_profile) *)
Record worker := mkW { w_id : Z; w_res : resvec; w_loaded : list (Z * Z); w_placed : list Z; w_palloc : list (Z * resvec) }.
Record pool := mkP { p_id : Z; p_workers : list worker }.

Definition zlen {A} (l : list A) : Z := Z.of_nat (length l).
Definition nonempty {A} (l : list A) : bool := match l with [] => false | _ => true end.

Fixpoint zmem (x : Z) (l : list Z) : bool := match l with [] => false | y :: l' => (x =? y) || zmem x l' end.
Fixpoint znodup (l : list Z) : bool := match l with [] => true | x :: l' => negb (zmem x l') && znodup l' end.

Fixpoint zassoc {B} (k : Z) (l : list (Z * B)) : option B :=
  match l with [] => None | (k', v) :: l' => if k' =? k then Some v else zassoc k l' end.

(* ---------------------------------------------------------------- Resources (workload/resources.py) *)
Definition res_match (n i n' i' : Z) : bool := (n =? n') && ((i =? 0) || (i' =? 0) || (i =? i')).
Fixpoint res_avail (v : resvec) (n i : Z) : Z :=
  match v with
  | [] => 0
  | (n', i', q) :: v' => (if res_match n i n' i' then q else 0) + res_avail v' n i
  end.
(* Resources.__gt__ (as repaired in /repo 402c33a): the requests are played one after the other on a scratch copy of
   the available quantities, each taking from the matching entries in order *)
Fixpoint take_loop (v : resvec) (n i rem : Z) : resvec * Z :=
  match v with
  | [] => ([], rem)
  | (n', i', q) :: v' =>
      if res_match n i n' i' && (0 <? rem)
      then let t := Z.min q rem in
           let '(v'', r) := take_loop v' n i (rem - t) in ((n', i', q - t) :: v'', r)
      else let '(v'', r) := take_loop v' n i rem in ((n', i', q) :: v'', r)
  end.
Fixpoint res_play (v : resvec) (req : resvec) : bool :=
  match req with
  | [] => true
  | (n, i, q) :: req' => let '(v', r) := take_loop v n i q in if 0 <? r then false else res_play v' req'
  end.
Definition res_gt (a b : resvec) : bool := res_play a b.
(* Resources.__eq__ / total_ordering's __lt__ *)
Definition res_eq (a b : resvec) : bool := forallb (fun e => let '(n, i, q) := e in res_avail a n i =? q) b.
Definition res_lt (a b : resvec) : bool := negb (res_gt a b) && negb (res_eq a b).
(* Resources.allocate, after its availability check *)
Fixpoint alloc_loop (v : resvec) (n i rem : Z) : resvec :=
  match v with
  | [] => []
  | (n', i', q) :: v' =>
      if res_match n i n' i' then
        if rem <=? q then (n', i', q - rem) :: v'
        else let e := if 0 <? q then (n', i', 0) else (n', i', q) in
             if rem - q =? 0 then e :: v' else e :: alloc_loop v' n i (rem - q)
      else if rem =? 0 then (n', i', q) :: v' else (n', i', q) :: alloc_loop v' n i rem
  end.
Definition res_allocate (v : resvec) (e : Z * Z * Z) : result resvec :=
  let '(n, i, q) := e in if q <? 0 then Err 2 else if res_avail v n i <? q then Err 2 else Ok (alloc_loop v n i q).
Fixpoint res_allocate_seq (req : resvec) (v : resvec) : result resvec :=
  match req with
  | [] => Ok v
  | e :: req' => match res_allocate v e with Err c => Err c | Ok v' => res_allocate_seq req' v' end
  end.
(* Resources.allocate_multiple: check every request on its own, then allocate one by one *)
Definition res_allocate_multiple (v req : resvec) : result resvec :=
  if existsb (fun e => let '(n, i, q) := e in res_avail v n i <? q) req then Err 2 else res_allocate_seq req v.

(* ---------------------------------------------------------------- Worker *)
Definition w_is_available (w : worker) (mid : Z) : Z :=
  match zassoc mid (w_loaded w) with Some r => r | None => -1 end.
(* Worker.can_accomodate_strategy for an ExecutionStrategy of a profile *)
Definition fits (w : worker) (s : strategy) : bool := res_gt (w_res w) (s_res s).
(* Worker.place_task for every member of a batch under a fresh BatchStrategy: a member that is already placed on the
   worker is refused (ValueError), the first member allocates the resources, the others only join *)
Definition w_place (w : worker) (s : strategy) (ts : list (Z)) : result worker :=
  if s_bs s <? 1 then Err 2 else
  if existsb (fun i => zmem i (w_placed w)) ts || negb (znodup ts) then Err 2 else
  match res_allocate_multiple (w_res w) (s_res s) with
  | Err c => Err c
  | Ok v => Ok (mkW (w_id w) v (w_loaded w) (w_placed w ++ ts) (w_palloc w))
  end.

(* ---------------------------------------------------------------- Model: queues and task map *)
Definition id_eqb (a b : task) : bool := t_id a =? t_id b.
Definition in_q (t : task) (q : list task) : bool := existsb (fun x => id_eqb x t) q.
(* list.remove: the first element equal (Request.__eq__: same task id) *)
Fixpoint remove_first (t : task) (q : list task) : list task :=
  match q with [] => [] | x :: q' => if id_eqb x t then q' else x :: remove_first t q' end.
Fixpoint map_find (t : task) (m : list (task * Z)) : option Z :=
  match m with [] => None | (x, n) :: m' => if id_eqb x t then Some n else map_find t m' end.
Fixpoint map_remove (t : task) (m : list (task * Z)) : list (task * Z) :=
  match m with [] => [] | (x, n) :: m' => if id_eqb x t then m' else (x, n) :: map_remove t m' end.
Fixpoint map_set (t : task) (n : Z) (m : list (task * Z)) : list (task * Z) :=
  match m with [] => [] | (x, k) :: m' => if id_eqb x t then (x, n) :: m' else (x, k) :: map_set t n m' end.

(* Model.remove_task *)
Definition m_remove_task (t : task) (m : cmodel) : cmodel :=
  match map_find t (m_tasks m) with
  | None => m
  | Some _ => mkM (m_id m) (map (fun sq => (fst sq, remove_first t (snd sq))) (m_queues m)) (map_remove t (m_tasks m))
  end.

(* bisect.insort (insort_right) with Request.__lt__, on a sorted queue *)
Fixpoint insort (t : task) (q : list task) : list task :=
  match q with
  | [] => [t]
  | x :: q' => if cw_req_lt (t_deadline t) (t_deadline x) then t :: q else x :: insort t q'
  end.
(* Model.add_task *)
Definition m_add_task (t : task) (m : cmodel) : cmodel :=
  match map_find t (m_tasks m) with
  | Some _ => m
  | None => mkM (m_id m) (map (fun sq => (fst sq, insort t (snd sq))) (m_queues m))
                (m_tasks m ++ [(t, zlen (m_queues m))])
  end.

Definition head_deadline (q : list task) : Z := match q with [] => 0 | h :: _ => t_deadline h end.
Fixpoint set_nth {A} (k : nat) (x : A) (l : list A) : list A :=
  match l, k with
  | [], _ => []
  | _ :: l', O => x :: l'
  | y :: l', S k' => y :: set_nth k' x l'
  end.

(* one iteration of the expiry `while` on the k-th queue; None = the loop test is false *)
Definition expire_step (now : Z) (k : nat) (m : cmodel) : option cmodel :=
  match nth_error (m_queues m) k with
  | None => None
  | Some (s, q) =>
      if cw_expire_cond (zlen q) (head_deadline q) now (s_rt s) then
        match q with
        | [] => None
        | h :: q' =>
            let m1 := mkM (m_id m) (set_nth k (s, q') (m_queues m)) (m_tasks m) in
            match map_find h (m_tasks m1) with
            | None => Some m1        (* a request whose task is not in the map: only popped *)
            | Some n =>
                let m2 := mkM (m_id m1) (m_queues m1) (map_set h (n - 1) (m_tasks m1)) in
                if n - 1 =? 0 then Some (m_remove_task h m2) else Some m2
            end
        end
      else None
  end.
Fixpoint expire_loop (fuel : nat) (now : Z) (k : nat) (m : cmodel) : cmodel :=
  match fuel with
  | O => m
  | S f => match expire_step now k m with None => m | Some m' => expire_loop f now k m' end
  end.
Definition qlen_at (k : nat) (m : cmodel) : nat :=
  match nth_error (m_queues m) k with Some (_, q) => length q | None => O end.
(* every iteration pops one request of queue k, so its length bounds the iterations *)
Definition expire_queue (now : Z) (k : nat) (m : cmodel) : cmodel := expire_loop (qlen_at k m) now k m.
Definition expire_all (now : Z) (m : cmodel) : cmodel :=
  fold_left (fun m k => expire_queue now k m) (seq 0 (length (m_queues m))) m.

(* ExecutionStrategy.__eq__ / __lt__ (workload/strategy.py): generated from the source, over the Resources comparisons *)
Definition strat_eq (a b : strategy) : bool :=
  cw_strategy_eq res_eq (s_bs a) (s_rt a) (s_res a) (s_bs b) (s_rt b) (s_res b).
Definition strat_lt (a b : strategy) : bool :=
  cw_strategy_lt res_lt (s_bs a) (s_rt a) (s_res a) (s_bs b) (s_rt b) (s_res b).
(* tuple comparison of (priority, -batch_size, strategy) *)
Definition skey := (Z * Z * strategy)%type.
Definition skey_lt (x y : skey) : bool :=
  let '(p1, n1, s1) := x in let '(p2, n2, s2) := y in
  if negb (p1 =? p2) then p1 <? p2
  else if negb (n1 =? n2) then n1 <? n2
  else if negb (strat_eq s1 s2) then strat_lt s1 s2 else false.
(* sorted(): stable insertion sort *)
Fixpoint ins_by {A} (lt : A -> A -> bool) (x : A) (l : list A) : list A :=
  match l with [] => [x] | y :: l' => if lt x y then x :: l else y :: ins_by lt x l' end.
Definition isort_by {A} (lt : A -> A -> bool) (l : list A) : list A := fold_left (fun acc x => ins_by lt x acc) l [].

Definition avail_entry (now : Z) (sq : strategy * list task) : option skey :=
  let '(s, q) := sq in
  if cw_strategy_ready (s_bs s) (zlen q) now (s_rt s) (head_deadline q)
  then Some (cw_priority (head_deadline q) (s_rt s) now, cw_neg_batch (s_bs s), s) else None.
Fixpoint filter_map {A B} (f : A -> option B) (l : list A) : list B :=
  match l with [] => [] | x :: l' => match f x with Some y => y :: filter_map f l' | None => filter_map f l' end end.
Definition total_qlen (m : cmodel) : Z := fold_right (fun sq acc => zlen (snd sq) + acc) 0 (m_queues m).
(* the availability test reads request_queue[0] whenever batch_size <= len(queue) *)
Definition index_error (m : cmodel) : bool :=
  existsb (fun sq => (s_bs (fst sq) <=? zlen (snd sq)) && negb (nonempty (snd sq))) (m_queues m).
(* Model.get_available_execution_strategies *)
Definition avail_strats (now : Z) (m : cmodel) : result (cmodel * list strategy) :=
  let m1 := expire_all now m in
  if total_qlen m1 =? 0 then Ok (m1, [])
  else if index_error m1 then Err 5
  else Ok (m1, map snd (isort_by skey_lt (filter_map (avail_entry now) (m_queues m1)))).

Fixpoint find_queue (sid : Z) (qs : list (strategy * list task)) : option (list task) :=
  match qs with [] => None | (s, q) :: qs' => if s_id s =? sid then Some q else find_queue sid qs' end.
(* q[:n] *)
Definition py_prefix {A} (n : Z) (q : list A) : list A :=
  if n <? 0 then firstn (length q - Z.to_nat (- n)) q else firstn (Z.to_nat n) q.
(* Model.get_placements: the batch and the model without its tasks *)
Definition m_get_placements (s : strategy) (m : cmodel) : result (list task * cmodel) :=
  match find_queue (s_id s) (m_queues m) with
  | None => Err 6
  | Some q =>
      if cw_queue_short (zlen q) (s_bs s) then Err 3
      else let b := py_prefix (s_bs s) q in Ok (b, fold_left (fun m t => m_remove_task t m) b m)
  end.

(* Model.earliest_deadline *)
Definition earliest_deadline (m : cmodel) : Z :=
  match m_tasks m with
  | [] => -1
  | (t, _) :: l => fold_left (fun acc x => Z.min acc (t_deadline (fst x))) l (t_deadline t)
  end.

(* ---------------------------------------------------------------- Models and admission *)
Fixpoint find_model (mid : Z) (st : cw_state) : option cmodel :=
  match st with [] => None | m :: st' => if m_id m =? mid then Some m else find_model mid st' end.
Fixpoint set_model (m : cmodel) (st : cw_state) : cw_state :=
  match st with [] => [] | x :: st' => if m_id x =? m_id m then m :: st' else x :: set_model m st' end.
Definition new_model (mid : Z) (ss : list strategy) : cmodel := mkM mid (map (fun s => (s, [])) ss) [].
(* Models.add_task *)
Definition st_add_task (ss : list strategy) (t : task) (st : cw_state) : cw_state :=
  match find_model (t_model t) st with
  | Some m => set_model (m_add_task t m) st
  | None => st ++ [m_add_task t (new_model (t_model t) ss)]
  end.
(* ExecutionStrategies.get_fastest_strategy().runtime *)
Definition fastest_rt (ss : list strategy) : option Z :=
  match ss with [] => None | s :: l => Some (fold_left (fun acc x => Z.min acc (s_rt x)) l (s_rt s)) end.
(* ClockworkScheduler.run_admission: new state and the cancelled tasks, in order *)
Fixpoint admission (wd : world) (now : Z) (offered : list task) (st : cw_state) (cancels : list task)
  : result (cw_state * list task) :=
  match offered with
  | [] => Ok (st, cancels)
  | t :: rest =>
      match zassoc (t_model t) wd with
      | None => Err 9
      | Some ss =>
          match fastest_rt ss with
          | None => Err 7
          | Some f =>
              if cw_hopeless cw_enforce_deadlines (t_deadline t) now f
              then admission wd now rest st (cancels ++ [t])
              else admission wd now rest (st_add_task ss t st) cancels
          end
      end
  end.

(* ---------------------------------------------------------------- inference *)
(* a batch as decided: pool, the worker AS IT WAS when the batch was chosen, model, strategy, members, time *)
Record batch := mkB { b_pool : Z; b_worker : worker; b_model : Z; b_strat : strategy; b_tasks : list task; b_now : Z }.
Definition esq := list (Z * list strategy).

Fixpoint build_esq (now : Z) (st : cw_state) : result (cw_state * esq) :=
  match st with
  | [] => Ok ([], [])
  | m :: st' =>
      match avail_strats now m with
      | Err c => Err c
      | Ok (m', ss) =>
          match build_esq now st' with
          | Err c => Err c
          | Ok (st'', e) => Ok (m' :: st'', if nonempty ss then (m_id m, ss) :: e else e)
          end
      end
  end.
Definition esq_key (st : cw_state) (x : Z * list strategy) : Z :=
  match find_model (fst x) st with Some m => earliest_deadline m | None => -1 end.
Definition sort_esq (st : cw_state) (e : esq) : esq :=
  isort_by (fun x y => esq_key st x <? esq_key st y) e.

Fixpoint infer_loop (fuel : nat) (least_slack : bool) (now pid : Z) (w : worker) (st : cw_state) (e : esq)
         (acc : list batch) : result (worker * cw_state * list batch) :=
  match fuel with
  | O => Err 99
  | S f =>
      match e with
      | [] => Ok (w, st, acc)
      | (mid, ss) :: e' =>
          if cw_not_loaded (w_is_available w mid) then infer_loop f least_slack now pid w st e' acc
          else
            match filter (fits w) ss with
            | [] => infer_loop f least_slack now pid w st e' acc
            | s :: _ =>
                match find_model mid st with
                | None => Err 8
                | Some m =>
                    match m_get_placements s m with
                    | Err c => Err c
                    | Ok (ts, m1) =>
                        match (if nonempty ts then w_place w s (map t_id ts) else Ok w) with
                        | Err c => Err c
                        | Ok w1 =>
                            match avail_strats now m1 with
                            | Err c => Err c
                            | Ok (m2, ss2) =>
                                let st2 := set_model m2 st in
                                let e2 := if nonempty ss2
                                          then (if least_slack then sort_esq st2 (e' ++ [(mid, ss2)]) else e' ++ [(mid, ss2)])
                                          else e' in
                                infer_loop f least_slack now pid w1 st2 e2
                                           (if nonempty ts then acc ++ [mkB pid w mid s ts now] else acc)
                            end
                        end
                    end
                end
            end
      end
  end.

(* each iteration drops a queue entry or extracts >= 1 request (batch sizes >= 1), and requests never arrive during the loop *)
Definition st_total (st : cw_state) : nat := fold_right (fun m acc => (length (m_tasks m) + acc)%nat) O st.
Definition infer_fuel (st : cw_state) (e : esq) : nat := S (length e + st_total st).

Definition infer_worker (least_slack : bool) (now pid : Z) (w : worker) (st : cw_state) (acc : list batch)
  : result (cw_state * list batch) :=
  match build_esq now st with
  | Err c => Err c
  | Ok (st1, e) =>
      let e1 := if least_slack then sort_esq st1 e else e in
      match infer_loop (infer_fuel st1 e1) least_slack now pid w st1 e1 acc with
      | Err c => Err c
      | Ok (_, st2, acc2) => Ok (st2, acc2)
      end
  end.
Fixpoint infer_workers (ls : bool) (now pid : Z) (ws : list worker) (st : cw_state) (acc : list batch)
  : result (cw_state * list batch) :=
  match ws with
  | [] => Ok (st, acc)
  | w :: ws' => match infer_worker ls now pid w st acc with Err c => Err c | Ok (st', acc') => infer_workers ls now pid ws' st' acc' end
  end.
(* ClockworkScheduler.run_inference *)
Fixpoint infer_pools (ls : bool) (now : Z) (ps : list pool) (st : cw_state) (acc : list batch)
  : result (cw_state * list batch) :=
  match ps with
  | [] => Ok (st, acc)
  | p :: ps' => match infer_workers ls now (p_id p) (p_workers p) st acc with
                | Err c => Err c | Ok (st', acc') => infer_pools ls now ps' st' acc' end
  end.

(* ---------------------------------------------------------------- run_load: the virtual cluster it leaves *)
Fixpoint find_worker (pid wid : Z) (ps : list pool) : option worker :=
  match ps with
  | [] => None
  | p :: ps' => if p_id p =? pid
                then match filter (fun w => w_id w =? wid) (p_workers p) with w :: _ => Some w | [] => find_worker pid wid ps' end
                else find_worker pid wid ps'
  end.
(* Resources.deallocate gives every recorded (resource, quantity) back to its cell *)
Fixpoint res_add_back (v : resvec) (n i q : Z) : resvec :=
  match v with
  | [] => [(n, i, q)]
  | (n', i', q') :: v' => if (n =? n') && (i =? i') then (n', i', q' + q) :: v' else (n', i', q') :: res_add_back v' n i q
  end.
Fixpoint zremove {B} (k : Z) (l : list (Z * B)) : list (Z * B) :=
  match l with [] => [] | (k', v) :: l' => if k' =? k then zremove k l' else (k', v) :: zremove k l' end.
(* Worker.evict_profile on the virtual copy: the profile leaves the available / pending profiles, its resources return *)
Definition w_evict (mid : Z) (w : worker) : worker :=
  mkW (w_id w)
      (fold_left (fun v e => let '(n, i, q) := e in res_add_back v n i q)
                 (match zassoc mid (w_palloc w) with Some a => a | None => [] end) (w_res w))
      (zremove mid (w_loaded w)) (w_placed w) (zremove mid (w_palloc w)).
Definition evict_in_pools (mid pid wid : Z) (ps : list pool) : list pool :=
  map (fun p => if p_id p =? pid
                then mkP (p_id p) (map (fun w => if w_id w =? wid then w_evict mid w else w) (p_workers p))
                else p) ps.
(* run_load / refresh_priorities (float priorities) are an oracle for WHICH profiles are loaded and evicted: when the option
   is on, its answer is the list of LOAD/EVICT decisions (type 2/1, profile, pool, worker) in the order they were taken.
   Their EFFECT on the virtual cluster that run_inference reads next is modelled: every eviction is applied to the copy
   (worker.evict_profile, clockwork_scheduler.py:816); a LOAD is only announced (the copy is not touched).  An eviction of a
   profile the worker does not hold raises ValueError (2); a decision naming an unknown worker has no counterpart (8). *)
Definition load_decision := (Z * Z * Z * Z)%type.
Fixpoint apply_load (lds : list load_decision) (ps : list pool) : result (list pool) :=
  match lds with
  | [] => Ok ps
  | (ty, mid, pid, wid) :: rest =>
      if ty =? 1 then
        match find_worker pid wid ps with
        | None => Err 8
        | Some w =>
            match zassoc mid (w_loaded w), zassoc mid (w_palloc w) with
            | Some _, Some _ => apply_load rest (evict_in_pools mid pid wid ps)
            | _, _ => Err 2
            end
        end
      else apply_load rest ps
  end.

(* ---------------------------------------------------------------- schedule() *)
Record invocation := mkInv { i_now : Z; i_offered : list task; i_pools : list pool; i_load : option (list load_decision) }.
Record decisions := mkD { d_cancel : list task; d_load : list load_decision; d_batches : list batch }.
(* the virtual cluster run_inference works on *)
Definition load_pools (inv : invocation) : result (list pool) :=
  match i_load inv with Some lds => apply_load lds (i_pools inv) | None => Ok (i_pools inv) end.

Definition cw_schedule (wd : world) (ls : bool) (inv : invocation) (st : cw_state) : result (cw_state * decisions) :=
  match admission wd (i_now inv) (i_offered inv) st [] with
  | Err c => Err c
  | Ok (st1, cancels) =>
      match load_pools inv with
      | Err c => Err c
      | Ok ps =>
          match infer_pools ls (i_now inv) ps st1 [] with
          | Err c => Err c
          | Ok (st2, bs) => Ok (st2, mkD cancels (match i_load inv with Some l => l | None => [] end) bs)
          end
      end
  end.

(* a run: successive invocations on the scheduler's own state; stops at the first exception *)
Fixpoint cw_run (wd : world) (ls : bool) (invs : list invocation) (st : cw_state) : list (result decisions) :=
  match invs with
  | [] => []
  | inv :: rest =>
      match cw_schedule wd ls inv st with
      | Err c => [Err c]
      | Ok (st', d) => Ok d :: cw_run wd ls rest st'
      end
  end.
(* ClockworkScheduler.start registers a Model for every profile it is given *)
Definition cw_start (wd : world) (started : list Z) : cw_state :=
  filter_map (fun mid => match zassoc mid wd with Some ss => Some (new_model mid ss) | None => None end) started.

(* ---------------------------------------------------------------- observations (correspondence) *)
(* PlacementType values: 1 evict, 2 load, 3 cancel, 4 place.  A placement: [4; task; time; pool; worker; strategy; batch#] *)
Fixpoint obs_batches (bs : list batch) (k : Z) : list val :=
  match bs with
  | [] => []
  | b :: bs' => map (fun t => L [I 4; I (t_id t); I (b_now b); I (b_pool b); I (w_id (b_worker b)); I (s_id (b_strat b)); I k]) (b_tasks b)
                ++ obs_batches bs' (k + 1)
  end.
Definition obs_decisions (d : decisions) : val :=
  L (map (fun t => L [I 3; I (t_id t)]) (d_cancel d)
     ++ map (fun l => let '(ty, prof, p, w) := l in L [I ty; I prof; I p; I w]) (d_load d)
     ++ obs_batches (d_batches d) 0).
Definition obs_state (st : cw_state) : val :=
  L (map (fun m => L [I (m_id m);
                      L (map (fun sq => L [I (s_id (fst sq)); L (map (fun t => I (t_id t)) (snd sq))]) (m_queues m));
                      L (map (fun tn => L [I (t_id (fst tn)); I (snd tn)]) (m_tasks m))]) st).
(* decisions of every invocation, then the final queues / task maps / counters *)
Fixpoint cw_run_obs (wd : world) (ls : bool) (invs : list invocation) (st : cw_state) : list val :=
  match invs with
  | [] => [obs_state st]
  | inv :: rest =>
      match cw_schedule wd ls inv st with
      | Err c => [L [I 1; I c]]
      | Ok (st', d) => L [I 0; obs_decisions d] :: cw_run_obs wd ls rest st'
      end
  end.
Record history := mkH { h_world : world; h_least_slack : bool; h_started : list Z; h_invs : list invocation }.
Definition cw_observe (h : history) : val :=
  L (cw_run_obs (h_world h) (h_least_slack h) (h_invs h) (cw_start (h_world h) (h_started h))).

(* ---------------------------------------------------------------- monitors (decidable forms, applied to the
   IMPLEMENTATION's observations; they use the documented comparisons, not the generated ones) *)
(* the documented admission rule: a request is hopeless when its deadline is before now + the runtime of the
   fastest strategy of its profile *)
Definition hopeless (wd : world) (now : Z) (t : task) : bool :=
  match zassoc (t_model t) wd with
  | Some ss => match fastest_rt ss with Some f => t_deadline t <? now + f | None => false end
  | None => false
  end.
Fixpoint zlist_eqb (a b : list Z) : bool :=
  match a, b with [] , [] => true | x :: a', y :: b' => (x =? y) && zlist_eqb a' b' | _, _ => false end.
Fixpoint find_strategy (sid : Z) (ss : list strategy) : option strategy :=
  match ss with [] => None | s :: ss' => if s_id s =? sid then Some s else find_strategy sid ss' end.
(* a batch as reported by the implementation: pool, worker, strategy id, start time, members *)
Record obatch := mkOB { ob_pool : Z; ob_worker : Z; ob_sid : Z; ob_time : Z; ob_tasks : list task }.
(* C15 for one reported batch, given the worker as the scheduler saw it when it chose the batch *)
Definition mon_batch (wd : world) (now : Z) (w : worker) (b : obatch) : bool :=
  match ob_tasks b with
  | [] => false
  | t0 :: _ =>
      match zassoc (t_model t0) wd with
      | None => false
      | Some ss =>
          match find_strategy (ob_sid b) ss with
          | None => false
          | Some s =>
              forallb (fun t => t_model t =? t_model t0) (ob_tasks b)
              && (zlen (ob_tasks b) =? s_bs s)
              && (w_is_available w (t_model t0) =? 0)
              && fits w s
              && forallb (fun t => now + s_rt s <=? t_deadline t) (ob_tasks b)
              && (ob_time b =? now)
          end
      end
  end.
(* all batches of one invocation, in the order they were decided; the worker's resources are re-played *)
Fixpoint set_worker (pid : Z) (w : worker) (ps : list pool) : list pool :=
  match ps with
  | [] => []
  | p :: ps' => if p_id p =? pid
                then mkP (p_id p) (map (fun x => if w_id x =? w_id w then w else x) (p_workers p)) :: ps'
                else p :: set_worker pid w ps'
  end.
Fixpoint mon_batches (wd : world) (now : Z) (ps : list pool) (bs : list obatch) : bool :=
  match bs with
  | [] => true
  | b :: bs' =>
      match find_worker (ob_pool b) (ob_worker b) ps with
      | None => false
      | Some w =>
          mon_batch wd now w b &&
          match zassoc (match ob_tasks b with t0 :: _ => t_model t0 | [] => 0 end) wd with
          | Some ss => match find_strategy (ob_sid b) ss with
                       | Some s => match w_place w s (map t_id (ob_tasks b)) with
                                   | Ok w1 => mon_batches wd now (set_worker (ob_pool b) w1 ps) bs'
                                   | Err _ => false
                                   end
                       | None => false
                       end
          | None => false
          end
      end
  end.
(* admission: the cancelled ids are exactly the hopeless offered requests, in order *)
Definition mon_cancel (wd : world) (now : Z) (offered : list task) (cancelled : list Z) : bool :=
  zlist_eqb (map t_id (filter (hopeless wd now) offered)) cancelled.
(* one invocation as observed: now, offered, pools as seen, cancelled ids, batches *)
Record oinv := mkOI { oi_now : Z; oi_offered : list task; oi_pools : list pool; oi_cancelled : list Z; oi_batches : list obatch;
                      oi_load : list load_decision }.
(* is profile `mid` evicted from worker (pid, wid) once all LOAD/EVICT decisions of the invocation are taken?
   (an EVICT not followed by a LOAD of the same profile on the same worker) *)
Fixpoint evicted_at_end (lds : list load_decision) (mid pid wid : Z) (cur : bool) : bool :=
  match lds with
  | [] => cur
  | (ty, m, p, w) :: rest =>
      if (m =? mid) && (p =? pid) && (w =? wid)
      then evicted_at_end rest mid pid wid (if ty =? 1 then true else if ty =? 2 then false else cur)
      else evicted_at_end rest mid pid wid cur
  end.
(* no batch of a model on a worker from which the same invocation evicts that model *)
Definition mon_evicted (lds : list load_decision) (bs : list obatch) : bool :=
  forallb (fun b => match ob_tasks b with
                    | [] => true
                    | t0 :: _ => negb (evicted_at_end lds (t_model t0) (ob_pool b) (ob_worker b) false)
                    end) bs.
Definition oi_placed (o : oinv) : list Z := flat_map (fun b => map t_id (ob_tasks b)) (oi_batches o).
Definition mon_invocation (wd : world) (o : oinv) : bool :=
  mon_cancel wd (oi_now o) (oi_offered o) (oi_cancelled o)
  && mon_batches wd (oi_now o) (oi_pools o) (oi_batches o)
  (* at most one decision per request, only for offered requests *)
  && znodup (oi_cancelled o ++ oi_placed o)
  && forallb (fun i => zmem i (map t_id (oi_offered o))) (oi_cancelled o ++ oi_placed o)
  (* a hopeless request is never placed *)
  && forallb (fun b => forallb (fun t => negb (hopeless wd (oi_now o) t)) (ob_tasks b)) (oi_batches o)
  (* a batch is placed only where its model is still loaded at the end of the invocation's decisions *)
  && mon_evicted (oi_load o) (oi_batches o).
(* over a run: no request is placed twice *)
Definition mon_once (os : list oinv) : bool := znodup (flat_map oi_placed os).
Definition mon_history (wd : world) (os : list oinv) : bool := forallb (mon_invocation wd) os && mon_once os.
(* the model's own decisions in the form of an observation *)
Definition obatch_of (b : batch) : obatch := mkOB (b_pool b) (w_id (b_worker b)) (s_id (b_strat b)) (b_now b) (b_tasks b).
