(* Handlers of the simulator as FUNCTIONS of the machine state (a generative layer on top of the acceptor Model/Sim.v).

   Model/Sim.v accepts or rejects the primitive calls the implementation was seen to make.  Here the decision
   logic of a handler is written out as a total function of the machine's state, so that what the handler DOES
   (not only what it may do) is inside the model:

     Simulator.__handle_task_placement   simulator.py          -> placement_outcome
     WorkerPool.place_task               workers/workers.py    -> choose_worker (named worker | first fit in pool order)

   placement_outcome W Ly SL s p  answers, from the state s in which the TASK_PLACEMENT event of p is handled:
     OStart w       the task is placed on worker w and started at the clock          (EPlace t w req; EStart t clock _)
     ORetry time    a new TASK_PLACEMENT event is queued at `time` (parents not complete: clock + max(1, max remaining
                    time of the parents); pool cannot hold it: clock + 1)
     OConsumed      the task (or its graph) was cancelled: the event is dropped
     OError         Python raises (max() of an empty sequence: a parent-less task that is not ready and not cancelled)
     OSkip          outside the exact part of the model (a request naming resource units by id: the ledger's fit test is
                    then not the name-aggregate test `fits`)

   Readiness is the test TRANSLATED from Task.is_ready_to_run (through Sim.is_ready), the remaining time of a parent
   is the TRANSLATED Task.remaining_time (Gen/Src_TaskGraph.task_remaining_time).
   Tie (stream S-handlers): for every TASK_PLACEMENT event handled in the generated whole simulations, the outcome
   computed here from the machine state equals the outcome observed on the implementation (which worker, or the time
   of the re-queued event, or nothing). *)
From Coq Require Import ZArith Bool List.
Import ListNotations.
From Verif Require Import Model.Val Gen.Src_Task Gen.Src_Event Gen.Src_TaskGraph Model.Sim Model.SimRows Model.SimQ.
Open Scope Z_scope.

(* what the TASK_PLACEMENT event carries (Placement: pool, optional worker, the strategy's request) and the two facts
   about objects outside the machine that the handler reads: TaskGraph.is_cancelled() and whether the request is `any`-only *)
Record place_in := mkPI {
  pi_task : Z; pi_pool : Z; pi_worker : option Z; pi_req : request; pi_gcancelled : bool; pi_exact : bool }.

Inductive outcome := OStart (w : Z) | ORetry (time : Z) | OConsumed | OError | OSkip.

Definition workers_of (Ly : layout) (p : Z) : list Z :=
  match find (fun e => fst (fst e) =? p) Ly with Some e => snd (fst e) | None => [] end.

(* WorkerPool.place_task: the named worker if it can accomodate the strategy, else the first worker in the pool's order *)
Definition choose_worker (W : world) (Ly : layout) (res : list (Z * Z * request)) (p : place_in) : option Z :=
  match pi_worker p with
  | Some w => if fits W res w (pi_req p) then Some w else None
  | None => find (fun w => fits W res w (pi_req p)) (workers_of Ly (pi_pool p))
  end.

(* slowest strategy runtime per task (static) *)
Definition slowest_of (SL : list (Z * Z)) (t : Z) : Z :=
  match find (fun e => fst e =? t) SL with Some e => snd e | None => 0 end.

(* Task.remaining_time of a task of the machine (translated test over the machine's record) *)
Definition remaining_of (SL : list (Z * Z)) (s : sim) (t : Z) : Z :=
  match s_tasks s t with
  | Some x => task_remaining_time (t_state (t_dyn x)) (t_remaining_time (t_dyn x)) (slowest_of SL t)
  | None => 0
  end.

Fixpoint max_list (l : list Z) : option Z :=
  match l with
  | [] => None
  | a :: r => match max_list r with None => Some a | Some m => Some (Z.max a m) end
  end.

Definition placement_outcome (W : world) (Ly : layout) (SL : list (Z * Z)) (s : sim) (p : place_in) : outcome :=
  match s_tasks s (pi_task p) with
  | None => OError
  | Some x =>
      if negb (is_ready s x) then
        if task_state_eqb (t_state (t_dyn x)) TS_CANCELLED || pi_gcancelled p then OConsumed
        else match max_list (map (remaining_of SL s) (ti_parents (t_info x))) with
             | None => OError
             | Some m => ORetry (s_clock s + Z.max m 1)
             end
      else if negb (pi_exact p) then OSkip
      else match choose_worker W Ly (s_res s) p with
           | Some w => OStart w
           | None => ORetry (s_clock s + 1)
           end
  end.

(* the primitive calls the handler makes on the OStart path (the draw is the runtime the implementation drew) *)
Definition start_calls (s : sim) (p : place_in) (w draw : Z) : list ev :=
  [EPlace (pi_task p) w (pi_req p); EStart (pi_task p) (s_clock s) draw].

(* ---------- running the prediction along a log of the machine with its queue *)
Definition is_placement_handle (e : qev) : option Z :=
  match e with
  | QSim (EHandle ty _ (Some t)) => if event_type_eqb ty TASK_PLACEMENT then Some t else None
  | _ => None
  end.

Definition outcome_val (o : outcome) : val :=
  match o with
  | OStart w => L [I 1; I w]
  | ORetry t => L [I 2; I t]
  | OConsumed => L [I 3]
  | OError => L [I 4]
  | OSkip => L [I 0]
  end.

(* predicted outcome of every TASK_PLACEMENT handler of the log, in order; the place_in records are consumed in order.
   The prediction for a handler is computed from the state AFTER the EHandle call was accepted (nothing else happened). *)
Fixpoint predict (W : world) (Ly : layout) (SL : list (Z * Z)) (q : simq) (pis : list place_in) (l : list qev)
  : option (list outcome) :=
  match l with
  | [] => Some []
  | e :: rest =>
      match sq_step W q e with
      | None => None
      | Some q' =>
          match is_placement_handle e, pis with
          | Some t, p :: pis' =>
              if pi_task p =? t then
                match predict W Ly SL q' pis' rest with
                | Some os => Some ((if pi_exact p then placement_outcome W Ly SL (q_sim q') p else OSkip) :: os)
                | None => None
                end
              else None
          | Some _, [] => Some []      (* the harness stops at a handler that never returned (aborted run) *)
          | None, _ => predict W Ly SL q' pis rest
          end
      end
  end.

Definition observe_handlers (W : world) (Ly : layout) (SL : list (Z * Z)) (pis : list place_in) (l : list qev) : val :=
  match predict W Ly SL sq_init pis l with
  | Some os => L [I 1; vlist outcome_val os]
  | None => L [I 0]
  end.

(* ------------------------------------------------------------------ Simulator.__handle_task_cancellation
   "If the task already had a placement, we remove the placement from our queue": the pending TASK_PLACEMENT event of the
   cancelled task (the one _future_placement_events remembers) is removed from the event queue; nothing else is queued or
   removed.  As a function of the machine-with-queue state: *)
Definition is_placement_of (t : Z) (p : pev) : bool :=
  event_type_eqb (pe_type p) TASK_PLACEMENT && match pe_task p with Some (u, _) => u =? t | None => false end.

Definition cancel_outcome (q : simq) (t : Z) : option pev := find (is_placement_of t) (q_pending q).

Definition cancel_calls (q : simq) (t : Z) : list qev :=
  match cancel_outcome q t with Some p => [QRemove p] | None => [] end.

Definition is_cancel_handle (e : qev) : option Z :=
  match e with
  | QSim (EHandle ty _ (Some t)) => if event_type_eqb ty TASK_CANCEL then Some t else None
  | _ => None
  end.

(* predicted outcome of every TASK_CANCEL handler of the log: the time of the placement event removed, or nothing *)
Fixpoint predict_cancel (W : world) (q : simq) (l : list qev) : option (list (option Z)) :=
  match l with
  | [] => Some []
  | e :: rest =>
      match sq_step W q e with
      | None => None
      | Some q' =>
          match is_cancel_handle e with
          | Some t =>
              match predict_cancel W q' rest with
              | Some os => Some (match cancel_outcome q' t with Some p => Some (pe_time p) | None => None end :: os)
              | None => None
              end
          | None => predict_cancel W q' rest
          end
      end
  end.

Definition observe_cancels (W : world) (l : list qev) : val :=
  match predict_cancel W sq_init l with
  | Some os => L [I 1; vlist (vopt I) os]
  | None => L [I 0]
  end.

(* ------------------------------------------------------------------ Simulator.__create_events_from_task_placement(_skip)
   What the simulator does with ONE decision of the policy (inside the SCHEDULER_FINISHED handler), as a function of the
   machine-with-queue state: the decision table over (state of the task, placed / unplaced / cancel, whether a placement event
   of the task is pending = _future_placement_events, --drop_skipped_tasks).
     DoScheduleNew       Task.schedule; a new TASK_PLACEMENT event (queued after all decisions were processed)
     DoScheduleRetime    Task.schedule; the pending placement event is re-timed in place, reheapify
     DoUnschedule time   the pending placement event (at `time`) is removed, Task.unschedule          (plan retracted / skipped)
     DoNothing           the decision changes nothing (skip without a pending event; decision for a finished / cancelled task)
     DoDrop              TaskGraph.cancel(task) (cascade computed by the graph code: Model/TaskGraph.v, C06 closure part)
     DoOutside           RUNNING / PREEMPTED / EVICTED tasks (preemption and migration are outside the machine), unknown task *)
Inductive dec := DPlace (ptime runtime : Z) | DUnplaced | DCancel.
Inductive dout := DoScheduleNew | DoScheduleRetime | DoUnschedule (time : Z) | DoNothing | DoDrop | DoOutside.

Definition decision_outcome (q : simq) (drop : bool) (t : Z) (d : dec) : dout :=
  match s_tasks (q_sim q) t with
  | None => DoOutside
  | Some x =>
      let st := t_state (t_dyn x) in
      let cached := cancel_outcome q t in
      let skip := if drop then DoDrop
                  else match cached with Some p => DoUnschedule (pe_time p) | None => DoNothing end in
      match d with
      | DCancel => DoDrop
      | DPlace _ _ =>
          if task_state_ltb st TS_SCHEDULED then DoScheduleNew
          else if task_state_eqb st TS_SCHEDULED then match cached with Some _ => DoScheduleRetime | None => DoScheduleNew end
          else if task_state_eqb st TS_RUNNING || task_state_eqb st TS_PREEMPTED then DoOutside
          else DoNothing
      | DUnplaced =>
          if task_state_ltb st TS_SCHEDULED || task_state_eqb st TS_SCHEDULED then skip
          else if task_state_eqb st TS_RUNNING || task_state_eqb st TS_PREEMPTED then DoOutside
          else DoNothing
      end
  end.

(* the primitive calls of the retraction path *)
Definition unschedule_calls (q : simq) (t : Z) : list qev :=
  match cancel_outcome q t with
  | Some p => [QRemove p; QSim (EUnschedule t (s_clock (q_sim q)))]
  | None => []
  end.

Definition dout_val (o : dout) : val :=
  match o with
  | DoScheduleNew => L [I 1] | DoScheduleRetime => L [I 2] | DoUnschedule t => L [I 3; I t]
  | DoNothing => L [I 4] | DoDrop => L [I 5] | DoOutside => L [I 0]
  end.

(* decisions are given with the index of the log entry BEFORE which their processing begins *)
Fixpoint take_here (q : simq) (drop : bool) (ds : list (Z * Z * dec)) (i : Z) : list dout * list (Z * Z * dec) :=
  match ds with
  | [] => ([], [])
  | (k, t, d) :: ds' =>
      if k =? i then let '(os, r) := take_here q drop ds' i in (decision_outcome q drop t d :: os, r)
      else ([], ds)
  end.

Fixpoint predict_decisions (W : world) (drop : bool) (q : simq) (ds : list (Z * Z * dec)) (l : list qev) (i : Z)
  : option (list dout) :=
  let '(os, ds') := take_here q drop ds i in
  match ds' with
  | [] => Some os
  | _ :: _ =>
      match l with
      | [] => None
      | e :: rest =>
          match sq_step W q e with
          | Some q' => match predict_decisions W drop q' ds' rest (i + 1) with Some os' => Some (os ++ os') | None => None end
          | None => None
          end
      end
  end.

Definition observe_decisions (W : world) (drop : bool) (ds : list (Z * Z * dec)) (l : list qev) : val :=
  match predict_decisions W drop sq_init ds l 0 with
  | Some os => L [I 1; vlist dout_val os]
  | None => L [I 0]
  end.
