(* PlanSpec — what a feasible plan is, independently of any solver formulation.
   Shared by the TetriSched parts (C10/C11/C12/C14 _tetri) and the ILP builder.

   An instance is a set of tasks (with alternative execution strategies, an optional
   release, a deadline, parents, and possibly a FIXED occupation: a task that is already
   running / pinned on a worker), a set of workers with capacities per resource type, and
   the time `now` of the scheduler invocation.  A plan is a list of placements
   (task, worker, strategy index, start).

   The notion of feasibility is parameterised by a `conv`ention, because the planners
   of /repo do not agree on one (and none of them uses the simulator's):
     conv_ho  — the simulator's truth: half-open occupation [s, s+r), a running task
                occupies [now, now+remaining), children start at or after the chosen
                end of their parents, start >= now.
   Other conventions are obtained by changing the fields (closed intervals, one
   microsecond between parent and child, parent's end computed with its slowest strategy,
   a running task charged its whole runtime from `now`, starts on a grid, ...).
   No proofs here (Model/ must evaluate even when a proof breaks). *)
From Coq Require Import ZArith List Bool.
Import ListNotations.
Open Scope Z_scope.

(* resource vectors: association list  resource-type id |-> quantity  (insertion order,
   duplicated keys add up, as Resources.get_available_quantity does) *)
Definition rvec := list (Z * Z).
Fixpoint rget (v : rvec) (r : Z) : Z :=
  match v with
  | [] => 0
  | (k, q) :: v' => (if k =? r then q else 0) + rget v' r
  end.

Record strat := mkStrat { st_runtime : Z; st_req : rvec }.

(* a task that already occupies a worker (RUNNING): worker, strategy it runs with,
   start of the occupation as the planner sees it, remaining time *)
Record fixedp := mkFixed { fx_worker : Z; fx_strat : strat; fx_remaining : Z }.

Record ptask := mkPTask {
  pt_id : Z;
  pt_release : Z;              (* earliest start known to the planner; a negative value = unknown *)
  pt_deadline : Z;
  pt_strats : list strat;
  pt_parents : list Z;         (* ids of the parents that take part in this invocation *)
  pt_fixed : option fixedp }.

Record pworker := mkPWorker { pw_id : Z; pw_cap : rvec }.

Record pinst := mkPInst { pi_now : Z; pi_tasks : list ptask; pi_workers : list pworker }.

Record placement := mkPl { pl_task : Z; pl_worker : Z; pl_strat : nat; pl_start : Z }.
Definition plan := list placement.

Record conv := mkConv {
  cv_closed : Z;         (* 0: a task occupies [s, s+r);  1: [s, s+r] *)
  cv_first : Z;          (* start >= now + cv_first *)
  cv_gap : Z;            (* child start >= parent end + cv_gap *)
  cv_slowest : bool;     (* parent's end = start + its SLOWEST runtime (else the chosen one) *)
  cv_run_full : bool;    (* a fixed task occupies [now, now + runtime of its strategy) (else remaining) *)
  cv_grid : Z -> bool;   (* admissible start instants *)
  cv_deadlines : bool }. (* start + runtime <= deadline required *)

Definition conv_ho : conv := mkConv 0 0 0 false false (fun _ => true) true.

(* ---- lookups *)
Fixpoint find_task (ts : list ptask) (id : Z) : option ptask :=
  match ts with
  | [] => None
  | t :: ts' => if pt_id t =? id then Some t else find_task ts' id
  end.
Fixpoint find_worker (ws : list pworker) (id : Z) : option pworker :=
  match ws with
  | [] => None
  | w :: ws' => if pw_id w =? id then Some w else find_worker ws' id
  end.
Fixpoint find_pl (p : plan) (id : Z) : option placement :=
  match p with
  | [] => None
  | x :: p' => if pl_task x =? id then Some x else find_pl p' id
  end.

Definition slowest_runtime (ss : list strat) : Z := fold_right (fun s m => Z.max (st_runtime s) m) 0 ss.
Definition fastest_runtime (ss : list strat) : Z :=
  match ss with
  | [] => 0
  | s :: ss' => fold_right (fun s m => Z.min (st_runtime s) m) (st_runtime s) ss'
  end.

(* strategy chosen by a placement *)
Definition pl_strategy (I : pinst) (x : placement) : option strat :=
  match find_task (pi_tasks I) (pl_task x) with
  | Some t => nth_error (pt_strats t) (pl_strat x)
  | None => None
  end.

(* ---- occupation *)
(* the placement x occupies its worker at instant tau *)
Definition pl_active (cv : conv) (I : pinst) (x : placement) (tau : Z) : bool :=
  match pl_strategy I x with
  | Some s => (pl_start x <=? tau) && (tau <? pl_start x + st_runtime s + cv_closed cv)
  | None => false
  end.
Definition fx_len (cv : conv) (f : fixedp) : Z :=
  if cv_run_full cv then st_runtime (fx_strat f) else fx_remaining f.
Definition fx_active (cv : conv) (I : pinst) (f : fixedp) (tau : Z) : bool :=
  (pi_now I <=? tau) && (tau <? pi_now I + fx_len cv f + cv_closed cv).

Definition fixed_of (I : pinst) : list fixedp :=
  flat_map (fun t => match pt_fixed t with Some f => [f] | None => [] end) (pi_tasks I).

(* demand on worker w for resource r at instant tau *)
Definition demand_plan (cv : conv) (I : pinst) (p : plan) (w r tau : Z) : Z :=
  fold_right Z.add 0
    (map (fun x => if (pl_worker x =? w) && pl_active cv I x tau
                   then match pl_strategy I x with Some s => rget (st_req s) r | None => 0 end
                   else 0) p).
Definition demand_fixed (cv : conv) (I : pinst) (w r tau : Z) : Z :=
  fold_right Z.add 0
    (map (fun f => if (fx_worker f =? w) && fx_active cv I f tau then rget (st_req (fx_strat f)) r else 0)
         (fixed_of I)).
Definition demand (cv : conv) (I : pinst) (p : plan) (w r tau : Z) : Z :=
  demand_plan cv I p w r tau + demand_fixed cv I w r tau.

(* ---- the parts of feasibility *)
(* every placement names an offered (not fixed) task, an existing worker and one of the task's
   strategies; at most one placement per task *)
Definition pl_wellformed (I : pinst) (x : placement) : Prop :=
  exists t w s, find_task (pi_tasks I) (pl_task x) = Some t /\ pt_fixed t = None /\
                find_worker (pi_workers I) (pl_worker x) = Some w /\
                nth_error (pt_strats t) (pl_strat x) = Some s.
Definition plan_wellformed (I : pinst) (p : plan) : Prop :=
  NoDup (map pl_task p) /\ Forall (pl_wellformed I) p.

Definition timing_ok (cv : conv) (I : pinst) (x : placement) : Prop :=
  exists t s, find_task (pi_tasks I) (pl_task x) = Some t /\ nth_error (pt_strats t) (pl_strat x) = Some s /\
    pi_now I + cv_first cv <= pl_start x /\ pt_release t <= pl_start x /\ cv_grid cv (pl_start x) = true /\
    (cv_deadlines cv = true -> pl_start x + st_runtime s <= pt_deadline t).

(* end of parent q as the convention computes it *)
Definition parent_end (cv : conv) (I : pinst) (p : plan) (q : ptask) : option Z :=
  match pt_fixed q with
  | Some f => Some (pi_now I + fx_remaining f)
  | None =>
      match find_pl p (pt_id q) with
      | Some y =>
          if cv_slowest cv then Some (pl_start y + slowest_runtime (pt_strats q))
          else match nth_error (pt_strats q) (pl_strat y) with
               | Some s => Some (pl_start y + st_runtime s)
               | None => None
               end
      | None => None       (* parent not placed *)
      end
  end.
Definition precedence_ok (cv : conv) (I : pinst) (p : plan) (x : placement) : Prop :=
  forall t pid, find_task (pi_tasks I) (pl_task x) = Some t -> In pid (pt_parents t) ->
    exists q e, find_task (pi_tasks I) pid = Some q /\ parent_end cv I p q = Some e /\ e + cv_gap cv <= pl_start x.

Definition capacity_ok (cv : conv) (I : pinst) (p : plan) : Prop :=
  forall w tau, In w (pi_workers I) -> pi_now I <= tau ->
    forall r, demand cv I p (pw_id w) r tau <= rget (pw_cap w) r.

Definition feasible (cv : conv) (I : pinst) (p : plan) : Prop :=
  plan_wellformed I p /\ Forall (timing_ok cv I) p /\ Forall (precedence_ok cv I p) p /\ capacity_ok cv I p.

(* ---- decidable counterparts on a finite set of instants (used by the brute-force search of
   the thorough tier and by monitors; their relation to the Props is proved in Proofs/) *)
Definition timing_okb (cv : conv) (I : pinst) (x : placement) : bool :=
  match find_task (pi_tasks I) (pl_task x) with
  | Some t =>
      match nth_error (pt_strats t) (pl_strat x) with
      | Some s => (pi_now I + cv_first cv <=? pl_start x) && (pt_release t <=? pl_start x) && cv_grid cv (pl_start x)
                  && (negb (cv_deadlines cv) || (pl_start x + st_runtime s <=? pt_deadline t))
      | None => false
      end
  | None => false
  end.
Definition precedence_okb (cv : conv) (I : pinst) (p : plan) (x : placement) : bool :=
  match find_task (pi_tasks I) (pl_task x) with
  | Some t =>
      forallb (fun pid => match find_task (pi_tasks I) pid with
                          | Some q => match parent_end cv I p q with
                                      | Some e => e + cv_gap cv <=? pl_start x
                                      | None => false
                                      end
                          | None => false
                          end) (pt_parents t)
  | None => false
  end.
Definition pl_wellformedb (I : pinst) (x : placement) : bool :=
  match find_task (pi_tasks I) (pl_task x), find_worker (pi_workers I) (pl_worker x) with
  | Some t, Some _ => match pt_fixed t, nth_error (pt_strats t) (pl_strat x) with
                      | None, Some _ => true
                      | _, _ => false
                      end
  | _, _ => false
  end.
Fixpoint nodupb (l : list Z) : bool :=
  match l with
  | [] => true
  | a :: l' => negb (existsb (Z.eqb a) l') && nodupb l'
  end.
(* all resource ids mentioned by the instance *)
Definition all_resources (I : pinst) : list Z :=
  flat_map (fun w => map fst (pw_cap w)) (pi_workers I) ++
  flat_map (fun t => flat_map (fun s => map fst (st_req s)) (pt_strats t) ++
                     match pt_fixed t with Some f => map fst (st_req (fx_strat f)) | None => [] end) (pi_tasks I).
Definition capacity_okb_at (cv : conv) (I : pinst) (p : plan) (instants : list Z) : bool :=
  forallb (fun w => forallb (fun tau => forallb (fun r => demand cv I p (pw_id w) r tau <=? rget (pw_cap w) r)
                                                (all_resources I)) instants) (pi_workers I).
Definition feasibleb_at (cv : conv) (I : pinst) (p : plan) (instants : list Z) : bool :=
  nodupb (map pl_task p) && forallb (pl_wellformedb I) p && forallb (timing_okb cv I) p &&
  forallb (precedence_okb cv I p) p && capacity_okb_at cv I p instants.
