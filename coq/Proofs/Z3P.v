(* Lemmas about the Z3 constraint system (Model/Z3Model.v): structure of gen_z3, evaluation of the
   n-ary connectives, and the precedence theorem C11_z3. *)
From Coq Require Import ZArith Bool List Lia ZifyBool.
Import ListNotations.
From Verif Require Import Model.Val Gen.Src_Z3 Model.Z3Model.
Open Scope Z_scope.

Lemma feval_and : forall a l, feval a (FAnd l) = forallb (feval a) l.
Proof. intros a l. cbn [feval]. induction l as [|x l IH]; cbn [forallb]; [reflexivity|]. now rewrite IH. Qed.
Lemma feval_or : forall a l, feval a (FOr l) = existsb (feval a) l.
Proof. intros a l. cbn [feval]. induction l as [|x l IH]; cbn [existsb]; [reflexivity|]. now rewrite IH. Qed.
Lemma ieval_add2 : forall a x z, ieval a (IAdd [x; IConst z]) = ieval a x + z.
Proof. intros. cbn [ieval]. lia. Qed.

Lemma sat_in : forall fs a f, sat fs a = true -> In f fs -> feval a f = true.
Proof. intros fs a f Hs Hin. unfold sat in Hs. rewrite forallb_forall in Hs. now apply Hs. Qed.
Lemma sat_app : forall a x y, sat (x ++ y) a = sat x a && sat y a.
Proof. intros. unfold sat. apply forallb_app. Qed.

(* ---- structure of the generated system *)
Lemma gen_z3_parts : forall ins fs, gen_z3 ins = Ok fs ->
  exists tr er, concat_results (map (task_rows ins) (i_tasks ins)) = Ok tr /\ exclusivity_rows ins = Ok er /\
    fs = tr ++ flat_map (dependency_rows ins) (i_tasks ins) ++ er ++ objective_rows ins.
Proof.
  intros ins fs H. unfold gen_z3 in H.
  destruct (concat_results (map (task_rows ins) (i_tasks ins))) as [tr|c] eqn:Et; cbn [bind] in H; [|discriminate].
  destruct (exclusivity_rows ins) as [er|c] eqn:Ee; cbn [bind] in H; [|discriminate].
  inversion H; subst. now exists tr, er.
Qed.

Lemma concat_results_in : forall A (l : list (result (list A))) out r x,
  concat_results l = Ok out -> In r l -> forall rows, r = Ok rows -> In x rows -> In x out.
Proof.
  induction l as [|r0 l IH]; intros out r x Hc Hin rows Hr Hx; [contradiction|].
  cbn [concat_results] in Hc. destruct r0 as [x0|c]; cbn [bind] in Hc; [|discriminate].
  destruct (concat_results l) as [y|c] eqn:El; cbn [bind] in Hc; [|discriminate].
  inversion Hc; subst. apply in_or_app. destruct Hin as [Heq|Hin].
  - inversion Heq; subst. now left.
  - right. eapply IH; eauto.
Qed.
Lemma concat_results_ok : forall A (l : list (result (list A))) out r,
  concat_results l = Ok out -> In r l -> exists rows, r = Ok rows.
Proof.
  induction l as [|r0 l IH]; intros out r Hc Hin; [contradiction|].
  cbn [concat_results] in Hc. destruct r0 as [x0|c]; cbn [bind] in Hc; [|discriminate].
  destruct (concat_results l) as [y|c] eqn:El; cbn [bind] in Hc; [|discriminate].
  destruct Hin as [<-|Hin]; [now exists x0|]. eapply IH; eauto.
Qed.

Lemma dependency_rows_in : forall ins fs t, gen_z3 ins = Ok fs -> In t (i_tasks ins) ->
  forall f, In f (dependency_rows ins t) -> In f fs.
Proof.
  intros ins fs t Hg Ht f Hf. destruct (gen_z3_parts _ _ Hg) as (tr & er & _ & _ & ->).
  apply in_or_app; right. apply in_or_app; left. apply (proj2 (in_flat_map _ _ _)). exists t. split; assumption.
Qed.
Lemma task_rows_in : forall ins fs t rows, gen_z3 ins = Ok fs -> In t (i_tasks ins) ->
  task_rows ins t = Ok rows -> forall f, In f rows -> In f fs.
Proof.
  intros ins fs t rows Hg Ht Hr f Hf. destruct (gen_z3_parts _ _ Hg) as (tr & er & Htr & _ & ->).
  apply in_or_app; left.
  eapply (concat_results_in _ _ tr (task_rows ins t) f Htr); [|exact Hr|exact Hf].
  apply in_map_iff. exists t. split; [reflexivity|assumption].
Qed.
Lemma task_rows_ok : forall ins fs t, gen_z3 ins = Ok fs -> In t (i_tasks ins) -> exists rows, task_rows ins t = Ok rows.
Proof.
  intros ins fs t Hg Ht. destruct (gen_z3_parts _ _ Hg) as (tr & er & Htr & _ & _).
  eapply (concat_results_ok _ _ tr (task_rows ins t) Htr). apply in_map_iff. exists t. split; [reflexivity|assumption].
Qed.

(* ---- the parent filter *)
Lemma parent_variables_of_in : forall (lookup : Z -> option ztask) parents pid p,
  In pid parents -> lookup pid = Some p -> In p (parent_variables_of lookup parents).
Proof.
  intros lookup parents pid p Hin Hl. unfold parent_variables_of. apply in_flat_map. exists pid. split; [assumption|].
  rewrite Hl. now left.
Qed.
Lemma parent_variables_of_inv : forall (lookup : Z -> option ztask) parents p,
  In p (parent_variables_of lookup parents) -> exists pid, In pid parents /\ lookup pid = Some p.
Proof.
  intros lookup parents p H. unfold parent_variables_of in H. apply in_flat_map in H. destruct H as (pid & Hin & Hp).
  exists pid. split; [assumption|]. destruct (lookup pid) as [v|]; [|contradiction]. destruct Hp as [->|[]]. reflexivity.
Qed.

(* ---- C11: in every satisfying assignment a placed child has all its co-decided parents placed
        and does not start before parent's start + parent's remaining time *)
Definition placed (a : asg) (t : ztask) : Prop := truth a (VPlaced (zt_id t)) = true.
Definition start (a : asg) (t : ztask) : Z := a (VStart (zt_id t)).

Theorem c11_z3 : forall ins fs a, gen_z3 ins = Ok fs -> sat fs a = true ->
  forall c pid p, In c (i_tasks ins) -> In pid (zt_parents c) -> find_task (i_tasks ins) pid = Some p ->
  placed a c -> placed a p /\ start a c >= start a p + zt_remaining p.
Proof.
  intros ins fs a Hg Hs c pid p Hc Hpid Hp Hpl.
  pose proof (parent_variables_of_in _ _ _ _ Hpid Hp) as Hin.
  split.
  - assert (Hf : feval a (dep_placed (ops ins) c (parent_variables_of (find_task (i_tasks ins)) (zt_parents c))) = true).
    { eapply sat_in; [exact Hs|]. eapply dependency_rows_in; eauto. cbn [dependency_rows]. now left. }
    unfold dep_placed in Hf. cbn [o_implies o_is_placed o_and ops] in Hf.
    change (feval a (FImp ?x ?y)) with (implb (feval a x) (feval a y)) in Hf.
    rewrite feval_and in Hf. cbn [feval] in Hf. unfold placed in Hpl. rewrite Hpl in Hf. cbn [implb] in Hf.
    rewrite forallb_forall in Hf. specialize (Hf (FVar (VPlaced (zt_id p)))).
    unfold placed. apply Hf. apply in_map_iff. now exists p.
  - assert (Hf : feval a (dep_start (ops ins) c (parent_variables_of (find_task (i_tasks ins)) (zt_parents c))) = true).
    { eapply sat_in; [exact Hs|]. eapply dependency_rows_in; eauto. cbn [dependency_rows]. right; now left. }
    unfold dep_start in Hf. cbn [o_implies o_is_placed o_and o_ge o_start_time o_add_const o_remaining_us ops] in Hf.
    change (feval a (FImp ?x ?y)) with (implb (feval a x) (feval a y)) in Hf.
    rewrite feval_and in Hf. unfold placed in Hpl. cbn [feval] in Hf. rewrite Hpl in Hf. cbn [implb] in Hf.
    rewrite forallb_forall in Hf.
    specialize (Hf (FGe (IVar (VStart (zt_id c))) (IAdd [IVar (VStart (zt_id p)); IConst (zt_remaining p)]))).
    assert (Hin' : In (FGe (IVar (VStart (zt_id c))) (IAdd [IVar (VStart (zt_id p)); IConst (zt_remaining p)]))
                     (map (fun parent : ztask => FGe (IVar (VStart (zt_id c))) (IAdd [IVar (VStart (zt_id parent)); IConst (zt_remaining parent)]))
                          (parent_variables_of (find_task (i_tasks ins)) (zt_parents c)))).
    { apply in_map_iff. now exists p. }
    specialize (Hf Hin'). cbn [feval ieval] in Hf. unfold start. lia.
Qed.

(* ---- the hypotheses are satisfiable by a non-trivial state: a chain t0 -> t1 on one worker with
        two CPU and two GPU slots, both placed, t1 exactly at t0's end (the point z3 returns) *)
Definition ex_chain : instance :=
  mkInst 0 true
    [mkTask 0 0 0 5 20 [mkStrat 5 [(0, 1)]] [] 1;
     mkTask 1 0 0 8 20 [mkStrat 8 [(0, 1); (1, 1)]] [0] 2]
    [mkWorker 0 0 [(0, 2, 2); (1, 2, 2)]] [(0, 1); (1, 0)] [(0, 20)].
Definition ex_chain_asg : asg :=
  asg_of [(VStart 0, 0); (VStart 1, 5); (VPlaced 0, 1); (VPlaced 1, 1); (VWorker 0, 1); (VWorker 1, 1);
          (VRes 0 0, 1); (VRes 1 0, 1); (VRes 1 1, 1); (VPenalty, -2000000000); (VSlack 0, 7); (VGoal, 14)].
Example c11_z3_nonvacuous : exists fs c p,
  gen_z3 ex_chain = Ok fs /\ sat fs ex_chain_asg = true /\ In c (i_tasks ex_chain) /\ In (zt_id p) (zt_parents c) /\
  find_task (i_tasks ex_chain) (zt_id p) = Some p /\ placed ex_chain_asg c /\ (16 <= length fs)%nat.
Proof.
  destruct (gen_z3 ex_chain) as [fs|c] eqn:E; [|vm_compute in E; discriminate].
  exists fs, (mkTask 1 0 0 8 20 [mkStrat 8 [(0, 1); (1, 1)]] [0] 2), (mkTask 0 0 0 5 20 [mkStrat 5 [(0, 1)]] [] 1).
  vm_compute in E. inversion E; subst. vm_compute. repeat split; auto; lia.
Qed.

(* ---- C11's second clause (predecessors already running / scheduled: not before their expected
        finish) is FALSE of the system as asserted: rows exist only for parents that are offered.
        Witness = corpus/C11_z3/fz3c_running_parent.json: t0 RUNNING (1us spent of 10, expected finish
        now + 10 = 12), its child t1 VIRTUAL, offered through the lookahead at now = 2; one worker with
        2 CPU of which t0 holds 1.  The point below is the one z3 returns. *)
Definition ex_outside : instance :=
  mkInst 2 false [mkTask 1 0 (-1) 5 50 [mkStrat 5 [(0, 1)]] [0] 2] [mkWorker 0 0 [(0, 2, 1)]] [] [(0, 50)].
Definition ex_outside_asg : asg :=
  asg_of [(VStart 1, 2); (VPlaced 1, 1); (VWorker 1, 1); (VRes 1 0, 1); (VPenalty, -2000000000); (VSlack 0, 43); (VGoal, 43)].
Lemma c11_z3_outside_parent_refuted : exists fs c pid,
  gen_z3 ex_outside = Ok fs /\ sat fs ex_outside_asg = true /\ In c (i_tasks ex_outside) /\ In pid (zt_parents c) /\
  find_task (i_tasks ex_outside) pid = None /\ placed ex_outside_asg c /\
  (* expected finish of the running parent is 12 *) start ex_outside_asg c < 12 /\
  outside_ok [(zt_id c, 12)] ex_outside_asg = false.
Proof.
  destruct (gen_z3 ex_outside) as [fs|c] eqn:E; [|vm_compute in E; discriminate].
  exists fs, (mkTask 1 0 (-1) 5 50 [mkStrat 5 [(0, 1)]] [0] 2), 0.
  vm_compute in E. inversion E; subst. vm_compute. repeat split; auto; discriminate.
Qed.

(* ---- the C11 monitor is the decidable form of the statement *)
Lemma c11_ok_iff : forall ins a, c11_ok ins a = true <->
  (forall c pid p, In c (i_tasks ins) -> In pid (zt_parents c) -> find_task (i_tasks ins) pid = Some p ->
     placed a c -> placed a p /\ start a c >= start a p + zt_remaining p).
Proof.
  intros ins a. unfold c11_ok, placed, start. split.
  - intros H c pid p Hc Hpid Hp Hpl. rewrite forallb_forall in H. specialize (H c Hc). rewrite forallb_forall in H.
    specialize (H pid Hpid). rewrite Hp, Hpl in H. cbn [implb] in H. apply andb_prop in H. destruct H as [H1 H2]. split; [assumption|lia].
  - intros H. apply forallb_forall. intros c Hc. apply forallb_forall. intros pid Hpid.
    destruct (find_task (i_tasks ins) pid) as [p|] eqn:Hp; [|reflexivity].
    destruct (truth a (VPlaced (zt_id c))) eqn:Hpl; [|reflexivity]. cbn [implb].
    destruct (H c pid p Hc Hpid Hp Hpl) as [H1 H2]. rewrite H1. cbn [andb]. lia.
Qed.
Corollary c11_monitor_sound : forall ins fs a, gen_z3 ins = Ok fs -> sat fs a = true -> c11_ok ins a = true.
Proof. intros ins fs a Hg Hs. apply c11_ok_iff. intros. eapply c11_z3; eauto. Qed.
