(* C10 for the Z3 constraint system: every satisfying assignment reads back as exactly one
   well-formed decision per offered task (existing worker of the named pool, start >= now and
   >= release), and tasks whose executions touch on one worker hold disjoint resource slots. *)
From Coq Require Import ZArith Bool List Lia ZifyBool.
Import ListNotations.
From Verif Require Import Model.Val Gen.Src_Z3 Model.Z3Model Proofs.Z3P.
Open Scope Z_scope.

(* ---------------------------------------------------------------- ranges *)
Lemma zrange_from_in : forall n lo x, In x (zrange_from n lo) <-> lo <= x < lo + Z.of_nat n.
Proof.
  induction n as [|n IH]; intros lo x; cbn [zrange_from In].
  - lia.
  - rewrite IH. lia.
Qed.
Lemma py_range_in : forall n x, In x (py_range n) <-> 0 <= x < n.
Proof. intros n x. unfold py_range. rewrite zrange_from_in. lia. Qed.

(* ---------------------------------------------------------------- powers of two *)
Lemma pow2_pos : forall k, 0 <= k -> 0 < 2 ^ k.
Proof. intros. apply Z.pow_pos_nonneg; lia. Qed.
Lemma pow2_lt : forall j k, 0 <= j < k -> 2 ^ j < 2 ^ k.
Proof. intros. apply Z.pow_lt_mono_r; lia. Qed.
Lemma shr_pow2 : forall n i, 0 < n -> 0 <= i <= n ->
  py_shr (2 ^ (n - 1)) i = if i =? n then 0 else 2 ^ (n - 1 - i).
Proof.
  intros n i Hn Hi. unfold py_shr. rewrite Z.shiftr_div_pow2 by lia.
  destruct (i =? n) eqn:E.
  - apply Z.div_small. split; [apply Z.pow_nonneg; lia|]. apply pow2_lt. lia.
  - rewrite <- Z.pow_sub_r by lia. reflexivity.
Qed.

(* ---------------------------------------------------------------- per-task rows *)
Lemma task_rows_shape : forall ins t rows, task_rows ins t = Ok rows ->
  (0 < nworkers ins /\ any_compatible ins t = true /\
   exists rr, concat_results (map (fun p => resource_rows ins t (fst p) (snd p)) (indexed_workers ins)) = Ok rr /\
              rows = [timing (ops ins) t (i_now ins); one_hot (ops ins) t (nworkers ins); placed_iff (ops ins) t] ++ rr) \/
  (0 < nworkers ins /\ any_compatible ins t = false /\ rows = [FIff (FVar (VPlaced (zt_id t))) (FOr [])]).
Proof.
  intros ins t rows H. unfold task_rows in H.
  destruct (nworkers ins <=? 0) eqn:En; [discriminate|].
  destruct (any_compatible ins t) eqn:Ec.
  - destruct (forallb _ (rtypes t)) eqn:Es; [|discriminate].
    destruct (concat_results _) as [rr|c] eqn:Er; cbn [bind] in H; [|discriminate].
    inversion H; subst. left. repeat split; try lia. now exists rr.
  - inversion H; subst. right. repeat split; lia.
Qed.

Lemma feval_bv_eq_int : forall ins a t z,
  feval a (o_bv_eq_int (ops ins) (worker_bv ins t) z) = (worker_bits ins a t =? z mod 2 ^ nworkers ins).
Proof. reflexivity. Qed.
Lemma feval_bv_ne_int : forall ins a t z,
  feval a (o_bv_ne_int (ops ins) (worker_bv ins t) z) = negb (worker_bits ins a t =? z mod 2 ^ nworkers ins).
Proof. reflexivity. Qed.

Lemma one_hot_sem : forall ins a t, 0 < nworkers ins ->
  feval a (one_hot (ops ins) t (nworkers ins)) = true ->
  worker_bits ins a t = 0 \/ exists k, 0 <= k < nworkers ins /\ worker_bits ins a t = 2 ^ k.
Proof.
  intros ins a t Hn H. unfold one_hot in H. cbn [o_or o_placed_on_worker ops] in H.
  rewrite feval_or in H. apply existsb_exists in H. destruct H as (f & Hin & Hf).
  apply in_map_iff in Hin. destruct Hin as (i & <- & Hi). apply py_range_in in Hi.
  change (feval a (o_bv_eq_int (ops ins) (worker_bv ins t) (py_shr (2 ^ (nworkers ins - 1)) i)) = true) in Hf.
  rewrite feval_bv_eq_int in Hf. rewrite shr_pow2 in Hf by lia.
  destruct (i =? nworkers ins) eqn:E.
  - left. rewrite Z.mod_0_l in Hf by (pose proof (pow2_pos (nworkers ins)); lia). lia.
  - right. exists (nworkers ins - 1 - i). split; [lia|].
    rewrite Z.mod_small in Hf; [lia|]. split; [apply Z.pow_nonneg; lia|apply pow2_lt; lia].
Qed.

Lemma placed_iff_sem : forall ins a t, 0 < nworkers ins ->
  feval a (placed_iff (ops ins) t) = true -> truth a (VPlaced (zt_id t)) = negb (worker_bits ins a t =? 0).
Proof.
  intros ins a t Hn H. unfold placed_iff in H. cbn [o_iff o_is_placed o_placed_on_worker ops] in H.
  change (Bool.eqb (truth a (VPlaced (zt_id t))) (feval a (o_bv_ne_int (ops ins) (worker_bv ins t) 0)) = true) in H.
  rewrite feval_bv_ne_int in H. rewrite Z.mod_0_l in H by (pose proof (pow2_pos (nworkers ins)); lia).
  apply Bool.eqb_prop in H. exact H.
Qed.

Lemma timing_sem : forall ins a t, feval a (timing (ops ins) t (i_now ins)) = true ->
  t_start a t >= zt_release t /\ t_start a t >= i_now ins.
Proof.
  intros ins a t H. unfold timing in H. cbn [o_and o_ge o_start_time o_const o_release_us ops] in H.
  cbn [feval ieval] in H. unfold t_start. lia.
Qed.

(* what a placed offered task satisfies *)
Lemma placed_facts : forall ins fs a t, gen_z3 ins = Ok fs -> sat fs a = true -> In t (i_tasks ins) ->
  truth a (VPlaced (zt_id t)) = true ->
  any_compatible ins t = true /\ 0 < nworkers ins /\
  (exists k, 0 <= k < nworkers ins /\ worker_bits ins a t = 2 ^ k) /\
  t_start a t >= zt_release t /\ t_start a t >= i_now ins.
Proof.
  intros ins fs a t Hg Hs Ht Hpl. destruct (task_rows_ok _ _ _ Hg Ht) as (rows & Hr).
  assert (Hall : forall f, In f rows -> feval a f = true).
  { intros f Hf. eapply sat_in; [exact Hs|]. eapply task_rows_in; eauto. }
  destruct (task_rows_shape _ _ _ Hr) as [(Hn & Hc & rr & _ & ->)|(Hn & Hc & ->)].
  - assert (H1 := Hall _ (or_introl eq_refl)).
    assert (H2 := Hall _ (or_intror (or_introl eq_refl))).
    assert (H3 := Hall _ (or_intror (or_intror (or_introl eq_refl)))).
    apply timing_sem in H1. apply (one_hot_sem _ _ _ Hn) in H2. apply (placed_iff_sem _ _ _ Hn) in H3.
    rewrite Hpl in H3. repeat split; try tauto; try lia.
    destruct H2 as [H2|H2]; [rewrite H2 in H3; discriminate|exact H2].
  - assert (H1 := Hall _ (or_introl eq_refl)). cbn [feval] in H1. rewrite Hpl in H1. discriminate.
Qed.

(* ---------------------------------------------------------------- the workers dict *)
Lemma worker_find_hit : forall l k0 k, k0 <= k -> 0 <= k0 -> (Z.to_nat (k - k0) < length l)%nat ->
  exists w, worker_find k0 l (2 ^ k) = Some (k, w) /\ nth_error l (Z.to_nat (k - k0)) = Some w.
Proof.
  induction l as [|w l IH]; intros k0 k Hk H0 Hlen; cbn [length] in Hlen; [lia|].
  cbn [worker_find]. destruct (2 ^ k0 =? 2 ^ k) eqn:E.
  - assert (k0 = k). { apply Z.eqb_eq in E. apply Z.pow_inj_r in E; lia. } subst.
    exists w. rewrite Z.sub_diag. split; reflexivity.
  - assert (k0 < k). { destruct (Z.eq_dec k0 k); [subst; rewrite Z.eqb_refl in E; discriminate|lia]. }
    destruct (IH (k0 + 1) k ltac:(lia) ltac:(lia) ltac:(lia)) as (w' & Hf & Hn).
    exists w'. split; [exact Hf|]. replace (Z.to_nat (k - k0)) with (S (Z.to_nat (k - (k0 + 1)))) by lia. exact Hn.
Qed.
Lemma worker_at_hit : forall ins k, 0 <= k < nworkers ins ->
  exists w, worker_at ins (2 ^ k) = Some (k, w) /\ nth_error (i_workers ins) (Z.to_nat k) = Some w.
Proof.
  intros ins k Hk. unfold worker_at, nworkers in *.
  destruct (worker_find_hit (i_workers ins) 0 k ltac:(lia) ltac:(lia) ltac:(lia)) as (w & H1 & H2).
  rewrite Z.sub_0_r in H2. now exists w.
Qed.

(* ---------------------------------------------------------------- sequence *)
Lemma sequence_map_ok : forall A B (f : A -> result B) (P : A -> B -> Prop) l,
  (forall x, In x l -> exists y, f x = Ok y /\ P x y) ->
  exists ys, sequence (map f l) = Ok ys /\ Forall2 P l ys.
Proof.
  induction l as [|x l IH]; intros H.
  - exists []. split; [reflexivity|constructor].
  - destruct (H x (or_introl eq_refl)) as (y & Hy & Py).
    destruct IH as (ys & Hys & Pys). { intros z Hz. apply H. now right. }
    exists (y :: ys). cbn [map sequence]. rewrite Hy. cbn [bind]. rewrite Hys. cbn [bind]. split; [reflexivity|now constructor].
Qed.

(* ---------------------------------------------------------------- decisions *)
Definition decision_for (ins : instance) (t : ztask) (d : decision) : Prop :=
  dec_task d = zt_id t /\
  match d with
  | Unplaced _ => True
  | Placed _ s pool k =>
      0 <= k /\ (exists w, nth_error (i_workers ins) (Z.to_nat k) = Some w /\ zw_pool w = pool) /\
      s >= i_now ins /\ s >= zt_release t
  end.

Theorem c10_z3_decisions : forall ins fs a, gen_z3 ins = Ok fs -> sat fs a = true ->
  exists ds, readback ins a = Ok ds /\ Forall2 (decision_for ins) (i_tasks ins) ds.
Proof.
  intros ins fs a Hg Hs. unfold readback. apply sequence_map_ok. intros t Ht.
  destruct (truth a (VPlaced (zt_id t))) eqn:Hpl.
  - destruct (placed_facts _ _ _ _ Hg Hs Ht Hpl) as (_ & Hn & (k & Hk & Hb) & Hr & Hnow).
    unfold worker_bits in Hb. rewrite Hb. destruct (worker_at_hit ins k Hk) as (w & Hw & Hnth). rewrite Hw.
    eexists. split; [reflexivity|]. split; [reflexivity|]. repeat split; try lia; try exact Hr; try exact Hnow.
    exists w. split; [exact Hnth|reflexivity].
  - eexists. split; [reflexivity|]. split; [reflexivity|constructor].
Qed.

Lemma forall2_map_ids : forall ins l ds, Forall2 (decision_for ins) l ds -> map dec_task ds = map zt_id l.
Proof. intros ins l ds H. induction H as [|t d l ds Hd _ IH]; [reflexivity|]. cbn [map]. destruct Hd as [-> _]. now rewrite IH. Qed.
Lemma zlist_eqb_refl : forall l, zlist_eqb l l = true.
Proof. induction l as [|x l IH]; [reflexivity|]. cbn [zlist_eqb]. rewrite Z.eqb_refl. exact IH. Qed.
Lemma zlist_eqb_eq : forall a b, zlist_eqb a b = true -> a = b.
Proof.
  induction a as [|x a IH]; intros [|y b] H; try reflexivity; try discriminate.
  cbn [zlist_eqb] in H. apply andb_prop in H. destruct H as [H1 H2]. apply Z.eqb_eq in H1. subst. f_equal. now apply IH.
Qed.

(* exactly one decision per offered task, in the offered order: in particular at most one decision
   per task when no task is offered twice, every offered task is answered, nothing else is decided *)
Corollary c10_z3_one_decision_each : forall ins fs a ds, gen_z3 ins = Ok fs -> sat fs a = true ->
  readback ins a = Ok ds -> map dec_task ds = map zt_id (i_tasks ins).
Proof.
  intros ins fs a ds Hg Hs Hr. destruct (c10_z3_decisions _ _ _ Hg Hs) as (ds' & Hr' & HF).
  rewrite Hr in Hr'. inversion Hr'; subst. eapply forall2_map_ids; eauto.
Qed.

(* the monitor on decisions accepts every satisfying assignment *)
Lemma decision_for_ok : forall ins t d, In t (i_tasks ins) -> decision_for ins t d -> decision_ok ins d = true.
Proof.
  intros ins t d Ht [Hid Hd]. destruct d as [t' s pool k|t']; cbn [dec_task] in Hid; subst; cbn [decision_ok].
  - destruct Hd as (Hk & (w & Hn & Hp) & Hs1 & Hs2). rewrite Hn.
    apply andb_true_intro; split; [apply andb_true_intro; split; lia|].
    apply existsb_exists. exists t. split; [exact Ht|]. lia.
  - apply existsb_exists. exists t. split; [exact Ht|lia].
Qed.
Lemma decisions_monitor_sound : forall ins fs a, gen_z3 ins = Ok fs -> sat fs a = true -> decisions_ok ins a = true.
Proof.
  intros ins fs a Hg Hs. destruct (c10_z3_decisions _ _ _ Hg Hs) as (ds & Hr & HF). unfold decisions_ok. rewrite Hr.
  rewrite (forall2_map_ids _ _ _ HF), zlist_eqb_refl. cbn [andb].
  apply forallb_forall. intros d Hd.
  assert (Hex : exists t, In t (i_tasks ins) /\ decision_for ins t d).
  { clear Hr. induction HF as [|t d' l ds' Hd' _ IH]; [contradiction|]. destruct Hd as [<-|Hd].
    - exists t. split; [now left|exact Hd'].
    - destruct (IH Hd) as (t0 & Ht0 & Hd0). exists t0. split; [now right|exact Hd0]. }
  destruct Hex as (t & Ht & Hdt). eapply decision_for_ok; eauto.
Qed.

Corollary c10_z3_at_most_one : forall ins fs a ds, gen_z3 ins = Ok fs -> sat fs a = true -> readback ins a = Ok ds ->
  NoDup (map zt_id (i_tasks ins)) -> NoDup (map dec_task ds).
Proof. intros ins fs a ds Hg Hs Hr Hnd. rewrite (c10_z3_one_decision_each _ _ _ _ Hg Hs Hr). exact Hnd. Qed.
