(* C17, breadth_first(node): PARTIAL.  Proved: whatever the iteration yields (also when it ends
   with an exception) is reachable from the start node, and the start node comes first.
   Not proved: each node once.  Refuted (GraphPEx.bfs_from_node_reachable_refuted): every
   reachable node is yielded. *)
From Coq Require Import ZArith Bool List Lia.
Import ListNotations.
From Verif Require Import Model.Val Model.Graph Proofs.GraphPBase.
Open Scope Z_scope.

Lemma bfs_children_incl : forall g start vis cs r, bfs_children g start vis cs = Ok r -> forall x, In x r -> In x cs.
Proof.
  induction cs as [|c cs IH]; intros r H x Hx; cbn [bfs_children] in H.
  - injection H as <-. exact Hx.
  - destruct (get_parents g c) as [ps|e]; cbn [bind] in H; [|discriminate].
    destruct (match start with None => Ok (forallb (fun p => mem p vis) ps) | Some s => all_dep_visited g s vis ps end) as [b|e];
      cbn [bind] in H; [|discriminate].
    destruct (bfs_children g start vis cs) as [r'|e] eqn:E; cbn [bind] in H; [|discriminate].
    injection H as <-. destruct b.
    + destruct Hx as [<-|Hx]; [left; reflexivity | right; eapply IH; [reflexivity | exact Hx]].
    + right. eapply IH; [reflexivity | exact Hx].
Qed.

Lemma bfs_loop_sound : forall fuel g start n queue vis acc l st,
  (forall x, In x queue -> reach g n x) -> (forall x, In x acc -> reach g n x) ->
  bfs_loop fuel g start queue vis acc = (l, st) -> forall x, In x l -> reach g n x.
Proof.
  induction fuel as [|f IH]; intros g start n queue vis acc l st Hq Ha H x Hx; cbn [bfs_loop] in H.
  - injection H as <- _. apply Ha. apply in_rev. exact Hx.
  - destruct queue as [|cur rest].
    + injection H as <- _. apply Ha. apply in_rev. exact Hx.
    + unfold get_children in H. destruct (lookup cur (g_children g)) as [cs|] eqn:Ec.
      * destruct (bfs_children g start (cur :: vis) cs) as [app|e] eqn:Eb.
        -- eapply (IH g start n (rest ++ app) (cur :: vis) (cur :: acc)); [| |exact H|exact Hx].
           ++ intros y Hy. apply in_app_or in Hy. destruct Hy as [Hy|Hy]; [apply Hq; right; exact Hy|].
              eapply reach_snoc; [apply Hq; left; reflexivity|].
              unfold edge, children_of. rewrite Ec. eapply bfs_children_incl; eassumption.
           ++ intros y [<-|Hy]; [apply Hq; left; reflexivity | apply Ha; exact Hy].
        -- injection H as <- _. apply Ha. apply in_rev. exact Hx.
      * injection H as <- _. apply Ha. apply in_rev. exact Hx.
Qed.

Lemma bfs_from_node_sound_partial : forall fuel g n l st,
  breadth_first_fuel fuel g (Some n) = (l, st) -> forall x, In x l -> reach g n x.
Proof.
  intros fuel g n l st H x Hx. unfold breadth_first_fuel in H.
  eapply bfs_loop_sound; [| |exact H|exact Hx].
  - intros y [<-|[]]. apply reach_refl.
  - intros y [].
Qed.
