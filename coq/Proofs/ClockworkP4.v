(* Lemmas about Model/Clockwork.v, part 4: the set of Models (state), admission, and the inference loop. *)
From Coq Require Import ZArith Bool List Lia ZifyBool Sorting.Sorted Permutation.
Import ListNotations.
From Verif Require Import Model.Val Gen.Src_Clockwork Model.Clockwork Proofs.ClockworkP Proofs.ClockworkP2 Proofs.ClockworkP3.
Open Scope Z_scope.

(* strategy objects of one profile are distinct objects *)
Definition world_wf (wd : world) : Prop := forall mid ss, zassoc mid wd = Some ss -> NoDup (map s_id ss).
(* the queues of a Model are keyed by the strategies of its profile *)
Definition conforms (wd : world) (m : cmodel) : Prop := zassoc (m_id m) wd = Some (map fst (m_queues m)).
Record Inv_st (wd : world) (st : cw_state) : Prop := mkInv_st {
  st_nodup : NoDup (map m_id st);
  st_inv : Forall Inv_m st;
  st_conf : Forall (conforms wd) st }.
Definition st_recs (st : cw_state) : list task := flat_map (fun m => map fst (m_tasks m)) st.

(* ------------------------------------------------------------------ lookup / update of a Model *)
Lemma find_model_some : forall mid st m, find_model mid st = Some m -> In m st /\ m_id m = mid.
Proof.
  intros mid st. induction st as [|x st IH]; intros m H; cbn [find_model] in H; [discriminate|].
  destruct (m_id x =? mid) eqn:E.
  - injection H as <-. split; [left; reflexivity|lia].
  - destruct (IH m H). split; [right; assumption|assumption].
Qed.
Lemma find_model_none : forall mid st, find_model mid st = None -> ~ In mid (map m_id st).
Proof.
  intros mid st. induction st as [|x st IH]; intros H; cbn [find_model] in H; [intros []|].
  destruct (m_id x =? mid) eqn:E; [discriminate|]. cbn [map]. intros [Hc|Hc]; [lia|]. apply (IH H). assumption.
Qed.
Lemma find_model_in : forall st m, NoDup (map m_id st) -> In m st -> find_model (m_id m) st = Some m.
Proof.
  induction st as [|x st IH]; intros m Hd H; [destruct H|]. cbn [find_model].
  cbn [map] in Hd. inversion Hd as [|? ? Hn Hd']; subst. destruct H as [->|H]; [rewrite Z.eqb_refl; reflexivity|].
  destruct (m_id x =? m_id m) eqn:E; [|apply IH; assumption]. exfalso. apply Hn. assert (E' : m_id x = m_id m) by lia. rewrite E'. apply in_map. assumption.
Qed.
Lemma set_model_ids : forall m st, map m_id (set_model m st) = map m_id st.
Proof.
  intros m st. induction st as [|x st IH]; cbn [set_model]; [reflexivity|].
  destruct (m_id x =? m_id m) eqn:E; cbn [map]; [f_equal; lia|f_equal; exact IH].
Qed.
Lemma set_model_in : forall m st x, In x (set_model m st) -> x = m \/ (In x st /\ m_id x <> m_id m) \/ (In x st /\ ~ NoDup (map m_id st)).
Proof.
  intros m st. induction st as [|y st IH]; intros x H; cbn [set_model] in H; [destruct H|].
  destruct (m_id y =? m_id m) eqn:E.
  - destruct H as [<-|H]; [left; reflexivity|].
    destruct (Z.eq_dec (m_id x) (m_id m)) as [Ex|Ex]; [|right; left; split; [right; assumption|assumption]].
    right; right. split; [right; assumption|]. intros Hd. cbn [map] in Hd. inversion Hd as [|? ? Hn _]; subst. apply Hn.
    assert (E' : m_id y = m_id x) by lia. rewrite E'. apply in_map. assumption.
  - destruct H as [<-|H]; [right; left; split; [left; reflexivity|lia]|].
    destruct (IH x H) as [->|[[Hx Hne]|[Hx Hnd]]]; [left; reflexivity|right; left; split; [right; assumption|assumption]|].
    right; right. split; [right; assumption|]. intros Hd. apply Hnd. cbn [map] in Hd. inversion Hd; assumption.
Qed.
Lemma set_model_Forall : forall (P : cmodel -> Prop) m st, Forall P st -> P m -> Forall P (set_model m st).
Proof.
  intros P m st Hs Hm. induction Hs as [|x st Hx Hs IH]; cbn [set_model]; [constructor|].
  destruct (m_id x =? m_id m); constructor; assumption.
Qed.
Lemma find_set_same : forall m st, In (m_id m) (map m_id st) -> find_model (m_id m) (set_model m st) = Some m.
Proof.
  intros m st. induction st as [|x st IH]; intros H; [destruct H|]. cbn [set_model].
  destruct (m_id x =? m_id m) eqn:E; cbn [find_model].
  - rewrite Z.eqb_refl. reflexivity.
  - rewrite E. apply IH. cbn [map] in H. destruct H as [H|H]; [lia|assumption].
Qed.
Lemma find_set_other : forall mid m st, mid <> m_id m -> find_model mid (set_model m st) = find_model mid st.
Proof.
  intros mid m st Hne. induction st as [|x st IH]; cbn [set_model]; [reflexivity|].
  destruct (m_id x =? m_id m) eqn:E; cbn [find_model].
  - assert (E1 : m_id m =? mid = false) by lia. assert (E2 : m_id x =? mid = false) by lia. rewrite E1, E2. reflexivity.
  - destruct (m_id x =? mid); [reflexivity|exact IH].
Qed.

Lemma set_model_inv_st : forall wd m' m st, Inv_st wd st -> find_model (m_id m') st = Some m -> Inv_m m' -> shrinks m' m -> Inv_st wd (set_model m' st).
Proof.
  intros wd m' m st [H1 H2 H3] Hf Hi Hs. destruct (find_model_some _ _ _ Hf) as [Hin _]. constructor.
  - rewrite set_model_ids. assumption.
  - apply set_model_Forall; assumption.
  - apply set_model_Forall; [assumption|]. rewrite Forall_forall in H3. specialize (H3 m Hin). unfold conforms in *.
    destruct Hs as [Hid Hs']. rewrite Hid, (shrinks_strategies m' m); [assumption|]. split; assumption.
Qed.
Lemma st_recs_in : forall st t, In t (st_recs st) <-> exists m, In m st /\ In t (map fst (m_tasks m)).
Proof. intros. unfold st_recs. apply in_flat_map. Qed.
Lemma set_model_recs : forall m' m st, NoDup (map m_id st) -> find_model (m_id m') st = Some m ->
  forall t, In t (st_recs (set_model m' st)) -> In t (map fst (m_tasks m')) \/ exists x, In x st /\ m_id x <> m_id m' /\ In t (map fst (m_tasks x)).
Proof.
  intros m' m st Hd Hf t H. apply st_recs_in in H. destruct H as [x [Hx Ht]]. apply set_model_in in Hx.
  destruct Hx as [->|[[Hx Hne]|[_ Hc]]]; [left; assumption| |contradiction].
  right. exists x. repeat split; assumption.
Qed.
Lemma set_model_recs_incl : forall m' m st, NoDup (map m_id st) -> find_model (m_id m') st = Some m -> shrinks m' m ->
  incl (st_recs (set_model m' st)) (st_recs st).
Proof.
  intros m' m st Hd Hf Hs t H. destruct (set_model_recs m' m st Hd Hf t H) as [Ht|[x [Hx [_ Ht]]]]; apply st_recs_in.
  - exists m. split; [apply (find_model_some _ _ _ Hf)|]. destruct Hs as [_ [_ [_ Hi]]]. apply Hi. assumption.
  - exists x. split; assumption.
Qed.

(* a record of the task map belongs to the model *)
Lemma map_task_model : forall m t n, Inv_m m -> In (t, n) (m_tasks m) -> t_model t = m_id m.
Proof.
  intros m t n Hi H. pose proof (inv_count m Hi) as Hc. rewrite Forall_forall in Hc. destruct (Hc (t, n) H) as [Hc1 Hc2]. cbn [fst snd] in *.
  destruct (count_q_pos_in t (m_queues m) ltac:(lia)) as [sq [Hsq Hq]].
  apply in_q_iff in Hq. unfold ids in Hq. apply in_map_iff in Hq. destruct Hq as [x [Ex Hx]].
  destruct (in_queue_key m sq x Hi Hsq Hx) as [nx Hnx].
  destruct (keys_unique _ _ _ _ _ (inv_keys m Hi) Hnx H Ex) as [-> _].
  pose proof (inv_model m Hi) as Hm. rewrite Forall_forall in Hm. specialize (Hm sq Hsq). rewrite Forall_forall in Hm. apply Hm. assumption.
Qed.
Lemma rec_model : forall m t, Inv_m m -> In t (map fst (m_tasks m)) -> t_model t = m_id m.
Proof. intros m t Hi H. apply in_map_iff in H. destruct H as [[u n] [E Hu]]. cbn [fst] in E. subst u. eapply map_task_model; eassumption. Qed.
Lemma rec_key : forall (m : list (task * Z)) t, In t (map fst m) -> In (t_id t) (keys m).
Proof. intros m t H. rewrite keys_fst. apply in_map. assumption. Qed.

(* ------------------------------------------------------------------ Models.add_task and admission *)
Lemma st_add_task_inv : forall wd ss t st, world_wf wd -> Inv_st wd st -> zassoc (t_model t) wd = Some ss -> ss <> [] ->
  Inv_st wd (st_add_task ss t st).
Proof.
  intros wd ss t st Hw [H1 H2 H3] Hz Hne. unfold st_add_task. destruct (find_model (t_model t) st) as [m|] eqn:Ef.
  - destruct (find_model_some _ _ _ Ef) as [Hin Hid]. rewrite Forall_forall in H2, H3.
    assert (Hc : conforms wd m) by (apply H3; assumption). unfold conforms in Hc. rewrite Hid, Hz in Hc. injection Hc as Hc.
    constructor.
    + rewrite set_model_ids. assumption.
    + apply set_model_Forall; [apply Forall_forall; assumption|]. apply add_task_inv; [apply H2; assumption|congruence|].
      intros Hq. rewrite Hq in Hc. cbn in Hc. congruence.
    + apply set_model_Forall; [apply Forall_forall; assumption|]. unfold conforms. rewrite add_task_id, add_task_fst, Hid, Hz, Hc. reflexivity.
  - apply find_model_none in Ef. constructor.
    + rewrite map_app. cbn [map]. rewrite add_task_id. cbn [new_model m_id].
      eapply Permutation_NoDup; [apply Permutation_cons_append|]. constructor; assumption.
    + apply Forall_app. split; [assumption|]. constructor; [|constructor].
      apply add_task_inv; [apply new_model_inv; eapply Hw; eassumption|reflexivity|]. cbn [new_model m_queues]. destruct ss; [congruence|discriminate].
    + apply Forall_app. split; [assumption|]. constructor; [|constructor]. unfold conforms.
      rewrite add_task_id, add_task_fst. cbn [new_model m_id m_queues]. rewrite map_map. cbn [fst]. rewrite map_id. assumption.
Qed.
Lemma st_add_task_recs : forall ss t st x, In x (st_recs (st_add_task ss t st)) -> x = t \/ In x (st_recs st).
Proof.
  intros ss t st x H. unfold st_add_task in H. destruct (find_model (t_model t) st) as [m|] eqn:Ef.
  - apply st_recs_in in H. destruct H as [y [Hy Hx]]. apply set_model_in in Hy.
    assert (Ha : forall z, In x (map fst (m_tasks (m_add_task t z))) -> x = t \/ In x (map fst (m_tasks z))).
    { intros z Hz. unfold m_add_task in Hz. destruct (map_find t (m_tasks z)); [right; assumption|]. cbn [m_tasks] in Hz.
      rewrite map_app in Hz. apply in_app_or in Hz. destruct Hz as [Hz|[Hz|[]]]; [right; assumption|left; symmetry; assumption]. }
    destruct Hy as [->|[[Hy _]|[Hy _]]].
    + destruct (Ha m Hx) as [->|Hm]; [left; reflexivity|right]. apply st_recs_in. exists m. split; [apply (find_model_some _ _ _ Ef)|assumption].
    + right. apply st_recs_in. exists y. split; assumption.
    + right. apply st_recs_in. exists y. split; assumption.
  - unfold st_recs in H. rewrite flat_map_app in H. apply in_app_or in H. destruct H as [H|H]; [right; assumption|].
    cbn [flat_map] in H. rewrite app_nil_r in H. unfold m_add_task in H. cbn [new_model m_tasks map_find] in H.
    cbn [map fst app] in H. destruct H as [H|[]]. left. symmetry. assumption.
Qed.

Lemma admission_inv : forall wd now offered st c st' c', world_wf wd -> Inv_st wd st ->
  admission wd now offered st c = Ok (st', c') ->
  Inv_st wd st' /\ (forall x, In x (st_recs st') -> In x (st_recs st) \/ (In x offered /\ hopeless wd now x = false)).
Proof.
  intros wd now offered. induction offered as [|t rest IH]; intros st c st' c' Hw Hi H; cbn [admission] in H.
  - injection H as <- <-. split; [assumption|]. intros x Hx. left. assumption.
  - destruct (zassoc (t_model t) wd) as [ss|] eqn:Ez; [|discriminate].
    destruct (fastest_rt ss) as [f|] eqn:Ef; [|discriminate].
    assert (Hh : hopeless wd now t = cw_hopeless cw_enforce_deadlines (t_deadline t) now f).
    { unfold hopeless. rewrite Ez, Ef, bridge_enforce, bridge_hopeless. reflexivity. }
    destruct (cw_hopeless cw_enforce_deadlines (t_deadline t) now f) eqn:Eh.
    + destruct (IH _ _ _ _ Hw Hi H) as [H1 H2]. split; [assumption|]. intros x Hx. destruct (H2 x Hx) as [Hl|[Hr1 Hr2]]; [left; assumption|right; split; [right; assumption|assumption]].
    + assert (Hne : ss <> []) by (intros ->; discriminate).
      destruct (IH _ _ _ _ Hw (st_add_task_inv wd ss t st Hw Hi Ez Hne) H) as [H1 H2]. split; [assumption|].
      intros x Hx. destruct (H2 x Hx) as [Hl|[Hr1 Hr2]]; [|right; split; [right; assumption|assumption]].
      apply st_add_task_recs in Hl. destruct Hl as [->|Hl]; [right; split; [left; reflexivity|assumption]|left; assumption].
Qed.

(* ------------------------------------------------------------------ the inference loop *)
Definition placed (acc : list batch) : list task := flat_map b_tasks acc.
(* what C15 asks of a batch *)
Definition batch_ok (wd : world) (b : batch) : Prop :=
  w_is_available (b_worker b) (b_model b) = 0 /\
  fits (b_worker b) (b_strat b) = true /\
  (exists ss, zassoc (b_model b) wd = Some ss /\ In (b_strat b) ss) /\
  1 <= s_bs (b_strat b) /\ zlen (b_tasks b) = s_bs (b_strat b) /\
  Forall (fun t => t_model t = b_model b /\ b_now b + s_rt (b_strat b) <= t_deadline t) (b_tasks b).
Definition esq_ok (wd : world) (e : esq) : Prop :=
  Forall (fun x => exists ss, zassoc (fst x) wd = Some ss /\ incl (snd x) ss) e.
Definition once_inv (acc : list batch) (st : cw_state) : Prop :=
  NoDup (placed acc) /\ forall t, In t (placed acc) -> ~ In t (st_recs st).

Lemma w_place_facts : forall w s ts w1, w_place w s ts = Ok w1 -> w_id w1 = w_id w /\ w_loaded w1 = w_loaded w /\ 1 <= s_bs s.
Proof.
  intros w s ts w1 H. unfold w_place in H. destruct (s_bs s <? 1) eqn:E; [discriminate|].
  destruct (existsb _ ts || negb (znodup ts)); [discriminate|].
  destruct (res_allocate_multiple (w_res w) (s_res s)); [|discriminate]. injection H as <-. cbn. repeat split; lia.
Qed.
Lemma esq_ok_sort : forall wd st e, esq_ok wd e -> esq_ok wd (sort_esq st e).
Proof. intros wd st e H. unfold esq_ok, sort_esq in *. rewrite Forall_forall in *. intros x Hx. apply isort_by_in in Hx. apply H. assumption. Qed.
Lemma sort_esq_length : forall st e, length (sort_esq st e) = length e.
Proof. intros. apply isort_by_length. Qed.
Lemma placed_app : forall a b, placed (a ++ b) = placed a ++ placed b.
Proof. intros. unfold placed. apply flat_map_app. Qed.
Lemma nonempty_true : forall {A} (l : list A), nonempty l = true -> l <> [].
Proof. intros A [|x l] H; [discriminate|congruence]. Qed.
Lemma ids_nodup_recs : forall l, NoDup (ids l) -> NoDup l.
Proof. intros l H. unfold ids in H. eapply NoDup_map_inv. eassumption. Qed.

Lemma NoDup_app_intro : forall {A} (a b : list A), NoDup a -> NoDup b -> (forall x, In x a -> In x b -> False) -> NoDup (a ++ b).
Proof.
  intros A a b Ha Hb Hd. induction Ha as [|x a Hx Ha IH]; cbn [app]; [assumption|]. constructor.
  - intros Hc. apply in_app_or in Hc. destruct Hc as [Hc|Hc]; [contradiction|]. apply (Hd x); [left; reflexivity|assumption].
  - apply IH. intros y Hy1 Hy2. apply (Hd y); [right; assumption|assumption].
Qed.
Lemma NoDup_app_l : forall {A} (a b : list A), NoDup (a ++ b) -> NoDup a /\ NoDup b /\ (forall x, In x a -> In x b -> False).
Proof.
  intros A a b. induction a as [|x a IH]; cbn [app]; intros H.
  - split; [constructor|]. split; [assumption|]. intros x [].
  - inversion H as [|? ? Hn Hd]; subst. destruct (IH Hd) as [H1 [H2 H3]]. split.
    + constructor; [|assumption]. intros Hc. apply Hn. apply in_or_app. left. assumption.
    + split; [assumption|]. intros y [<-|Hy] Hy2; [apply Hn; apply in_or_app; right; assumption|apply (H3 y); assumption].
Qed.

Definition new_ok (pid : Z) (w : worker) (now : Z) (b : batch) : Prop :=
  b_pool b = pid /\ w_id (b_worker b) = w_id w /\ b_now b = now /\ b_tasks b <> [] /\ w_loaded (b_worker b) = w_loaded w.

Lemma infer_loop_spec : forall wd fuel ls now pid w st e acc w' st' acc',
  world_wf wd -> Inv_st wd st -> Forall (clean now) st -> esq_ok wd e ->
  Forall (batch_ok wd) acc -> once_inv acc st ->
  infer_loop fuel ls now pid w st e acc = Ok (w', st', acc') ->
  Inv_st wd st' /\ Forall (clean now) st' /\ Forall (batch_ok wd) acc' /\ once_inv acc' st' /\
  incl (st_recs st') (st_recs st) /\
  exists new, acc' = acc ++ new /\ incl (placed new) (st_recs st) /\ Forall (new_ok pid w now) new.
Proof.
  intros wd fuel. induction fuel as [|f IH]; intros ls now pid w st e acc w' st' acc' Hw Hi Hc He Hb Ho H;
    cbn [infer_loop] in H; [discriminate|].
  destruct e as [|[mid ss] e'].
  - injection H as <- <- <-. repeat (split; [assumption|]). split; [apply incl_refl|].
    exists []. rewrite app_nil_r. split; [reflexivity|]. split; [intros x []|constructor].
  - inversion He as [|? ? [ssw [Hzw Hincl]] He']; subst. cbn [fst snd] in Hzw, Hincl.
    destruct (cw_not_loaded (w_is_available w mid)) eqn:El; [eapply IH; eassumption|].
    destruct (filter (fits w) ss) as [|s rest] eqn:Efil; [eapply IH; eassumption|].
    destruct (find_model mid st) as [m|] eqn:Efm; [|discriminate].
    destruct (m_get_placements s m) as [[ts m1]|] eqn:Egp; [|discriminate].
    destruct (if nonempty ts then w_place w s (map t_id ts) else Ok w) as [w1|] eqn:Ewp; [|discriminate].
    destruct (avail_strats now m1) as [[m2 ss2]|] eqn:Eav; [|discriminate].
    (* facts about the model that was chosen *)
    destruct (find_model_some _ _ _ Efm) as [Hmin Hmid].
    pose proof Hi as [Hnd Hinv Hconf].
    assert (Him : Inv_m m) by (rewrite Forall_forall in Hinv; apply Hinv; assumption).
    assert (Hcm : clean now m) by (rewrite Forall_forall in Hc; apply Hc; assumption).
    assert (Hcf : conforms wd m) by (rewrite Forall_forall in Hconf; apply Hconf; assumption).
    assert (Hs_in : In s (filter (fits w) ss)) by (rewrite Efil; left; reflexivity).
    apply filter_In in Hs_in. destruct Hs_in as [Hs_ss Hfit].
    assert (Hs_w : In s ssw) by (apply Hincl; assumption).
    unfold conforms in Hcf. rewrite Hmid, Hzw in Hcf. injection Hcf as Hcf.
    destruct (get_placements_spec s m ts m1 Him Egp) as [Him1 [Hsh1 [[s' [q [Hq [Hsid [Hts Hlen]]]]] [Hgone [Hsize Hndts]]]]].
    (* the queue found is the queue of s itself *)
    assert (Hss' : s' = s).
    { rewrite Hcf in Hs_w. apply in_map_iff in Hs_w. destruct Hs_w as [[s0 q0] [E0 Hq0]]. cbn [fst] in E0. subst s0.
      pose proof (find_queue_nodup s q0 _ (inv_sids m Him) Hq0) as F1.
      pose proof (find_queue_nodup s' q _ (inv_sids m Him) Hq) as F2. rewrite Hsid in F2.
      assert (q0 = q) by congruence. subst q0.
      pose proof (inv_sids m Him) as Hd. clear - Hq Hq0 Hsid Hd.
      induction (m_queues m) as [|[a b] l IHl]; [destruct Hq|]. cbn [map fst] in Hd. inversion Hd as [|? ? Hn Hd']; subst.
      destruct Hq as [Hq|Hq]; destruct Hq0 as [Hq0|Hq0].
      - congruence.
      - injection Hq as -> ->. exfalso. apply Hn. apply in_map_iff. exists (s, q). split; [cbn; lia|assumption].
      - injection Hq0 as -> ->. exfalso. apply Hn. apply in_map_iff. exists (s', q). split; [cbn; lia|assumption].
      - apply IHl; assumption. }
    subst s'.
    destruct (avail_strats_spec now m1 m2 ss2 Him1 Eav) as [Him2 [Hsh2 [Hcl2 Hav2]]].
    assert (Hsh : shrinks m2 m) by (eapply shrinks_trans; eassumption).
    assert (Hid2 : m_id m2 = mid) by (destruct Hsh as [E _]; lia).
    assert (Hf2 : find_model (m_id m2) st = Some m) by (rewrite Hid2; assumption).
    assert (Hi2 : Inv_st wd (set_model m2 st)) by (eapply set_model_inv_st; eassumption).
    assert (Hc2 : Forall (clean now) (set_model m2 st)) by (apply set_model_Forall; assumption).
    assert (Hrec2 : incl (st_recs (set_model m2 st)) (st_recs st)) by (eapply set_model_recs_incl; eassumption).
    (* the new entry of the deque *)
    assert (He2 : esq_ok wd (if nonempty ss2 then if ls then sort_esq (set_model m2 st) (e' ++ [(mid, ss2)]) else e' ++ [(mid, ss2)] else e')).
    { assert (Hnew : esq_ok wd (e' ++ [(mid, ss2)])).
      { apply Forall_app. split; [assumption|]. constructor; [|constructor]. exists ssw. cbn [fst snd]. split; [assumption|].
        intros x Hx. destruct (Hav2 x Hx) as [qx [Hqx _]]. rewrite Hcf, <- (shrinks_strategies m2 m Hsh).
        apply in_map_iff. exists (x, qx). split; [reflexivity|assumption]. }
      destruct (nonempty ss2); [|assumption]. destruct ls; [apply esq_ok_sort|]; assumption. }
    (* members of the batch *)
    assert (Hts_recs : forall t, In t ts -> In t (map fst (m_tasks m))).
    { intros t Ht. destruct (in_queue_key m (s, q) t Him Hq (Hts t Ht)) as [n Hn]. apply in_map_iff. exists (t, n). split; [reflexivity|assumption]. }
    assert (Hts_st : incl ts (st_recs st)).
    { intros t Ht. apply st_recs_in. exists m. split; [assumption|apply Hts_recs; assumption]. }
    assert (Hts_gone : forall t, In t ts -> ~ In t (st_recs (set_model m2 st))).
    { intros t Ht Hc'. destruct (set_model_recs m2 m st Hnd Hf2 t Hc') as [Hin2|[x [Hx [Hne Hin2]]]].
      - apply (Hgone t Ht). apply (shrinks_keys _ _ Hsh2). apply rec_key. assumption.
      - assert (Hix : Inv_m x) by (rewrite Forall_forall in Hinv; apply Hinv; assumption).
        pose proof (rec_model x t Hix Hin2) as E1. pose proof (rec_model m t Him (Hts_recs t Ht)) as E2. lia. }
    destruct (nonempty ts) eqn:Ene.
    + (* a batch was extracted *)
      destruct (w_place_facts _ _ _ _ Ewp) as [Hwid [Hwl Hbs]].
      assert (Hbok : batch_ok wd (mkB pid w mid s ts now)).
      { unfold batch_ok. cbn [b_worker b_model b_strat b_tasks b_now].
        split; [rewrite bridge_not_loaded in El; lia|]. split; [assumption|]. split; [exists ssw; split; assumption|].
        split; [assumption|]. split; [apply Hlen; lia|].
        rewrite Forall_forall. intros t Ht. split.
        - pose proof (inv_model m Him) as Hm. rewrite Forall_forall in Hm. specialize (Hm _ Hq). cbn [snd] in Hm. rewrite Forall_forall in Hm.
          rewrite (Hm t (Hts t Ht)). assumption.
        - unfold clean in Hcm. rewrite Forall_forall in Hcm. specialize (Hcm _ Hq). unfold cleanq in Hcm. cbn [fst snd] in Hcm.
          rewrite Forall_forall in Hcm. apply Hcm. apply Hts. assumption. }
      assert (Hb1 : Forall (batch_ok wd) (acc ++ [mkB pid w mid s ts now])) by (apply Forall_app; split; [assumption|constructor; [assumption|constructor]]).
      assert (Ho1 : once_inv (acc ++ [mkB pid w mid s ts now]) (set_model m2 st)).
      { destruct Ho as [Ho1 Ho2]. unfold once_inv. rewrite placed_app. unfold placed at 2 4. cbn [flat_map b_tasks]. rewrite app_nil_r. split.
        - apply NoDup_app_intro; [assumption|apply ids_nodup_recs; assumption|]. intros t Ht1 Ht2. apply (Ho2 t Ht1). apply Hts_st. assumption.
        - intros t Ht. apply in_app_or in Ht. destruct Ht as [Ht|Ht]; [|apply Hts_gone; assumption].
          intros Hc'. apply (Ho2 t Ht). apply Hrec2. assumption. }
      destruct (IH _ _ _ _ _ _ _ _ _ _ Hw Hi2 Hc2 He2 Hb1 Ho1 H) as [R1 [R2 [R3 [R4 [R5 [new [Rn1 [Rn2 Rn3]]]]]]]].
      repeat (split; [assumption|]). split; [eapply incl_tran; eassumption|].
      exists (mkB pid w mid s ts now :: new). split; [rewrite Rn1, <- app_assoc; reflexivity|]. split.
      * unfold placed. cbn [flat_map b_tasks]. apply incl_app; [assumption|]. eapply incl_tran; [exact Rn2|assumption].
      * constructor; [unfold new_ok; cbn; split; [reflexivity|]; split; [reflexivity|]; split; [reflexivity|]; split; [apply nonempty_true; assumption|reflexivity]|].
        eapply Forall_impl; [|exact Rn3]. intros b [B1 [B2 [B3 [B4 B5]]]]. unfold new_ok. repeat split; try assumption; [lia|congruence].
    + injection Ewp as <-.
      assert (Ho1 : once_inv acc (set_model m2 st)).
      { destruct Ho as [Ho1 Ho2]. split; [assumption|]. intros t Ht Hc'. apply (Ho2 t Ht). apply Hrec2. assumption. }
      destruct (IH _ _ _ _ _ _ _ _ _ _ Hw Hi2 Hc2 He2 Hb Ho1 H) as [R1 [R2 [R3 [R4 [R5 [new [Rn1 [Rn2 Rn3]]]]]]]].
      repeat (split; [assumption|]). split; [eapply incl_tran; eassumption|].
      exists new. split; [assumption|]. split; [eapply incl_tran; [exact Rn2|assumption]|assumption].
Qed.
