(* TaskGraph.cancel (model tg_cancel, with the visiting order computed by topological_sort):
   exactness, closure of the doomed set, errors are reported, the closure invariant is preserved. *)
From Coq Require Import ZArith Bool List Lia ZifyBool.
Import ListNotations.
From Verif Require Import Model.Val Gen.Src_Task Gen.Src_TaskGraph Model.TaskGraph
  Proofs.TaskGraphP Proofs.TaskGraphP1 Proofs.TaskGraphP2.
Open Scope Z_scope.

Lemma tg_cancel_unfold : forall g t time g' r, tg_cancel g t time = (g', r) ->
  (tg_ok g && zmem t (tg_nodes g) = false /\ g' = g /\ r = Err 4) \/
  (tg_ok g = true /\ In t (tg_nodes g) /\
   ((exists e, topo_sort g = Err e /\ g' = g /\ r = Err e) \/
    (exists order, topo_sort g = Ok order /\ tg_cancel_with order g t time = (g', r)))).
Proof.
  intros g t time g' r H. unfold tg_cancel in H.
  destruct (tg_ok g && zmem t (tg_nodes g)) eqn:E; cbn [negb] in H.
  - right. apply andb_true_iff in E. destruct E as [E1 E2]. apply zmem_In in E2. split; [exact E1|]. split; [exact E2|].
    destruct (topo_sort g) as [order|e] eqn:Et.
    + right. exists order. auto.
    + left. exists e. inversion H; subst. auto.
  - left. inversion H; subst. auto.
Qed.

Theorem tg_cancel_exact : forall g t time g' cs, tg_cancel g t time = (g', Ok cs) ->
  wf g /\ In t (tg_nodes g) /\ (exists order, topo_ok g order) /\
  cancel_post g g' cs /\ (forall n, In n cs <-> hit g t n).
Proof.
  intros g t time g' cs H. apply tg_cancel_unfold in H.
  destruct H as [(_ & _ & H)|(Hok & Ht & [(e & _ & _ & H)|(order & Ho & H)])]; try discriminate.
  pose proof (tg_ok_wf _ Hok) as W. pose proof (topo_sort_ok _ _ W Ho) as To.
  destruct (tg_cancel_with_ok _ _ _ _ _ _ W Ht To H) as [P Q].
  split; [exact W|]. split; [exact Ht|]. split; [exists order; exact To|]. split; [exact P | exact Q].
Qed.

(* C06(d): exactly the doomed tasks that were not yet cancelled are cancelled, nothing else changes *)
Theorem tg_cancel_closure : forall g t time g' cs, tg_cancel g t time = (g', Ok cs) -> cancel_closed g ->
  (forall d, In d cs <-> doomed g t d /\ tg_state g d <> TS_CANCELLED) /\
  (forall d, doomed g t d -> tg_state g' d = TS_CANCELLED) /\
  (forall d, ~ doomed g t d -> tg_task g' d = tg_task g d) /\
  cancel_post g g' cs.
Proof.
  intros g t time g' cs H CC. destruct (tg_cancel_exact _ _ _ _ _ H) as (W & Ht & (order & To) & P & Q).
  assert (E : forall d, In d cs <-> doomed g t d /\ tg_state g d <> TS_CANCELLED).
  { intros d. rewrite Q. split.
    - intros Hh. apply (hit_iff_doomed g t order W Ht To CC d); [eapply hit_node; eauto | exact Hh].
    - intros [Hd Hs]. apply (hit_iff_doomed g t order W Ht To CC d); [|auto].
      eapply reach_node; eauto. apply doomed_reach; auto. }
  split; [exact E|]. split; [|split; [|exact P]].
  - intros d Hd. destruct (task_state_eq_dec (tg_state g d) TS_CANCELLED) as [Es|Es].
    + assert (~ In d cs) by (rewrite E; tauto). unfold tg_state. rewrite (cp_out _ _ _ P d H0). exact Es.
    + apply (cp_in _ _ _ P). apply E. auto.
  - intros d Hd. apply (cp_out _ _ _ P). rewrite E. tauto.
Qed.

(* topological_sort only fails with 6 (cycle) or 7 (fuel) *)
Lemma tvisit_err : forall fuel g path n out e, tvisit fuel g path n out = Err e -> e = 6 \/ e = 7.
Proof.
  induction fuel as [|f IH]; intros g0 path n out e0 Hv; cbn [tvisit] in Hv; [inversion Hv; auto|].
  destruct (zmem n out); [discriminate|]. destruct (zmem n path); [inversion Hv; auto|].
  set (go := fix go (cs : list Z) (o : list Z) : result (list Z) :=
               match cs with [] => Ok o | c :: cs' => bind (tvisit f g0 (n :: path) c o) (go cs') end) in *.
  assert (G : forall cs o e1, go cs o = Err e1 -> e1 = 6 \/ e1 = 7).
  { induction cs as [|c cs IHcs]; intros o e1 Hg; cbn in Hg; [discriminate|].
    destruct (tvisit f g0 (n :: path) c o) eqn:Ev; cbn [bind] in Hg; [eapply IHcs; eauto | inversion Hg; subst; eapply IH; eauto]. }
  destruct (go (tg_children g0 n) out) eqn:Eg; cbn [bind] in Hv; [discriminate | inversion Hv; subst; eapply G; eauto].
Qed.
Lemma tvisit_all_err : forall fuel g ns out e, tvisit_all fuel g ns out = Err e -> e = 6 \/ e = 7.
Proof.
  intros fuel g ns; induction ns as [|n ns IHn]; intros out e Hv; cbn [tvisit_all] in Hv; [discriminate|].
  destruct (tvisit fuel g [] n out) eqn:Ev; cbn [bind] in Hv.
  - eapply IHn; eauto.
  - inversion Hv; subst. eapply tvisit_err; eauto.
Qed.

(* an error is the ValueError raised by Task.cancel on a task that had to be cancelled: nothing is
   silently skipped (4: refused input, 6: cyclic graph, 7: fuel of the model) *)
Theorem tg_cancel_err : forall g t time g' e, tg_cancel g t time = (g', Err e) ->
  (e = 4 /\ g' = g) \/ (e = 6 /\ g' = g) \/ e = 7 \/
  (e = 1 /\ exists c, hit g t c /\ ~ cancellable (tg_state g c)).
Proof.
  intros g t time g' e H. apply tg_cancel_unfold in H.
  destruct H as [(_ & -> & H)|(Hok & Ht & [(e' & Ht' & -> & H)|(order & Ho & H)])].
  - inversion H. auto.
  - inversion H; subst e'. clear H. unfold topo_sort in Ht'. apply tvisit_all_err in Ht'.
    destruct Ht' as [E|E]; rewrite E; [right; left; split; reflexivity | right; right; left; reflexivity].
  - pose proof (tg_ok_wf _ Hok) as W. pose proof (topo_sort_ok _ _ W Ho) as To.
    destruct (tg_cancel_with_err _ _ _ _ _ _ W Ht To H) as [A|A]; auto.
Qed.

Theorem tg_cancel_not_skipped : forall g t time d, cancel_closed g -> doomed g t d ->
  tg_state g d <> TS_CANCELLED -> ~ cancellable (tg_state g d) ->
  forall g' cs, tg_cancel g t time <> (g', Ok cs).
Proof.
  intros g t time d CC Hd Hs Hc g' cs H.
  destruct (tg_cancel_closure _ _ _ _ _ H CC) as (E & _ & _ & P).
  assert (In d cs) by (apply E; auto). apply Hc. apply (cp_in _ _ _ P d H0).
Qed.

(* the closure invariant is preserved by a successful request *)
Theorem tg_cancel_keeps_closed : forall g t time g' cs, tg_cancel g t time = (g', Ok cs) ->
  cancel_closed g -> cancel_closed g'.
Proof.
  intros g t time g' cs H (CC1 & CC2). destruct (tg_cancel_exact _ _ _ _ _ H) as (W & Ht & _ & P & Q).
  assert (Ech : forall n, tg_children g' n = tg_children g n) by (intro n; unfold tg_children; rewrite (cp_adj _ _ _ P); reflexivity).
  assert (Epa : forall n, tg_parents g' n = tg_parents g n) by (intro n; unfold tg_parents; rewrite (cp_adj _ _ _ P); reflexivity).
  assert (Etm : forall n, tg_terminal g' n = tg_terminal g n).
  { intro n. destruct (zmem n cs) eqn:M.
    - apply zmem_In in M. apply (cp_in _ _ _ P n M).
    - apply zmem_not_In in M. unfold tg_terminal. rewrite (cp_out _ _ _ P n M). reflexivity. }
  assert (Est : forall n, tg_state g' n = TS_CANCELLED <-> In n cs \/ tg_state g n = TS_CANCELLED).
  { intro n. destruct (zmem n cs) eqn:M.
    - apply zmem_In in M. split; [auto | intros _; apply (cp_in _ _ _ P n M)].
    - apply zmem_not_In in M. unfold tg_state. rewrite (cp_out _ _ _ P n M). tauto. }
  split.
  - intros p c Hp Hc Htm. rewrite Ech in Hc. rewrite Etm in Htm. apply Est. apply Est in Hp.
    destruct (task_state_eq_dec (tg_state g c) TS_CANCELLED) as [E|E]; [right; exact E|]. left.
    destruct Hp as [Hp|Hp].
    + apply Q. apply hit_regular with (p := p); auto. apply Q. exact Hp.
    + exfalso. apply E. eapply CC1; eauto.
  - intros c Htm Hne Hall. rewrite Etm in Htm. rewrite Epa in Hne, Hall. apply Est.
    destruct (task_state_eq_dec (tg_state g c) TS_CANCELLED) as [E|E]; [right; exact E|]. left.
    assert (Hall' : forall p, In p (tg_parents g c) -> hit g t p \/ tg_state g p = TS_CANCELLED).
    { intros p Hp. specialize (Hall p Hp). apply Est in Hall. destruct Hall; [left; apply Q; assumption | right; assumption]. }
    destruct (forall_or_split _ _ _ Hall') as [(p & Hp & Hh)|Hb].
    + apply Q. apply hit_terminal; auto.
      eapply reach_step; [apply hit_reach; exact Hh | apply parents_children; [apply W | exact Hp]].
    + exfalso. apply E. apply CC2; auto.
Qed.
