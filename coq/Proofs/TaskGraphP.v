(* Lemmas about Model/TaskGraph.v: basic facts (membership, association lists, Task.cancel,
   state tuples, is_ready_to_run). *)
From Coq Require Import ZArith Bool List Lia ZifyBool.
Import ListNotations.
From Verif Require Import Model.Val Gen.Src_Task Gen.Src_TaskGraph Model.TaskGraph.
Open Scope Z_scope.

Lemma task_state_eqb_eq : forall a b, task_state_eqb a b = true <-> a = b.
Proof. intros a b; destruct a, b; cbv; split; intro H; try reflexivity; try discriminate. Qed.
Lemma task_state_eqb_neq : forall a b, task_state_eqb a b = false <-> a <> b.
Proof.
  intros a b. split.
  - intros H E. apply task_state_eqb_eq in E. congruence.
  - intros H. destruct (task_state_eqb a b) eqn:E; [apply task_state_eqb_eq in E; contradiction | reflexivity].
Qed.
Lemma task_state_eq_dec : forall a b : task_state, {a = b} + {a <> b}.
Proof. decide equality. Qed.

Lemma existsb_map_idA : forall (A : Type) (f : A -> bool) l, existsb (fun b => b) (map f l) = existsb f l.
Proof. intros A f l; induction l as [|x l IH]; cbn; [reflexivity | rewrite IH; reflexivity]. Qed.
Lemma forallb_map_idA : forall (A : Type) (f : A -> bool) l, forallb (fun b => b) (map f l) = forallb f l.
Proof. intros A f l; induction l as [|x l IH]; cbn; [reflexivity | rewrite IH; reflexivity]. Qed.

(* is_ready_to_run: a regular task is ready when ALL parents are complete; a join when ONE parent is complete
   and none is still alive (every parent complete or CANCELLED); and the task is SCHEDULED / PREEMPTED *)
Lemma ready_spec : forall (A : Type) (complete_of : A -> bool) (state_of : A -> task_state) terminal (ps : list A) s,
  is_ready_to_run complete_of state_of terminal ps s = true <->
  (if terminal
   then (exists p, In p ps /\ complete_of p = true) /\
        (forall p, In p ps -> complete_of p = true \/ state_of p = TS_CANCELLED)
   else forall p, In p ps -> complete_of p = true) /\
  (s = TS_SCHEDULED \/ s = TS_PREEMPTED).
Proof.
  intros A complete_of state_of terminal ps s. unfold is_ready_to_run.
  rewrite andb_true_iff, orb_true_iff, !task_state_eqb_eq.
  rewrite existsb_map_idA, forallb_map_idA. destruct terminal.
  - rewrite andb_true_iff, existsb_exists, forallb_forall.
    assert (G : (forall x, In x ps -> complete_of x || task_state_eqb (state_of x) TS_CANCELLED = true) <->
                (forall p, In p ps -> complete_of p = true \/ state_of p = TS_CANCELLED)).
    { split; intros H p Hp; specialize (H p Hp); [apply orb_true_iff in H | apply orb_true_iff];
        rewrite task_state_eqb_eq in *; exact H. }
    rewrite G. tauto.
  - rewrite forallb_forall. tauto.
Qed.

(* a join with a parent that is still alive (neither complete nor cancelled) is NOT ready: it waits for the
   branch that was taken *)
Lemma join_waits : forall (A : Type) (complete_of : A -> bool) (state_of : A -> task_state) (ps : list A) s p,
  In p ps -> complete_of p = false -> state_of p <> TS_CANCELLED ->
  is_ready_to_run complete_of state_of true ps s = false.
Proof.
  intros A complete_of state_of ps s p Hp Hc Hs.
  destruct (is_ready_to_run complete_of state_of true ps s) eqn:E; [|reflexivity].
  apply ready_spec in E. destruct E as [[_ H] _]. destruct (H p Hp); congruence.
Qed.

(* ---------- membership ---------- *)
Lemma zmem_In : forall x l, zmem x l = true <-> In x l.
Proof.
  intros x l; induction l as [|y l IH]; cbn [zmem In].
  - split; [discriminate | tauto].
  - rewrite orb_true_iff, IH, Z.eqb_eq. tauto.
Qed.
Lemma zmem_not_In : forall x l, zmem x l = false <-> ~ In x l.
Proof.
  intros x l. rewrite <- zmem_In. destruct (zmem x l); split; intro H; congruence.
Qed.
Lemma znodup_NoDup : forall l, znodup l = true <-> NoDup l.
Proof.
  induction l as [|x l IH]; cbn [znodup].
  - split; [constructor | reflexivity].
  - rewrite andb_true_iff, negb_true_iff, zmem_not_In, IH. split.
    + intros [H1 H2]; constructor; assumption.
    + intros H; inversion H; subst; split; assumption.
Qed.

(* ---------- association lists ---------- *)
Lemma al_get_In_keys : forall A k (l : list (Z * A)), al_get k l <> None <-> In k (map fst l).
Proof.
  intros A k l; induction l as [|[k' v] l IH]; cbn [al_get map fst In].
  - split; [congruence | tauto].
  - destruct (k' =? k) eqn:E.
    + split; [intros _; left; lia | congruence].
    + rewrite IH. split; [tauto | intros [H|H]; [lia | exact H]].
Qed.
Lemma al_get_set_same : forall A k (v : A) l, al_get k l <> None -> al_get k (al_set k v l) = Some v.
Proof.
  intros A k v l; induction l as [|[k' v'] l IH]; cbn [al_get al_set]; intro H.
  - congruence.
  - destruct (k' =? k) eqn:E; cbn [al_get]; rewrite E; [reflexivity | apply IH; exact H].
Qed.
Lemma al_get_set_other : forall A k k' (v : A) l, k' <> k -> al_get k' (al_set k v l) = al_get k' l.
Proof.
  intros A k k' v l Hne; induction l as [|[k2 v2] l IH]; cbn [al_get al_set].
  - reflexivity.
  - destruct (k2 =? k) eqn:E; cbn [al_get].
    + assert (k2 =? k' = false) as -> by lia. reflexivity.
    + rewrite IH. reflexivity.
Qed.
Lemma al_set_keys : forall A k (v : A) l, map fst (al_set k v l) = map fst l.
Proof.
  intros A k v l; induction l as [|[k2 v2] l IH]; cbn [al_set map fst]; [reflexivity|].
  destruct (k2 =? k); cbn [map fst]; [reflexivity | rewrite IH; reflexivity].
Qed.
Lemma al_get_In : forall A k (v : A) l, al_get k l = Some v -> In (k, v) l.
Proof.
  intros A k v l; induction l as [|[k2 v2] l IH]; cbn [al_get In]; [congruence|].
  destruct (k2 =? k) eqn:E; intro H.
  - inversion H; subst. left. f_equal. lia.
  - right; apply IH; exact H.
Qed.

(* ---------- tg_set ---------- *)
Lemma tg_task_set_same : forall g n tk, tg_get g n <> None -> tg_task (tg_set g n tk) n = tk.
Proof.
  intros g n tk H. unfold tg_task, tg_get, tg_set; cbn [g_tasks].
  rewrite al_get_set_same; [reflexivity | exact H].
Qed.
Lemma tg_task_set_other : forall g n m tk, m <> n -> tg_task (tg_set g n tk) m = tg_task g m.
Proof.
  intros g n m tk H. unfold tg_task, tg_get, tg_set; cbn [g_tasks].
  rewrite al_get_set_other; [reflexivity | exact H].
Qed.
Lemma tg_get_set_keys : forall g n tk m, tg_get (tg_set g n tk) m <> None <-> tg_get g m <> None.
Proof.
  intros g n tk m. unfold tg_get, tg_set; cbn [g_tasks]. rewrite !al_get_In_keys, al_set_keys. tauto.
Qed.

(* ---------- parents / children ---------- *)
Lemma al_get_NoDup_In : forall A k (v : A) l, NoDup (map fst l) -> In (k, v) l -> al_get k l = Some v.
Proof.
  intros A k v l; induction l as [|[k2 v2] l IH]; cbn [map fst al_get In]; intros ND H; [contradiction|].
  inversion ND as [|x xs Hx ND']; subst.
  destruct H as [H|H].
  - inversion H; subst. rewrite Z.eqb_refl. reflexivity.
  - destruct (k2 =? k) eqn:E.
    + exfalso. apply Hx. assert (k2 = k) by lia. subst. change k with (fst (k, v)). apply in_map. exact H.
    + apply IH; assumption.
Qed.

Lemma parents_children : forall g p c, NoDup (tg_nodes g) ->
  (In p (tg_parents g c) <-> In c (tg_children g p)).
Proof.
  intros g p c ND. unfold tg_parents, tg_children, tg_nodes in *.
  rewrite in_map_iff. split.
  - intros [[k cs] [Hk Hin]]. cbn [fst] in Hk; subst k.
    apply filter_In in Hin. destruct Hin as [Hin Hm]. cbn [snd] in Hm.
    rewrite (al_get_NoDup_In _ _ _ _ ND Hin). apply zmem_In; exact Hm.
  - intros H. destruct (al_get p (g_adj g)) as [cs|] eqn:E; [|contradiction].
    exists (p, cs). split; [reflexivity|]. apply filter_In. split.
    + apply al_get_In; exact E.
    + cbn [snd]. apply zmem_In; exact H.
Qed.

Lemma children_node : forall g p c, In c (tg_children g p) -> In p (tg_nodes g).
Proof.
  intros g p c H. unfold tg_children in H. destruct (al_get p (g_adj g)) eqn:E; [|contradiction].
  unfold tg_nodes. apply al_get_In_keys. congruence.
Qed.

(* ---------- Task.cancel ---------- *)
Definition cancellable (s : task_state) : Prop := s = TS_VIRTUAL \/ s = TS_RELEASED \/ s = TS_SCHEDULED.

Lemma cancel_task_ok : forall tk time tk', cancel_task tk time = Ok tk' ->
  cancellable (t_state (tt_dyn tk)) /\ t_state (tt_dyn tk') = TS_CANCELLED /\ tt_prob tk' = 0 /\
  t_remaining_time (tt_dyn tk') = 0 /\ tt_terminal tk' = tt_terminal tk /\
  tt_conditional tk' = tt_conditional tk /\ tt_runtimes tk' = tt_runtimes tk.
Proof.
  intros [d p te co es rt] time tk'. destruct d as [s ps rel st co' rem ls ca dl].
  unfold cancel_task, task_cancel, task_update_remaining_time, task_is_complete, cancellable, with_prob, with_dyn.
  cbn [tt_dyn t_state].
  destruct s; cbn; intro H; inversion H; subst; cbn; repeat split; auto; discriminate.
Qed.

Lemma cancel_task_err : forall tk time e, cancel_task tk time = Err e ->
  ~ cancellable (t_state (tt_dyn tk)) /\ e = 1.
Proof.
  intros [d p te co es rt] time e. destruct d as [s ps rel st co' rem ls ca dl].
  unfold cancel_task, task_cancel, task_update_remaining_time, task_is_complete, cancellable.
  cbn [tt_dyn t_state].
  destruct s; cbn; intro H; inversion H; subst; split; try reflexivity;
    intros [A|[A|A]]; discriminate.
Qed.
