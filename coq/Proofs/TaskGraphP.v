(* Lemmas about Model/TaskGraph.v: basic facts (state tuples, association lists). *)
From Coq Require Import ZArith Bool List Lia ZifyBool.
Import ListNotations.
From Verif Require Import Model.Val Gen.Src_Task Gen.Src_TaskGraph Model.TaskGraph.
Open Scope Z_scope.

Lemma task_state_eqb_eq : forall a b, task_state_eqb a b = true <-> a = b.
Proof. intros a b; destruct a, b; cbv; split; intro H; try reflexivity; try discriminate. Qed.

(* is_ready_to_run: a join is ready as soon as ONE parent is complete, a regular task when ALL are *)
Lemma ready_spec : forall terminal sts s,
  is_ready_to_run terminal sts s = true <->
  (if terminal then exists b, In b sts /\ b = true else forall b, In b sts -> b = true) /\
  (s = TS_SCHEDULED \/ s = TS_PREEMPTED).
Proof.
  intros terminal sts s. unfold is_ready_to_run.
  rewrite andb_true_iff, orb_true_iff, !task_state_eqb_eq.
  destruct terminal.
  - rewrite existsb_exists. tauto.
  - rewrite forallb_forall. tauto.
Qed.
