(* The machine with its event queue: no pending event is ever in the past, the event handled is
   the event popped, popped events are minimal at the clock, and a task never starts before the
   time its scheduler chose. *)
From Coq Require Import ZArith Bool List Lia ZifyBool.
Import ListNotations.
From Verif Require Import Model.Val Gen.Src_Task Gen.Src_Event Model.EventQ Model.Sim Model.SimQ
  Proofs.TaskP Proofs.SimP Proofs.SimP2.
Open Scope Z_scope.

Arguments task_step : simpl never.
Arguments task_release : simpl never.
Arguments task_schedule : simpl never.
Arguments task_unschedule : simpl never.
Arguments task_start : simpl never.
Arguments task_finish : simpl never.
Arguments task_cancel : simpl never.

Definition cur_task (p : pev) : option Z := match pe_task p with Some (t, _) => Some t | None => None end.

Record InvQ (W : world) (q : simq) : Prop := {
  iq_sim : Inv W (q_sim q);
  iq_future : forall p, In p (q_pending q) -> s_clock (q_sim q) <= pe_time p;
  iq_popped : forall p, q_popped q = Some p ->
                pe_time p = s_clock (q_sim q) /\ place_ok (q_sim q) p = true /\ s_cur (q_sim q) = None /\ q_handling q = None;
  iq_handling : forall p, q_handling q = Some p ->
                pe_time p = s_clock (q_sim q) /\ s_cur (q_sim q) = Some (pe_type p, cur_task p) /\
                (in_sched_finish (q_sim q) = false -> place_ok (q_sim q) p = true);
  iq_idle : q_handling q = None -> s_cur (q_sim q) = None;
  iq_place : in_sched_finish (q_sim q) = false -> all_place_ok (q_sim q) (q_pending q) = true
}.

Lemma remove_one_incl p l x : In x (remove_one p l) -> In x l.
Proof. induction l as [|y r IH]; cbn; [auto|]. destruct (pev_eqb y p); cbn; intuition. Qed.

Lemma min_time_le l p : In p l -> exists m, min_time l = Some m /\ m <= pe_time p.
Proof.
  induction l as [|x r IH]; cbn; intros H; [contradiction|]. destruct H as [<-|H].
  - destruct (min_time r); eexists; split; try reflexivity; lia.
  - destruct (IH H) as [m [E L]]. rewrite E. eexists; split; [reflexivity|lia].
Qed.

Lemma all_place_ok_incl s l l' : (forall x, In x l' -> In x l) -> all_place_ok s l = true -> all_place_ok s l' = true.
Proof. unfold all_place_ok. rewrite !forallb_forall. auto. Qed.

(* the placement time of a task changes only when it is (re)scheduled *)
Definition is_schedule (e : ev) : bool := match e with ESchedule _ _ _ _ => true | _ => false end.

Lemma ptime_preserved W s e s' u :
  Inv W s -> sim_step W s e = Some s' -> is_schedule e = false -> ptime_of s' u = ptime_of s u.
Proof.
  intros I H Hs. unfold ptime_of. destruct e; cbn [sim_step is_schedule] in *; try discriminate Hs.
  - destruct (fresh s ts && nodup_ids ts) eqn:G; [|discriminate]. injection H as <-. cbn [s_tasks].
    apply andb_true_iff in G. destruct G as [G1 G2].
    destruct (in_dec Z.eq_dec u (map (fun e => fst (fst (fst e))) ts)) as [Hin|Hnin].
    + destruct (add_tasks_new ts (s_tasks s) u G2 Hin) as [info [rel [dl E]]]. rewrite E. cbn.
      destruct (s_tasks s u) as [y|] eqn:Ey; [|reflexivity]. exfalso. apply in_map_iff in Hin. destruct Hin as [e [He1 He2]].
      eapply fresh_spec; eassumption.
    + rewrite add_tasks_other; [reflexivity|]. intros e He X. apply Hnin. apply in_map_iff. exists e. auto.
  - destruct (s_cur s); [discriminate|].
    match type of H with (if ?c then _ else _) = _ => destruct c; [|discriminate] end.
    destruct (step_tasks (s_tasks s) (s_res s) (s_clock s) d) as [f|] eqn:Hst; [|discriminate]. injection H as <-. cbn [s_tasks].
    destruct (step_tasks_spec _ _ _ _ _ Hst (inv_nodup W s I)) as [Out In_].
    destruct (in_dec Z.eq_dec u (ids (s_res s))) as [Hin|Hnin].
    + destruct (In_ u Hin) as [x [dy [b [E [_ Fu]]]]]. rewrite Fu, E. reflexivity.
    + rewrite (Out u Hnin). reflexivity.
  - destruct (s_cur s); [discriminate|]. destruct (time =? s_clock s); [|discriminate]. injection H as <-. reflexivity.
  - destruct (s_cur s); [|discriminate]. destruct (quiescent_ok s); [|discriminate]. injection H as <-. reflexivity.
  - destruct (s_tasks s t) as [x|] eqn:Hx; [|discriminate].
    match type of H with (if ?c then _ else _) = _ => destruct c; [|discriminate] end.
    destruct (task_release (t_dyn x) (Some time)) as [[dy v]|c]; [|discriminate]. injection H as <-. cbn [s_tasks with_tasks].
    destruct (Z.eq_dec u t) as [->|Hne]; [rewrite upd_same, Hx; reflexivity|rewrite upd_other by assumption; reflexivity].
  - destruct (s_tasks s t) as [x|] eqn:Hx; [|discriminate].
    match type of H with (if ?c then _ else _) = _ => destruct c; [|discriminate] end.
    destruct (task_unschedule (t_dyn x) time) as [[dy v]|c]; [|discriminate]. injection H as <-. cbn [s_tasks with_tasks].
    destruct (Z.eq_dec u t) as [->|Hne]; [rewrite upd_same, Hx; reflexivity|rewrite upd_other by assumption; reflexivity].
  - destruct (s_tasks s t) as [x|] eqn:Hx; [|discriminate].
    match type of H with (if ?c then _ else _) = _ => destruct c; [|discriminate] end. injection H as <-. reflexivity.
  - destruct (s_tasks s t) as [x|] eqn:Hx; [|discriminate].
    match type of H with (if ?c then _ else _) = _ => destruct c; [|discriminate] end.
    destruct (task_start (t_dyn x) (Some time) draw) as [[dy v]|c]; [|discriminate]. injection H as <-. cbn [s_tasks with_tasks].
    destruct (Z.eq_dec u t) as [->|Hne]; [rewrite upd_same, Hx; reflexivity|rewrite upd_other by assumption; reflexivity].
  - match type of H with (if ?c then _ else _) = _ => destruct c; [|discriminate] end. injection H as <-. reflexivity.
  - destruct (s_tasks s t) as [x|] eqn:Hx; [|discriminate].
    match type of H with (if ?c then _ else _) = _ => destruct c; [|discriminate] end.
    destruct (task_finish (t_dyn x) None) as [[dy v]|c]; [|discriminate]. injection H as <-. cbn [s_tasks].
    destruct (Z.eq_dec u t) as [->|Hne]; [rewrite upd_same, Hx; reflexivity|rewrite upd_other by assumption; reflexivity].
  - destruct (s_tasks s t) as [x|] eqn:Hx; [|discriminate].
    match type of H with (if ?c then _ else _) = _ => destruct c; [|discriminate] end.
    destruct (task_cancel (t_dyn x) time) as [[dy v]|c]; [|discriminate]. injection H as <-. cbn [s_tasks with_tasks].
    destruct (Z.eq_dec u t) as [->|Hne]; [rewrite upd_same, Hx; reflexivity|rewrite upd_other by assumption; reflexivity].
Qed.

Lemma place_ok_same s s' p : (forall u, ptime_of s' u = ptime_of s u) -> place_ok s' p = place_ok s p.
Proof. intros E. unfold place_ok. destruct (pe_type p); try reflexivity. destruct (pe_task p) as [[t r]|]; [rewrite E|]; reflexivity. Qed.

Lemma all_place_ok_same s s' l : (forall u, ptime_of s' u = ptime_of s u) -> all_place_ok s' l = all_place_ok s l.
Proof.
  intros E. unfold all_place_ok. induction l as [|p r IH]; cbn; [reflexivity|]. rewrite IH, (place_ok_same s s' p E). reflexivity.
Qed.

(* events that neither touch the handler context nor schedule *)
Definition plain (e : ev) : bool :=
  match e with EStep _ _ | EHandle _ _ _ | EHandled | ESchedule _ _ _ _ => false | _ => true end.

Lemma plain_cur_clock W s e s' : sim_step W s e = Some s' -> plain e = true -> s_cur s' = s_cur s /\ s_clock s' = s_clock s.
Proof.
  intros H P. destruct e; cbn [plain] in P; try discriminate P; cbn [sim_step] in H;
    repeat match type of H with
           | (if ?c then _ else _) = Some _ => destruct c eqn:?; try discriminate H
           | match ?c with _ => _ end = Some _ => destruct c eqn:?; try discriminate H
           end; injection H as <-; cbn [s_cur s_clock with_tasks]; auto.
Qed.

Lemma in_sf_same s s' : s_cur s' = s_cur s -> in_sched_finish s' = in_sched_finish s.
Proof. unfold in_sched_finish. apply cur_is_same. Qed.

Lemma invq_init W : cap_nonneg W -> InvQ W sq_init.
Proof.
  intros HW. constructor; cbn; try (intros; discriminate); try (intros; contradiction); auto.
  apply inv_init; exact HW.
Qed.

Lemma plain_preserves W q e s' :
  InvQ W q -> plain e = true -> sim_step W (q_sim q) e = Some s' ->
  InvQ W (mkSQ s' (q_pending q) (q_popped q) (q_handling q)).
Proof.
  intros [IS IF IP IH II IPL] Pl E.
  destruct (plain_cur_clock _ _ _ _ E Pl) as [Hc Hk].
  assert (PT : forall u, ptime_of s' u = ptime_of (q_sim q) u).
  { intros u. eapply ptime_preserved; [exact IS|exact E|]. destruct e; try reflexivity; discriminate Pl. }
  constructor; cbn [q_sim q_pending q_popped q_handling].
  - eapply step_preserves_inv; eassumption.
  - intros p Hp. rewrite Hk. auto.
  - intros p Hp. destruct (IP p Hp) as [A [B [C D]]]. rewrite Hk, Hc, (place_ok_same _ _ p PT). auto.
  - intros p Hp. destruct (IH p Hp) as [A [B C]]. rewrite Hk, Hc, (in_sf_same _ _ Hc), (place_ok_same _ _ p PT). auto.
  - intros Hn. rewrite Hc. auto.
  - rewrite (in_sf_same _ _ Hc), (all_place_ok_same _ _ _ PT). exact IPL.
Qed.

Theorem sq_step_preserves W q e q' : InvQ W q -> sq_step W q e = Some q' -> InvQ W q'.
Proof.
  intros [IS IF IP IH II IPL] H. destruct e as [e|p|p|p|l].
  - (* a call of the simulator machine *)
    destruct e.
    + cbn [sq_step] in H. match type of H with context [sim_step ?w ?s ?e] => destruct (sim_step w s e) as [s'|] eqn:E; [|discriminate] end.
      injection H as <-. refine (plain_preserves W q _ s' (Build_InvQ W q IS IF IP IH II IPL) _ E); reflexivity.
    + (* EStep *)
      cbn [sq_step] in H. destruct (q_popped q) as [pp|] eqn:Ep; [discriminate|]. destruct (q_handling q) as [hh|] eqn:Eh; [discriminate|].
      destruct (min_time (q_pending q)) as [m|] eqn:Em; [|discriminate].
      destruct (next =? m) eqn:En; [|discriminate].
      destruct (sim_step W (q_sim q) (EStep d next)) as [s'|] eqn:E; [|discriminate]. injection H as <-.
      assert (PT : forall u, ptime_of s' u = ptime_of (q_sim q) u) by (intros u; eapply ptime_preserved; [exact IS|exact E|reflexivity]).
      pose proof E as E2. cbn [sim_step] in E2. destruct (s_cur (q_sim q)) as [c|] eqn:Hc; [discriminate|].
      match type of E2 with (if ?c then _ else _) = _ => destruct c eqn:G; [|discriminate] end.
      destruct (step_tasks _ _ _ _) as [f|]; [|discriminate]. injection E2 as <-.
      apply andb_true_iff in G. destruct G as [G1 G2].
      assert (Hd : s_clock (q_sim q) + d <= m).
      { assert (next = m) by lia. subst next.
        destruct (min_rem (q_sim q) (s_res (q_sim q))) as [mr|]; [destruct (mr <? m - s_clock (q_sim q)) eqn:C|]; lia. }
      constructor; cbn [q_sim q_pending q_popped q_handling s_clock s_cur].
      * eapply step_preserves_inv; [exact IS|exact E].
      * intros p Hp. destruct (min_time_le _ p Hp) as [m' [Em' Lm]]. rewrite Em in Em'. injection Em' as <-. lia.
      * intros p Hp. discriminate Hp.
      * intros p Hp. discriminate Hp.
      * reflexivity.
      * intros _. unfold all_place_ok. apply forallb_forall. intros p Hp.
        assert (SF : in_sched_finish (q_sim q) = false) by (unfold in_sched_finish; apply cur_is_none; exact Hc).
        specialize (IPL SF). unfold all_place_ok in IPL. rewrite forallb_forall in IPL.
        erewrite place_ok_same; [apply IPL; exact Hp|]. intros u.
        change (ptime_of (mkSim (s_clock (q_sim q) + d) f (s_dom (q_sim q)) (s_res (q_sim q)) None (s_fin (q_sim q)) (s_canc (q_sim q))) u = ptime_of (q_sim q) u).
        apply PT.
    + (* EHandle *)
      cbn [sq_step] in H. destruct (q_popped q) as [pp|] eqn:Ep; [|discriminate].
      destruct (handle_matches pp ty time t) eqn:Hm; [|discriminate].
      destruct (sim_step W (q_sim q) (EHandle ty time t)) as [s'|] eqn:E; [|discriminate]. injection H as <-.
      assert (PT : forall u, ptime_of s' u = ptime_of (q_sim q) u) by (intros u; eapply ptime_preserved; [exact IS|exact E|reflexivity]).
      destruct (IP pp eq_refl) as [A [B [C D]]].
      pose proof E as E2. cbn [sim_step] in E2. rewrite C in E2. destruct (time =? s_clock (q_sim q)) eqn:Ht; [|discriminate]. injection E2 as <-.
      unfold handle_matches in Hm. apply andb_true_iff in Hm. destruct Hm as [Hm M3]. apply andb_true_iff in Hm. destruct Hm as [M1 M2].
      assert (Hty : pe_type pp = ty) by (apply event_type_value_inj; unfold event_type_eqb in M1; lia).
      assert (Htk : cur_task pp = t).
      { unfold cur_task. destruct (pe_task pp) as [[a r]|], t as [b|]; try discriminate M3; [f_equal; lia|reflexivity]. }
      constructor; cbn [q_sim q_pending q_popped q_handling s_clock s_cur].
      * eapply step_preserves_inv; [exact IS|exact E].
      * exact IF.
      * intros p Hp. discriminate Hp.
      * intros p Hp. injection Hp as <-. split; [exact A|]. split; [rewrite Hty, Htk; reflexivity|]. intros _.
        rewrite <- B. apply place_ok_same. intros u. apply (PT u).
      * intros Hn. discriminate Hn.
      * intros SF. assert (SF0 : in_sched_finish (q_sim q) = false) by (unfold in_sched_finish; apply cur_is_none; exact C).
        rewrite <- (IPL SF0). apply all_place_ok_same. intros u. apply (PT u).
    + (* EHandled *)
      cbn [sq_step] in H.
      destruct (negb (in_sched_finish (q_sim q)) || all_place_ok (q_sim q) (q_pending q)) eqn:G; [|discriminate].
      destruct (sim_step W (q_sim q) EHandled) as [s'|] eqn:E; [|discriminate]. injection H as <-.
      assert (PT : forall u, ptime_of s' u = ptime_of (q_sim q) u) by (intros u; eapply ptime_preserved; [exact IS|exact E|reflexivity]).
      pose proof E as E2. cbn [sim_step] in E2. destruct (s_cur (q_sim q)) as [c|] eqn:Hc; [|discriminate].
      destruct (quiescent_ok (q_sim q)); [|discriminate]. injection E2 as <-.
      constructor; cbn [q_sim q_pending q_popped q_handling s_clock s_cur].
      * eapply step_preserves_inv; [exact IS|exact E].
      * exact IF.
      * intros p Hp. destruct (IP p Hp) as [_ [_ [C _]]]. try rewrite Hc in C. discriminate C.
      * intros p Hp. discriminate Hp.
      * reflexivity.
      * intros _. rewrite (all_place_ok_same _ _ _ (fun u => PT u)).
        destruct (in_sched_finish (q_sim q)) eqn:SF; [cbn in G; exact G|apply IPL; reflexivity].
    + cbn [sq_step] in H. match type of H with context [sim_step ?w ?s ?e] => destruct (sim_step w s e) as [s'|] eqn:E; [|discriminate] end.
      injection H as <-. refine (plain_preserves W q _ s' (Build_InvQ W q IS IF IP IH II IPL) _ E); reflexivity.
    + (* ESchedule: only inside SCHEDULER_FINISHED *)
      cbn [sq_step] in H. destruct (sim_step W (q_sim q) (ESchedule t time ptime runtime)) as [s'|] eqn:E; [|discriminate]. injection H as <-.
      pose proof E as E2. cbn [sim_step] in E2. destruct (s_tasks (q_sim q) t) as [x|] eqn:Hx; [|discriminate].
      match type of E2 with (if ?c then _ else _) = _ => destruct c eqn:G; [|discriminate] end.
      destruct (task_schedule (t_dyn x) time runtime) as [[dy v]|c]; [|discriminate]. injection E2 as <-.
      apply andb_true_iff in G. destruct G as [G G3]. apply andb_true_iff in G. destruct G as [G1 G2].
      assert (SF : in_sched_finish (q_sim q) = true) by exact G1.
      constructor; cbn [q_sim q_pending q_popped q_handling s_clock s_cur with_tasks].
      * eapply step_preserves_inv; [exact IS|exact E].
      * exact IF.
      * intros p Hp. destruct (IP p Hp) as [_ [_ [C _]]]. unfold in_sched_finish, cur_is in SF. rewrite C in SF. discriminate SF.
      * intros p Hp. destruct (IH p Hp) as [A [B C]]. split; [exact A|]. split; [exact B|].
        intros SF'. unfold in_sched_finish in *. rewrite (cur_is_same (q_sim q)) in SF' by reflexivity. congruence.
      * exact II.
      * intros SF'. unfold in_sched_finish in *. rewrite (cur_is_same (q_sim q)) in SF' by reflexivity. congruence.
    + cbn [sq_step] in H. match type of H with context [sim_step ?w ?s ?e] => destruct (sim_step w s e) as [s'|] eqn:E; [|discriminate] end.
      injection H as <-. refine (plain_preserves W q _ s' (Build_InvQ W q IS IF IP IH II IPL) _ E); reflexivity.
    + cbn [sq_step] in H. match type of H with context [sim_step ?w ?s ?e] => destruct (sim_step w s e) as [s'|] eqn:E; [|discriminate] end.
      injection H as <-. refine (plain_preserves W q _ s' (Build_InvQ W q IS IF IP IH II IPL) _ E); reflexivity.
    + cbn [sq_step] in H. match type of H with context [sim_step ?w ?s ?e] => destruct (sim_step w s e) as [s'|] eqn:E; [|discriminate] end.
      injection H as <-. refine (plain_preserves W q _ s' (Build_InvQ W q IS IF IP IH II IPL) _ E); reflexivity.
    + cbn [sq_step] in H. match type of H with context [sim_step ?w ?s ?e] => destruct (sim_step w s e) as [s'|] eqn:E; [|discriminate] end.
      injection H as <-. refine (plain_preserves W q _ s' (Build_InvQ W q IS IF IP IH II IPL) _ E); reflexivity.
    + cbn [sq_step] in H. match type of H with context [sim_step ?w ?s ?e] => destruct (sim_step w s e) as [s'|] eqn:E; [|discriminate] end.
      injection H as <-. refine (plain_preserves W q _ s' (Build_InvQ W q IS IF IP IH II IPL) _ E); reflexivity.
    + cbn [sq_step] in H. match type of H with context [sim_step ?w ?s ?e] => destruct (sim_step w s e) as [s'|] eqn:E; [|discriminate] end.
      injection H as <-. refine (plain_preserves W q _ s' (Build_InvQ W q IS IF IP IH II IPL) _ E); reflexivity.
  - (* QPush *)
    cbn [sq_step] in H. destruct ((s_clock (q_sim q) <=? pe_time p) && place_ok (q_sim q) p) eqn:G; [|discriminate].
    injection H as <-. apply andb_true_iff in G. destruct G as [G1 G2].
    constructor; cbn [q_sim q_pending q_popped q_handling]; auto.
    + intros x [<-|Hx]; [lia|auto].
    + intros SF. cbn. rewrite G2. cbn. apply IPL; exact SF.
  - (* QPop *)
    cbn [sq_step] in H. destruct (q_popped q) eqn:Ep; [discriminate|]. destruct (q_handling q) eqn:Eh; [discriminate|].
    destruct (s_cur (q_sim q)) eqn:Hc; [discriminate|].
    destruct (mem_pev p (q_pending q) && minimal p (q_pending q) && (pe_time p =? s_clock (q_sim q))) eqn:G; [|discriminate].
    injection H as <-. apply andb_true_iff in G. destruct G as [G G3]. apply andb_true_iff in G. destruct G as [G1 G2].
    assert (SF : in_sched_finish (q_sim q) = false) by (unfold in_sched_finish; apply cur_is_none; exact Hc).
    constructor; cbn [q_sim q_pending q_popped q_handling]; auto.
    + intros x Hx. apply IF. eapply remove_one_incl; exact Hx.
    + intros x Hx. injection Hx as <-. split; [lia|]. split; [|auto].
      specialize (IPL SF). unfold all_place_ok in IPL. rewrite forallb_forall in IPL.
      unfold mem_pev in G1. apply existsb_exists in G1. destruct G1 as [y [Hy Ey]].
      specialize (IPL y Hy). unfold pev_eqb, shape_eqb, otask_eqb in Ey.
      unfold place_ok in *. destruct p as [pt pty ptk], y as [yt yty ytk]; cbn in *.
      apply andb_true_iff in Ey. destruct Ey as [Et Es]. apply andb_true_iff in Es. destruct Es as [Ety Etk].
      assert (pty = yty) as -> by (apply event_type_value_inj; unfold event_type_eqb in Ety; lia).
      destruct yty; try reflexivity. destruct ptk as [[a r]|], ytk as [[b r']|]; try discriminate Etk; [|exact IPL].
      assert (a = b) as -> by lia. lia.
    + intros x Hx. discriminate Hx.
    + intros _. eapply all_place_ok_incl; [|apply IPL; exact SF]. intros x Hx. eapply remove_one_incl; exact Hx.
  - (* QRemove *)
    cbn [sq_step] in H. destruct (mem_pev p (q_pending q)); [|discriminate]. injection H as <-.
    constructor; cbn [q_sim q_pending q_popped q_handling]; auto.
    + intros x Hx. apply IF. eapply remove_one_incl; exact Hx.
    + intros SF. eapply all_place_ok_incl; [|apply IPL; exact SF]. intros x Hx. eapply remove_one_incl; exact Hx.
  - (* QSync *)
    cbn [sq_step] in H.
    destruct (same_events (q_pending q) l && forallb (fun p => s_clock (q_sim q) <=? pe_time p) l
              && (in_sched_finish (q_sim q) || all_place_ok (q_sim q) l)) eqn:G; [|discriminate].
    injection H as <-. apply andb_true_iff in G. destruct G as [G G3]. apply andb_true_iff in G. destruct G as [G1 G2].
    constructor; cbn [q_sim q_pending q_popped q_handling]; auto.
    + intros x Hx. rewrite forallb_forall in G2. specialize (G2 x Hx). lia.
    + intros SF. rewrite SF in G3. exact G3.
Qed.

Theorem sq_exec_preserves W l : forall q q', InvQ W q -> sq_exec W q l = Some q' -> InvQ W q'.
Proof.
  induction l as [|e r IH]; cbn [sq_exec]; intros q q' I H.
  - injection H as <-. exact I.
  - destruct (sq_step W q e) as [q1|] eqn:E; [|discriminate]. eapply IH; [|exact H]. eapply sq_step_preserves; eassumption.
Qed.

Theorem sq_reachable W l q : cap_nonneg W -> sq_exec W sq_init l = Some q -> InvQ W q.
Proof. intros HW H. eapply sq_exec_preserves; [apply invq_init; exact HW|exact H]. Qed.

(* ---- what the properties use *)
Theorem pending_never_in_the_past W l q p :
  cap_nonneg W -> sq_exec W sq_init l = Some q -> In p (q_pending q) -> s_clock (q_sim q) <= pe_time p.
Proof. intros HW H. apply (iq_future W q (sq_reachable W l q HW H)). Qed.

Theorem popped_is_minimal_at_clock W q p q' :
  sq_step W q (QPop p) = Some q' ->
  mem_pev p (q_pending q) = true /\ minimal p (q_pending q) = true /\ pe_time p = s_clock (q_sim q).
Proof.
  cbn [sq_step]. destruct (q_popped q); [discriminate|]. destruct (q_handling q); [discriminate|]. destruct (s_cur (q_sim q)); [discriminate|].
  destruct (mem_pev p (q_pending q) && minimal p (q_pending q) && (pe_time p =? s_clock (q_sim q))) eqn:G; [|discriminate].
  intros _. apply andb_true_iff in G. destruct G as [G G3]. apply andb_true_iff in G. destruct G as [G1 G2]. repeat split; auto. lia.
Qed.

Theorem handled_is_popped W q ty time t q' :
  sq_step W q (QSim (EHandle ty time t)) = Some q' -> exists p, q_popped q = Some p /\ handle_matches p ty time t = true.
Proof.
  cbn [sq_step]. destruct (q_popped q) as [p|]; [|discriminate]. destruct (handle_matches p ty time t) eqn:M; [|discriminate].
  intros _. exists p. auto.
Qed.

(* a task never starts earlier than the time its scheduler chose *)
Theorem start_not_before_chosen_time W l q t time draw q' :
  cap_nonneg W -> sq_exec W sq_init l = Some q -> sq_step W q (QSim (EStart t time draw)) = Some q' ->
  ptime_of (q_sim q) t <= time /\ time = s_clock (q_sim q).
Proof.
  intros HW H S. pose proof (sq_reachable W l q HW H) as [IS IF IP IH II IPL].
  cbn [sq_step] in S. destruct (sim_step W (q_sim q) (EStart t time draw)) as [s'|] eqn:E; [|discriminate].
  cbn [sim_step] in E. destruct (s_tasks (q_sim q) t) as [x|] eqn:Hx; [|discriminate].
  match type of E with (if ?c then _ else _) = _ => destruct c eqn:G; [|discriminate] end.
  split_andb.
  match goal with H : cur_is (q_sim q) TASK_PLACEMENT _ = true |- _ => rename H into G1 end.
  assert (Ht : time = s_clock (q_sim q)) by lia. split; [|exact Ht].
  destruct (q_handling q) as [p|] eqn:Eh.
  - destruct (IH p eq_refl) as [A [B C]].
    assert (SF : in_sched_finish (q_sim q) = false).
    { unfold in_sched_finish. destruct (cur_is (q_sim q) SCHEDULER_FINISHED None) eqn:X; [|reflexivity].
      pose proof (cur_is_fun _ _ _ _ _ G1 X) as Y. discriminate Y. }
    specialize (C SF). unfold cur_is in G1. rewrite B in G1. apply andb_true_iff in G1. destruct G1 as [T1 T2].
    assert (pe_type p = TASK_PLACEMENT) as Hty by (apply event_type_value_inj; unfold event_type_eqb in T1; lia).
    unfold place_ok in C. rewrite Hty in C. unfold cur_task in T2. destruct (pe_task p) as [[a r]|]; [|discriminate C].
    assert (a = t) as -> by lia. lia.
  - unfold cur_is in G1. rewrite (II eq_refl) in G1. discriminate G1.
Qed.

Theorem simq_runs_are_sim_runs W l q : cap_nonneg W -> sq_exec W sq_init l = Some q -> Inv W (q_sim q).
Proof. intros HW H. apply (iq_sim W q (sq_reachable W l q HW H)). Qed.
