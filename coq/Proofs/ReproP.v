(* C09 — proofs about Model/Repro.v and about the program generated from /repo (Gen/Src_Repro.v). *)
From Coq Require Import ZArith Bool List Lia ZifyBool Permutation.
Import ListNotations.
From Verif Require Import Model.Val Model.Repro Gen.Src_Repro.
Open Scope Z_scope.

(* ------------------------------------------------------------------ generic lists *)
Lemma forallb_nth_error {A} (f : A -> bool) (l : list A) (i : nat) (a : A) :
  forallb f l = true -> nth_error l i = Some a -> f a = true.
Proof.
  revert i. induction l as [|x t IH]; intros [|i] Hf Hn; cbn in *; try discriminate.
  - inversion Hn; subst. apply andb_true_iff in Hf. tauto.
  - apply andb_true_iff in Hf. destruct Hf as [_ Hf]. eapply IH; eauto.
Qed.

Lemma forallb_set_nth {A} (f : A -> bool) (l : list A) (i : nat) (a : A) :
  forallb f l = true -> f a = true -> forallb f (set_nth l i a) = true.
Proof.
  revert i. induction l as [|x t IH]; intros [|i] Hf Ha; cbn in *; auto.
  - apply andb_true_iff in Hf. destruct Hf as [_ Hf]. rewrite Ha, Hf. reflexivity.
  - apply andb_true_iff in Hf. destruct Hf as [Hx Hf]. rewrite Hx, (IH i Hf Ha). reflexivity.
Qed.

Lemma lookupZ_forallb {A} (f : Z * A -> bool) (l : list (Z * A)) (k : Z) (a : A) :
  forallb f l = true -> lookupZ k l = Some a -> exists k', f (k', a) = true.
Proof.
  induction l as [|[k' x] t IH]; intros Hf Hl; cbn in *; try discriminate.
  apply andb_true_iff in Hf. destruct Hf as [Hx Hf].
  destruct (k =? k') eqn:E.
  - inversion Hl; subst. eauto.
  - eauto.
Qed.

(* ------------------------------------------------------------------ the invariant: no generator that is read is entropy-seeded *)
Definition src_okb (s : source) : bool := match s with Entropy => false | _ => true end.
Definition glob_okb (c : cell) : bool := match fst c with Seeded _ => true | _ => false end.
Definition pol_okb (bc : bool * cell) : bool := negb (fst bc) || src_okb (fst (snd bc)).
Definition inv0 (st : state) : bool :=
  match s_fuzz st with Some c => src_okb (fst c) | None => true end && forallb pol_okb (s_pols st).
Definition inv (st : state) : bool := glob_okb (s_global st) && inv0 st.
Definition is_prng (c : pcell) : bool := match c with PC_prng _ _ => true | PC_entropy _ => false end.

Lemma vals_indep prng h1 h2 cs :
  forallb is_prng cs = true -> map (pcell_val prng h1) cs = map (pcell_val prng h2) cs.
Proof.
  induction cs as [|c t IH]; intros H; cbn in *; auto.
  apply andb_true_iff in H. destruct H as [Hc Ht]. rewrite (IH Ht). destruct c; cbn in *; try discriminate. reflexivity.
Qed.

Lemma source_of_ok seed e : expr_ok false e = true -> src_okb (source_of seed None e) = true.
Proof. destruct e; cbn; intros H; try discriminate; reflexivity. Qed.

Lemma policy_source_ok p seed reads passes k :
  kind_ok p (k, (reads, passes)) = true -> reads = true -> src_okb (policy_source p seed passes) = true.
Proof.
  unfold kind_ok, policy_source, passes_arg. intros H Hr. subst reads. cbn [negb orb] in H.
  destruct passes, (p_loader_seed p), (fst (p_policy_ctor p)), (snd (p_policy_ctor p));
    cbn in *; try discriminate; reflexivity.
Qed.

Lemma draw_global_spec st st' v :
  draw_global st = Some (st', v) ->
  s_fuzz st' = s_fuzz st /\ s_pols st' = s_pols st /\ glob_okb (s_global st') = glob_okb (s_global st) /\
  (glob_okb (s_global st) = true -> is_prng v = true).
Proof.
  unfold draw_global, glob_okb. destruct (s_global st) as [[| s |] n] eqn:E; intros H; inversion H; subst; cbn; repeat split; auto; try (intros; discriminate).
Qed.

Lemma draw_cell_spec st c st' c' v :
  draw_cell st c = Some (st', c', v) ->
  s_fuzz st' = s_fuzz st /\ s_pols st' = s_pols st /\ glob_okb (s_global st') = glob_okb (s_global st) /\
  (src_okb (fst c') = src_okb (fst c)) /\
  (glob_okb (s_global st) = true -> src_okb (fst c) = true -> is_prng v = true).
Proof.
  unfold draw_cell. destruct c as [[| s |] n].
  - destruct (draw_global st) as [[st1 v1]|] eqn:E; intros H; inversion H; subst.
    destruct (draw_global_spec _ _ _ E) as (A & B & C & D). cbn. repeat split; auto.
  - intros H; inversion H; subst. cbn. repeat split; auto.
  - intros H; inversion H; subst. cbn. repeat split; auto; try (intros; discriminate).
Qed.

Lemma pstep_spec p seed st r st' cs :
  forallb role_ok (p_sites p) = true -> forallb (kind_ok p) (p_kinds p) = true ->
  pstep p seed st r = Some (st', cs) ->
  (inv0 st = true -> inv0 st' = true) /\
  glob_okb (s_global st') = glob_okb (s_global st) /\
  (inv st = true -> forallb is_prng cs = true) /\
  (is_ctor r = true -> cs = []).
Proof.
  intros Hsites Hkinds Hstep. destruct r as [i | k | i inst]; cbn [pstep is_ctor] in Hstep |- *.
  - (* RNewFuzz *)
    destruct (nth_error (p_sites p) i) as [[g | e |]|] eqn:En; try discriminate.
    destruct (s_fuzz st) eqn:Ef; try discriminate. inversion Hstep; subst; clear Hstep.
    pose proof (forallb_nth_error _ _ _ _ Hsites En) as Hr. cbn [role_ok] in Hr.
    unfold inv0. cbn [s_fuzz s_pols s_global fst snd]. rewrite Ef. cbn [andb].
    rewrite (source_of_ok seed e Hr). repeat split; auto.
  - (* RNewPolicy *)
    destruct (lookupZ k (p_kinds p)) as [[reads passes]|] eqn:El; try discriminate.
    inversion Hstep; subst; clear Hstep.
    destruct (lookupZ_forallb _ _ _ _ Hkinds El) as [k' Hk].
    unfold inv0. cbn [s_fuzz s_pols s_global]. repeat split; auto.
    intros H. apply andb_true_iff in H. destruct H as [Hf Hp]. rewrite Hf. cbn [andb].
    rewrite forallb_app, Hp. cbn [forallb andb]. rewrite andb_true_r. unfold pol_okb. cbn [fst snd].
    destruct reads; cbn [negb orb]; auto. eapply policy_source_ok; eauto.
  - (* RDraw *)
    destruct (nth_error (p_sites p) i) as [[[ | | | ] | e |]|] eqn:En; try discriminate.
    + (* G_global *)
      destruct (draw_global st) as [[st1 v]|] eqn:Ed; try discriminate. inversion Hstep; subst; clear Hstep.
      destruct (draw_global_spec _ _ _ Ed) as (A & B & C & D).
      unfold inv, inv0. rewrite A, B. repeat split; auto; try (intros; discriminate).
      intros H. apply andb_true_iff in H. destruct H as [Hg _]. cbn [forallb]. rewrite (D Hg). reflexivity.
    + (* G_fuzz *)
      destruct (s_fuzz st) as [c|] eqn:Ef; try discriminate.
      destruct (draw_cell st c) as [[[st1 c'] v]|] eqn:Ed; try discriminate. inversion Hstep; subst; clear Hstep.
      destruct (draw_cell_spec _ _ _ _ _ Ed) as (A & B & C & D & E).
      unfold inv, inv0. cbn [s_fuzz s_pols s_global]. rewrite B, Ef, D. repeat split; auto; try (intros; discriminate).
      intros H. apply andb_true_iff in H. destruct H as [Hg H]. apply andb_true_iff in H. destruct H as [Hc _].
      cbn [forallb]. rewrite (E Hg Hc). reflexivity.
    + (* G_policy *)
      destruct (nth_error (s_pols st) inst) as [[[|] c]|] eqn:Ep; try discriminate.
      destruct (draw_cell st c) as [[[st1 c'] v]|] eqn:Ed; try discriminate. inversion Hstep; subst; clear Hstep.
      destruct (draw_cell_spec _ _ _ _ _ Ed) as (A & B & C & D & E).
      unfold inv, inv0. cbn [s_fuzz s_pols s_global]. rewrite A, B. repeat split; auto; try (intros; discriminate).
      * intros H. apply andb_true_iff in H. destruct H as [Hf Hp]. rewrite Hf. cbn [andb].
        apply forallb_set_nth; auto. pose proof (forallb_nth_error _ _ _ _ Hp Ep) as Hc.
        unfold pol_okb in *. cbn [fst snd negb orb] in *. rewrite D. exact Hc.
      * intros H. apply andb_true_iff in H. destruct H as [Hg H]. apply andb_true_iff in H. destruct H as [_ Hp].
        pose proof (forallb_nth_error _ _ _ _ Hp Ep) as Hc. unfold pol_okb in Hc. cbn [fst snd negb orb] in Hc.
        cbn [forallb]. rewrite (E Hg Hc). reflexivity.
    + (* G_os: excluded by role_ok *)
      pose proof (forallb_nth_error _ _ _ _ Hsites En) as Hr. cbn in Hr. discriminate.
Qed.

Lemma plan_reqs_ctor p seed st rs st' cs :
  forallb role_ok (p_sites p) = true -> forallb (kind_ok p) (p_kinds p) = true ->
  forallb is_ctor rs = true -> plan_reqs p seed st rs = Some (st', cs) ->
  cs = [] /\ (inv0 st = true -> inv0 st' = true) /\ s_global st' = s_global st.
Proof.
  intros Hs Hk. revert st st' cs. induction rs as [|r t IH]; intros st st' cs Hc Hp; cbn in *.
  - inversion Hp; subst. auto.
  - apply andb_true_iff in Hc. destruct Hc as [Hr Ht].
    destruct (pstep p seed st r) as [[st1 c1]|] eqn:E1; try discriminate.
    destruct (plan_reqs p seed st1 t) as [[st2 c2]|] eqn:E2; try discriminate. inversion Hp; subst; clear Hp.
    destruct (pstep_spec _ _ _ _ _ _ Hs Hk E1) as (A & _ & _ & D).
    destruct (IH _ _ _ Ht E2) as (X & Y & Z0). rewrite (D Hr), X. repeat split; auto.
    rewrite Z0. destruct r; cbn in Hr; try discriminate; cbn in E1.
    + destruct (nth_error (p_sites p) site) as [[ | |]|]; try discriminate. destruct (s_fuzz st); try discriminate.
      inversion E1; subst; reflexivity.
    + destruct (lookupZ kind (p_kinds p)) as [[? ?]|]; try discriminate. inversion E1; subst; reflexivity.
Qed.

Lemma boot_inv p seed imports st cs :
  prog_ok p = true -> forallb is_ctor imports = true -> boot_state p seed imports = Some (st, cs) ->
  cs = [] /\ inv st = true.
Proof.
  unfold prog_ok, boot_state. intros Hok Hc Hb.
  apply andb_true_iff in Hok. destruct Hok as [Hok Hk]. apply andb_true_iff in Hok. destruct Hok as [Hpre Hs].
  destruct (plan_reqs p seed init_state imports) as [[st0 c0]|] eqn:E; try discriminate. inversion Hb; subst; clear Hb.
  destruct (plan_reqs_ctor _ _ _ _ _ _ Hs Hk Hc E) as (A & B & C). split; auto.
  unfold prefix_ok in Hpre. destruct (p_prefix p) as [|[e] [|b t]]; try discriminate.
  cbn [fold_left bstep]. unfold inv, inv0, glob_okb. cbn [s_global s_fuzz s_pols fst].
  pose proof (source_of_ok seed e Hpre) as He. destruct (source_of seed None e) eqn:Es; cbn in He; try discriminate.
  - destruct e; cbn in Es; discriminate.
  - cbn [andb]. apply B. reflexivity.
Qed.

Lemma run_ctl_indep p prng seed h1 h2 ctl :
  forallb role_ok (p_sites p) = true -> forallb (kind_ok p) (p_kinds p) = true ->
  forall fuel st tape, inv st = true ->
  run_ctl fuel p prng seed h1 ctl st tape = run_ctl fuel p prng seed h2 ctl st tape.
Proof.
  intros Hs Hk. induction fuel as [|f IH]; intros st tape Hi; cbn; auto.
  destruct (ctl tape) as [r|]; auto.
  destruct (pstep p seed st r) as [[st' cs]|] eqn:E; auto.
  destruct (pstep_spec _ _ _ _ _ _ Hs Hk E) as (A & B & C & _).
  rewrite (vals_indep prng h1 h2 cs (C Hi)). apply IH.
  unfold inv in *. apply andb_true_iff in Hi. destruct Hi as [Hg H0]. rewrite B, Hg, (A H0). reflexivity.
Qed.

(* the general non-interference theorem of the model *)
Theorem tape_indep_general p :
  prog_ok p = true ->
  forall prng seed h1 h2 imports ctl fuel, forallb is_ctor imports = true ->
  run p prng seed h1 imports ctl fuel = run p prng seed h2 imports ctl fuel.
Proof.
  intros Hok prng seed h1 h2 imports ctl fuel Hc. unfold run.
  destruct (boot_state p seed imports) as [[st cs]|] eqn:E; auto.
  destruct (boot_inv _ _ _ _ _ Hok Hc E) as [X Hi]. subst cs. cbn [map].
  unfold prog_ok in Hok. apply andb_true_iff in Hok. destruct Hok as [Hok Hk]. apply andb_true_iff in Hok. destruct Hok as [_ Hs].
  f_equal. apply run_ctl_indep; auto.
Qed.

(* ------------------------------------------------------------------ (a) on the program generated from /repo *)
Lemma src_prog_ok : prog_ok Src_Repro.prog = true.
Proof. vm_compute. reflexivity. Qed.

Lemma tape_independent_of_hidden :
  forall (prng : Z -> nat -> Z) (seed : Z) (h1 h2 : hidden) (imports : list request) (ctl : controller) (fuel : nat),
    forallb is_ctor imports = true ->
    run Src_Repro.prog prng seed h1 imports ctl fuel = run Src_Repro.prog prng seed h2 imports ctl fuel.
Proof. exact (tape_indep_general _ src_prog_ok). Qed.

Lemma audit_sites_hidden_free : audit_ok Src_Repro.audit = true.
Proof. vm_compute. reflexivity. Qed.

(* every generator site of the program comes from the audit table, and only in-scope sites can be requested *)
Lemma program_sites_from_audit :
  p_sites Src_Repro.prog = map role_of Src_Repro.audit /\
  forall i s, nth_error Src_Repro.audit i = Some s -> a_scope s = false -> nth_error (p_sites Src_Repro.prog) i = Some R_other.
Proof.
  split; [reflexivity|]. intros i s Hn Hs. change (p_sites Src_Repro.prog) with (map role_of Src_Repro.audit).
  rewrite nth_error_map, Hn. cbn. unfold role_of. rewrite Hs. reflexivity.
Qed.

(* ------------------------------------------------------------------ (c) draws happen in an order fixed by the call sequence *)
Lemma tape_is_plan p prng seed h imports rs :
  tape_reqs p prng seed h imports rs = option_map (map (pcell_val prng h)) (plan_of p seed imports rs).
Proof.
  unfold tape_reqs, plan_of. destruct (boot_state p seed imports) as [[st cs]|]; auto.
  destruct (plan_reqs p seed st rs) as [[st' cs']|]; auto.
Qed.

(* a controller that replays a fixed call sequence: request number (length of the tape) *)
Lemma tape_reqs_indep_src prng seed h1 h2 imports rs :
  forallb is_ctor imports = true ->
  tape_reqs Src_Repro.prog prng seed h1 imports rs = tape_reqs Src_Repro.prog prng seed h2 imports rs.
Proof.
  intros Hc. unfold tape_reqs.
  destruct (boot_state Src_Repro.prog seed imports) as [[st cs]|] eqn:E; auto.
  destruct (boot_inv _ _ _ _ _ src_prog_ok Hc E) as [X Hi]. subst cs.
  pose proof src_prog_ok as Hok. unfold prog_ok in Hok.
  apply andb_true_iff in Hok. destruct Hok as [Hok Hk]. apply andb_true_iff in Hok. destruct Hok as [_ Hs].
  assert (G : forall rs st st' cs', inv st = true -> plan_reqs Src_Repro.prog seed st rs = Some (st', cs') ->
                                    forallb is_prng cs' = true).
  { clear. pose proof src_prog_ok as Hok. unfold prog_ok in Hok.
    apply andb_true_iff in Hok. destruct Hok as [Hok Hk]. apply andb_true_iff in Hok. destruct Hok as [_ Hs].
    induction rs as [|r t IH]; intros st st' cs' Hi Hp; cbn in Hp.
    - inversion Hp; reflexivity.
    - destruct (pstep Src_Repro.prog seed st r) as [[st1 c1]|] eqn:E1; try discriminate.
      destruct (plan_reqs Src_Repro.prog seed st1 t) as [[st2 c2]|] eqn:E2; try discriminate. inversion Hp; subst.
      destruct (pstep_spec _ _ _ _ _ _ Hs Hk E1) as (A & B & C & _).
      assert (Hi1 : inv st1 = true).
      { unfold inv in *. apply andb_true_iff in Hi. destruct Hi as [Hg H0]. rewrite B, Hg, (A H0). reflexivity. }
      rewrite forallb_app, (C Hi). cbn [andb]. eapply IH; eauto. }
  destruct (plan_reqs Src_Repro.prog seed st rs) as [[st' cs']|] eqn:E2; auto.
  cbn [app]. f_equal. apply vals_indep. eapply G; eauto.
Qed.

(* ------------------------------------------------------------------ (b) rows in iteration order *)
Lemma rows_ordered_indep h1 h2 pools : util_rows ordered h1 pools = util_rows ordered h2 pools.
Proof. reflexivity. Qed.

Lemma src_util_ordered : Src_Repro.util_iter = ordered.
Proof. reflexivity. Qed.

Lemma rows_independent_of_order :
  forall (h1 h2 : hidden) (pools : list (Z * list Z)), order_contract h1 -> order_contract h2 ->
    util_rows Src_Repro.util_iter h1 pools = util_rows Src_Repro.util_iter h2 pools.
Proof. intros h1 h2 pools _ _. rewrite src_util_ordered. apply rows_ordered_indep. Qed.

(* dict.fromkeys keeps exactly the distinct names, first occurrences first *)
Lemma dedup_In l x : In x (dedup l) <-> In x l.
Proof.
  induction l as [|a t IH]; cbn; [tauto|]. rewrite filter_In, IH. split.
  - intros [H|[H _]]; auto.
  - intros [H|H]; auto. destruct (Z.eq_dec x a) as [E|N]; [left; auto|right]. split; auto.
    apply negb_true_iff. apply Z.eqb_neq. exact N.
Qed.
Lemma NoDup_filter {A} (f : A -> bool) l : NoDup l -> NoDup (filter f l).
Proof.
  induction 1 as [|a t Hn Hd IH]; cbn; [constructor|]. destruct (f a); auto. constructor; auto.
  rewrite filter_In. tauto.
Qed.
Lemma dedup_NoDup l : NoDup (dedup l).
Proof.
  induction l as [|a t IH]; cbn; constructor.
  - rewrite filter_In. intros [_ H]. rewrite Z.eqb_refl in H. discriminate.
  - apply NoDup_filter. exact IH.
Qed.

(* under the set discipline the rows are still the same rows, in an order the oracle chooses *)
Lemma rows_set_order_perm h pools : order_contract h ->
  Permutation (util_rows set_order h pools) (util_rows ordered h pools).
Proof.
  intros Hc. induction pools as [|[pid names] t IH]; cbn; [constructor|].
  apply Permutation_app; [|exact IH]. apply Permutation_map. apply Hc. apply dedup_NoDup.
Qed.

(* an order-insensitive accumulation over a set does not depend on the oracle (class C_iter_commutative) *)
Lemma fold_comm_perm {A B} (f : A -> B -> B) (b : B) (l1 l2 : list A) :
  (forall x y acc, f x (f y acc) = f y (f x acc)) -> Permutation l1 l2 -> fold_right f b l1 = fold_right f b l2.
Proof.
  intros Hf Hp. induction Hp; cbn; auto.
  - rewrite IHHp. reflexivity.
  - congruence.
Qed.
Lemma commutative_iteration_indep {B} (f : Z -> B -> B) (b : B) (h1 h2 : hidden) (keys : list Z) :
  (forall x y acc, f x (f y acc) = f y (f x acc)) -> order_contract h1 -> order_contract h2 -> NoDup keys ->
  fold_right f b (h_setorder h1 keys) = fold_right f b (h_setorder h2 keys).
Proof.
  intros Hf H1 H2 Hn. rewrite (fold_comm_perm f b _ keys Hf (H1 _ Hn)).
  symmetry. apply (fold_comm_perm f b _ keys Hf (H2 _ Hn)).
Qed.

(* ------------------------------------------------------------------ non-vacuity and refutations on variant tables *)
Definition prng0 : Z -> nat -> Z := fun s n => s * 1000 + Z.of_nat n.
Definition h_a : hidden := mkHidden (fun n => 7 + Z.of_nat n) (fun l => l) (fun _ => 0).
Definition h_b : hidden := mkHidden (fun n => 900 + Z.of_nat n) (@rev Z) (fun n => Z.of_nat n).

Lemma h_a_contract : order_contract h_a.
Proof. intros l _. apply Permutation_refl. Qed.
Lemma h_b_contract : order_contract h_b.
Proof. intros l _. cbn. apply Permutation_sym. apply Permutation_rev. Qed.

(* a non-trivial run of the generated program: fuzz generator created while importing (flag not yet defined: seed 42),
   two poisson policies, ids, a conditional branch, fuzz draws and policy draws; every cell is a seeded stream *)
Definition demo_reqs : list request :=
  [RNewPolicy kind_poisson; RNewPolicy kind_fixed; RNewPolicy kind_gamma;
   RDraw site_job_id 0; RDraw site_task_id 0; RDraw site_fuzz_draw 0; RDraw site_policy_draw_0 0;
   RDraw site_policy_draw_1 2; RDraw site_policy_draw_0 0; RDraw site_branch_choice 0; RDraw site_fuzz_draw 0;
   RDraw site_worker_id 0; RDraw site_pool_id 0; RDraw site_resource_id 0].
Lemma demo_plan :
  plan_of Src_Repro.prog 5 [RNewFuzz site_fuzz_ctor_1] demo_reqs =
  Some [PC_prng 5 0; PC_prng 5 1; PC_prng 42 0; PC_prng 5 0; PC_prng 5 0; PC_prng 5 1; PC_prng 5 2; PC_prng 42 1;
        PC_prng 5 3; PC_prng 5 4; PC_prng 5 5].
Proof. vm_compute. reflexivity. Qed.
Lemma demo_tape_equal :
  tape_reqs Src_Repro.prog prng0 5 h_a [RNewFuzz site_fuzz_ctor_1] demo_reqs =
  tape_reqs Src_Repro.prog prng0 5 h_b [RNewFuzz site_fuzz_ctor_1] demo_reqs /\
  tape_reqs Src_Repro.prog prng0 5 h_a [RNewFuzz site_fuzz_ctor_1] demo_reqs <> None.
Proof. split; [vm_compute; reflexivity | vm_compute; discriminate]. Qed.
(* a policy object whose code path never reads its generator cannot be asked for a value (its generator IS unseeded) *)
Lemma demo_fixed_policy_never_draws :
  plan_of Src_Repro.prog 5 [] [RNewPolicy kind_fixed; RDraw site_policy_draw_0 0] = None.
Proof. vm_compute. reflexivity. Qed.

Definition with_site (p : program) (i : nat) (r : role) : program :=
  mkProgram (set_nth (p_sites p) i r) (p_kinds p) (p_policy_ctor p) (p_loader_seed p) (p_prefix p).

(* variant 1: Task ids from uuid4 *)
Definition prog_uuid4 : program := with_site Src_Repro.prog site_task_id (R_draw G_os).
Lemma uuid4_refuted :
  prog_ok prog_uuid4 = false /\
  tape_reqs prog_uuid4 prng0 5 h_a [] [RDraw site_task_id 0] <> tape_reqs prog_uuid4 prng0 5 h_b [] [RDraw site_task_id 0].
Proof. split; [vm_compute; reflexivity | vm_compute; discriminate]. Qed.

(* variant 2: every release policy built by default_rng() without a seed *)
Definition prog_unseeded_policy : program :=
  mkProgram (p_sites Src_Repro.prog) (p_kinds Src_Repro.prog) (SE_none, SE_none) (p_loader_seed Src_Repro.prog)
            (p_prefix Src_Repro.prog).
Lemma unseeded_policy_refuted :
  prog_ok prog_unseeded_policy = false /\
  tape_reqs prog_unseeded_policy prng0 5 h_a [] [RNewPolicy kind_poisson; RDraw site_policy_draw_0 0] <>
  tape_reqs prog_unseeded_policy prng0 5 h_b [] [RNewPolicy kind_poisson; RDraw site_policy_draw_0 0].
Proof. split; [vm_compute; reflexivity | vm_compute; discriminate]. Qed.

(* variant 2b: the loader does not hand the seed over (the state of /repo before its fix) *)
Definition prog_loader_forgets : program :=
  mkProgram (p_sites Src_Repro.prog) (map (fun k => (fst k, (fst (snd k), false))) (p_kinds Src_Repro.prog))
            (p_policy_ctor Src_Repro.prog) (p_loader_seed Src_Repro.prog) (p_prefix Src_Repro.prog).
Lemma loader_forgets_refuted :
  prog_ok prog_loader_forgets = false /\
  tape_reqs prog_loader_forgets prng0 5 h_a [] [RNewPolicy kind_gamma; RDraw site_policy_draw_1 0] <>
  tape_reqs prog_loader_forgets prng0 5 h_b [] [RNewPolicy kind_gamma; RDraw site_policy_draw_1 0].
Proof. split; [vm_compute; reflexivity | vm_compute; discriminate]. Qed.

(* variant 3: the fuzz generator built by random.Random() *)
Definition prog_unseeded_fuzz : program := with_site Src_Repro.prog site_fuzz_ctor_1 (R_ctor_fuzz SE_none).
Lemma unseeded_fuzz_refuted :
  prog_ok prog_unseeded_fuzz = false /\
  tape_reqs prog_unseeded_fuzz prng0 5 h_a [RNewFuzz site_fuzz_ctor_1] [RDraw site_fuzz_draw 0] <>
  tape_reqs prog_unseeded_fuzz prng0 5 h_b [RNewFuzz site_fuzz_ctor_1] [RDraw site_fuzz_draw 0].
Proof. split; [vm_compute; reflexivity | vm_compute; discriminate]. Qed.

(* variant 4: main() does not seed the global generator *)
Definition prog_no_seeding : program :=
  mkProgram (p_sites Src_Repro.prog) (p_kinds Src_Repro.prog) (p_policy_ctor Src_Repro.prog)
            (p_loader_seed Src_Repro.prog) [].
Lemma no_seeding_refuted :
  prog_ok prog_no_seeding = false /\
  tape_reqs prog_no_seeding prng0 5 h_a [] [RDraw site_task_id 0] <> tape_reqs prog_no_seeding prng0 5 h_b [] [RDraw site_task_id 0].
Proof. split; [vm_compute; reflexivity | vm_compute; discriminate]. Qed.

(* variant 5: utilisation rows iterated over set(...) (the state of /repo before its fix) *)
Lemma set_order_refuted :
  exists h1 h2 pools, order_contract h1 /\ order_contract h2 /\ util_rows set_order h1 pools <> util_rows set_order h2 pools.
Proof.
  exists h_a, h_b, [(1, [10; 20; 10])]. split; [exact h_a_contract|]. split; [exact h_b_contract|].
  vm_compute. discriminate.
Qed.

(* the tape theorem is not true of every program: it needs exactly the translated facts *)
Lemma tape_theorem_needs_the_facts :
  exists p prng seed h1 h2 imports rs, forallb is_ctor imports = true /\
    tape_reqs p prng seed h1 imports rs <> tape_reqs p prng seed h2 imports rs.
Proof.
  exists prog_uuid4, prng0, 5, h_a, h_b, [], [RDraw site_task_id 0]. split; [reflexivity|]. apply uuid4_refuted.
Qed.

(* ------------------------------------------------------------------ the id monitor *)
Lemma ids_from_draws_spec l :
  ids_from_draws l = true <-> Forall (fun p => 0 <= fst p < 2 ^ 128 /\ snd p = uuid4_of_bits (fst p)) l.
Proof.
  unfold ids_from_draws. rewrite forallb_forall, Forall_forall. split; intros H p Hp; specialize (H p Hp).
  - apply andb_true_iff in H. destruct H as [H H3]. apply andb_true_iff in H. destruct H as [H1 H2]. lia.
  - destruct H as [[H1 H2] H3]. rewrite H3. apply andb_true_iff. split; [apply andb_true_iff; split|]; lia.
Qed.
