(* C20 — lemmas about Model/Strl.v *)
From Coq Require Import ZArith Bool List Lia ZifyBool.
Import ListNotations.
From Verif Require Import Model.Val Model.Strl.
Open Scope Z_scope.

(* ------------------------------------------------------------------ utility = objective *)
Lemma utility_is_objective : forall pt now g e cs a,
  compile pt now g e = Ok cs -> sol_util (solve pt now a e) = objective_value cs a.
Proof.
  intros pt now g e cs a H.
  destruct e; cbn [compile] in H; try discriminate.
  destruct (forallb (no_throw pt now) kids) eqn:Hnt; [|discriminate].
  injection H as <-.
  unfold objective_value; cbn [cs_obj].
  cbn [solve parse generic pu_util].
  destruct (lin_val a (concat (map pu_util (map (parse pt now) kids))) =? 0) eqn:Hz; reflexivity.
Qed.

(* ------------------------------------------------------------------ F13: the general capacity statement is false *)
Definition f13_pt : ptab := [(1, 1, true)].
Definition f13_e : expr := Objective 3 [Choose 1 [1] 1 0 4 1; Choose 2 [1] 1 2 4 1].
Definition f13_a : asg := fun _ => 1.

Lemma capacity_unaligned_refuted :
  exists pt now g e cs a p tau,
    compile pt now g e = Ok cs /\ sat cs a = true /\
    usage (populate pt now a e) p tau + alloc_usage e p tau > qty0 pt p.
Proof.
  exists f13_pt, 0, 4, f13_e.
  eexists. exists f13_a, 1, 2.
  split; [vm_compute; reflexivity|].
  split; vm_compute; reflexivity.
Qed.
