(* C20 — lemmas about Model/Strl.v, part 1: structure of the compiled model, capacity. *)
From Coq Require Import ZArith Bool List Lia ZifyBool.
Import ListNotations.
From Verif Require Import Model.Val Model.Strl.
Open Scope Z_scope.

(* ------------------------------------------------------------------ children, induction *)
Definition children (e : expr) : list expr :=
  match e with
  | Choose _ _ _ _ _ _ | Alloc _ _ _ _ => []
  | Min _ ks | Max _ ks | Objective _ ks => ks
  | LessThan _ x y => [x; y]
  | Scale _ _ _ k => [k]
  end.

Lemma subs_children : forall e, subs e = e :: flat_map subs (children e).
Proof. destruct e; cbn [subs children flat_map]; rewrite ?app_nil_r; reflexivity. Qed.

Section ExprInd.
  Variable P : expr -> Prop.
  Hypothesis step : forall e, Forall P (children e) -> P e.
  Fixpoint expr_kids_ind (e : expr) : P e :=
    step e
      (match e as e0 return Forall P (children e0) with
       | Choose _ _ _ _ _ _ => Forall_nil P
       | Alloc _ _ _ _ => Forall_nil P
       | Min _ ks | Max _ ks | Objective _ ks =>
           (fix go (l : list expr) : Forall P l :=
              match l with [] => Forall_nil P | x :: l' => Forall_cons x (expr_kids_ind x) (go l') end) ks
       | LessThan _ x y => Forall_cons x (expr_kids_ind x) (Forall_cons y (expr_kids_ind y) (Forall_nil P))
       | Scale _ _ _ k => Forall_cons k (expr_kids_ind k) (Forall_nil P)
       end).
End ExprInd.

Lemma subs_refl : forall e, In e (subs e).
Proof. intros e; rewrite subs_children; left; reflexivity. Qed.

Lemma subs_kid : forall e k x, In k (children e) -> In x (subs k) -> In x (subs e).
Proof.
  intros e k x Hk Hx. rewrite subs_children. right. apply in_flat_map. exists k; auto.
Qed.

Lemma subs_trans : forall e x y, In x (subs e) -> In y (subs x) -> In y (subs e).
Proof.
  induction e using expr_kids_ind. intros x y Hx Hy.
  rewrite subs_children in Hx. destruct Hx as [<-|Hx]; [exact Hy|].
  apply in_flat_map in Hx. destruct Hx as [k [Hk Hx]].
  rewrite Forall_forall in H. eapply subs_kid; eauto.
Qed.

(* ------------------------------------------------------------------ sums *)
Lemma sumZ_app : forall l1 l2, sumZ (l1 ++ l2) = sumZ l1 + sumZ l2.
Proof.
  induction l1 as [|x l1 IH]; intros l2; cbn [app].
  - change (sumZ []) with 0. lia.
  - change (sumZ (x :: l1 ++ l2)) with (x + sumZ (l1 ++ l2)). change (sumZ (x :: l1)) with (x + sumZ l1).
    rewrite IH. lia.
Qed.

Lemma sumZ_cons : forall x l, sumZ (x :: l) = x + sumZ l.
Proof. reflexivity. Qed.

Lemma sumZ_nonneg : forall l, (forall x, In x l -> 0 <= x) -> 0 <= sumZ l.
Proof.
  induction l; intros H; [cbn; lia|]. rewrite sumZ_cons.
  assert (0 <= a) by (apply H; left; reflexivity).
  assert (0 <= sumZ l) by (apply IHl; intros; apply H; right; assumption). lia.
Qed.

Lemma sumZ_map_le : forall {A} (f g : A -> Z) l, (forall x, In x l -> f x <= g x) ->
  sumZ (map f l) <= sumZ (map g l).
Proof.
  induction l; intros H; [cbn; lia|]. cbn [map]. rewrite !sumZ_cons.
  assert (f a <= g a) by (apply H; left; reflexivity).
  assert (sumZ (map f l) <= sumZ (map g l)) by (apply IHl; intros; apply H; right; assumption). lia.
Qed.

Lemma sumZ_flat_map : forall {A B} (F : A -> list B) (f : B -> Z) l,
  sumZ (map f (flat_map F l)) = sumZ (map (fun x => sumZ (map f (F x))) l).
Proof.
  induction l; [reflexivity|]. cbn [flat_map map]. rewrite map_app, sumZ_app, sumZ_cons, IHl. reflexivity.
Qed.

(* ------------------------------------------------------------------ rows *)
Lemma lin_val_app : forall a l1 l2, lin_val a (l1 ++ l2) = lin_val a l1 + lin_val a l2.
Proof. induction l1 as [|[c x] l1]; intros; cbn [lin_val app]; [lia|]. rewrite IHl1. lia. Qed.

Lemma lin_split : forall a l, terms_val a (lin_vars l) + lin_const l = lin_val a l.
Proof.
  induction l as [|[c [v|k]] l]; cbn [lin_vars lin_const lin_val terms_val aval]; lia.
Qed.

Lemma mkrow_LE : forall a l r, row_holds a (mkrow LE l r) = true <-> lin_val a l <= r.
Proof. intros. unfold row_holds, mkrow; cbn [r_sense r_terms r_rhs]. pose proof (lin_split a l). lia. Qed.
Lemma mkrow_GE : forall a l r, row_holds a (mkrow GE l r) = true <-> lin_val a l >= r.
Proof. intros. unfold row_holds, mkrow; cbn [r_sense r_terms r_rhs]. pose proof (lin_split a l). lia. Qed.
Lemma mkrow_EQ : forall a l r, row_holds a (mkrow EQ l r) = true <-> lin_val a l = r.
Proof. intros. unfold row_holds, mkrow; cbn [r_sense r_terms r_rhs]. pose proof (lin_split a l). lia. Qed.

(* ------------------------------------------------------------------ what a satisfying assignment gives *)
Record facts (pt : ptab) (now g : Z) (a : asg) (e : expr) : Prop := {
  f_rows : forall e' r, In e' (subs e) -> In r (own_rows pt now e') -> row_holds a r = true;
  f_vars : forall e' d, In e' (subs e) -> In d (own_vars pt now e') -> dom_ok a d = true;
  f_caps : forall k, In k (reg_keys (e_regs pt now g e)) -> row_holds a (cap_row pt (e_regs pt now g e) k) = true
}.

Lemma compile_inv : forall pt now g e cs, compile pt now g e = Ok cs ->
  exists n ks, e = Objective n ks /\ forallb (no_throw pt now) ks = true /\
    cs = {| cs_vars := e_vars pt now e; cs_rows := e_rows pt now e ++ cap_rows pt (e_regs pt now g e);
            cs_obj := pu_util (parse pt now e) |}.
Proof.
  intros pt now g e cs H. destruct e; cbn [compile] in H; try discriminate.
  destruct (forallb (no_throw pt now) kids) eqn:Hnt; [|discriminate].
  injection H as <-. eauto.
Qed.

Lemma sat_facts : forall pt now g e cs a,
  compile pt now g e = Ok cs -> sat cs a = true -> facts pt now g a e.
Proof.
  intros pt now g e cs a Hc Hs. destruct (compile_inv _ _ _ _ _ Hc) as [n [ks [-> [_ ->]]]].
  unfold sat in Hs; cbn [cs_rows cs_vars] in Hs. apply andb_prop in Hs. destruct Hs as [Hr Hv].
  rewrite forallb_app in Hr. apply andb_prop in Hr. destruct Hr as [Hr Hk].
  rewrite forallb_forall in Hr, Hv, Hk.
  constructor.
  - intros e' r He' Hin. apply Hr. unfold e_rows. apply in_flat_map. eauto.
  - intros e' d He' Hin. apply Hv. unfold e_vars. apply in_flat_map. eauto.
  - intros k Hin. apply Hk. unfold cap_rows. apply in_map. exact Hin.
Qed.

Lemma facts_sub : forall pt now g a e, facts pt now g a e ->
  (forall e' r, In e' (subs e) -> In r (own_rows pt now e') -> row_holds a r = true) /\
  (forall e' d, In e' (subs e) -> In d (own_vars pt now e') -> dom_ok a d = true).
Proof. intros. destruct H. split; assumption. Qed.

(* ------------------------------------------------------------------ utility = objective *)
Lemma utility_is_objective : forall pt now g e cs a,
  compile pt now g e = Ok cs -> sol_util (solve pt now a e) = objective_value cs a.
Proof.
  intros pt now g e cs a H. destruct (compile_inv _ _ _ _ _ H) as [n [ks [-> [_ ->]]]].
  unfold objective_value; cbn [cs_obj].
  cbn [solve parse generic pu_util].
  destruct (lin_val a (concat (map pu_util (map (parse pt now) ks))) =? 0) eqn:Hz; reflexivity.
Qed.

(* ------------------------------------------------------------------ F13: the general capacity statement is false *)
Definition f13_pt : ptab := [(1, 1, true)].
Definition f13_e : expr := Objective 3 [Choose 1 [1] 1 0 4 1; Choose 2 [1] 1 2 4 1].
Definition f13_a : asg := fun _ => 1.

Lemma capacity_unaligned_refuted :
  exists pt now g e cs a p tau,
    compile pt now g e = Ok cs /\ sat cs a = true /\
    usage (populate pt now a e) p tau + alloc_usage e p tau > qty0 pt p.
Proof.
  exists f13_pt, 0, 4, f13_e.
  eexists. exists f13_a, 1, 2.
  split; [vm_compute; reflexivity|].
  split; vm_compute; reflexivity.
Qed.

(* ------------------------------------------------------------------ finding: an unsatisfied LessThan still passes up
   the utility and the placements of children whose indicator is the constant 1 *)
Definition flt_pt : ptab := [(1, 1, true)].
Definition flt_e : expr :=
  Objective 11 [LessThan 10 (LessThan 3 (Choose 1 [1] 1 4 2 1) (Choose 2 [1] 1 6 2 1))
                            (LessThan 9 (Max 5 [Choose 4 [1] 1 8 2 1])
                                        (LessThan 8 (Choose 6 [1] 1 0 2 1) (Choose 7 [1] 1 2 2 1)))].
Definition flt_a : asg := asg_of
  [(VInd 1, 1); (VAlloc 1 1, 1); (VInd 2, 1); (VAlloc 2 1, 1); (VInd 6, 1); (VAlloc 6 1, 1); (VInd 7, 1); (VAlloc 7 1, 1);
   (VStart 5, 8)].

Lemma lessthan_refuted :
  exists pt now g e cs a, compile pt now g e = Ok cs /\ sat cs a = true /\ alignedb g e = true /\
    lt_okb e (populate pt now a e) = false.
Proof.
  exists flt_pt, 0, 1, flt_e. eexists. exists flt_a.
  split; [vm_compute; reflexivity|]. repeat split; vm_compute; reflexivity.
Qed.

(* variant b: a trivially satisfied (constant-path) LessThan takes indicator 1 and the constant end time
   of a child that is lowered through solver variables and is NOT satisfied *)
Definition fltb_pt : ptab := [(1, 2, true)].
Definition fltb_e : expr :=
  Objective 12 [LessThan 11
                  (LessThan 10 (Choose 1 [1] 1 0 5 1)
                     (LessThan 9 (LessThan 8 (Choose 2 [1] 1 6 1 1) (Max 7 [Choose 3 [1] 1 8 1 1])) (Choose 4 [1] 1 1 1 1)))
                  (Choose 5 [1] 1 3 1 1)].
Definition fltb_a : asg := asg_of [(VInd 1, 1); (VAlloc 1 1, 1); (VInd 5, 1); (VAlloc 5 1, 1); (VStart 7, 7)].

Lemma lessthan_refuted_b :
  exists pt now g e cs a, compile pt now g e = Ok cs /\ sat cs a = true /\ alignedb g e = true /\
    lt_okb e (populate pt now a e) = false.
Proof.
  exists fltb_pt, 0, 1, fltb_e. eexists. exists fltb_a.
  split; [vm_compute; reflexivity|]. repeat split; vm_compute; reflexivity.
Qed.
