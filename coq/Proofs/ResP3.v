(* Copies (as of /repo cd7cd87 / b0287db): Resources.__copy__ copies the cells and the allocation lists,
   so a copy IS its original (same available cells, totals, allocations, hence same getters) for ANY
   vector; Worker.__copy__ also copies the batch registry and gives every pending profile its own
   loading strategy, so a copy satisfies the same invariant and answers can_accomodate_strategy as its
   original; a deep copy is the initial ledger; operations on one object of a world leave the other
   objects unchanged (world_independence, now including `step`). *)
From Coq Require Import ZArith Bool List Lia ZifyBool.
Import ListNotations.
From Verif Require Import Model.Val Model.Res Model.Worker Proofs.ResP Proofs.ResP2 Proofs.WorkerP Proofs.WorkerP2.
Open Scope Z_scope.

Lemma fold_vec_set_skip : forall l k q v, ~ In k (map fst l) ->
  fold_left (fun v kq => vec_set (fst kq) (snd kq) v) l ((k, q) :: v) =
  (k, q) :: fold_left (fun v kq => vec_set (fst kq) (snd kq) v) l v.
Proof.
  induction l as [|[k0 q0] l IH]; intros k q v Hn; cbn [fold_left fst snd]; [reflexivity|].
  cbn [vec_set]. destruct (rkey_eqb k k0) eqn:E.
  - apply rkey_eqb_eq in E. subst. exfalso. apply Hn. left. reflexivity.
  - apply IH. intro X. apply Hn. right. exact X.
Qed.
Lemma fold_vec_set_same : forall av tot, map fst av = map fst tot -> NoDup (map fst av) ->
  fold_left (fun v kq => vec_set (fst kq) (snd kq) v) av tot = av.
Proof.
  induction av as [|[k q] av IH]; intros [|[k' t] tot] K N; cbn [map fst] in K; try discriminate; [reflexivity|].
  inversion K; subst k'. inversion N as [|x y N1 N2]; subst. cbn [fold_left fst snd vec_set]. rewrite rkey_eqb_refl.
  rewrite fold_vec_set_skip by exact N1. f_equal. apply IH; assumption.
Qed.
(* a copy of a ledger is that ledger, for ANY vector *)
Theorem copy_same : forall R, Inv_ledger R -> Dict_ok R -> r_copy R = Ok R.
Proof.
  intros R [_ K _] [_ N]. unfold r_copy. rewrite (fold_vec_set_same _ _ K N). destruct R; reflexivity.
Qed.
Theorem copy_same_getters : forall R, Inv_ledger R -> Dict_ok R ->
  exists R', r_copy R = Ok R' /\ r_avail R' = r_avail R /\ r_total R' = r_total R /\ r_allocs R' = r_allocs R /\
             forall r, r_available R' r = r_available R r /\ r_total_q R' r = r_total_q R r /\
                       r_allocated_q R' r = r_allocated_q R r.
Proof. intros R HI HD. exists R. rewrite (copy_same R HI HD). repeat split; reflexivity. Qed.
Theorem copy_conserves : forall R R', Inv_ledger R -> Dict_ok R -> r_copy R = Ok R' ->
  r_total R' = r_total R /\ forall P, sumP P (r_avail R') + allocs_sum P (r_allocs R') = sumP P (r_total R).
Proof. intros R R' HI HD H. rewrite (copy_same R HI HD) in H. inversion H; subst. split; [reflexivity|apply (inv_cons _ HI)]. Qed.

(* Worker.__copy__ *)
Lemma renumber_keys : forall pend n, map fst (renumber_pend n pend) = map fst pend.
Proof. induction pend as [|[p s] pend IH]; intro n; cbn [renumber_pend map fst]; [reflexivity|]. rewrite IH. reflexivity. Qed.
Lemma renumber_find : forall pend n p, 
  (zfind p (renumber_pend n pend) = None <-> zfind p pend = None) /\
  (forall s', zfind p (renumber_pend n pend) = Some s' ->
     exists s, zfind p pend = Some s /\ s_req s' = s_req s /\ s_runtime s' = s_runtime s /\ s_bsize s' = s_bsize s).
Proof.
  induction pend as [|[p0 s0] pend IH]; intros n p; cbn [renumber_pend zfind].
  - split; [tauto|discriminate].
  - destruct (p0 =? p); [split; [split; discriminate|intros s' E; inversion E; subst; exists s0; cbn; auto]|apply IH].
Qed.
Theorem w_copy_shape : forall w w', w_copy w = Ok w' ->
  w_id w' = w_id w /\ w_placed w' = w_placed w /\ w_batches w' = w_batches w /\ w_btask w' = w_btask w /\
  w_avail_prof w' = w_avail_prof w /\ map fst (w_pend_prof w') = map fst (w_pend_prof w) /\
  r_copy (w_res w) = Ok (w_res w').
Proof.
  intros w w' H. unfold w_copy in H. destruct (r_copy (w_res w)) as [R|e]; inversion H; subst. cbn.
  rewrite renumber_keys. repeat split; reflexivity.
Qed.
(* a copy satisfies the invariant of its original: everything proved about reachable workers (who holds
   what, removal, refusal, demand <= capacity) holds for copies and for what is done to them *)
Theorem w_copy_winv : forall tbl w w', WInv tbl w -> w_copy w = Ok w' -> WInv tbl w'.
Proof.
  intros tbl w w' HI H. unfold w_copy in H. destruct (wi_res _ _ HI) as [HA HD]. rewrite (copy_same _ HA HD) in H.
  inversion H; subst; clear H.
  destruct HI as [Hres Hn Hndp Hndb Hbk Hnda Hndq Hdisj Hmem Hpb Hfresh Hinj Horph Hext Hexb Hexp].
  constructor; cbn [w_res w_placed w_batches w_btask w_avail_prof w_pend_prof w_fresh]; auto.
  - rewrite renumber_keys. exact Hndq.
  - intros p X. apply (proj1 (renumber_find (w_pend_prof w) (w_fresh w) p)). auto.
  - intros sid b E. apply Hfresh in E. lia.
  - intros c Hc. specialize (Horph c Hc). destruct c as [t|b|p]; auto. destruct Horph as [X|X]; [left; exact X|right].
    intro Y. apply (proj1 (renumber_find (w_pend_prof w) (w_fresh w) p)) in Y. contradiction.
  - intros p s' [X|X]; [apply Hexp; left; exact X|].
    destruct (proj2 (renumber_find (w_pend_prof w) (w_fresh w) p) s' X) as (s & E1 & E2 & _). rewrite E2. apply Hexp. right. exact E1.
Qed.
Theorem w_copy_fits : forall w w' s, Inv_ledger (w_res w) -> Dict_ok (w_res w) -> w_copy w = Ok w' -> w_fits s w' = w_fits s w.
Proof.
  intros w w' s HA HD H. unfold w_copy in H. rewrite (copy_same _ HA HD) in H. inversion H; subst. reflexivity.
Qed.
Theorem w_deepcopy_initial : forall id v ops, NoDup (map fst v) ->
  let w := w_deepcopy (w_run ops (w_new id v)) in
  w_res w = r_new v /\ w_placed w = [] /\ w_avail_prof w = [] /\ w_pend_prof w = [] /\ w_batches w = [].
Proof.
  intros id v ops Hv w. destruct (worker_conservation id v ops Hv) as (_ & _ & T).
  unfold w, w_deepcopy, r_deepcopy. cbn. rewrite T. repeat split; reflexivity.
Qed.

(* Independence: in the world of objects, an operation on object i leaves every other object unchanged
   (including `step`: the loading timers are no longer shared, /repo b0287db), and copying leaves every
   existing object unchanged. *)
Lemma nth_error_set_nth_other : forall {A} (l : list A) i j a, i <> j -> nth_error (set_nth i a l) j = nth_error l j.
Proof.
  intros A. induction l as [|x l IH]; intros i j a Hn; [destruct i; reflexivity|].
  destruct i as [|i]; destruct j as [|j]; cbn [set_nth nth_error]; try reflexivity; [congruence|]. apply IH. congruence.
Qed.
Lemma nth_error_app_old : forall {A} (l : list A) x j a, nth_error l j = Some a -> nth_error (l ++ [x]) j = Some a.
Proof. intros A l x j a H. rewrite nth_error_app1; [exact H|]. apply nth_error_Some. congruence. Qed.
Definition cmd_target (c : wcmd) : option nat :=
  match c with CRes i _ => Some i | CWorker i _ => Some i | CPool i _ => Some i | _ => None end.
Theorem world_independence : forall W c j a, cmd_target c <> Some j ->
  nth_error (wo_objs W) j = Some a -> nth_error (wo_objs (fst (world_step W c))) j = Some a.
Proof.
  intros W c j a Ht Hj. destruct c as [i o|i o|i o|i|i]; cbn [world_step cmd_target] in *.
  - destruct (nth_error (wo_objs W) i) as [[R|w|P|e]|]; try exact Hj.
    destruct (r_step R o). cbn [fst wo_objs]. rewrite nth_error_set_nth_other; [exact Hj|congruence].
  - destruct (nth_error (wo_objs W) i) as [[R|w|P|e]|]; try exact Hj.
    destruct (w_opstep w o). cbn [fst wo_objs]. rewrite nth_error_set_nth_other; [exact Hj|congruence].
  - destruct (nth_error (wo_objs W) i) as [[R|w|P|e]|]; try exact Hj.
    destruct (p_opstep P o). cbn [fst wo_objs]. rewrite nth_error_set_nth_other; [exact Hj|congruence].
  - destruct (nth_error (wo_objs W) i) as [[R|w|P|e]|]; try exact Hj.
    + destruct (r_copy R); cbn [fst wo_objs]; apply nth_error_app_old; exact Hj.
    + destruct (w_copy w); cbn [fst wo_objs]; apply nth_error_app_old; exact Hj.
    + destruct (p_copy P) as [P'|e]; [destruct (rebase_workers _ _)|]; cbn [fst wo_objs]; apply nth_error_app_old; exact Hj.
  - destruct (nth_error (wo_objs W) i) as [[R|w|P|e]|]; try exact Hj.
    + cbn [fst wo_objs]. apply nth_error_app_old. exact Hj.
    + cbn [fst wo_objs]. apply nth_error_app_old. exact Hj.
    + destruct (rebase_workers _ _). cbn [fst wo_objs]. apply nth_error_app_old. exact Hj.
Qed.

