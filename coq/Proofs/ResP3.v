(* Copies: a copy that succeeds is again a conserved ledger over the same totals (for ANY vector);
   when no two cells of the vector match each other (wf_vecb) the copy always succeeds and has exactly
   the available cells, totals and getters of its original (copy_same_getters) - false otherwise
   (Proofs/WorkerPR.v copy_mixed_vector_*_refuted); a deep copy is the initial ledger; operations on
   one object of a world leave the other objects unchanged (world_independence). *)
From Coq Require Import ZArith Bool List Lia ZifyBool.
Import ListNotations.
From Verif Require Import Model.Val Model.Res Model.Worker Proofs.ResP Proofs.ResP2 Proofs.WorkerP Proofs.WorkerP2.
Open Scope Z_scope.

Lemma copy_recs_inv : forall l I c I', Inv_ledger I -> Dict_ok I -> copy_recs I c l = Ok I' ->
  Inv_ledger I' /\ Dict_ok I' /\ r_total I' = r_total I.
Proof.
  induction l as [|[k q] l IH]; intros I c I' HI HD H; cbn [copy_recs] in H.
  - inversion H; subst. auto.
  - destruct (r_allocate I k c q) as [I1 [u|e]] eqn:Ea; [|discriminate].
    destruct (IH I1 c I' (inv_allocate _ _ _ _ _ _ HI Ea) (dict_allocate _ _ _ _ _ _ HD Ea) H) as (A & B & C).
    split; [exact A|split; [exact B|]]. rewrite C. eapply total_allocate; eauto.
Qed.
Lemma copy_allocs_inv : forall a I I', Inv_ledger I -> Dict_ok I -> copy_allocs I a = Ok I' ->
  Inv_ledger I' /\ Dict_ok I' /\ r_total I' = r_total I.
Proof.
  induction a as [|[c l] a IH]; intros I I' HI HD H; cbn [copy_allocs] in H.
  - inversion H; subst. auto.
  - destruct (copy_recs I c l) as [I1|e] eqn:Ec; [|discriminate].
    destruct (copy_recs_inv _ _ _ _ HI HD Ec) as (A & B & C).
    destruct (IH I1 I' A B H) as (A' & B' & C'). split; [exact A'|split; [exact B'|congruence]].
Qed.
(* the copy conserves: for every key predicate, available + allocated = the ORIGINAL's totals *)
Theorem copy_conserves : forall R R', NoDup (map fst (r_total R)) -> r_copy R = Ok R' ->
  r_total R' = r_total R /\ forall P, sumP P (r_avail R') + allocs_sum P (r_allocs R') = sumP P (r_total R).
Proof.
  intros R R' Hnd H. unfold r_copy in H.
  destruct (copy_allocs_inv _ _ _ (inv_new (r_total R)) (dict_new _ Hnd) H) as ([C _ _] & _ & T).
  cbn [r_new r_total] in T. split; [exact T|]. intro P. rewrite C, T. reflexivity.
Qed.
(* Worker.__copy__ keeps the placed tasks and the profiles, forgets the batch registry *)
Theorem w_copy_shape : forall w w', w_copy w = Ok w' ->
  w_id w' = w_id w /\ w_placed w' = w_placed w /\ w_avail_prof w' = w_avail_prof w /\ w_pend_prof w' = w_pend_prof w /\
  w_batches w' = [] /\ r_copy (w_res w) = Ok (w_res w').
Proof. intros w w' H. unfold w_copy in H. destruct (r_copy (w_res w)) as [R|e]; inversion H; subst. cbn. repeat split; reflexivity. Qed.
Theorem w_deepcopy_initial : forall id v ops, NoDup (map fst v) ->
  let w := w_deepcopy (w_run ops (w_new id v)) in
  w_res w = r_new v /\ w_placed w = [] /\ w_avail_prof w = [] /\ w_pend_prof w = [] /\ w_batches w = [].
Proof.
  intros id v ops Hv w. destruct (worker_conservation id v ops Hv) as (_ & _ & T).
  unfold w, w_deepcopy, r_deepcopy. cbn. rewrite T. repeat split; reflexivity.
Qed.

(* Independence: in the world of objects, an operation on object i (other than a `step`, whose effect
   on shared loading timers is explicit: timer_aliasing_refuted) leaves every other object unchanged,
   and copying leaves every existing object unchanged. *)
Lemma nth_error_set_nth_other : forall {A} (l : list A) i j a, i <> j -> nth_error (set_nth i a l) j = nth_error l j.
Proof.
  intros A. induction l as [|x l IH]; intros i j a Hn; [destruct i; reflexivity|].
  destruct i as [|i]; destruct j as [|j]; cbn [set_nth nth_error]; try reflexivity; [congruence|]. apply IH. congruence.
Qed.
Lemma nth_error_app_old : forall {A} (l : list A) x j a, nth_error l j = Some a -> nth_error (l ++ [x]) j = Some a.
Proof. intros A l x j a H. rewrite nth_error_app1; [exact H|]. apply nth_error_Some. congruence. Qed.
Definition cmd_target (c : wcmd) : option nat :=
  match c with CRes i _ => Some i | CWorker i _ => Some i | CPool i _ => Some i | _ => None end.
Definition cmd_is_step (c : wcmd) : bool :=
  match c with CWorker _ o => is_step_w o | CPool _ o => is_step_p o | _ => false end.
Theorem world_independence : forall W c j a, cmd_is_step c = false -> cmd_target c <> Some j ->
  nth_error (wo_objs W) j = Some a -> nth_error (wo_objs (fst (world_step W c))) j = Some a.
Proof.
  intros W c j a Hs Ht Hj. destruct c as [i o|i o|i o|i|i]; cbn [world_step cmd_target cmd_is_step] in *.
  - destruct (nth_error (wo_objs W) i) as [[R|w|P|e]|]; try exact Hj.
    destruct (r_step R o). cbn [fst wo_objs]. rewrite nth_error_set_nth_other; [exact Hj|congruence].
  - destruct (nth_error (wo_objs W) i) as [[R|w|P|e]|]; try exact Hj.
    destruct (w_opstep w o). rewrite Hs. cbn [fst wo_objs]. rewrite nth_error_set_nth_other; [exact Hj|congruence].
  - destruct (nth_error (wo_objs W) i) as [[R|w|P|e]|]; try exact Hj.
    destruct (p_opstep P o). rewrite Hs. cbn [fst wo_objs]. rewrite nth_error_set_nth_other; [exact Hj|congruence].
  - destruct (nth_error (wo_objs W) i) as [[R|w|P|e]|]; try exact Hj.
    + destruct (r_copy R); cbn [fst wo_objs]; apply nth_error_app_old; exact Hj.
    + destruct (w_copy w); cbn [fst wo_objs]; apply nth_error_app_old; exact Hj.
    + destruct (p_copy P) as [P'|e]; [destruct (rebase_workers _ _)|]; cbn [fst wo_objs]; apply nth_error_app_old; exact Hj.
  - destruct (nth_error (wo_objs W) i) as [[R|w|P|e]|]; try exact Hj.
    + cbn [fst wo_objs]. apply nth_error_app_old. exact Hj.
    + cbn [fst wo_objs]. apply nth_error_app_old. exact Hj.
    + destruct (rebase_workers _ _). cbn [fst wo_objs]. apply nth_error_app_old. exact Hj.
Qed.

(* ---------------------------------------------------------------------------------------------- *)
(* A copy has the getters of its original when no two cells of the vector match each other. *)
Definition wf_keys (ks : list rkey) : Prop :=
  forall k k', In k ks -> In k' ks -> res_match k' k = true -> k' = k.
Lemma wf_vecb_keys : forall v, wf_vecb v = true -> NoDup (map fst v) /\ wf_keys (map fst v).
Proof.
  induction v as [|[k q] v IH]; cbn [wf_vecb map fst]; intro H.
  - split; [constructor|intros k k' []].
  - apply andb_true_iff in H. destruct H as [H1 H2]. destruct (IH H2) as [N W]. rewrite forallb_forall in H1.
    assert (Hn : forall k', In k' (map fst v) -> res_match k k' = false).
    { intros k' Hin. apply in_map_iff in Hin. destruct Hin as ([k0 q0] & E & Hin). cbn [fst] in E. subst k0.
      specialize (H1 _ Hin). cbn [fst] in H1. apply negb_true_iff in H1. exact H1. }
    split.
    + constructor; [|exact N]. intro Hin. specialize (Hn k Hin). rewrite res_match_refl in Hn. discriminate.
    + intros a b [Ha|Ha] [Hb|Hb] Hm; subst; auto.
      * specialize (Hn b Hb). rewrite res_match_sym in Hm. congruence.
      * specialize (Hn a Ha). congruence.
Qed.

(* on such a vector a request for the exact key of a cell is served from that cell only *)
Lemma alloc_loop_cell : forall k v q v' recs, wf_keys (map fst v) -> NoDup (map fst v) -> In k (map fst v) ->
  0 <= q <= sumP (rkey_eqb k) v -> alloc_loop k q v = (v', recs) ->
  forall P, sumP P recs = if P k then q else 0.
Proof.
  intros k. induction v as [|[k0 x] v IH]; intros q v' recs W N Hin Hq H P; [destruct Hin|].
  cbn [map fst] in *. inversion N as [|a b N1 N2]; subst. cbn [alloc_loop] in H. cbn [sumP] in Hq.
  destruct (rkey_eqb k k0) eqn:E.
  - apply rkey_eqb_eq in E. subst k0. rewrite res_match_refl in H. rewrite (sumP_eqb_notin k v N1) in Hq.
    destruct (q <=? x) eqn:E1; [|lia]. inversion H; subst. cbn [sumP]. destruct (P k); lia.
  - destruct Hin as [Hin|Hin]; [subst; rewrite rkey_eqb_refl in E; discriminate|].
    assert (Hm : res_match k0 k = false).
    { destruct (res_match k0 k) eqn:Em; [|reflexivity]. exfalso.
      assert (k0 = k) by (apply W; [right; exact Hin|left; reflexivity|exact Em]). subst. rewrite rkey_eqb_refl in E. discriminate. }
    rewrite Hm in H. destruct (q =? 0) eqn:E0.
    + inversion H; subst. cbn [sumP]. destruct (P k); lia.
    + destruct (alloc_loop k q v) as [v'' rs] eqn:El. inversion H; subst.
      apply (IH q v'' recs); [intros a b Ha Hb; apply W; right; assumption|exact N2|exact Hin|lia|exact El].
Qed.
Lemma available_cell : forall k v, wf_keys (map fst v) -> In k (map fst v) -> vec_quantity v k = sumP (rkey_eqb k) v.
Proof.
  intros k v W Hin. unfold vec_quantity.
  assert (G : forall u, (forall k', In k' (map fst u) -> res_match k' k = true -> k' = k) ->
              sumP (fun k' => res_match k' k) u = sumP (rkey_eqb k) u).
  { induction u as [|[k0 x] u IHu]; intro Hu; cbn [sumP]; [reflexivity|].
    rewrite IHu by (intros; apply Hu; [right|]; assumption). cbn [map fst] in Hu.
    destruct (res_match k0 k) eqn:Em.
    - rewrite (Hu k0 (or_introl eq_refl) Em), rkey_eqb_refl. reflexivity.
    - destruct (rkey_eqb k k0) eqn:E; [|reflexivity]. apply rkey_eqb_eq in E. subst. rewrite res_match_refl in Em. discriminate. }
  apply G. intros k' Hk' Hm. apply W; assumption.
Qed.

(* the state of a copy in progress: enough room in every cell for what remains to be re-applied *)
Definition Room (I : res) (a : allocs) : Prop :=
  forall k, In k (map fst (r_avail I)) -> allocs_sum (rkey_eqb k) a <= sumP (rkey_eqb k) (r_avail I).

Lemma copy_rec_step : forall I k c q, Inv_ledger I -> wf_keys (map fst (r_avail I)) -> NoDup (map fst (r_avail I)) ->
  In k (map fst (r_avail I)) -> 0 <= q <= sumP (rkey_eqb k) (r_avail I) ->
  exists I', r_allocate I k c q = (I', Ok tt) /\ Inv_ledger I' /\ map fst (r_avail I') = map fst (r_avail I) /\
             r_total I' = r_total I /\
             forall P, sumP P (r_avail I') = sumP P (r_avail I) - (if P k then q else 0).
Proof.
  intros I k c q HI W N Hin Hq. unfold r_allocate. unfold r_available. rewrite (available_cell k _ W Hin).
  destruct (sumP (rkey_eqb k) (r_avail I) <? q) eqn:E; [lia|].
  destruct (alloc_loop k q (r_avail I)) as [v recs] eqn:El. eexists. split; [reflexivity|].
  destruct (alloc_loop_spec _ _ _ _ _ El) as (C & K & _).
  assert (HI' : Inv_ledger (mkRes v (r_total I) (al_append c recs (r_allocs I)))).
  { apply (inv_allocate I k c q _ (Ok tt) HI). unfold r_allocate, r_available. rewrite (available_cell k _ W Hin), E, El. reflexivity. }
  split; [exact HI'|]. cbn [r_avail r_total]. split; [exact K|]. split; [reflexivity|].
  intro P. specialize (C P). rewrite (alloc_loop_cell k _ _ _ _ W N Hin Hq El P) in C. lia.
Qed.

Lemma copy_recs_ok : forall l I c, Inv_ledger I -> wf_keys (map fst (r_avail I)) -> NoDup (map fst (r_avail I)) ->
  nonneg_vec l -> Forall (fun kq => In (fst kq) (map fst (r_avail I))) l ->
  (forall k, In k (map fst (r_avail I)) -> sumP (rkey_eqb k) l <= sumP (rkey_eqb k) (r_avail I)) ->
  exists I', copy_recs I c l = Ok I' /\ Inv_ledger I' /\ map fst (r_avail I') = map fst (r_avail I) /\
             r_total I' = r_total I /\ forall P, sumP P (r_avail I') = sumP P (r_avail I) - sumP P l.
Proof.
  induction l as [|[k q] l IH]; intros I c HI W N Hn Hk Hr; cbn [copy_recs].
  - exists I. split; [reflexivity|]. split; [exact HI|]. split; [reflexivity|]. split; [reflexivity|]. intro P. cbn [sumP]. lia.
  - inversion Hn as [|a b Q1 Q2]; subst. inversion Hk as [|a b K1 K2]; subst. cbn [fst snd] in *.
    assert (Hq : 0 <= q <= sumP (rkey_eqb k) (r_avail I)).
    { split; [exact Q1|]. specialize (Hr k K1). cbn [sumP] in Hr. rewrite rkey_eqb_refl in Hr.
      pose proof (sumP_nonneg (rkey_eqb k) l Q2). lia. }
    destruct (copy_rec_step I k c q HI W N K1 Hq) as (I1 & E1 & HI1 & Ks & T1 & S1). rewrite E1.
    destruct (IH I1 c HI1) as (I' & E' & HI' & Ks' & T' & S'); try (rewrite Ks; assumption); try assumption.
    + intros k0 Hk0. rewrite Ks in Hk0. rewrite S1. specialize (Hr k0 Hk0). cbn [sumP] in Hr. lia.
    + exists I'. split; [exact E'|]. split; [exact HI'|]. split; [congruence|]. split; [congruence|].
      intro P. rewrite S', S1. cbn [sumP]. lia.
Qed.

Lemma copy_allocs_ok : forall a I, Inv_ledger I -> wf_keys (map fst (r_avail I)) -> NoDup (map fst (r_avail I)) ->
  recs_nonneg a -> recs_in (r_avail I) a -> Room I a ->
  exists I', copy_allocs I a = Ok I' /\ Inv_ledger I' /\ map fst (r_avail I') = map fst (r_avail I) /\
             r_total I' = r_total I /\ forall P, sumP P (r_avail I') = sumP P (r_avail I) - allocs_sum P a.
Proof.
  induction a as [|[c l] a IH]; intros I HI W N Hn Hk Hr; cbn [copy_allocs].
  - exists I. split; [reflexivity|]. split; [exact HI|]. split; [reflexivity|]. split; [reflexivity|]. intro P. cbn [allocs_sum]. lia.
  - inversion Hn as [|x y Q1 Q2]; subst. inversion Hk as [|x y K1 K2]; subst. cbn [snd] in *.
    assert (Hpos : forall k, 0 <= allocs_sum (rkey_eqb k) a).
    { intro k. clear -Q2. induction a as [|[c0 l0] a IHa]; cbn [allocs_sum snd]; [lia|]. inversion Q2; subst. cbn [snd] in *.
      pose proof (sumP_nonneg (rkey_eqb k) l0 H1). specialize (IHa H2). lia. }
    destruct (copy_recs_ok l I c HI W N Q1 K1) as (I1 & E1 & HI1 & Ks & T1 & S1).
    { intros k Hk0. specialize (Hr k Hk0). cbn [allocs_sum snd] in Hr. specialize (Hpos k). lia. }
    rewrite E1.
    destruct (IH I1 HI1) as (I' & E' & HI' & Ks' & T' & S'); try (rewrite Ks; assumption); try assumption.
    + unfold recs_in in *. rewrite Ks. exact K2.
    + intros k Hk0. rewrite Ks in Hk0. rewrite S1. specialize (Hr k Hk0). cbn [allocs_sum snd] in Hr. lia.
    + exists I'. split; [exact E'|]. split; [exact HI'|]. split; [congruence|]. split; [congruence|].
      intro P. rewrite S', S1. cbn [allocs_sum snd]. lia.
Qed.

Theorem copy_same_getters : forall R, Inv_ledger R -> Dict_ok R -> Nonneg R -> wf_vecb (r_total R) = true ->
  exists R', r_copy R = Ok R' /\ r_avail R' = r_avail R /\ r_total R' = r_total R /\
             (forall P, allocs_sum P (r_allocs R') = allocs_sum P (r_allocs R)) /\
             forall r, r_available R' r = r_available R r /\ r_total_q R' r = r_total_q R r /\
                       r_allocated_q R' r = r_allocated_q R r.
Proof.
  intros R HI HD HN Hwf. destruct (wf_vecb_keys _ Hwf) as [N W].
  destruct HI as [C K Rin]. destruct HN as [NA NR].
  destruct (copy_allocs_ok (r_allocs R) (r_new (r_total R)) (inv_new _)) as (R' & E & HI' & Ks & T & S); cbn [r_new r_avail]; auto.
  - unfold recs_in in *. rewrite <- K. exact Rin.
  - intros k Hk. specialize (C (rkey_eqb k)). pose proof (sumP_nonneg (rkey_eqb k) _ NA). cbn [r_new r_avail]. lia.
  - cbn [r_new r_avail r_total] in *. exists R'. split; [exact E|].
    assert (EA : r_avail R' = r_avail R).
    { apply vec_ext; [congruence|rewrite Ks; exact N|]. intro k. rewrite S. specialize (C (rkey_eqb k)). lia. }
    split; [exact EA|]. split; [exact T|]. split.
    + intro P. destruct HI' as [C' _ _]. specialize (C' P). specialize (C P). rewrite EA, T in C'. lia.
    + intro r. unfold r_allocated_q, r_available, r_total_q. rewrite EA, T. auto.
Qed.
