(* C17, topological_sort: the DFS with Temporary/Permanent marks returns a permutation of
   the nodes in which every edge goes forward, raises exactly on cyclic graphs, and never
   runs out of fuel. *)
From Coq Require Import ZArith Bool List Lia ZifyBool Permutation.
Import ListNotations.
From Verif Require Import Model.Val Model.Graph Proofs.GraphPBase.
Open Scope Z_scope.

Ltac edisc := solve [discriminate | match goal with H : Err _ = Err _ |- _ => cbv in H; discriminate H end].

(* a occurs strictly before b in l *)
Definition before (a b : node) (l : list node) : Prop := exists l1 l2, l = l1 ++ b :: l2 /\ In a l1.
Lemma before_app : forall a b l l', before a b l -> before a b (l ++ l').
Proof. intros a b l l' [l1 [l2 [E H]]]. exists l1, (l2 ++ l'). subst l. rewrite <- app_assoc. split; [reflexivity | exact H]. Qed.
Lemma before_snoc : forall a b l, In a l -> before a b (l ++ [b]).
Proof. intros a b l H. exists l, []. split; [reflexivity | exact H]. Qed.

Lemma index_of_app_notin : forall x p q, ~ In x p -> index_of x (p ++ q) = (length p + index_of x q)%nat.
Proof.
  induction p as [|y p IH]; intros q H; cbn [app index_of length]; [reflexivity|].
  destruct (Z.eqb_spec x y) as [E|E]; [exfalso; apply H; left; congruence|].
  rewrite IH; [reflexivity | intro H1; apply H; right; exact H1].
Qed.
Lemma index_of_head : forall x q, index_of x (x :: q) = O.
Proof. intros. cbn [index_of]. rewrite Z.eqb_refl. reflexivity. Qed.
Lemma NoDup_app_notin : forall (p q : list node) x, NoDup (p ++ q) -> In x q -> ~ In x p.
Proof.
  induction p as [|y p IH]; intros q x N H; [intros []|].
  cbn [app] in N. inversion N as [|? ? Hy Hn]; subst. intros [E|E].
  - subst y. apply Hy. apply in_or_app. right. exact H.
  - eapply IH; eassumption.
Qed.
(* in a duplicate-free list, "u then later v" is a statement about positions *)
Lemma index_lt_of_split : forall l p q u v, NoDup l -> l = p ++ u :: q -> In v q ->
  (index_of u l < index_of v l)%nat.
Proof.
  intros l p q u v N E H. subst l.
  assert (Hu : ~ In u p) by (eapply NoDup_app_notin; [exact N | left; reflexivity]).
  assert (Hv : ~ In v p) by (eapply NoDup_app_notin; [exact N | right; exact H]).
  rewrite (index_of_app_notin u p _ Hu), (index_of_app_notin v p _ Hv), index_of_head.
  apply NoDup_remove_2 in N. cbn [index_of].
  destruct (Z.eqb_spec v u) as [E|E]; [|lia].
  subst v. exfalso. apply N. apply in_or_app. right. exact H.
Qed.

(* marks *)
Definition unm (o : option mark) : bool := match o with Some Unmarked => true | _ => false end.
Definition cu (m : marks) : nat := length (filter (fun k => unm (lookup k m)) (map fst m)).

Lemma filter_length_mono : forall (f f' : node -> bool) l,
  (forall x, In x l -> f' x = true -> f x = true) -> (length (filter f' l) <= length (filter f l))%nat.
Proof.
  induction l as [|y l IH]; intros H; cbn [filter length]; [lia|].
  assert (IH' : (length (filter f' l) <= length (filter f l))%nat) by (apply IH; intros; apply H; [right|]; assumption).
  destruct (f' y) eqn:E1.
  - rewrite (H y (or_introl eq_refl) E1). cbn [length]. lia.
  - destruct (f y); cbn [length]; lia.
Qed.
Lemma filter_length_lt : forall (f f' : node -> bool) l n,
  (forall x, In x l -> f' x = true -> f x = true) -> In n l -> f n = true -> f' n = false ->
  (length (filter f' l) < length (filter f l))%nat.
Proof.
  induction l as [|y l IH]; intros n H Hn Fn Fn'; [destruct Hn|].
  cbn [filter length].
  assert (M : (length (filter f' l) <= length (filter f l))%nat) by (apply filter_length_mono; intros; apply H; [right|]; assumption).
  destruct Hn as [E|Hn].
  - subst y. rewrite Fn, Fn'. cbn [length]. lia.
  - assert (L : (length (filter f' l) < length (filter f l))%nat) by (eapply IH; eauto; intros; apply H; [right|]; assumption).
    destruct (f' y) eqn:E1.
    + rewrite (H y (or_introl eq_refl) E1). cbn [length]. lia.
    + destruct (f y); cbn [length]; lia.
Qed.

Lemma lookup_init_marks : forall ns x,
  lookup x (map (fun n => (n, Unmarked)) ns) = if mem x ns then Some Unmarked else None.
Proof.
  induction ns as [|y ns IH]; intro x; cbn [map lookup mem]; [reflexivity|].
  destruct (x =? y); [reflexivity | apply IH].
Qed.
Lemma keys_init_marks : forall ns : list node, map fst (map (fun n => (n, Unmarked)) ns) = ns.
Proof. induction ns as [|y ns IH]; cbn [map fst]; [reflexivity | rewrite IH; reflexivity]. Qed.

Lemma all_perm_lookup : forall m x v, all_perm m = true -> lookup x m = Some v -> v = Permanent.
Proof.
  induction m as [|[k v'] m IH]; intros x v A H; cbn [lookup] in H; [discriminate|].
  cbn [all_perm forallb snd] in A. apply andb_true_iff in A. destruct A as [A1 A2].
  destruct (x =? k).
  - injection H as <-. destruct v'; try discriminate. reflexivity.
  - eapply IH; eassumption.
Qed.
Lemma all_perm_intro : forall m, NoDup (map fst m) ->
  (forall x, In x (map fst m) -> lookup x m = Some Permanent) -> all_perm m = true.
Proof.
  induction m as [|[k v] m IH]; intros N H; [reflexivity|].
  cbn [all_perm forallb snd]. cbn [map fst] in N. inversion N as [|? ? Hk Hn]; subst.
  apply andb_true_iff. split.
  - specialize (H k (or_introl eq_refl)). cbn [lookup] in H. rewrite Z.eqb_refl in H. injection H as ->. reflexivity.
  - apply IH; [exact Hn|]. intros x Hx. specialize (H x (or_intror Hx)). cbn [lookup] in H.
    destruct (Z.eqb_spec x k) as [E|E]; [subst; contradiction | exact H].
Qed.

Section Topo.
Variable g : graph.
Hypothesis W : wf g.

(* ---------------- how a successful visit changes the marks (no invariant needed) *)
Definition marks_step (n : node) (s s' : tstate) : Prop :=
  map fst (fst s') = map fst (fst s) /\
  (forall x, lookup x (fst s) <> Some Unmarked -> lookup x (fst s') = lookup x (fst s)) /\
  (forall x, lookup x (fst s') = Some Temporary -> lookup x (fst s) = Some Temporary) /\
  (exists l, snd s' = snd s ++ l).
Lemma marks_step_refl : forall n s, marks_step n s s.
Proof. intros n s. repeat split; auto. exists []. rewrite app_nil_r. reflexivity. Qed.
Lemma marks_step_trans : forall a b s1 s2 s3, marks_step a s1 s2 -> marks_step b s2 s3 -> marks_step a s1 s3.
Proof.
  intros a b s1 s2 s3 [K1 [P1 [T1 [l1 L1]]]] [K2 [P2 [T2 [l2 L2]]]]. repeat split.
  - congruence.
  - intros x H. rewrite P2; [apply P1; exact H | rewrite P1; exact H].
  - intros x H. apply T1, T2, H.
  - exists (l1 ++ l2). rewrite L2, L1, app_assoc. reflexivity.
Qed.
Lemma cu_step : forall n s s', marks_step n s s' -> (cu (fst s') <= cu (fst s))%nat.
Proof.
  intros n s s' [K [P [T _]]]. unfold cu. rewrite K. apply filter_length_mono.
  intros x _ H. destruct (lookup x (fst s)) as [[| |]|] eqn:E; try reflexivity;
    rewrite P in H; try congruence; rewrite E in H; discriminate.
Qed.

Lemma visit_children_marks : forall (v : node -> tstate -> result tstate) cs s s',
  (forall c s s', In c cs -> v c s = Ok s' -> marks_step c s s' /\ lookup c (fst s') = Some Permanent) ->
  visit_children v cs s = Ok s' ->
  marks_step 0 s s' /\ forall c, In c cs -> lookup c (fst s') = Some Permanent.
Proof.
  induction cs as [|c cs IH]; intros s s' Hv H; cbn [visit_children] in H.
  - injection H as <-. split; [apply marks_step_refl | intros c []].
  - destruct (v c s) as [s1|e] eqn:E; cbn [bind] in H; [|discriminate].
    destruct (Hv c s s1 (or_introl eq_refl) E) as [M1 P1].
    destruct (IH s1 s') as [M2 P2]; [intros; apply Hv; [right|]; assumption | exact H |].
    split; [eapply marks_step_trans; eassumption|].
    intros x [Hx|Hx]; [subst x | apply P2; exact Hx].
    destruct M2 as [_ [P _]]. rewrite P; [exact P1 | rewrite P1; discriminate].
Qed.

Lemma visit_marks : forall f n s s', visit f g n s = Ok s' ->
  marks_step n s s' /\ lookup n (fst s') = Some Permanent.
Proof.
  induction f as [|f IH]; intros n s s' H; cbn [visit] in H; [discriminate|].
  destruct (lookup n (fst s)) as [[| |]|] eqn:E; try discriminate.
  - destruct (get_children g n) as [cs|e]; cbn [bind] in H; [|discriminate].
    destruct (visit_children (visit f g) cs (set_key n Temporary (fst s), snd s)) as [s2|e] eqn:E2; cbn [bind] in H; [|discriminate].
    injection H as <-. cbn [fst snd].
    destruct (visit_children_marks (visit f g) cs (set_key n Temporary (fst s), snd s) s2) as [[K [P [T [l L]]]] _]; [intros; apply IH; assumption | exact E2 |].
    cbn [fst snd] in K, P, T, L.
    assert (Kn : In n (map fst (fst s))) by (eapply lookup_some_in; exact E).
    split; [repeat split; cbn [fst snd] | cbn [fst snd]].
    + rewrite keys_set_key_in; [rewrite K; apply keys_set_key_in; exact Kn | rewrite K, keys_set_key_in; assumption].
    + intros x Hx. rewrite lookup_set_key. destruct (Z.eqb_spec x n) as [Ex|Ex]; [subst; congruence|].
      rewrite P; rewrite lookup_set_key; destruct (Z.eqb_spec x n); try congruence.
    + intros x Hx. rewrite lookup_set_key in Hx. destruct (Z.eqb_spec x n) as [Ex|Ex]; [discriminate|].
      apply T in Hx. rewrite lookup_set_key in Hx. destruct (Z.eqb_spec x n); [congruence | exact Hx].
    + exists (l ++ [n]). rewrite L, app_assoc. reflexivity.
    + rewrite lookup_set_key, Z.eqb_refl. reflexivity.
  - injection H as <-. split; [apply marks_step_refl | exact E].
Qed.

(* ---------------- the invariant of the post-order list *)
Record J (s : tstate) : Prop := mkJ {
  J_nodup : NoDup (snd s);
  J_perm : forall x, In x (snd s) <-> lookup x (fst s) = Some Permanent;
  J_order : forall x c, In x (snd s) -> edge g x c -> before c x (snd s)
}.

Lemma visit_children_J : forall (v : node -> tstate -> result tstate) cs s s',
  (forall c s s', In c cs -> J s -> v c s = Ok s' -> J s') ->
  J s -> visit_children v cs s = Ok s' -> J s'.
Proof.
  induction cs as [|c cs IH]; intros s s' Hv Js H; cbn [visit_children] in H.
  - injection H as <-. exact Js.
  - destruct (v c s) as [s1|e] eqn:E; cbn [bind] in H; [|discriminate].
    eapply IH; [intros; eapply Hv; [right|..]; eassumption | eapply Hv; [left; reflexivity | exact Js | exact E] | exact H].
Qed.

Lemma visit_J : forall f n s s', J s -> visit f g n s = Ok s' -> J s'.
Proof.
  induction f as [|f IH]; intros n s s' Js H; cbn [visit] in H; [discriminate|].
  destruct (lookup n (fst s)) as [[| |]|] eqn:E; try discriminate.
  - unfold get_children in H. destruct (lookup n (g_children g)) as [cs|] eqn:Ec; cbn [bind] in H; [|discriminate].
    destruct (visit_children (visit f g) cs (set_key n Temporary (fst s), snd s)) as [s2|e] eqn:E2; cbn [bind] in H; [|discriminate].
    injection H as <-.
    set (s1 := ((set_key n Temporary (fst s), snd s) : tstate)) in *.
    assert (J1 : J s1).
    { subst s1. destruct Js as [N P O]. constructor; cbn [fst snd]; [exact N | | exact O].
      intro x. rewrite lookup_set_key. destruct (Z.eqb_spec x n) as [Ex|Ex]; [|apply P].
      subst x. split; [intro H; apply P in H; congruence | discriminate]. }
    assert (J2 : J s2) by (eapply visit_children_J; [intros; eapply IH; eassumption | exact J1 | exact E2]).
    destruct (visit_children_marks (visit f g) cs s1 s2) as [[K [P [T [l L]]]] CP]; [intros c0 s0 s0' _ Hv; apply (visit_marks f); exact Hv | exact E2 |].
    assert (Tn : lookup n (fst s2) = Some Temporary).
    { rewrite P; subst s1; cbn [fst]; rewrite lookup_set_key, Z.eqb_refl; [reflexivity | discriminate]. }
    assert (Nn : ~ In n (snd s2)) by (intro H; apply (J_perm s2 J2) in H; congruence).
    destruct J2 as [N2 P2 O2]. constructor; cbn [fst snd].
    + apply NoDup_snoc; assumption.
    + intro x. rewrite in_app_iff, lookup_set_key. cbn [In]. destruct (Z.eqb_spec x n) as [Ex|Ex].
      * split; auto.
      * rewrite P2. split; [intros [H|[H|[]]]; [exact H | congruence] | auto].
    + intros x c Hx Ed. apply in_app_or in Hx. destruct Hx as [Hx|[Hx|[]]].
      * apply before_app. apply O2; assumption.
      * subst x. apply before_snoc. apply P2. apply CP.
        unfold edge, children_of in Ed. rewrite Ec in Ed. exact Ed.
  - injection H as <-. exact Js.
Qed.

(* ---------------- an exception means a cycle *)
Lemma visit_children_err : forall (v : node -> tstate -> result tstate) n cs (s : tstate),
  (forall c s s', In c cs -> v c s = Ok s' -> marks_step c s s') ->
  (forall c s, In c cs -> (forall t, lookup t (fst s) = Some Temporary -> reachp g t c) ->
               v c s = Err E_RUNTIME -> cyclic g) ->
  (forall c, In c cs -> edge g n c) ->
  (forall t, lookup t (fst s) = Some Temporary -> t = n \/ reachp g t n) ->
  visit_children v cs s = Err E_RUNTIME -> cyclic g.
Proof.
  induction cs as [|c cs IH]; intros s Hm He Hc Ht H; cbn [visit_children] in H; [discriminate|].
  assert (Tc : forall t, lookup t (fst s) = Some Temporary -> reachp g t c).
  { intros t Ht'. destruct (Ht t Ht') as [->|R].
    - exists c. split; [apply Hc; left; reflexivity | apply reach_refl].
    - eapply reachp_trans_l; [exact R | eapply reach_step; [apply Hc; left; reflexivity | apply reach_refl]]. }
  destruct (v c s) as [s1|e] eqn:E; cbn [bind] in H.
  - eapply (IH s1); try eassumption.
    + intros; eapply Hm; [right|]; eassumption.
    + intros; eapply He; [right| |]; eassumption.
    + intros; apply Hc; right; assumption.
    + intros t Ht'. apply Ht. destruct (Hm c s s1 (or_introl eq_refl) E) as [_ [_ [T _]]]. apply T. exact Ht'.
  - injection H as ->. eapply He; [left; reflexivity | exact Tc | exact E].
Qed.

Lemma visit_err : forall f n (s : tstate),
  (forall t, lookup t (fst s) = Some Temporary -> reachp g t n) ->
  visit f g n s = Err E_RUNTIME -> cyclic g.
Proof.
  induction f as [|f IH]; intros n s Ht H; cbn [visit] in H; [edisc|].
  destruct (lookup n (fst s)) as [[| |]|] eqn:E; try edisc.
  - unfold get_children in H. destruct (lookup n (g_children g)) as [cs|] eqn:Ec; cbn [bind] in H; [|edisc].
    destruct (visit_children (visit f g) cs (set_key n Temporary (fst s), snd s)) as [s2|e] eqn:E2; cbn [bind] in H; [edisc|].
    injection H as ->.
    eapply (visit_children_err (visit f g) n cs); [| | | | exact E2].
    + intros c s0 s' _ Hv. apply visit_marks in Hv. tauto.
    + intros c s0 _ Hc Hv. eapply IH; eassumption.
    + intros c Hc. unfold edge, children_of. rewrite Ec. exact Hc.
    + cbn [fst]. intros t Ht'. rewrite lookup_set_key in Ht'. destruct (Z.eqb_spec t n); [left; assumption | right; apply Ht; exact Ht'].
  - exists n. apply Ht. exact E.
Qed.

(* ---------------- the only outcomes are a result or the cycle error (fuel adequacy, no KeyError) *)
Definition good (r : result tstate) : Prop := (exists s', r = Ok s') \/ r = Err E_RUNTIME.

Lemma visit_children_good : forall (v : node -> tstate -> result tstate) (fuel : nat) cs (s : tstate),
  (forall c s s', In c cs -> v c s = Ok s' -> marks_step c s s') ->
  (forall c s, In c cs -> map fst (fst s) = nodes g -> (cu (fst s) < fuel)%nat -> good (v c s)) ->
  map fst (fst s) = nodes g -> (cu (fst s) < fuel)%nat ->
  good (visit_children v cs s).
Proof.
  induction cs as [|c cs IH]; intros s Hm Hg K F; cbn [visit_children].
  - left. eauto.
  - destruct (Hg c s (or_introl eq_refl) K F) as [[s1 E]|E]; rewrite E; cbn [bind]; [|right; reflexivity].
    pose proof (Hm c s s1 (or_introl eq_refl) E) as M.
    apply IH.
    + intros; eapply Hm; [right|]; eassumption.
    + intros; eapply Hg; [right|..]; eassumption.
    + destruct M as [K1 _]. congruence.
    + pose proof (cu_step c s s1 M). lia.
Qed.

Lemma visit_good : forall f n (s : tstate), In n (nodes g) -> map fst (fst s) = nodes g -> (cu (fst s) < f)%nat ->
  good (visit f g n s).
Proof.
  induction f as [|f IH]; intros n s Hn K F; [lia|]. cbn [visit].
  destruct (lookup n (fst s)) as [[| |]|] eqn:E.
  - rewrite (get_children_ok g n Hn). cbn [bind].
    set (s1 := ((set_key n Temporary (fst s), snd s) : tstate)).
    assert (K1 : map fst (fst s1) = nodes g).
    { subst s1. cbn [fst]. rewrite keys_set_key_in; [exact K | rewrite K; exact Hn]. }
    assert (F1 : (cu (fst s1) < cu (fst s))%nat).
    { subst s1. cbn [fst]. unfold cu. rewrite keys_set_key_in by (rewrite K; exact Hn).
      apply filter_length_lt with (n := n).
      - intros x _ Hx. rewrite lookup_set_key in Hx. destruct (x =? n); [discriminate | exact Hx].
      - rewrite K. exact Hn.
      - rewrite E. reflexivity.
      - rewrite lookup_set_key, Z.eqb_refl. reflexivity. }
    assert (G : good (visit_children (visit f g) (children_of g n) s1)).
    { apply visit_children_good with (fuel := f).
      - intros c s0 s' _ Hv. apply visit_marks in Hv. tauto.
      - intros c s0 Hc K0 F0. apply IH; [apply (wf_closed g W n c Hc) | exact K0 | exact F0].
      - exact K1.
      - lia. }
    destruct G as [[s2 E2]|E2]; rewrite E2; cbn [bind]; [left; eauto | right; reflexivity].
  - right. reflexivity.
  - left. eauto.
  - exfalso. apply lookup_none in E. apply E. rewrite K. exact Hn.
Qed.

(* ---------------- the outer loops *)
Definition no_temp (s : tstate) : Prop := forall t, lookup t (fst s) <> Some Temporary.

Lemma topo_pass_spec : forall f ns (s : tstate),
  (forall n, In n ns -> In n (nodes g)) -> map fst (fst s) = nodes g -> (cu (fst s) < f)%nat ->
  J s -> no_temp s ->
  (exists s', topo_pass f g ns s = Ok s' /\ J s' /\ no_temp s' /\ map fst (fst s') = nodes g /\
      (forall x, lookup x (fst s) = Some Permanent -> lookup x (fst s') = Some Permanent) /\
      (forall n, In n ns -> lookup n (fst s') = Some Permanent))
  \/ (topo_pass f g ns s = Err E_RUNTIME /\ cyclic g).
Proof.
  induction ns as [|n ns IH]; intros s Hns K F Js NT; cbn [topo_pass].
  - left. exists s. split; [reflexivity|]. split; [exact Js|]. split; [exact NT|]. split; [exact K|]. split; [auto|]. intros n [].
  - assert (Hn : In n (nodes g)) by (apply Hns; left; reflexivity).
    assert (Hns' : forall x, In x ns -> In x (nodes g)) by (intros; apply Hns; right; assumption).
    destruct (lookup n (fst s)) as [[| |]|] eqn:E.
    + destruct (visit_good f n s Hn K F) as [[s1 E1]|E1]; rewrite E1; cbn [bind].
      * pose proof (visit_marks f n s s1 E1) as [M Pn].
        pose proof (visit_J f n s s1 Js E1) as J1.
        assert (NT1 : no_temp s1) by (intros t Ht; destruct M as [_ [_ [T _]]]; apply T in Ht; exact (NT t Ht)).
        assert (K1 : map fst (fst s1) = nodes g) by (destruct M as [K1 _]; congruence).
        assert (F1 : (cu (fst s1) < f)%nat) by (pose proof (cu_step n s s1 M); lia).
        destruct (IH s1 Hns' K1 F1 J1 NT1) as [[s' [R [J' [NT' [K' [PP PA]]]]]]|[R C]]; [left|right; auto].
        exists s'. split; [exact R|]. split; [exact J'|]. split; [exact NT'|]. split; [exact K'|]. split.
        -- intros x Hx. apply PP. destruct M as [_ [P _]]. rewrite P; [exact Hx | congruence].
        -- intros x [Hx|Hx]; [subst x; apply PP; exact Pn | apply PA; exact Hx].
      * right. split; [reflexivity|]. eapply visit_err; [|exact E1]. intros t Ht. exfalso. exact (NT t Ht).
    + exfalso. exact (NT n E).
    + destruct (IH s Hns' K F Js NT) as [[s' [R [J' [NT' [K' [PP PA]]]]]]|[R C]]; [left|right; auto].
      exists s'. split; [exact R|]. split; [exact J'|]. split; [exact NT'|]. split; [exact K'|]. split; [exact PP|].
      intros x [Hx|Hx]; [subst x; apply PP; exact E | apply PA; exact Hx].
    + exfalso. apply lookup_none in E. apply E. rewrite K. exact Hn.
Qed.

Lemma topo_while_spec : forall k (s : tstate), (2 <= k)%nat ->
  map fst (fst s) = nodes g -> (cu (fst s) < topo_fuel g)%nat -> J s -> no_temp s ->
  (exists s', topo_while k (topo_fuel g) g s = Ok s' /\ J s' /\ map fst (fst s') = nodes g /\ all_perm (fst s') = true)
  \/ (topo_while k (topo_fuel g) g s = Err E_RUNTIME /\ cyclic g).
Proof.
  intros k s Hk K F Js NT. destruct k as [|[|k]]; try lia. cbn [topo_while].
  destruct (all_perm (fst s)) eqn:A.
  - left. exists s. auto.
  - destruct (topo_pass_spec (topo_fuel g) (map fst (fst s)) s) as [[s' [R [J' [NT' [K' [PP PA]]]]]]|[R C]]; auto.
    + intros n Hn. rewrite <- K. exact Hn.
    + rewrite R. cbn [bind]. left. exists s'.
      assert (A' : all_perm (fst s') = true).
      { apply all_perm_intro; [rewrite K'; apply (wf_nodup g W)|]. intros x Hx. apply PA. congruence. }
      rewrite A'. auto.
    + rewrite R. cbn [bind]. right. auto.
Qed.

Lemma J_init : J (init_marks g, []).
Proof.
  constructor; cbn [fst snd].
  - constructor.
  - intro x. unfold init_marks. rewrite lookup_init_marks. destruct (mem x (nodes g)); (split; [intros [] | discriminate]).
  - intros x c [].
Qed.

End Topo.

Lemma cu_le_keys : forall m, (cu m <= length (map fst m))%nat.
Proof.
  intro m. unfold cu. generalize (fun k => unm (lookup k m)). intro f.
  induction (map fst m) as [|y l IH]; cbn [filter length]; [lia | destruct (f y); cbn [length]; lia].
Qed.

Section TopoMain.
Variable g : graph.
Hypothesis W : wf g.

(* the two possible outcomes of topological_sort on a well-formed graph *)
Lemma topo_outcome :
  (exists l, topological_sort g = Ok l /\ NoDup l /\ (forall x, In x l <-> In x (nodes g)) /\
      forall u v, edge g u v -> exists p q, l = p ++ u :: q /\ In v q)
  \/ (topological_sort g = Err E_RUNTIME /\ cyclic g).
Proof.
  unfold topological_sort.
  destruct (topo_while_spec g W 2 (init_marks g, [])) as [[s' [R [J' [K' A']]]]|[R C]].
  - lia.
  - cbn [fst]. unfold init_marks. apply keys_init_marks.
  - cbn [fst]. pose proof (cu_le_keys (init_marks g)) as H. unfold init_marks in H at 2.
    rewrite keys_init_marks in H. unfold topo_fuel. lia.
  - apply J_init.
  - intros t. cbn [fst]. unfold init_marks. rewrite lookup_init_marks. destruct (mem t (nodes g)); discriminate.
  - left. rewrite R. cbn [bind]. exists (rev (snd s')). split; [reflexivity|].
    destruct J' as [N P O].
    assert (In_o : forall x, In x (snd s') <-> In x (nodes g)).
    { intro x. rewrite P. split.
      - intro H. rewrite <- K'. eapply lookup_some_in. exact H.
      - intro H. rewrite <- K' in H. destruct (lookup_in_some x (fst s') H) as [v Hv].
        rewrite Hv. f_equal. eapply all_perm_lookup; eassumption. }
    split; [apply NoDup_rev; exact N|]. split.
    + intro x. rewrite <- in_rev. apply In_o.
    + intros u v E.
      assert (Hu : In u (snd s')) by (apply In_o; apply (wf_closed g W u v E)).
      destruct (O u v Hu E) as [l1 [l2 [Eq Hv]]].
      exists (rev l2), (rev l1). split.
      * rewrite Eq, rev_app_distr. cbn [rev]. rewrite <- app_assoc. reflexivity.
      * apply -> in_rev. exact Hv.
  - right. rewrite R. cbn [bind]. auto.
Qed.

Definition edges_forward (l : list node) : Prop :=
  forall u v, edge g u v -> (index_of u l < index_of v l)%nat.

Lemma forward_reach : forall l, edges_forward l -> forall x y, reach g x y -> (index_of x l <= index_of y l)%nat.
Proof.
  intros l F x y H. induction H; [lia|]. specialize (F x y H). lia.
Qed.
Lemma forward_acyclic : forall l, edges_forward l -> acyclic g.
Proof.
  intros l F x [y [E R]]. pose proof (F x y E). pose proof (forward_reach l F y x R). lia.
Qed.

(* soundness *)
Lemma topo_sound : forall l, topological_sort g = Ok l ->
  Permutation l (nodes g) /\ edges_forward l.
Proof.
  intros l H. destruct topo_outcome as [[l' [R [N [S F]]]]|[R _]]; [|congruence].
  rewrite R in H. injection H as ->. split.
  - apply NoDup_Permutation; [exact N | apply (wf_nodup g W) | exact S].
  - intros u v E. destruct (F u v E) as [p [q [Eq Hv]]]. eapply index_lt_of_split; eassumption.
Qed.
Lemma topo_ok_acyclic : forall l, topological_sort g = Ok l -> acyclic g.
Proof. intros l H. apply topo_sound in H. eapply forward_acyclic. apply H. Qed.
(* a cycle is reported as the RuntimeError, and that error means a cycle *)
Lemma topo_cyclic_err : cyclic g -> topological_sort g = Err E_RUNTIME.
Proof.
  intros C. destruct topo_outcome as [[l [R _]]|[R _]]; [|exact R].
  exfalso. apply (acyclic_not_cyclic g); [eapply topo_ok_acyclic; exact R | exact C].
Qed.
Lemma topo_err_cyclic : forall c, topological_sort g = Err c -> c = E_RUNTIME /\ cyclic g.
Proof.
  intros c H. destruct topo_outcome as [[l [R _]]|[R C]]; [congruence|].
  rewrite R in H. injection H as <-. auto.
Qed.
(* completeness = fuel adequacy: on an acyclic graph there is a result *)
Lemma topo_acyclic_ok : acyclic g -> exists l, topological_sort g = Ok l.
Proof.
  intros A. destruct topo_outcome as [[l [R _]]|[_ C]]; [eauto|].
  exfalso. apply (acyclic_not_cyclic g); assumption.
Qed.
End TopoMain.
