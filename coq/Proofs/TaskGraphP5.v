(* notify_task_completion of a conditional task (C07): one child released, untaken branches cancelled
   up to the join, the join is kept while a parent is alive. *)
From Coq Require Import ZArith Bool List Lia ZifyBool.
Import ListNotations.
From Verif Require Import Model.Val Gen.Src_Task Gen.Src_TaskGraph Model.TaskGraph
  Proofs.TaskGraphP Proofs.TaskGraphP1 Proofs.TaskGraphP2 Proofs.TaskGraphP3.
Open Scope Z_scope.

(* how a graph changes along a sequence of cancellations / probability updates *)
Record evolves (g0 g : tgraph) : Prop := {
  ev_adj : g_adj g = g_adj g0;
  ev_den : g_den g = g_den g0;
  ev_term : forall n, tg_terminal g n = tg_terminal g0 n;
  ev_mono : forall n, tg_state g0 n = TS_CANCELLED -> tg_state g n = TS_CANCELLED;
  ev_only : forall n, tg_state g n = tg_state g0 n \/ tg_state g n = TS_CANCELLED }.

Lemma evolves_refl : forall g, evolves g g.
Proof. intro g. constructor; auto. Qed.
Lemma evolves_trans : forall a b c, evolves a b -> evolves b c -> evolves a c.
Proof.
  intros a b c [A1 A2 A3 A4 A5] [B1 B2 B3 B4 B5]. constructor.
  - congruence.
  - congruence.
  - intro n. rewrite B3. apply A3.
  - intros n H. apply B4. apply A4. exact H.
  - intro n. destruct (B5 n) as [E|E]; [rewrite E; apply A5 | right; exact E].
Qed.
Lemma evolves_children : forall a b n, evolves a b -> tg_children b n = tg_children a n.
Proof. intros a b n E. unfold tg_children. rewrite (ev_adj _ _ E). reflexivity. Qed.
Lemma evolves_parents : forall a b n, evolves a b -> tg_parents b n = tg_parents a n.
Proof. intros a b n E. unfold tg_parents. rewrite (ev_adj _ _ E). reflexivity. Qed.
Lemma evolves_nodes : forall a b, evolves a b -> tg_nodes b = tg_nodes a.
Proof. intros a b E. unfold tg_nodes. rewrite (ev_adj _ _ E). reflexivity. Qed.

Lemma tg_cancel_evolves : forall g u time g1 l, tg_cancel g u time = (g1, Ok l) -> evolves g g1.
Proof.
  intros g u time g1 l H. destruct (tg_cancel_exact _ _ _ _ _ H) as (_ & _ & _ & P & _).
  assert (D : forall n, In n l \/ ~ In n l).
  { intro n. destruct (zmem n l) eqn:M; [left; apply zmem_In; exact M | right; apply zmem_not_In; exact M]. }
  constructor.
  - apply (cp_adj _ _ _ P).
  - apply (cp_den _ _ _ P).
  - intro n. destruct (D n) as [M|M]; [apply (cp_in _ _ _ P n M) | unfold tg_terminal; rewrite (cp_out _ _ _ P n M); reflexivity].
  - intros n Hs. destruct (D n) as [M|M]; [apply (cp_in _ _ _ P n M) | unfold tg_state; rewrite (cp_out _ _ _ P n M); exact Hs].
  - intro n. destruct (D n) as [M|M]; [right; apply (cp_in _ _ _ P n M) | left; unfold tg_state; rewrite (cp_out _ _ _ P n M); reflexivity].
Qed.

Lemma al_set_absent : forall A k (v : A) l, al_get k l = None -> al_set k v l = l.
Proof.
  intros A k v l; induction l as [|[k2 v2] l IH]; cbn [al_get al_set]; [reflexivity|].
  destruct (k2 =? k); [discriminate | intro H; rewrite IH; auto].
Qed.

Lemma set_prob_task : forall g c p n,
  tg_task (tg_set g c (with_prob (tg_task g c) p)) n = tg_task g n \/
  (n = c /\ tg_task (tg_set g c (with_prob (tg_task g c) p)) n = with_prob (tg_task g c) p).
Proof.
  intros g c p n. destruct (Z.eq_dec n c) as [->|Hne].
  - destruct (tg_get g c) eqn:G.
    + right. split; [reflexivity|]. apply tg_task_set_same. congruence.
    + left. unfold tg_set, tg_task, tg_get in *. cbn [g_tasks]. rewrite al_set_absent by exact G. reflexivity.
  - left. apply tg_task_set_other. exact Hne.
Qed.

Lemma set_prob_state : forall g c p n, tg_state (tg_set g c (with_prob (tg_task g c) p)) n = tg_state g n.
Proof. intros. unfold tg_state. destruct (set_prob_task g c p n) as [E|[-> E]]; rewrite E; reflexivity. Qed.
Lemma set_prob_terminal : forall g c p n, tg_terminal (tg_set g c (with_prob (tg_task g c) p)) n = tg_terminal g n.
Proof. intros. unfold tg_terminal. destruct (set_prob_task g c p n) as [E|[-> E]]; rewrite E; reflexivity. Qed.

Lemma set_prob_evolves : forall g c p, evolves g (tg_set g c (with_prob (tg_task g c) p)).
Proof.
  intros g c p. constructor; try reflexivity.
  - intro n. apply set_prob_terminal.
  - intros n H. rewrite set_prob_state. exact H.
  - intro n. left. apply set_prob_state.
Qed.

Lemma cancel_closed_ext : forall g g', g_adj g' = g_adj g -> (forall n, tg_state g' n = tg_state g n) ->
  (forall n, tg_terminal g' n = tg_terminal g n) -> cancel_closed g -> cancel_closed g'.
Proof.
  intros g g' Ea Es Et (C1 & C2).
  assert (Ech : forall n, tg_children g' n = tg_children g n) by (intro; unfold tg_children; rewrite Ea; reflexivity).
  assert (Epa : forall n, tg_parents g' n = tg_parents g n) by (intro; unfold tg_parents; rewrite Ea; reflexivity).
  split.
  - intros p c. rewrite !Es, Ech, Et. apply C1.
  - intros c. rewrite Et, Epa, Es. intros A B D. apply C2; auto. intros p Hp. rewrite <- Es. apply D. exact Hp.
Qed.

(* ---------- the loop over the children after the draw ---------- *)
Lemma choose_loop_evolves : forall t cs k time g acc g' canc,
  choose_loop t cs k time g acc = (g', Ok canc) -> cancel_closed g -> evolves g g' /\ cancel_closed g'.
Proof.
  induction cs as [|c cs IH]; intros k time g acc g' canc H CC; cbn [choose_loop] in H.
  - inversion H; subst. split; [apply evolves_refl | exact CC].
  - destruct (c =? k) eqn:E.
    + apply IH in H.
      * destruct H as [Ev C']. split; [|exact C']. eapply evolves_trans; [apply set_prob_evolves | exact Ev].
      * eapply cancel_closed_ext; [| | |exact CC]; [reflexivity | intro; apply set_prob_state | intro; apply set_prob_terminal].
    + destruct (keeps_join g t c) eqn:Ek; [eapply IH; eauto|].
      destruct (tg_cancel g c time) as [g1 [l|e]] eqn:Ec; [|inversion H].
      apply IH in H.
      * destruct H as [Ev C']. split; [|exact C']. eapply evolves_trans; [eapply tg_cancel_evolves; eauto | exact Ev].
      * eapply tg_cancel_keeps_closed; eauto.
Qed.

(* the part of an untaken branch before the join *)
Inductive branch (g : tgraph) (u : Z) : Z -> Prop :=
| br_root : tg_terminal g u = false -> branch g u u
| br_step : forall p c, branch g u p -> In c (tg_children g p) -> tg_terminal g c = false -> branch g u c.

Lemma branch_doomed : forall g u d, branch g u d -> doomed g u d.
Proof. intros g u d H. induction H; [constructor | eapply doomed_child; eauto]. Qed.
Lemma branch_evolves : forall g g1 u d, evolves g g1 -> branch g u d -> branch g1 u d.
Proof.
  intros g g1 u d E H. induction H as [H|p c H IH Hc Ht].
  - constructor. rewrite (ev_term _ _ E). exact H.
  - apply br_step with (p := p); auto; [rewrite (evolves_children _ _ _ E); exact Hc | rewrite (ev_term _ _ E); exact Ht].
Qed.

Lemma branch_root_regular : forall g u d, branch g u d -> tg_terminal g u = false.
Proof. intros g u d H. induction H; assumption. Qed.
Lemma keeps_join_terminal : forall g t c, keeps_join g t c = true -> tg_terminal g c = true.
Proof. intros g t c H. unfold keeps_join, notify_keeps_join in H. apply andb_true_iff in H. tauto. Qed.

Lemma choose_loop_untaken : forall t cs k time g acc g' canc,
  choose_loop t cs k time g acc = (g', Ok canc) -> cancel_closed g ->
  forall u, In u cs -> u <> k -> forall d, branch g u d -> tg_state g' d = TS_CANCELLED.
Proof.
  induction cs as [|c cs IH]; intros k time g acc g' canc H CC u Hu Hne d Hb; cbn [choose_loop] in H; [contradiction|].
  destruct (c =? k) eqn:E.
  - destruct Hu as [Hu|Hu]; [lia|].
    eapply IH; eauto.
    + eapply cancel_closed_ext; [| | |exact CC]; [reflexivity | intro; apply set_prob_state | intro; apply set_prob_terminal].
    + eapply branch_evolves; [apply set_prob_evolves | exact Hb].
  - destruct (keeps_join g t c) eqn:Ek.
    { destruct Hu as [Hu|Hu]; [|eapply IH; eauto].
      subst c. apply keeps_join_terminal in Ek. apply branch_root_regular in Hb. congruence. }
    destruct (tg_cancel g c time) as [g1 [l|e]] eqn:Ec; [|inversion H].
    pose proof (tg_cancel_evolves _ _ _ _ _ Ec) as E1.
    pose proof (tg_cancel_keeps_closed _ _ _ _ _ Ec CC) as C1.
    destruct Hu as [Hu|Hu].
    + subst c. destruct (tg_cancel_closure _ _ _ _ _ Ec CC) as (_ & Hd & _).
      destruct (choose_loop_evolves _ _ _ _ _ _ _ _ H C1) as [E2 _].
      apply (ev_mono _ _ E2). apply Hd. apply branch_doomed. exact Hb.
    + eapply IH; eauto. eapply branch_evolves; eauto.
Qed.

(* a join that still has a live parent other than the conditional afterwards is untouched -- also when it is
   itself a child of the conditional (direct edge): the loop then leaves it alone *)
Lemma choose_loop_join : forall t cs k time g acc g' canc,
  choose_loop t cs k time g acc = (g', Ok canc) -> cancel_closed g ->
  forall j, tg_terminal g j = true ->
  (exists p, In p (tg_parents g j) /\ p <> t /\ tg_state g' p <> TS_CANCELLED) -> tg_state g' j = tg_state g j.
Proof.
  induction cs as [|c cs IH]; intros k time g acc g' canc H CC j Ht Hlive; cbn [choose_loop] in H.
  - inversion H; subst. reflexivity.
  - destruct (c =? k) eqn:E.
    + rewrite <- (set_prob_state g c (g_den g) j). eapply IH; eauto.
      * eapply cancel_closed_ext; [| | |exact CC]; [reflexivity | intro; apply set_prob_state | intro; apply set_prob_terminal].
      * rewrite set_prob_terminal. exact Ht.
    + destruct (keeps_join g t c) eqn:Ek; [eapply IH; eauto|].
      destruct (tg_cancel g c time) as [g1 [l|e]] eqn:Ec; [|inversion H].
      pose proof (tg_cancel_evolves _ _ _ _ _ Ec) as E1.
      pose proof (tg_cancel_keeps_closed _ _ _ _ _ Ec CC) as C1.
      destruct (choose_loop_evolves _ _ _ _ _ _ _ _ H C1) as [E2 _].
      destruct (tg_cancel_exact _ _ _ _ _ Ec) as (W & _ & _ & P & Q).
      assert (Hnl : ~ In j l).
      { intro Hin. apply Q in Hin. destruct Hlive as (p & Hp & Hpt & Hs).
        assert (Hsg : tg_state g p <> TS_CANCELLED).
        { intro A. apply Hs. apply (ev_mono _ _ E2). apply (ev_mono _ _ E1). exact A. }
        destruct (hit_cases _ _ _ Hin) as (_ & [A|[(A & _)|(_ & _ & A)]]).
        - (* the join itself is the untaken child that was not kept: it had no such parent *)
          subst c. unfold keeps_join, notify_keeps_join in Ek. rewrite Ht in Ek. cbn [andb] in Ek.
          assert (X : existsb (fun parent => negb (parent =? t) && negb (task_state_eqb (tg_state g parent) TS_CANCELLED))
                              (tg_parents g j) = true); [|congruence].
          apply existsb_exists. exists p. split; [exact Hp|]. apply andb_true_iff. split.
          + apply negb_true_iff. lia.
          + apply negb_true_iff. apply task_state_eqb_neq. exact Hsg.
        - congruence.
        - apply Hs. apply (ev_mono _ _ E2).
          destruct (A p Hp) as [B|B]; [apply (cp_in _ _ _ P); apply Q; exact B | apply (ev_mono _ _ E1); exact B]. }
      assert (Es : tg_state g1 j = tg_state g j) by (unfold tg_state; rewrite (cp_out _ _ _ P j Hnl); reflexivity).
      rewrite <- Es. eapply IH; eauto.
      * rewrite (ev_term _ _ E1). exact Ht.
      * rewrite (evolves_parents _ _ _ E1). exact Hlive.
Qed.

(* a regular task none of whose parents changed state is untouched (so is everything behind the join) *)
Lemma choose_loop_regular : forall t cs k time g acc g' canc,
  choose_loop t cs k time g acc = (g', Ok canc) -> cancel_closed g ->
  forall n, tg_terminal g n = false -> (forall u, In u cs -> u <> k -> u <> n) ->
  (forall p, In p (tg_parents g n) -> tg_state g' p = tg_state g p) -> tg_state g' n = tg_state g n.
Proof.
  induction cs as [|c cs IH]; intros k time g acc g' canc H CC n Ht Hnu Hpar; cbn [choose_loop] in H.
  - inversion H; subst. reflexivity.
  - destruct (c =? k) eqn:E.
    + rewrite <- (set_prob_state g c (g_den g) n). eapply IH; eauto.
      * eapply cancel_closed_ext; [| | |exact CC]; [reflexivity | intro; apply set_prob_state | intro; apply set_prob_terminal].
      * rewrite set_prob_terminal. exact Ht.
      * intros u Hu. apply Hnu. right. exact Hu.
      * intros p Hp. rewrite set_prob_state. apply Hpar. exact Hp.
    + destruct (keeps_join g t c) eqn:Ek; [eapply IH; eauto; intros u Hu; apply Hnu; right; exact Hu|].
      destruct (tg_cancel g c time) as [g1 [l|e]] eqn:Ec; [|inversion H].
      pose proof (tg_cancel_evolves _ _ _ _ _ Ec) as E1.
      pose proof (tg_cancel_keeps_closed _ _ _ _ _ Ec CC) as C1.
      destruct (choose_loop_evolves _ _ _ _ _ _ _ _ H C1) as [E2 _].
      destruct (tg_cancel_exact _ _ _ _ _ Ec) as (W & _ & _ & P & Q).
      assert (Hsame : forall p, In p (tg_parents g n) -> tg_state g1 p = tg_state g p).
      { intros p Hp. destruct (ev_only _ _ E1 p) as [A|A]; [exact A|].
        specialize (Hpar p Hp). rewrite <- Hpar. rewrite (ev_mono _ _ E2 p A). exact A. }
      assert (Hnl : ~ In n l).
      { intro Hin. apply Q in Hin. destruct (hit_cases _ _ _ Hin) as (_ & [A|[(_ & p & A & B)|(A & _)]]).
        - apply (Hnu c (or_introl eq_refl)); [lia | congruence].
        - assert (Hp : In p (tg_parents g n)) by (apply parents_children; [apply W | exact B]).
          pose proof (hit_state _ _ _ A) as Hs. apply Hs. rewrite <- (Hsame p Hp). apply (cp_in _ _ _ P). apply Q. exact A.
        - congruence. }
      assert (Es : tg_state g1 n = tg_state g n) by (unfold tg_state; rewrite (cp_out _ _ _ P n Hnl); reflexivity).
      rewrite <- Es. eapply IH; eauto.
      * rewrite (ev_term _ _ E1). exact Ht.
      * intros u Hu. apply Hnu. right. exact Hu.
      * rewrite (evolves_parents _ _ _ E1). intros p Hp. rewrite (Hsame p Hp). apply Hpar. exact Hp.
Qed.
