(* C19, part 4: the closed-loop bookkeeping machine (JobGraph.get_next_task_graph +
   Workload.notify_task_graph_completion).  Contract of the caller: one completion notification
   per graph, for a graph that is in flight.  Under the contract never more than `concurrency`
   graphs are in flight and exactly min(N, initial + completions) graphs have been released;
   without it (a second notification for the same graph) the bound is lost -- that is where the
   simulator's F12a enters. *)
From Coq Require Import ZArith Bool List Lia ZifyBool.
Import ListNotations.
From Verif Require Import Model.Val Model.Release.
Open Scope Z_scope.

Lemma zmem_In x l : zmem x l = true <-> In x l.
Proof.
  unfold zmem. rewrite existsb_exists. split.
  - intros [y [Hy He]]. apply Z.eqb_eq in He. subst. exact Hy.
  - intros H. exists x. split; [exact H|apply Z.eqb_refl].
Qed.

Lemma zremove_In x y l : In y (zremove x l) -> In y l.
Proof.
  induction l as [|z l IH]; cbn [zremove]; [tauto|]. destruct (z =? x) eqn:E; cbn [In]; tauto.
Qed.

Lemma zremove_NoDup x l : NoDup l -> NoDup (zremove x l).
Proof.
  induction l as [|z l IH]; cbn [zremove]; intros H; [constructor|]. inversion H; subst.
  destruct (z =? x) eqn:E; [assumption|]. constructor; [|apply IH; assumption].
  intros Hin. apply zremove_In in Hin. contradiction.
Qed.

Lemma zremove_length x l : In x l -> S (length (zremove x l)) = length l.
Proof.
  induction l as [|z l IH]; cbn [zremove In]; [tauto|]. intros H. destruct (z =? x) eqn:E; [reflexivity|].
  destruct H as [H|H]; [lia|]. cbn [length]. rewrite IH by exact H. reflexivity.
Qed.

Record cl_inv (conc n : Z) (s : clstate) : Prop := mkInv {
  inv_nodup : NoDup (cl_live s);
  inv_le : Forall (fun x => x <= cl_index s) (cl_live s);
  inv_len : Z.of_nat (length (cl_live s)) <= conc;
  inv_sum : cl_total s + cl_remaining s = n;
  inv_rem : 0 <= cl_remaining s;
  inv_incl : incl (cl_live s) (cl_all s)
}.

Lemma NoDup_snoc_Z (l : list Z) i : NoDup l -> ~ In i l -> NoDup (l ++ [i]).
Proof.
  induction l as [|z l IH]; intros Hnd Hni; cbn [app].
  - constructor; [tauto|constructor].
  - inversion Hnd; subst. constructor.
    + rewrite in_app_iff. cbn [In]. intros [H|[H|[]]]; [contradiction|]. subst. apply Hni. left. reflexivity.
    + apply IH; [assumption|]. intros H. apply Hni. right. exact H.
Qed.

Lemma seq_Z_nodup k : NoDup (map Z.of_nat (seq 0 k)).
Proof.
  induction k as [|k IH]; [constructor|]. rewrite seq_S, map_app. cbn [map plus].
  apply NoDup_snoc_Z; [exact IH|]. intros H. apply in_map_iff in H. destruct H as [i [Hi Hin]]. apply in_seq in Hin. lia.
Qed.

Lemma cl_init_inv conc n : 0 < conc -> 0 < n -> cl_inv conc n (cl_init conc n).
Proof.
  intros Hc Hn. unfold cl_init. set (k := Z.to_nat (if conc <=? n then conc else n)).
  assert (Hk : Z.of_nat k = Z.min conc n) by (unfold k; destruct (conc <=? n) eqn:E; lia).
  constructor; cbn [cl_live cl_index cl_total cl_remaining cl_all].
  - apply seq_Z_nodup.
  - apply Forall_forall. intros x Hx. apply in_map_iff in Hx. destruct Hx as [i [Hi Hin]]. apply in_seq in Hin. lia.
  - rewrite map_length, seq_length. lia.
  - lia.
  - lia.
  - apply incl_refl.
Qed.

Lemma cl_step_inv conc n s g s' r :
  cl_inv conc n s -> In g (cl_live s) -> cl_notify s g = Ok (s', r) ->
  cl_inv conc n s' /\ cl_total s' = Z.min n (cl_total s + 1).
Proof.
  intros [Hnd Hle Hlen Hsum Hrem Hincl] Hin H. unfold cl_notify in H.
  assert (Hall : zmem g (cl_all s) = true) by (apply zmem_In; apply Hincl; exact Hin).
  rewrite Hall in H. cbn [negb] in H.
  pose proof (zremove_length g (cl_live s) Hin) as Hl.
  pose proof (zremove_NoDup g (cl_live s) Hnd) as Hnd'.
  assert (Hle' : Forall (fun x => x <= cl_index s) (zremove g (cl_live s))).
  { rewrite Forall_forall in Hle |- *. intros x Hx. apply Hle. eapply zremove_In; exact Hx. }
  destruct (0 <? cl_remaining s) eqn:E; inversion H; subst; clear H.
  - split; [constructor; cbn [cl_live cl_index cl_total cl_remaining cl_all]|cbn [cl_total]; lia].
    + apply NoDup_snoc_Z; [exact Hnd'|]. intros Hi. rewrite Forall_forall in Hle'. specialize (Hle' _ Hi). lia.
    + apply Forall_app. split.
      * rewrite Forall_forall in Hle' |- *. intros x Hx. specialize (Hle' _ Hx). lia.
      * constructor; [lia|constructor].
    + rewrite app_length. cbn [length]. lia.
    + lia.
    + lia.
    + intros x Hx. rewrite in_app_iff in Hx |- *. destruct Hx as [Hx|Hx]; [left|right; exact Hx].
      apply Hincl. eapply zremove_In; exact Hx.
  - split; [constructor; cbn [cl_live cl_index cl_total cl_remaining cl_all]|cbn [cl_total]; lia].
    + exact Hnd'.
    + exact Hle'.
    + lia.
    + lia.
    + lia.
    + intros x Hx. apply Hincl. eapply zremove_In; exact Hx.
Qed.

Lemma cl_run_inv conc n gs : forall s s',
  cl_inv conc n s -> cl_run s gs = Some s' ->
  cl_inv conc n s' /\ cl_total s' = Z.min n (cl_total s + Z.of_nat (length gs)).
Proof.
  induction gs as [|g gs IH]; intros s s' Hinv H; cbn [cl_run] in H.
  - inversion H; subst. split; [exact Hinv|]. destruct Hinv. cbn [length]. lia.
  - destruct (zmem g (cl_live s)) eqn:Em; [|discriminate]. apply zmem_In in Em.
    destruct (cl_notify s g) as [[s1 r]|] eqn:En; [|discriminate].
    destruct (cl_step_inv conc n s g s1 r Hinv Em En) as [Hinv1 Ht1].
    destruct (IH s1 s' Hinv1 H) as [Hinv' Ht']. split; [exact Hinv'|]. rewrite Ht', Ht1. cbn [length].
    destruct Hinv. lia.
Qed.

(* the contract is enough for progress: a notification for a graph in flight is never refused *)
Lemma cl_notify_live_ok conc n s g : cl_inv conc n s -> In g (cl_live s) -> exists s' r, cl_notify s g = Ok (s', r).
Proof.
  intros Hinv Hin. unfold cl_notify.
  assert (Hall : zmem g (cl_all s) = true) by (apply zmem_In; apply (inv_incl _ _ _ Hinv); exact Hin).
  rewrite Hall. cbn [negb]. destruct (0 <? cl_remaining s); eexists; eexists; reflexivity.
Qed.

Theorem closed_loop_safe conc n gs s :
  0 < conc -> 0 < n -> cl_run (cl_init conc n) gs = Some s ->
  Z.of_nat (length (cl_live s)) <= conc /\ cl_total s <= n /\
  cl_total s = Z.min n (Z.min conc n + Z.of_nat (length gs)).
Proof.
  intros Hc Hn H. destruct (cl_run_inv conc n gs _ _ (cl_init_inv conc n Hc Hn) H) as [Hinv Ht].
  split; [exact (inv_len _ _ _ Hinv)|]. split; [destruct Hinv; lia|].
  rewrite Ht. unfold cl_init. cbn [cl_total]. destruct (conc <=? n) eqn:E; lia.
Qed.

(* non-vacuous: concurrency 2, N = 5, graphs complete in the order 1, 0, 2, 4 *)
Example closed_loop_example :
  exists s, cl_run (cl_init 2 5) [1; 0; 2; 4] = Some s /\ cl_live s = [3] /\ cl_total s = 5 /\ cl_remaining s = 0.
Proof. eexists. split; [vm_compute; reflexivity|]. repeat split. Qed.

(* WITHOUT the contract: concurrency 1, N = 3, graph 0 reported complete twice -> two graphs in flight *)
Lemma closed_loop_double_notify_refuted :
  exists conc n gs s, 0 < conc /\ 0 < n /\ cl_run_any (cl_init conc n) gs = Some s /\
    conc < Z.of_nat (length (cl_live s)).
Proof. exists 1, 3, [0; 0]. eexists. split; [lia|]. split; [lia|]. split; [vm_compute; reflexivity|]. cbn. lia. Qed.

(* monitor on an event log = the safety statement on that log *)
Fixpoint log_ok (conc n inflight total : Z) (log : list bool) : Prop :=
  match log with
  | [] => True
  | true :: log' => inflight + 1 <= conc /\ total + 1 <= n /\ log_ok conc n (inflight + 1) (total + 1) log'
  | false :: log' => log_ok conc n (inflight - 1) total log'
  end.
Lemma mon_closed_loop_iff conc n log : forall i t, mon_closed_loop conc n i t log = true <-> log_ok conc n i t log.
Proof.
  induction log as [|b log IH]; intros i t; cbn [mon_closed_loop log_ok]; [tauto|].
  destruct b.
  - rewrite !andb_true_iff, IH, !Z.leb_le. tauto.
  - apply IH.
Qed.
