(* C19, part 3: GAMMA and FIXED_AND_GAMMA release times, EventTime.fuzz. *)
From Coq Require Import ZArith Bool List Lia ZifyBool Sorting.Sorted.
Import ListNotations.
From Verif Require Import Model.Val Gen.Src_Time Proofs.TimeP Model.Release Proofs.ReleaseP1 Proofs.ReleaseP2.
Open Scope Z_scope.

(* ---------------- GAMMA ---------------- *)
Lemma fl_add_repr x y : Z.abs (fm (fl_add x y)) <= 2 ^ 53.
Proof. unfold fl_add. destruct (fl_align x y) as [[a b] e]. apply round53_repr. Qed.

Lemma gamma_acc_spec ds : forall cur,
  Z.abs (fm cur) <= 2 ^ 53 -> Forall (fun d => 0 <= fm d) ds ->
  length (gamma_acc cur ds) = length ds /\ Sorted Z.le (py_round cur :: map us (gamma_acc cur ds)).
Proof.
  induction ds as [|d ds IH]; intros cur Hc Hpos; cbn [gamma_acc].
  - split; [reflexivity|]. cbn. constructor; constructor.
  - inversion Hpos as [|? ? Hd Hpos']; subst.
    destruct (IH (fl_add cur d) (fl_add_repr cur d) Hpos') as [Hlen Hsort].
    split; [cbn [length]; lia|]. cbn [map]. rewrite us_us_time.
    constructor; [exact Hsort|]. constructor. apply py_round_mono. apply fl_add_nonneg_ge; assumption.
Qed.

Lemma gamma_times_spec start ds :
  Z.abs start < 2 ^ 53 -> Forall (fun d => 0 <= fm d) ds ->
  length (gamma_times start ds) = S (length ds) /\ nondecreasing (gamma_times start ds).
Proof.
  intros Hs Hpos. unfold gamma_times, nondecreasing. rewrite fl_of_Z_small by exact Hs.
  destruct (gamma_acc_spec ds (mkF start 0) ltac:(cbn [fm]; lia) Hpos) as [Hlen Hsort].
  split; [cbn [length]; lia|]. cbn [map]. rewrite us_us_time. rewrite py_round_int in Hsort. exact Hsort.
Qed.

Lemma gamma_release_times p c zd fd rs :
  p_type p = GAMMA -> Z.abs (us (p_start p)) < 2 ^ 53 -> Forall (fun d => 0 <= fm d) fd ->
  get_release_times p c zd fd = Ok rs -> p_n p <> 0 ->
  length rs = Z.to_nat (p_n p) /\ hd_error rs = Some (us_time (us (p_start p))) /\ nondecreasing rs.
Proof.
  intros Ht Hs Hpos H Hn. unfold get_release_times in H. destruct (p_n p =? 0) eqn:E0; [lia|].
  rewrite Ht in H. destruct (gamma_args (p_coef p) (p_rate p)); cbn [bind] in H; [|discriminate].
  unfold draw_array in H. destruct (p_n p - 1 <? 0) eqn:En; cbn [bind] in H; [discriminate|].
  destruct (Z.of_nat (length fd) =? p_n p - 1) eqn:El; cbn [bind] in H; [|discriminate].
  rewrite to_us_ok in H. cbn [bind] in H.
  inversion H; subst. destruct (gamma_times_spec (us (p_start p)) fd Hs Hpos) as [Hlen Hsort].
  split; [lia|]. split; [reflexivity|exact Hsort].
Qed.

(* "the first release is the start", whatever unit the start is given in (since /repo eadd800) *)
Lemma gamma_first_is_start p c zd fd rs :
  p_type p = GAMMA -> get_release_times p c zd fd = Ok rs -> p_n p <> 0 ->
  exists r0, hd_error rs = Some r0 /\ us r0 = us (p_start p).
Proof.
  intros Ht H Hn. unfold get_release_times in H. destruct (p_n p =? 0) eqn:E0; [lia|].
  rewrite Ht in H. destruct (gamma_args (p_coef p) (p_rate p)); cbn [bind] in H; [|discriminate].
  destruct (draw_array (p_n p - 1) fd); cbn [bind] in H; [|discriminate]. rewrite to_us_ok in H. cbn [bind] in H.
  inversion H; subst. eexists. split; [reflexivity|]. apply us_us_time.
Qed.

Example gamma_ms_start_example :
  get_release_times (mkPol GAMMA et_invalid 2 (mkF 1 (-7)) (mkF 2 0) 0 (mkET 5 U_MS) (mkF 0 0)) et_zero [] [mkF 52 0]
  = Ok [us_time 5000; us_time 5052].
Proof. vm_compute. reflexivity. Qed.

(* the bound 2^53 us is needed: beyond it the int -> double conversion rounds the start down (outside the
   property's range of times, stated only to show the hypothesis is not idle) *)
Lemma gamma_huge_start_refuted :
  exists p c fd rs, p_type p = GAMMA /\ get_release_times p c [] fd = Ok rs /\
    Forall (fun d => 0 <= fm d) fd /\ ~ nondecreasing rs.
Proof.
  exists (mkPol GAMMA et_invalid 2 (mkF 1 (-7)) (mkF 2 0) 0 (mkET (2 ^ 53 + 1) U_US) (mkF 0 0)), et_zero, [mkF 0 0].
  eexists. split; [reflexivity|]. split; [vm_compute; reflexivity|]. split; [repeat constructor; cbn; lia|].
  unfold nondecreasing. intros H. cbn in H. inversion H as [|? ? _ Hh]; subst. inversion Hh; subst. lia.
Qed.

Example gamma_example :
  get_release_times (mkPol GAMMA et_invalid 3 (mkF 1 (-7)) (mkF 2 0) 0 (mkET 5 U_US) (mkF 0 0)) et_zero []
                    [mkF 105 (-1); mkF 71 (-1)]
  = Ok [us_time 5; us_time 58; us_time 93].
Proof. vm_compute. reflexivity. Qed.

(* ---------------- FIXED_AND_GAMMA: N releases, sorted ---------------- *)
Lemma ins_us_length x l : length (ins_us x l) = S (length l).
Proof. induction l as [|y l IH]; cbn [ins_us]; [reflexivity|]. destruct (et_time x <? et_time y); cbn [length]; lia. Qed.

Lemma sort_us_length l : length (sort_us l) = length l.
Proof.
  unfold sort_us. assert (G : forall l acc, length (fold_left (fun acc x => ins_us x acc) l acc) = (length acc + length l)%nat).
  { induction l0 as [|x l0 IH]; intros acc; cbn [fold_left length]; [lia|]. rewrite IH, ins_us_length. lia. }
  rewrite G. reflexivity.
Qed.

Definition all_us (l : list etime) : Prop := Forall (fun x => et_unit x = U_US) l.
Lemma us_of_us x : et_unit x = U_US -> us x = et_time x.
Proof. intros H. unfold us. rewrite H. cbn. lia. Qed.

Lemma ins_us_sorted x l :
  et_unit x = U_US -> all_us l -> Sorted Z.le (map us l) -> Sorted Z.le (map us (ins_us x l)) /\ all_us (ins_us x l).
Proof.
  intros Hx Hl Hs. induction l as [|y l IH]; cbn [ins_us].
  - split; [cbn; repeat constructor|repeat constructor; exact Hx].
  - inversion Hl as [|? ? Hy Hl']; subst. cbn [map] in Hs. inversion Hs as [|? ? Hs' Hhd]; subst.
    destruct (et_time x <? et_time y) eqn:E.
    + split; [|constructor; [exact Hx|exact Hl]]. cbn [map]. constructor; [exact Hs|]. constructor.
      rewrite (us_of_us x Hx), (us_of_us y Hy). lia.
    + destruct (IH Hl' Hs') as [IHs IHa]. split; [|constructor; assumption].
      cbn [map]. constructor; [exact IHs|].
      destruct l as [|z l]; cbn [ins_us map] in *.
      * constructor. rewrite (us_of_us x Hx), (us_of_us y Hy). lia.
      * destruct (et_time x <? et_time z); cbn [map]; constructor.
        -- rewrite (us_of_us x Hx), (us_of_us y Hy). lia.
        -- inversion Hhd; subst. assumption.
Qed.

Lemma sort_us_sorted l : all_us l -> Sorted Z.le (map us (sort_us l)).
Proof.
  unfold sort_us.
  assert (G : forall l acc, all_us l -> all_us acc -> Sorted Z.le (map us acc) ->
              Sorted Z.le (map us (fold_left (fun acc x => ins_us x acc) l acc))).
  { induction l0 as [|x l0 IH]; intros acc Hl Ha Hs; cbn [fold_left]; [exact Hs|].
    inversion Hl; subst. destruct (ins_us_sorted x acc) as [S1 S2]; try assumption. apply IH; assumption. }
  intros Hl. apply G; [exact Hl|constructor|constructor].
Qed.

Lemma gamma_acc_all_us ds : forall cur, all_us (gamma_acc cur ds).
Proof. induction ds as [|d ds IH]; intros cur; cbn [gamma_acc]; constructor; [reflexivity|apply IH]. Qed.

Lemma linspace_fl_length a b n l : linspace_fl a b n = Ok l -> length l = Z.to_nat n.
Proof.
  unfold linspace_fl. destruct (n <? 0) eqn:E1; [discriminate|]. destruct (n =? 0) eqn:E2.
  - intros H; inversion H; subst. cbn. lia.
  - destruct (fl_div _ _); cbn [bind]; [|discriminate]. intros H; inversion H; subst.
    rewrite map_length, seq_length. reflexivity.
Qed.

Lemma fixed_gamma_release_times p c zd fd rs :
  p_type p = FIXED_AND_GAMMA -> get_release_times p c zd fd = Ok rs -> p_n p <> 0 ->
  length rs = Z.to_nat (p_n p) /\ nondecreasing rs.
Proof.
  intros Ht H Hn. unfold get_release_times in H. destruct (p_n p =? 0) eqn:E0; [lia|].
  rewrite Ht, to_us_ok in H. cbn [bind] in H.
  destruct (fl_div (fl_of_Z (p_n p)) (fl_add (p_base p) (p_rate p))) as [q|]; cbn [bind] in H; [|discriminate].
  set (span := fl_trunc q) in *.
  set (gamma0 := fl_floor (fl_mul (p_rate p) (fl_of_Z span))) in *.
  set (fixed0 := fl_floor (fl_mul (p_base p) (fl_of_Z span))) in *.
  destruct (gamma_args (p_coef p) (p_rate p)); cbn [bind] in H; [|discriminate].
  unfold draw_array in H.
  destruct (gamma0 + (p_n p - (fixed0 + gamma0)) - 1 <? 0) eqn:En; cbn [bind] in H; [discriminate|].
  destruct (Z.of_nat (length fd) =? gamma0 + (p_n p - (fixed0 + gamma0)) - 1) eqn:El; cbn [bind] in H; [|discriminate].
  destruct (linspace_fl (us (p_start p)) (span + us (p_start p)) fixed0) as [fx|] eqn:Hfx; cbn [bind] in H; [|discriminate].
  injection H as Hrs; subst rs. pose proof (linspace_fl_length _ _ _ _ Hfx) as Hl.
  assert (Hf0 : 0 <= fixed0).
  { unfold linspace_fl in Hfx. destruct (fixed0 <? 0) eqn:E; [discriminate|lia]. }
  split.
  - rewrite sort_us_length. unfold gamma_times. cbn [length app]. rewrite app_length, map_length, Hl.
    assert (length (gamma_acc (fl_of_Z (us (p_start p))) fd) = length fd).
    { clear. generalize (fl_of_Z (us (p_start p))). induction fd as [|d fd IH]; intros cur; cbn; [reflexivity|]. rewrite IH. reflexivity. }
    lia.
  - apply sort_us_sorted. unfold all_us, gamma_times. cbn [app]. constructor; [reflexivity|].
    apply Forall_app. split.
    + apply gamma_acc_all_us.
    + apply Forall_forall. intros x Hx. apply in_map_iff in Hx. destruct Hx as [z [Hz _]]. subst. reflexivity.
Qed.

(* ---------------- EventTime.fuzz ---------------- *)
Definition clampZ (minb maxb z : Z) : Z := Z.max minb (Z.min maxb z).

Lemma fl_ltb_at x y e : e <= fe x -> e <= fe y -> (fl_ltb x y = true <-> sc x e < sc y e).
Proof.
  intros Hx Hy. unfold fl_ltb, fl_align. set (e0 := Z.min (fe x) (fe y)).
  assert (He : e <= e0) by (unfold e0; lia).
  change (fm x * 2 ^ (fe x - e0)) with (sc x e0). change (fm y * 2 ^ (fe y - e0)) with (sc y e0).
  rewrite (sc_rescale x e0 e), (sc_rescale y e0 e) by (unfold e0; lia).
  pose proof (pow2_gt0 (e0 - e) ltac:(lia)). split; intros; [nia|]. apply Z.ltb_lt. nia.
Qed.

Lemma fuzz_time_bounds t u minv maxv minb maxb :
  Z.abs t < 2 ^ 53 -> uniform_contract t minv maxv u = true ->
  Z.abs (t + clampZ minb maxb (var_lo t minv maxv)) <= 2 ^ 53 ->
  Z.abs (t + clampZ minb maxb (var_hi t minv maxv)) <= 2 ^ 53 ->
  t + clampZ minb maxb (var_lo t minv maxv) <= fuzz_time t u minb maxb <= t + clampZ minb maxb (var_hi t minv maxv).
Proof.
  intros Ht Hc Hlo Hhi. set (lo := var_lo t minv maxv) in *. set (hi := var_hi t minv maxv) in *.
  unfold uniform_contract in Hc. apply andb_true_iff in Hc. destruct Hc as [C1 C2].
  set (e0 := Z.min 0 (fe u)). assert (He0 : e0 <= 0) by (unfold e0; lia).
  pose proof (pow2_gt0 (- e0) ltac:(lia)) as HW.
  apply (fl_leb_at (mkF lo 0) u e0) in C1; [|cbn [fe]; lia|unfold e0; lia].
  apply (fl_leb_at u (mkF hi 0) e0) in C2; [|unfold e0; lia|cbn [fe]; lia].
  unfold sc in C1, C2. cbn [fm fe] in C1, C2. replace (0 - e0) with (- e0) in * by lia.
  set (W := 2 ^ (- e0)) in *. set (U := fm u * 2 ^ (fe u - e0)) in *.
  (* the comparisons Python makes between the bounds and the draw *)
  assert (Hcmp1 : forall z, fl_ltb u (mkF z 0) = true <-> U < z * W).
  { intros z. rewrite (fl_ltb_at u (mkF z 0) e0) by (cbn [fe]; unfold e0; lia).
    unfold sc. cbn [fm fe]. replace (0 - e0) with (- e0) by lia. reflexivity. }
  assert (Hcmp2 : forall z, fl_ltb (mkF z 0) u = true <-> z * W < U).
  { intros z. rewrite (fl_ltb_at (mkF z 0) u e0) by (cbn [fe]; unfold e0; lia).
    unfold sc. cbn [fm fe]. replace (0 - e0) with (- e0) by lia. reflexivity. }
  unfold fuzz_time, py_min, py_max, num_ltb. cbn [num_fl].
  unfold clampZ in *.
  destruct (fl_ltb u (mkF maxb 0)) eqn:E1.
  - apply Hcmp1 in E1. cbn [num_fl]. destruct (fl_ltb (mkF minb 0) u) eqn:E2.
    + apply Hcmp2 in E2. cbn [z_add_num round_num]. rewrite fl_of_Z_small by exact Ht.
      unfold fl_add, fl_align. cbn [fm fe]. fold e0. replace (0 - e0) with (- e0) by lia. fold W. fold U.
      apply round_sandwich; [exact He0|exact Hlo|exact Hhi|]. fold W. nia.
    + assert (~ minb * W < U) by (intro X; apply Hcmp2 in X; congruence).
      cbn [z_add_num round_num]. nia.
  - assert (~ U < maxb * W) by (intro X; apply Hcmp1 in X; congruence).
    cbn [num_fl]. destruct (fl_ltb (mkF minb 0) (mkF maxb 0)) eqn:E2.
    + apply (fl_ltb_at (mkF minb 0) (mkF maxb 0) 0) in E2; [|cbn; lia|cbn; lia].
      unfold sc in E2. cbn in E2. cbn [z_add_num round_num]. nia.
    + assert (~ minb < maxb).
      { intro X. assert (fl_ltb (mkF minb 0) (mkF maxb 0) = true); [|congruence].
        apply (fl_ltb_at (mkF minb 0) (mkF maxb 0) 0); [cbn; lia|cbn; lia|]. unfold sc. cbn. lia. }
      cbn [z_add_num round_num]. nia.
Qed.

(* without bounds (min_deadline 0, max_deadline sys.maxsize) and a non-negative time the
   stretch is between floor(t*minv/100) and ceil(t*maxv/100) *)
Lemma var_lo_hi t minv maxv : 0 <= t -> 0 <= var_lo t minv maxv <= var_hi t minv maxv.
Proof.
  intros Ht. unfold var_lo, var_hi.
  set (a := t * Z.abs minv). set (b := t * Z.abs maxv). assert (0 <= a) by (unfold a; nia). assert (0 <= b) by (unfold b; nia).
  split; [apply Z.div_pos; lia|].
  assert (Z.min a b / 100 <= Z.max a b / 100) by (apply Z.div_le_mono; lia).
  pose proof (Z.div_mod (Z.max a b) 100 ltac:(lia)). pose proof (Z.mod_pos_bound (Z.max a b) 100 ltac:(lia)).
  pose proof (Z.div_mod (- Z.max a b) 100 ltac:(lia)). pose proof (Z.mod_pos_bound (- Z.max a b) 100 ltac:(lia)).
  lia.
Qed.

(* the contract is satisfiable for every time and variance, so the theorem is not vacuous *)
Lemma uniform_contract_sat t minv maxv : 0 <= t -> uniform_contract t minv maxv (mkF (var_lo t minv maxv) 0) = true.
Proof.
  intros Ht. unfold uniform_contract. rewrite fl_leb_refl. cbn [andb].
  apply (fl_leb_at _ _ 0); [cbn; lia|cbn; lia|]. unfold sc; cbn [fm fe]. cbn. pose proof (var_lo_hi t minv maxv Ht). lia.
Qed.

Example fuzz_example : fuzz_time 1000 (mkF 301 (-1)) 0 (2 ^ 63 - 1) = 1150 /\ fuzz_time 1000 (mkF 303 (-1)) 0 (2 ^ 63 - 1) = 1152
                       /\ fuzz_time 1000 (mkF 301 (-1)) 200 5000 = 1200 /\ fuzz_time 1000 (mkF 301 (-1)) 0 100 = 1100.
Proof. vm_compute. repeat split; reflexivity. Qed.
