(* C17, depth_first: from a node of the graph the iteration ends normally (fuel adequacy),
   yields each node at most once and yields exactly the reachable nodes. *)
From Coq Require Import ZArith Bool List Lia ZifyBool.
Import ListNotations.
From Verif Require Import Model.Val Model.Graph Proofs.GraphPBase.
Open Scope Z_scope.

(* number of children entries of the nodes not yet visited: the termination measure *)
Fixpoint udeg (a : adj) (acc : list node) : nat :=
  match a with
  | [] => O
  | (n, cs) :: a' => ((if mem n acc then O else length cs) + udeg a' acc)%nat
  end.
Lemma udeg_nil : forall a, udeg a [] = fold_right (fun p s => (length (snd p) + s)%nat) 0%nat a.
Proof. induction a as [|[n cs] a IH]; cbn [udeg fold_right snd mem]; [reflexivity | rewrite IH; reflexivity]. Qed.
Lemma udeg_mono : forall a acc n, (udeg a (n :: acc) <= udeg a acc)%nat.
Proof.
  induction a as [|[k cs] a IH]; intros acc n; cbn [udeg mem]; [lia|].
  specialize (IH acc n). destruct (k =? n); destruct (mem k acc); lia.
Qed.
Lemma udeg_visit : forall a acc n cs, lookup n a = Some cs -> mem n acc = false ->
  (udeg a (n :: acc) + length cs <= udeg a acc)%nat.
Proof.
  induction a as [|[k cs'] a IH]; intros acc n cs H M; cbn [lookup] in H; [discriminate|].
  cbn [udeg mem]. destruct (Z.eqb_spec n k) as [E|E].
  - subst k. injection H as ->. rewrite Z.eqb_refl, M. pose proof (udeg_mono a acc n). lia.
  - specialize (IH acc n cs H M). destruct (Z.eqb_spec k n); [congruence|]. destruct (mem k acc); lia.
Qed.
Lemma filter_length_le : forall {A} (f : A -> bool) l, (length (filter f l) <= length l)%nat.
Proof. induction l as [|x l IH]; cbn [filter length]; [lia | destruct (f x); cbn [length]; lia]. Qed.

Section Dfs.
Variable g : graph.
Hypothesis W : wf g.

Definition closed_under (l : list node) : Prop := forall v c, In v l -> edge g v c -> In c l.

(* the loop, for any state whose stack holds nodes of the graph *)
Lemma dfs_loop_spec : forall fuel stack acc,
  (forall x, In x stack -> In x (nodes g)) ->
  NoDup acc ->
  (length stack + udeg (g_children g) acc < fuel)%nat ->
  (forall v c, In v acc -> edge g v c -> In c acc \/ In c stack) ->
  exists l, dfs_loop fuel g stack acc = (rev l, 0) /\ NoDup l /\
    (forall x, In x acc -> In x l) /\ (forall x, In x stack -> In x l) /\
    closed_under l /\
    (forall x, In x l -> In x acc \/ exists s, In s stack /\ reach g s x).
Proof.
  induction fuel as [|f IH]; intros stack acc Hs Hn Hf Hc; [lia|].
  cbn [dfs_loop]. destruct stack as [|n rest].
  - exists acc. repeat split; auto.
    + intros x [].
    + intros v c Hv E. destruct (Hc v c Hv E) as [H|[]]. exact H.
  - destruct (mem n acc) eqn:M.
    + apply mem_In in M. destruct (IH rest acc) as [l [R [N [A [S [C Snd]]]]]].
      * intros x H. apply Hs. right. exact H.
      * exact Hn.
      * cbn [length] in Hf. lia.
      * intros v c Hv E. destruct (Hc v c Hv E) as [H|[H|H]]; [auto | subst; auto | auto].
      * exists l. repeat split; auto.
        -- intros x [H|H]; [subst; auto | auto].
        -- intros x H. destruct (Snd x H) as [H1|[s [H1 H2]]]; [auto | right; exists s; split; [right; exact H1 | exact H2]].
    + assert (Hin : In n (nodes g)) by (apply Hs; left; reflexivity).
      rewrite (get_children_ok g n Hin).
      assert (L : lookup n (g_children g) = Some (children_of g n)).
      { unfold children_of. destruct (lookup_in_some n (g_children g) Hin) as [v ->]. reflexivity. }
      set (new := filter (fun c => negb (mem c (n :: acc))) (children_of g n)).
      destruct (IH (rev new ++ rest) (n :: acc)) as [l [R [N [A [S [C Snd]]]]]].
      * intros x H. apply in_app_or in H. destruct H as [H|H].
        -- apply in_rev in H. apply filter_In in H. destruct H as [H _].
           eapply (wf_closed g W n x). exact H.
        -- apply Hs. right. exact H.
      * constructor; [apply mem_false; exact M | exact Hn].
      * pose proof (udeg_visit _ acc n _ L M). pose proof (filter_length_le (fun c => negb (mem c (n :: acc))) (children_of g n)).
        rewrite app_length, rev_length. fold new in H0. cbn [length] in Hf. lia.
      * intros v c [Hv|Hv] E.
        -- subst v. destruct (mem c (n :: acc)) eqn:Mc.
           ++ left. apply mem_In. exact Mc.
           ++ right. apply in_or_app. left. apply -> in_rev. apply filter_In. split; [exact E | rewrite Mc; reflexivity].
        -- destruct (Hc v c Hv E) as [H|[H|H]].
           ++ left. right. exact H.
           ++ left. left. exact H.
           ++ right. apply in_or_app. right. exact H.
      * exists l. repeat split; auto.
        -- intros x H. apply A. right. exact H.
        -- intros x [H|H]; [subst; apply A; left; reflexivity | apply S; apply in_or_app; right; exact H].
        -- intros x H. destruct (Snd x H) as [[H1|H1]|[s [H1 H2]]].
           ++ subst x. right. exists n. split; [left; reflexivity | apply reach_refl].
           ++ left. exact H1.
           ++ apply in_app_or in H1. destruct H1 as [H1|H1].
              ** apply in_rev in H1. apply filter_In in H1. destruct H1 as [H1 _].
                 right. exists n. split; [left; reflexivity | eapply reach_step; eassumption].
              ** right. exists s. split; [right; exact H1 | exact H2].
Qed.

Lemma closed_reach : forall l x y, closed_under l -> reach g x y -> In x l -> In y l.
Proof. intros l x y C H. induction H; [auto | intro Hx; apply IHreach; eapply C; eassumption]. Qed.

(* depth_first from any set of start nodes of the graph *)
Lemma dfs_from_spec : forall stack, (forall x, In x stack -> In x (nodes g)) ->
  exists l, dfs_loop (dfs_fuel g stack) g stack [] = (l, 0) /\ NoDup l /\
    forall x, In x l <-> exists s, In s stack /\ reach g s x.
Proof.
  intros stack Hs.
  destruct (dfs_loop_spec (dfs_fuel g stack) stack []) as [l [R [N [_ [S [C Snd]]]]]].
  - exact Hs.
  - constructor.
  - unfold dfs_fuel, num_edges. rewrite udeg_nil. lia.
  - intros v c [].
  - exists (rev l). split; [exact R|]. split; [apply NoDup_rev; exact N|].
    intro x. rewrite <- in_rev. split.
    + intro H. destruct (Snd x H) as [[]|H1]. exact H1.
    + intros [s [H1 H2]]. eapply closed_reach; [exact C | exact H2 | apply S; exact H1].
Qed.

Lemma dfs_node_spec : forall n, In n (nodes g) ->
  exists l, depth_first g (Some n) = (l, 0) /\ NoDup l /\ forall x, In x l <-> reach g n x.
Proof.
  intros n Hn. unfold depth_first. cbn [dfs_start].
  destruct (dfs_from_spec [n]) as [l [R [N S]]].
  - intros x [H|[]]. subst. exact Hn.
  - exists l. split; [exact R|]. split; [exact N|]. intro x. rewrite S. split.
    + intros [s [[H|[]] H2]]. subst. exact H2.
    + intro H. exists n. split; [left; reflexivity | exact H].
Qed.

Lemma get_sources_in : forall x, In x (get_sources g) <-> In x (nodes g) /\ parents_of g x = [].
Proof.
  intro x. unfold get_sources. rewrite filter_In. destruct (parents_of g x); split; intros [H1 H2]; split; auto; discriminate.
Qed.

Lemma dfs_all_spec :
  exists l, depth_first g None = (l, 0) /\ NoDup l /\
    forall x, In x l <-> exists s, In s (get_sources g) /\ reach g s x.
Proof.
  unfold depth_first. cbn [dfs_start].
  destruct (dfs_from_spec (rev (get_sources g))) as [l [R [N S]]].
  - intros x H. apply in_rev in H. apply get_sources_in in H. tauto.
  - exists l. split; [exact R|]. split; [exact N|]. intro x. rewrite S.
    split; intros [s [H1 H2]]; exists s; split; auto; [apply in_rev; exact H1 | apply -> in_rev; exact H1].
Qed.
End Dfs.

(* a start node outside the graph: it is yielded, then get_children raises ValueError *)
Lemma dfs_unknown_node : forall g n, ~ In n (nodes g) -> depth_first g (Some n) = ([n], E_VALUE).
Proof.
  intros g n H. unfold depth_first, dfs_fuel. cbn [dfs_start length dfs_loop mem plus].
  unfold get_children. apply lookup_none in H. rewrite H. reflexivity.
Qed.
