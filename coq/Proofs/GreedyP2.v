(* Greedy policies, part 2 (generic in the worker ledger, laws as Section hypotheses):
   - the virtual cluster only fills up during a run, and fitting is antitone in that order (C13);
   - the returned decisions replay, in order, to exactly the policy's final virtual cluster (C10);
   - the contract and its decidable form; the admission rule (C12). *)
From Coq Require Import ZArith Bool List Lia ZifyBool Sorting.Sorted Permutation.
Import ListNotations.
From Verif Require Import Model.Val Gen.Src_Greedy Model.Greedy Proofs.GreedyP.
Open Scope Z_scope.

Section Laws.
  Variable L : ledger.
  Notation task := (task L).
  Notation pool := (pool L).
  Notation cluster := (cluster L).

  (* w' is at least as occupied as w; wok / sok: well-formed worker ledgers and strategies (e.g. quantities >= 0) *)
  Variable wle : wk L -> wk L -> Prop.
  Variable wok : wk L -> Prop.
  Variable sok : st L -> Prop.
  Hypothesis wle_refl : forall w, wle w w.
  Hypothesis wle_trans : forall a b c, wle a b -> wle b c -> wle a c.
  Hypothesis wplace_le : forall w t s, wok w -> sok s -> can L w s = true -> wle w (wplace L w t s).
  Hypothesis wplace_ok : forall w t s, wok w -> sok s -> can L w s = true -> wok (wplace L w t s).
  Hypothesis wreset_ok : forall w, wok w -> wok (wreset L w).
  Hypothesis can_antitone : forall w w' s, wok w -> wok w' -> sok s -> wle w w' -> can L w' s = true -> can L w s = true.

  Definition cok (c : cluster) : Prop := Forall (fun p => Forall wok (snd p)) c.
  Definition tasks_ok (ts : list task) : Prop := Forall (fun t => Forall sok (t_strats t)) ts.

  Definition ple (p p' : pool) : Prop := fst p = fst p' /\ Forall2 wle (snd p) (snd p').
  Definition cle (c c' : cluster) : Prop := Forall2 ple c c'.

  Lemma wsle_refl ws : Forall2 wle ws ws.
  Proof. induction ws; constructor; auto. Qed.
  Lemma ple_refl p : ple p p.
  Proof. split; [reflexivity|apply wsle_refl]. Qed.
  Lemma cle_refl c : cle c c.
  Proof. induction c; constructor; auto using ple_refl. Qed.
  Lemma wsle_trans a : forall b c, Forall2 wle a b -> Forall2 wle b c -> Forall2 wle a c.
  Proof.
    induction a as [|x a IH]; intros b c H1 H2; inversion H1; subst; inversion H2; subst; constructor; eauto.
  Qed.
  Lemma ple_trans a b c : ple a b -> ple b c -> ple a c.
  Proof. intros [E1 H1] [E2 H2]. split; [congruence|eapply wsle_trans; eauto]. Qed.
  Lemma cle_trans a : forall b c, cle a b -> cle b c -> cle a c.
  Proof.
    induction a as [|x a IH]; intros b c H1 H2; inversion H1; subst; inversion H2; subst; constructor.
    - eapply ple_trans; eassumption.
    - eapply IH; eassumption.
  Qed.
  Lemma cle_ids c c' : cle c c' -> map fst c = map fst c'.
  Proof. induction 1 as [|p p' c c' [E _] _ IH]; cbn; [reflexivity|f_equal; assumption]. Qed.

  Lemma place_first_le ws t s : forall ws', Forall wok ws -> sok s ->
    place_first L ws t s = Some ws' -> Forall2 wle ws ws' /\ Forall wok ws'.
  Proof.
    induction ws as [|w r IH]; intros ws' Hok Hs H; cbn [place_first] in H; [discriminate|].
    inversion Hok; subst. destruct (can L w s) eqn:C.
    - inversion H; subst.
      split; constructor; [apply wplace_le; assumption|apply wsle_refl|apply wplace_ok; assumption|assumption].
    - destruct (place_first L r t s) as [r'|]; [|discriminate]. inversion H; subst.
      destruct (IH r' ltac:(assumption) Hs eq_refl).
      split; constructor; [apply wle_refl|assumption|assumption|assumption].
  Qed.
  Lemma pool_place_le p t s : Forall wok (snd p) -> sok s ->
    ple p (pool_place L p t s) /\ Forall wok (snd (pool_place L p t s)).
  Proof.
    intros Hok Hs. unfold pool_place. destruct (place_first L (snd p) t s) as [ws|] eqn:E; [|split; [apply ple_refl|exact Hok]].
    destruct (place_first_le _ t s ws Hok Hs E). split; [split; [reflexivity|assumption]|assumption].
  Qed.
  Lemma try_pools_le c t s : forall pid c', cok c -> sok s -> try_pools L c t s = Some (pid, c') -> cle c c' /\ cok c'.
  Proof.
    induction c as [|p r IH]; intros pid c' Hok Hs H; cbn [try_pools] in H; [discriminate|].
    inversion Hok; subst. destruct (pool_can L p s).
    - inversion H; subst. destruct (pool_place_le p t s ltac:(assumption) Hs).
      split; constructor; [assumption|apply cle_refl|assumption|assumption].
    - destruct (try_pools L r t s) as [[i r']|] eqn:E; [|discriminate]. inversion H; subst.
      destruct (IH pid r' ltac:(assumption) Hs eq_refl).
      split; constructor; [apply ple_refl|assumption|assumption|assumption].
  Qed.
  Lemma try_strats_le c t ss : forall i k pid c', cok c -> Forall sok ss ->
    try_strats L c t ss i = Some (k, pid, c') -> cle c c' /\ cok c'.
  Proof.
    induction ss as [|s r IH]; intros i k pid c' Hok Hs H; cbn [try_strats] in H; [discriminate|].
    inversion Hs; subst. destruct (try_pools L c t s) as [[pid' c'']|] eqn:E.
    - inversion H; subst. eapply try_pools_le; eauto.
    - eapply IH; eauto.
  Qed.
  (* during a run the virtual cluster only fills up, and stays well-formed *)
  Lemma run_le P e now ts : forall (c : cluster) ds cf, cok c -> tasks_ok ts ->
    run L P e now c ts = Ok (ds, cf) -> cle c cf /\ cok cf.
  Proof.
    induction ts as [|t r IH]; intros c ds cf Hok Hts H.
    - cbn in H. inversion H; subst. split; [apply cle_refl|exact Hok].
    - inversion Hts as [|? ? Hst Hts']; subst. apply run_cons in H. destruct H as [d [ds' [c' [_ [R [_ Hk]]]]]].
      destruct Hk as [[_ [_ ->]]|[[_ [i [pid [T _]]]]|[_ [_ [_ ->]]]]]; eauto.
      destruct (try_strats_le _ _ _ _ _ _ _ Hok Hst T) as [Hle Hok'].
      destruct (IH _ _ _ Hok' Hts' R) as [Hle' Hok'']. split; [eapply cle_trans; eauto|exact Hok''].
  Qed.
  Lemma virtual_ok P pre (c : cluster) : cok c -> cok (virtual L P pre c).
  Proof.
    intros Hok. unfold virtual. destruct (p_reset P pre); [|exact Hok].
    unfold cok in *. rewrite Forall_map. eapply Forall_impl; [|exact Hok]. cbn [snd]. intros p Hp.
    rewrite Forall_map. eapply Forall_impl; [|exact Hp]. auto.
  Qed.

  (* what fits a fuller cluster fits the emptier one *)
  Lemma pool_can_antitone p p' s : sok s -> Forall wok (snd p) -> Forall wok (snd p') -> ple p p' ->
    pool_can L p' s = true -> pool_can L p s = true.
  Proof.
    intros Hs Ho Ho' [_ H]. unfold pool_can. revert Ho Ho'.
    induction H as [|w w' ws ws' Hw _ IH]; intros Ho Ho'; cbn [existsb]; [auto|].
    inversion Ho; subst. inversion Ho'; subst.
    intros X. apply orb_true_iff in X. apply orb_true_iff.
    destruct X as [X|X]; [left; eapply can_antitone; eauto|right; auto].
  Qed.
  Lemma fits_somewhere_antitone c c' s : sok s -> cok c -> cok c' -> cle c c' ->
    fits_somewhere L c' s = true -> fits_somewhere L c s = true.
  Proof.
    intros Hs Ho Ho' H. unfold fits_somewhere. revert Ho Ho'.
    induction H as [|p p' c c' Hp _ IH]; intros Ho Ho'; cbn [existsb]; [auto|].
    inversion Ho; subst. inversion Ho'; subst.
    intros X. apply orb_true_iff in X. apply orb_true_iff.
    destruct X as [X|X]; [left; eapply pool_can_antitone; eauto|right; auto].
  Qed.
  Lemma task_fits_antitone c c' (x : task) : Forall sok (t_strats x) -> cok c -> cok c' -> cle c c' ->
    task_fits L c' x = true -> task_fits L c x = true.
  Proof.
    intros Hs Ho Ho' H. unfold task_fits. induction Hs as [|s r Hs1 _ IH]; cbn [existsb]; [auto|].
    intros X. apply orb_true_iff in X. apply orb_true_iff.
    destruct X as [X|X]; [left; eapply fits_somewhere_antitone; eauto|right; auto].
  Qed.
  Lemma task_unfit_later c c' (x : task) : Forall sok (t_strats x) -> cok c -> cok c' -> cle c c' ->
    task_fits L c x = false -> task_fits L c' x = false.
  Proof.
    intros Hs Ho Ho' H F. destruct (task_fits L c' x) eqn:E; [|reflexivity].
    rewrite (task_fits_antitone c c' x Hs Ho Ho' H E) in F. discriminate.
  Qed.

  (* ---------- sortedness around an index *)
  Lemma sorted_around {A} (R : A -> A -> Prop) pre : forall x post,
    StronglySorted R (pre ++ x :: post) ->
    Forall (fun y => R y x) pre /\ Forall (fun y => R x y) post.
  Proof.
    induction pre as [|a pre IH]; intros x post HS.
    - cbn in HS. inversion HS; subst. split; [constructor|assumption].
    - cbn in HS. inversion HS as [|? ? HS' Hall]; subst. destruct (IH x post HS') as [H1 H2].
      split; [|exact H2]. constructor; [|exact H1].
      rewrite Forall_app in Hall. destruct Hall as [_ Hx]. inversion Hx; assumption.
  Qed.

  Definition prio_le (P : policy) (now : Z) (a b : task) : Prop :=
    lex_leb (p_key P now (t_attrs a)) (p_key P now (t_attrs b)) = true.

  Lemma ordered_split P now (offered : list task) i x :
    nth_error (ordered L P now offered) i = Some x ->
    Forall (fun y => prio_le P now y x) (firstn i (ordered L P now offered)) /\
    Forall (fun y => prio_le P now x y) (skipn (S i) (ordered L P now offered)).
  Proof.
    intros Hn. pose proof (sort_by_sorted (fun t : task => p_key P now (t_attrs t)) offered) as HS.
    fold (ordered L P now offered) in HS.
    destruct (nth_error_split _ _ Hn) as [pre [post [E Hl]]]. rewrite E in *. subst i.
    rewrite firstn_app_exact.
    replace (skipn (S (length pre)) (pre ++ x :: post)) with post
      by (clear; induction pre; cbn; [reflexivity|assumption]).
    apply (sorted_around _ pre x post HS).
  Qed.

  (* ---------- C13, generic: a task reported unplaced fits no worker for any strategy in the virtual cluster
     V obtained from exactly the decisions taken for the tasks ordered before it -- all of which have a key <=
     its own, while every task decided later has a key >= its own -- and, the cluster only filling up, it
     still fits nowhere at the end. *)
  Lemma tasks_ok_perm (a b : list task) : Permutation a b -> tasks_ok a -> tasks_ok b.
  Proof. intros Hp. unfold tasks_ok. apply Permutation_Forall. exact Hp. Qed.
  Lemma tasks_ok_skipn n (a : list task) : tasks_ok a -> tasks_ok (skipn n a).
  Proof.
    unfold tasks_ok. rewrite !Forall_forall. intros H t Ht. apply H. rewrite <- (firstn_skipn n a).
    apply in_or_app. right. exact Ht.
  Qed.

  Theorem c13_generic P e pre now (c : cluster) offered ds cf i x :
    cok c -> tasks_ok offered ->
    schedule_full L P e pre now c offered = Ok (ds, cf) ->
    nth_error (ordered L P now offered) i = Some x ->
    nth_error ds i = Some (DUnplaced (t_id x)) ->
    exists V,
      run L P e now (virtual L P pre c) (firstn i (ordered L P now offered)) = Ok (firstn i ds, V) /\
      (forall s p w, In s (t_strats x) -> In p V -> In w (snd p) -> can L w s = false) /\
      cle V cf /\
      (forall s p w, In s (t_strats x) -> In p cf -> In w (snd p) -> can L w s = false) /\
      Forall (fun y => prio_le P now y x) (firstn i (ordered L P now offered)) /\
      Forall (fun y => prio_le P now x y) (skipn (S i) (ordered L P now offered)).
  Proof.
    intros Hok Hts H Hn Hd. apply schedule_full_run in H. destruct H as [H _].
    destruct (run_unplaced_no_fit L P e now _ _ ds cf i x H Hn Hd) as [V [R1 [F _]]].
    destruct (run_stage L P e now _ _ ds cf i x H Hn) as [V' [d [R1' [_ R2]]]].
    rewrite R1 in R1'. inversion R1'; subst V'.
    assert (tasks_ok (ordered L P now offered)) as Hto
      by (eapply tasks_ok_perm; [apply (sort_by_perm (fun t : task => p_key P now (t_attrs t)) offered)|exact Hts]).
    assert (tasks_ok (firstn i (ordered L P now offered))) as Hpre.
    { unfold tasks_ok in *. rewrite Forall_forall in *. intros t Ht. apply Hto.
      rewrite <- (firstn_skipn i (ordered L P now offered)). apply in_or_app. left. exact Ht. }
    destruct (run_le P e now _ _ _ _ (virtual_ok P pre c Hok) Hpre R1) as [_ HokV].
    assert (tasks_ok (x :: skipn (S i) (ordered L P now offered))) as Hpost.
    { constructor; [|apply tasks_ok_skipn; exact Hto].
      unfold tasks_ok in Hto. rewrite Forall_forall in Hto. apply Hto. eapply nth_error_In; exact Hn. }
    destruct (run_le P e now _ _ _ _ HokV Hpost R2) as [Hle Hokcf].
    exists V. split; [exact R1|]. split; [apply task_fits_false; exact F|]. split; [exact Hle|].
    split; [apply task_fits_false; eapply task_unfit_later; [inversion Hpost; assumption|exact HokV|exact Hokcf|exact Hle|exact F]|].
    apply ordered_split. exact Hn.
  Qed.
  (* joint feasibility, abstractly: the ledger invariant holds of every worker of the final virtual cluster *)
  Theorem feasible_generic P e pre now (c : cluster) offered ds cf :
    cok c -> tasks_ok offered -> schedule_full L P e pre now c offered = Ok (ds, cf) ->
    cok cf /\ cle (virtual L P pre c) cf.
  Proof.
    intros Hok Hts H. apply schedule_full_run in H. destruct H as [H _].
    assert (tasks_ok (ordered L P now offered)) as Hto
      by (eapply tasks_ok_perm; [apply (sort_by_perm (fun t : task => p_key P now (t_attrs t)) offered)|exact Hts]).
    destruct (run_le P e now _ _ _ _ (virtual_ok P pre c Hok) Hto H). auto.
  Qed.
End Laws.

(* ================================================================================ replay, contract *)
Section Contract.
  Variable L : ledger.
  Notation task := (task L).
  Notation pool := (pool L).
  Notation cluster := (cluster L).

  Definition id_functional (ts : list task) : Prop :=
    forall a b, In a ts -> In b ts -> t_id a = t_id b -> a = b.

  Lemma nodup_functional (ts : list task) : NoDup (map (@t_id L) ts) -> id_functional ts.
  Proof.
    induction ts as [|t r IH]; intros H a b Ha Hb E; [destruct Ha|].
    cbn in H. inversion H as [|? ? Hn Hr]; subst.
    destruct Ha as [<-|Ha], Hb as [<-|Hb]; auto.
    - exfalso. apply Hn. rewrite E. apply in_map. exact Hb.
    - exfalso. apply Hn. rewrite <- E. apply in_map. exact Ha.
    - apply IH; assumption.
  Qed.
  Lemma find_task_in (ts : list task) t : id_functional ts -> In t ts -> find_task L ts (t_id t) = Some t.
  Proof.
    intros F Hin. unfold find_task. destruct (find (fun a => t_id a =? t_id t) ts) as [a|] eqn:E.
    - apply find_some in E. destruct E as [Ha E]. f_equal. apply F; auto. lia.
    - pose proof (find_none _ _ E t Hin) as X. cbn in X. lia.
  Qed.
  Lemma find_task_some (ts : list task) i a : find_task L ts i = Some a -> In a ts /\ t_id a = i.
  Proof. unfold find_task. intros E. apply find_some in E. destruct E as [H E]. split; [exact H|lia]. Qed.

  Lemma pool_place_id p t s : fst (pool_place L p t s) = fst p.
  Proof. unfold pool_place. destruct (place_first L (snd p) t s); reflexivity. Qed.
  Lemma try_pools_ids (c : cluster) t s : forall pid c', try_pools L c t s = Some (pid, c') ->
    map fst c' = map fst c /\ In pid (map fst c).
  Proof.
    induction c as [|p r IH]; intros pid c' H; cbn [try_pools] in H; [discriminate|].
    destruct (pool_can L p s).
    - inversion H; subst. cbn [map]. rewrite pool_place_id. split; [reflexivity|left; reflexivity].
    - destruct (try_pools L r t s) as [[i r']|] eqn:E; [|discriminate]. inversion H; subst.
      destruct (IH pid r' eq_refl) as [E1 E2]. cbn [map]. split; [f_equal; exact E1|right; exact E2].
  Qed.
  Lemma try_pools_update (c : cluster) t s : forall pid c', NoDup (map fst c) -> try_pools L c t s = Some (pid, c') ->
    pool_update L c pid (fun p => if pool_can L p s then Some (pool_place L p t s) else None) = Some c'.
  Proof.
    induction c as [|p r IH]; intros pid c' ND H; cbn [try_pools] in H; [discriminate|].
    cbn [map] in ND. inversion ND as [|? ? Hn ND']; subst. cbn [pool_update]. cbv beta.
    destruct (pool_can L p s) eqn:C.
    - inversion H; subst. rewrite Z.eqb_refl. reflexivity.
    - destruct (try_pools L r t s) as [[i r']|] eqn:E; [|discriminate]. inversion H; subst.
      destruct (try_pools_ids r t s pid r' E) as [_ Hin].
      destruct (fst p =? pid) eqn:Q; [exfalso; apply Hn; replace (fst p) with pid by lia; exact Hin|].
      rewrite (IH pid r' ND' eq_refl). reflexivity.
  Qed.
  (* the reported strategy index is the first strategy that fits some pool, the reported pool the first
     pool that can accommodate it *)
  Lemma try_strats_spec (c : cluster) t ss : forall i0 k pid c', try_strats L c t ss i0 = Some (k, pid, c') ->
    exists s, (i0 <= k)%nat /\ nth_error ss (k - i0) = Some s /\ try_pools L c t s = Some (pid, c') /\
              forall j s', (j < k - i0)%nat -> nth_error ss j = Some s' -> fits_somewhere L c s' = false.
  Proof.
    induction ss as [|s r IH]; intros i0 k pid c' H; cbn [try_strats] in H; [discriminate|].
    destruct (try_pools L c t s) as [[pid' c'']|] eqn:E.
    - inversion H; subst. exists s. rewrite Nat.sub_diag. repeat split; auto. intros j s' Hj. lia.
    - destruct (IH (S i0) k pid c' H) as [s0 [Hle [Hn [T Hprev]]]]. exists s0.
      split; [lia|]. replace (k - i0)%nat with (S (k - S i0)) by lia. cbn [nth_error].
      split; [exact Hn|]. split; [exact T|].
      intros [|j] s' Hj Hs'; cbn [nth_error] in Hs'.
      + inversion Hs'; subst. apply try_pools_none in E. exact E.
      + eapply Hprev; [|exact Hs']. lia.
  Qed.
  Lemma try_pools_first (c : cluster) t s : forall pid c', try_pools L c t s = Some (pid, c') ->
    exists pre p post, c = pre ++ p :: post /\ fst p = pid /\ pool_can L p s = true /\
                       Forall (fun q => pool_can L q s = false) pre /\ c' = pre ++ pool_place L p t s :: post.
  Proof.
    induction c as [|p r IH]; intros pid c' H; cbn [try_pools] in H; [discriminate|].
    destruct (pool_can L p s) eqn:C.
    - inversion H; subst. exists [], p, r. repeat split; auto.
    - destruct (try_pools L r t s) as [[i r']|] eqn:E; [|discriminate]. inversion H; subst.
      destruct (IH pid r' eq_refl) as [pre [q [post [-> [Hq [Cq [Hpre ->]]]]]]].
      exists (p :: pre), q, post. repeat split; auto.
  Qed.

  Lemma run_ids P e now ts : forall (c : cluster) ds cf, run L P e now c ts = Ok (ds, cf) -> map fst cf = map fst c.
  Proof.
    induction ts as [|t r IH]; intros c ds cf H.
    - cbn in H. inversion H. reflexivity.
    - apply run_cons in H. destruct H as [d [ds' [c' [_ [R [_ Hk]]]]]]. apply IH in R. rewrite R.
      destruct Hk as [[_ [_ ->]]|[[_ [i [pid [T _]]]]|[_ [_ [_ ->]]]]]; auto.
      apply try_strats_spec in T. destruct T as [s [_ [_ [T _]]]]. apply try_pools_ids in T. apply T.
  Qed.

  (* replaying the decisions of a run, in order, yields the run's final virtual cluster *)
  Lemma run_replay P e now (all : list task) ts : forall (c : cluster) ds cf,
    id_functional all -> (forall t, In t ts -> In t all) -> NoDup (map fst c) ->
    run L P e now c ts = Ok (ds, cf) -> replay L all c ds = Some cf.
  Proof.
    induction ts as [|t r IH]; intros c ds cf F Hin ND H.
    - cbn in H. inversion H. reflexivity.
    - apply run_cons in H. destruct H as [d [ds' [c' [-> [R [_ Hk]]]]]].
      assert (forall t0, In t0 r -> In t0 all) as Hin' by (intros; apply Hin; right; assumption).
      cbn [replay].
      destruct Hk as [[_ [-> ->]]|[[_ [i [pid [T ->]]]]|[_ [_ [-> ->]]]]]; cbn [apply_decision].
      + eapply IH; eauto.
      + rewrite (find_task_in all t F (Hin t (or_introl eq_refl))).
        destruct (try_strats_spec c (t_id t) (t_strats t) 0%nat i pid c' T) as [s [_ [Hn [TP _]]]].
        rewrite Nat.sub_0_r in Hn. rewrite Hn. rewrite (try_pools_update c (t_id t) s pid c' ND TP).
        eapply IH; eauto. destruct (try_pools_ids c (t_id t) s pid c' TP) as [E _]. rewrite E. exact ND.
      + eapply IH; eauto.
  Qed.

  (* ---------- the contract (Prop) and its decidable form *)
  Definition dec_ok (offered : list task) (v : cluster) (now : Z) (d : decision) : Prop :=
    match d with
    | DPlace t pid k time =>
        (exists p, In p v /\ fst p = pid) /\
        (exists tk, find_task L offered t = Some tk /\ (k < length (t_strats tk))%nat) /\ time = now
    | DCancel t | DUnplaced t => exists tk, find_task L offered t = Some tk
    end.
  Definition Contract (offered : list task) (v : cluster) (now : Z) (ds : list decision) : Prop :=
    NoDup (map dec_task ds) /\
    (forall i, In i (map dec_task ds) <-> In i (map (@t_id L) offered)) /\
    Forall (dec_ok offered v now) ds /\
    exists cf, replay L offered v ds = Some cf.

  Lemma existsb_eqb_in x l : existsb (Z.eqb x) l = true <-> In x l.
  Proof.
    rewrite existsb_exists. split.
    - intros [y [Hy E]]. replace x with y by lia. exact Hy.
    - intros H. exists x. split; [exact H|lia].
  Qed.
  Lemma nodupb_nodup l : nodupb l = true <-> NoDup l.
  Proof.
    induction l as [|x r IH]; cbn [nodupb]; [split; [constructor|reflexivity]|].
    rewrite andb_true_iff, negb_true_iff, IH. split.
    - intros [H1 H2]. constructor; [|exact H2]. intros Hin. apply existsb_eqb_in in Hin. congruence.
    - intros H. inversion H as [|? ? Hn Hr]; subst. split; [|exact Hr].
      destruct (existsb (Z.eqb x) r) eqn:E; [|reflexivity]. apply existsb_eqb_in in E. contradiction.
  Qed.
  Lemma subsetb_incl a b : subsetb a b = true <-> (forall i, In i a -> In i b).
  Proof.
    unfold subsetb. rewrite forallb_forall. split; intros H i Hi.
    - apply existsb_eqb_in. apply H. exact Hi.
    - apply existsb_eqb_in. apply H. exact Hi.
  Qed.
  Lemma dec_wellformed_ok offered v now d : dec_wellformed L offered v now d = true <-> dec_ok offered v now d.
  Proof.
    destruct d as [t|t pid k time|t]; cbn [dec_wellformed dec_ok].
    - destruct (find_task L offered t) as [tk0|]; split; intros H;
        [exists tk0; reflexivity|reflexivity|discriminate|destruct H as [tk X]; discriminate].
    - rewrite !andb_true_iff, existsb_exists. split.
      + intros [[[p [Hp E]] H2] H3]. split; [exists p; split; [exact Hp|lia]|].
        split; [|lia]. destruct (find_task L offered t) as [tk|]; [|discriminate]. exists tk. split; [reflexivity|].
        apply Nat.ltb_lt. exact H2.
      + intros [[p [Hp E]] [[tk [Ft Hk]] ->]]. split; [split|lia].
        * exists p. split; [exact Hp|lia].
        * rewrite Ft. apply Nat.ltb_lt. exact Hk.
    - destruct (find_task L offered t) as [tk0|]; split; intros H;
        [exists tk0; reflexivity|reflexivity|discriminate|destruct H as [tk X]; discriminate].
  Qed.
  Theorem contract_check_iff offered v now ds : contract_check L offered v now ds = true <-> Contract offered v now ds.
  Proof.
    unfold contract_check, Contract. rewrite !andb_true_iff, nodupb_nodup, !subsetb_incl, forallb_forall, Forall_forall.
    split.
    - intros [[[[H1 H2] H3] H4] H5]. split; [exact H1|]. split; [intros i; split; auto|].
      split; [intros d Hd; apply dec_wellformed_ok; auto|].
      destruct (replay L offered v ds) as [cf|]; [eauto|discriminate].
    - intros [H1 [H2 [H3 [cf H4]]]]. repeat split; auto.
      + intros i; apply H2.
      + intros i; apply H2.
      + intros d Hd; apply dec_wellformed_ok; auto.
      + rewrite H4. reflexivity.
  Qed.

  Lemma run_dec_ok P e now (all : list task) (v0 : cluster) ts : forall (c : cluster) ds cf,
    id_functional all -> (forall t, In t ts -> In t all) -> map fst c = map fst v0 ->
    run L P e now c ts = Ok (ds, cf) -> Forall (dec_ok all v0 now) ds.
  Proof.
    induction ts as [|t r IH]; intros c ds cf F Hin Hids H.
    - cbn in H. inversion H. constructor.
    - apply run_cons in H. destruct H as [d [ds' [c' [-> [R [_ Hk]]]]]].
      assert (forall t0, In t0 r -> In t0 all) as Hin' by (intros; apply Hin; right; assumption).
      pose proof (find_task_in all t F (Hin t (or_introl eq_refl))) as Ft.
      destruct Hk as [[_ [-> ->]]|[[_ [i [pid [T ->]]]]|[_ [_ [-> ->]]]]].
      + constructor; [cbn; eauto|eapply IH; eauto].
      + destruct (try_strats_spec c (t_id t) (t_strats t) 0%nat i pid c' T) as [s [_ [Hn [TP _]]]].
        rewrite Nat.sub_0_r in Hn. destruct (try_pools_ids c (t_id t) s pid c' TP) as [E Hpid].
        constructor; [|eapply IH; [exact F|exact Hin'|rewrite E; exact Hids|exact R]].
        cbn [dec_ok]. split.
        * rewrite Hids in Hpid. apply in_map_iff in Hpid. destruct Hpid as [p [Hp1 Hp2]]. exists p. auto.
        * split; [|reflexivity]. exists t. split; [exact Ft|]. apply nth_error_Some. congruence.
      + constructor; [cbn; eauto|eapply IH; eauto].
  Qed.

  (* C10 (greedy part), generic: the decisions answer every offered task exactly once, each placement names an
     existing pool, a strategy of its task and the time `now`, and replaying the placements in order on the
     virtual cluster succeeds at every step and ends in the policy's own final virtual cluster *)
  Theorem contract_generic P e pre now (c : cluster) offered ds cf :
    NoDup (map (@t_id L) offered) -> NoDup (map fst c) ->
    schedule_full L P e pre now c offered = Ok (ds, cf) ->
    Contract offered (virtual L P pre c) now ds /\ replay L offered (virtual L P pre c) ds = Some cf /\
    map dec_task ds = map (@t_id L) (ordered L P now offered).
  Proof.
    intros NDt NDc H. apply schedule_full_run in H. destruct H as [H _].
    pose proof (nodup_functional offered NDt) as F.
    pose proof (sort_by_perm (fun t : task => p_key P now (t_attrs t)) offered) as Perm.
    fold (ordered L P now offered) in Perm.
    assert (forall t, In t (ordered L P now offered) -> In t offered) as Hin
      by (intros t Ht; eapply Permutation_in; [apply Permutation_sym; exact Perm|exact Ht]).
    assert (NoDup (map fst (virtual L P pre c))) as NDv.
    { unfold virtual. destruct (p_reset P pre); [|exact NDc]. rewrite map_map. cbn [fst]. exact NDc. }
    pose proof (run_tasks L P e now _ _ ds cf H) as Ht.
    pose proof (run_replay P e now offered _ _ ds cf F Hin NDv H) as Hr.
    split; [|split; [exact Hr|exact Ht]]. unfold Contract.
    assert (Permutation (map dec_task ds) (map (@t_id L) offered)) as PermIds
      by (rewrite Ht; apply Permutation_sym, Permutation_map; exact Perm).
    split; [eapply Permutation_NoDup; [apply Permutation_sym; exact PermIds|exact NDt]|].
    split.
    { intros i; split; intros Hi; [eapply Permutation_in; [exact PermIds|exact Hi]|
                                   eapply Permutation_in; [apply Permutation_sym; exact PermIds|exact Hi]]. }
    split; [|exists cf; exact Hr].
    eapply run_dec_ok; [exact F|exact Hin|reflexivity|exact H].
  Qed.

End Contract.

(* ================================================================================ admission (C12) *)
Section Admission.
  Variable L : ledger.
  Notation task := (task L).
  Notation cluster := (cluster L).


  (* a policy whose translated admission test is the documented one *)
  Definition documented_admission (P : policy) : Prop :=
    p_has_adm P = true /\ forall e now t f, p_cancel P e now t f = e && hopeless now t f.

  Theorem c12_generic P pre now (c : cluster) offered ds cf i x :
    documented_admission P ->
    schedule_full L P true pre now c offered = Ok (ds, cf) ->
    nth_error (ordered L P now offered) i = Some x ->
    exists f d, min_runtime L (t_strats x) = Some f /\ nth_error ds i = Some d /\ dec_task d = t_id x /\
                (hopeless now (t_attrs x) f = true <-> d = DCancel (t_id x)).
  Proof.
    intros [HA HC] H Hn. apply schedule_full_run in H. destruct H as [H _].
    destruct (run_stage L P true now _ _ ds cf i x H Hn) as [V [d [_ [Hd R2]]]].
    apply run_cons in R2. destruct R2 as [d' [ds' [c' [E [_ [Hid Hk]]]]]]. inversion E; subst d' ds'.
    unfold admission in Hk. rewrite HA in Hk. cbn [andb] in Hk.
    destruct (min_runtime L (t_strats x)) as [f|] eqn:M.
    - exists f, d. split; [reflexivity|]. split; [exact Hd|]. split; [exact Hid|].
      rewrite HC in Hk. cbn [andb] in Hk.
      destruct Hk as [[A [-> _]]|[[A [k [pid [_ ->]]]]|[A [_ [-> _]]]]]; inversion A as [A'].
      + split; auto.
      + split; [congruence|discriminate].
      + split; [congruence|discriminate].
    - destruct Hk as [[A _]|[[A _]|[A _]]]; discriminate.
  Qed.

  (* without an admission test (LSF) nothing is ever cancelled, whatever `enforce` is *)
  Lemma run_never_cancels P e now ts : p_has_adm P = false -> forall (c : cluster) ds cf,
    run L P e now c ts = Ok (ds, cf) -> forallb (fun d => negb (is_cancel d)) ds = true.
  Proof.
    intros HA. induction ts as [|t r IH]; intros c ds cf H.
    - cbn in H. inversion H. reflexivity.
    - apply run_cons in H. destruct H as [d [ds' [c' [-> [R [_ Hk]]]]]]. cbn [forallb]. rewrite (IH _ _ _ R).
      unfold admission in Hk. rewrite HA in Hk. cbn [andb] in Hk.
      destruct Hk as [[A _]|[[_ [k [pid [_ ->]]]]|[_ [_ [-> _]]]]]; [discriminate| |]; reflexivity.
  Qed.
  (* with enforcement off nothing is cancelled either *)
  Lemma run_no_enforce P now ts : (forall now t f, p_cancel P false now t f = false) -> forall (c : cluster) ds cf,
    run L P false now c ts = Ok (ds, cf) -> forallb (fun d => negb (is_cancel d)) ds = true.
  Proof.
    intros HC. induction ts as [|t r IH]; intros c ds cf H.
    - cbn in H. inversion H. reflexivity.
    - apply run_cons in H. destruct H as [d [ds' [c' [-> [R [_ Hk]]]]]]. cbn [forallb]. rewrite (IH _ _ _ R).
      unfold admission in Hk. rewrite andb_false_r in Hk.
      destruct Hk as [[A _]|[[_ [k [pid [_ ->]]]]|[_ [_ [-> _]]]]]; [discriminate| |]; reflexivity.
  Qed.

  (* decidable form *)
  Definition C12ok (offered : list task) (now : Z) (d : decision) : Prop :=
    exists tk f, find_task L offered (dec_task d) = Some tk /\ min_runtime L (t_strats tk) = Some f /\
                 (hopeless now (t_attrs tk) f = true <-> is_cancel d = true).
  Lemma c12_check_iff offered now ds : c12_check L offered now ds = true <-> Forall (C12ok offered now) ds.
  Proof.
    unfold c12_check. rewrite forallb_forall, Forall_forall. split; intros H d Hd; specialize (H d Hd).
    - unfold c12_dec_ok in H. unfold C12ok. destruct (find_task L offered (dec_task d)) as [tk|]; [|discriminate].
      destruct (min_runtime L (t_strats tk)) as [f|] eqn:M; [|discriminate]. exists tk, f.
      split; [reflexivity|]. split; [exact M|]. split.
      + intros X. rewrite X in H. destruct d; cbn in *; try discriminate; reflexivity.
      + intros X. destruct d; cbn in X; try discriminate. destruct (hopeless now (t_attrs tk) f); [reflexivity|discriminate].
    - destruct H as [tk [f [Ft [M [H1 H2]]]]]. unfold c12_dec_ok. rewrite Ft, M.
      destruct (hopeless now (t_attrs tk) f); destruct d; cbn in *; auto;
        try (specialize (H1 eq_refl); discriminate); try (specialize (H2 eq_refl); discriminate).
  Qed.

  Theorem c12_check_generic P pre now (c : cluster) offered ds cf :
    documented_admission P -> NoDup (map (@t_id L) offered) ->
    schedule_full L P true pre now c offered = Ok (ds, cf) -> c12_check L offered now ds = true.
  Proof.
    intros DA ND H. apply c12_check_iff. apply Forall_forall. intros d Hd.
    apply In_nth_error in Hd. destruct Hd as [i Hd].
    pose proof (run_tasks L P true now _ _ ds cf (proj1 (schedule_full_run L P true pre now c offered ds cf H))) as Ht.
    assert (exists x, nth_error (ordered L P now offered) i = Some x) as [x Hx].
    { destruct (nth_error (ordered L P now offered) i) as [x|] eqn:E; [eauto|].
      apply nth_error_None in E. assert (length ds = length (ordered L P now offered)) as Hl
        by (rewrite <- (map_length dec_task), Ht, map_length; reflexivity).
      assert (i < length ds)%nat by (apply nth_error_Some; congruence). lia. }
    destruct (c12_generic P pre now c offered ds cf i x DA H Hx) as [f [d' [M [Hd' [Hid Hiff]]]]].
    rewrite Hd in Hd'. inversion Hd'; subst d'.
    assert (In x offered) as Hin.
    { eapply Permutation_in; [apply Permutation_sym; apply (sort_by_perm (fun t : task => p_key P now (t_attrs t)) offered)|].
      eapply nth_error_In; exact Hx. }
    exists x, f. rewrite Hid. split; [apply find_task_in; [apply nodup_functional; exact ND|exact Hin]|].
    split; [exact M|]. rewrite Hiff. split; [intros ->; reflexivity|].
    intros X. destruct d; cbn in X; try discriminate. cbn in Hid. congruence.
  Qed.
End Admission.

Lemma min_runtime_spec L (ss : list (st L)) : forall f, min_runtime L ss = Some f ->
  (exists s, In s ss /\ runtime L s = f) /\ forall s, In s ss -> f <= runtime L s.
Proof.
  induction ss as [|s r IH]; intros f H; cbn [min_runtime] in H; [discriminate|].
  destruct (min_runtime L r) as [m|] eqn:M.
  - inversion H; subst. destruct (IH m eq_refl) as [[s0 [Hs0 E0]] Hmin]. split.
    + destruct (Z.le_ge_cases (runtime L s) m).
      * exists s. split; [left; reflexivity|lia].
      * exists s0. split; [right; exact Hs0|lia].
    + intros s' [<-|Hs']; [lia|]. specialize (Hmin s' Hs'). lia.
  - inversion H; subst. destruct r as [|s1 r']; [|cbn in M; destruct (min_runtime L r'); discriminate].
    split; [exists s; split; [left; reflexivity|reflexivity]|]. intros s' [<-|[]]. lia.
Qed.

(* with every task offered once, no task is placed twice: the already-placed guard of place_task never fires *)
Lemma placed_on_in t pid ds : placed_on t pid ds = true -> In t (map dec_task ds).
Proof.
  induction ds as [|d r IH]; cbn [placed_on map]; [discriminate|].
  destruct d as [t'|t' pid' k time|t']; cbn [dec_task].
  - intros X. right. auto.
  - intros X. apply orb_true_iff in X. destruct X as [X|X]; [left; lia|right; auto].
  - intros X. right. auto.
Qed.
Lemma place_twice_nodup ds : NoDup (map dec_task ds) -> place_twice ds = false.
Proof.
  induction ds as [|d r IH]; cbn [place_twice map]; intros H; [reflexivity|].
  inversion H as [|? ? Hn Hr]; subst. destruct d as [t|t pid k time|t]; cbn [dec_task] in *; auto.
  rewrite (IH Hr). destruct (placed_on t pid r) eqn:E; [|reflexivity]. exfalso. apply Hn. eapply placed_on_in; exact E.
Qed.
Lemma schedule_full_nodup L P e pre now (c : cluster L) offered ds cf :
  NoDup (map (@t_id L) offered) ->
  run L P e now (virtual L P pre c) (ordered L P now offered) = Ok (ds, cf) ->
  schedule_full L P e pre now c offered = Ok (ds, cf).
Proof.
  intros ND H. unfold schedule_full. rewrite H. cbn [bind fst]. rewrite place_twice_nodup; [reflexivity|].
  rewrite (run_tasks L P e now _ _ _ _ H).
  eapply Permutation_NoDup; [apply Permutation_map; apply (sort_by_perm (fun t : task L => p_key P now (t_attrs t)) offered)|exact ND].
Qed.
