(* Lemmas about the ILP constraint generator: evaluation of linear forms, membership of each
   row family in gen_ilp, bridge lemmas for the constants translated from the source
   (Gen/Src_Ilp.v), and the consequences of `sat` for one task (bounds, deadline row). *)
From Coq Require Import ZArith Bool List Lia ZifyBool.
Import ListNotations.
From Verif Require Import Model.Val Gen.Src_Ilp Model.IlpModel.
Open Scope Z_scope.

(* ------------------------------------------------------------------ bridge: the translated constants *)
Lemma bridge_start_lb : forall now rel, start_lb now rel = Z.max (now + 1) rel.
Proof. reflexivity. Qed.
Lemma bridge_running_start : forall now, running_start now = now.
Proof. reflexivity. Qed.
Lemma bridge_warm_start : warm_start_guarded = true.
Proof. reflexivity. Qed.
Lemma bridge_deadline : deadline_start_coef = 1 /\ (forall r, deadline_term_coef r = r) /\
  deadline_sense = SLe /\ (forall d, deadline_rhs d = d).
Proof. repeat split; intros; unfold deadline_term_coef; lia. Qed.
Lemma bridge_placement : placement_required = (SEq, 1) /\ placement_consistent = (SLe, 1).
Proof. split; reflexivity. Qed.
Lemma bridge_prec : prec_sense = SGe /\ prec_parent_coef = 1 /\ (forall r, prec_x_coef r = r + 1).
Proof. repeat split; intros; unfold prec_x_coef; lia. Qed.
Lemma bridge_app : forall n, app_false n = (0, SLe, n - 1) /\ app_true n = (1, SEq, n) /\ app_child n = (0, SEq, 0).
Proof. intros; repeat split. Qed.
Lemma bridge_overlap :
  ov_after_false = ((1, 0, -1, -1), 0, SLe, 0) /\ ov_after_true = ((1, 0, -1, -1), 1, SGe, 1) /\
  ov_before_false = ((1, 1, -1, 0), 0, SGe, 0) /\ ov_before_true = ((1, 1, -1, 0), 1, SLe, -1) /\
  ov_sum = ((1, 1, 1), SEq, 1) /\ cap_sense = SLe /\ dep_row = (SEq, 0).
Proof. repeat split. Qed.

(* ------------------------------------------------------------------ sums and linear forms *)
Lemma sum_list_nil : forall A (f : A -> Z), sum_list f [] = 0.
Proof. reflexivity. Qed.
Lemma sum_list_cons : forall A (f : A -> Z) x l, sum_list f (x :: l) = f x + sum_list f l.
Proof. reflexivity. Qed.
Lemma sum_list_app : forall A (f : A -> Z) l1 l2, sum_list f (l1 ++ l2) = sum_list f l1 + sum_list f l2.
Proof. induction l1 as [|x l1 IH]; intros; cbn [app]; rewrite ?sum_list_nil, ?sum_list_cons, ?IH; lia. Qed.
Lemma sum_list_ext : forall A (f g : A -> Z) l, (forall x, In x l -> f x = g x) -> sum_list f l = sum_list g l.
Proof.
  induction l as [|x l IH]; intros H; [reflexivity|]. rewrite !sum_list_cons, (H x (or_introl eq_refl)), IH; [reflexivity|].
  intros y Hy. apply H. right; exact Hy.
Qed.
Lemma sum_list_nonneg : forall A (f : A -> Z) l, (forall x, In x l -> 0 <= f x) -> 0 <= sum_list f l.
Proof.
  induction l as [|x l IH]; intros H; rewrite ?sum_list_nil, ?sum_list_cons; [lia|].
  assert (0 <= f x) by (apply H; left; reflexivity).
  assert (0 <= sum_list f l) by (apply IH; intros y Hy; apply H; right; exact Hy). lia.
Qed.
Lemma sum_list_member_le : forall A (f : A -> Z) l y, (forall x, In x l -> 0 <= f x) -> In y l -> f y <= sum_list f l.
Proof.
  induction l as [|x l IH]; intros y H Hy; [contradiction|]. rewrite sum_list_cons.
  assert (Hx : 0 <= f x) by (apply H; left; reflexivity).
  assert (Hl : 0 <= sum_list f l) by (apply sum_list_nonneg; intros z Hz; apply H; right; exact Hz).
  destruct Hy as [->|Hy]; [lia|].
  specialize (IH y (fun z Hz => H z (or_intror Hz)) Hy). lia.
Qed.
Lemma sum_list_le : forall A (f g : A -> Z) l, (forall x, In x l -> f x <= g x) -> sum_list f l <= sum_list g l.
Proof.
  induction l as [|x l IH]; intros H; rewrite ?sum_list_nil, ?sum_list_cons; [lia|].
  assert (f x <= g x) by (apply H; left; reflexivity).
  assert (sum_list f l <= sum_list g l) by (apply IH; intros y Hy; apply H; right; exact Hy). lia.
Qed.
Lemma sum_list_zero : forall A (f : A -> Z) l, (forall x, In x l -> f x = 0) -> sum_list f l = 0.
Proof.
  induction l as [|x l IH]; intros H; rewrite ?sum_list_nil, ?sum_list_cons; [reflexivity|].
  rewrite (H x (or_introl eq_refl)), IH; [reflexivity|]. intros y Hy; apply H; right; exact Hy.
Qed.
Lemma sum_list_scale : forall A (f : A -> Z) c l, sum_list (fun x => c * f x) l = c * sum_list f l.
Proof. induction l as [|x l IH]; rewrite ?sum_list_nil, ?sum_list_cons, ?IH; lia. Qed.
Lemma sum_list_plus : forall A (f g : A -> Z) l, sum_list (fun x => f x + g x) l = sum_list f l + sum_list g l.
Proof. induction l as [|x l IH]; rewrite ?sum_list_nil, ?sum_list_cons, ?IH; lia. Qed.
Lemma sum_list_map : forall A B (h : A -> B) (f : B -> Z) l, sum_list f (map h l) = sum_list (fun x => f (h x)) l.
Proof. induction l as [|x l IH]; cbn [map]; rewrite ?sum_list_nil, ?sum_list_cons, ?IH; reflexivity. Qed.
Lemma sum_list_flat_map : forall A B (h : A -> list B) (f : B -> Z) l,
  sum_list f (flat_map h l) = sum_list (fun x => sum_list f (h x)) l.
Proof.
  induction l as [|x l IH]; cbn [flat_map]; [reflexivity|]. rewrite sum_list_app, sum_list_cons, IH. reflexivity.
Qed.
Lemma sum_list_filter : forall A (f : A -> Z) (p : A -> bool) l,
  sum_list f (filter p l) = sum_list (fun x => if p x then f x else 0) l.
Proof.
  induction l as [|x l IH]; cbn [filter]; [reflexivity|].
  rewrite sum_list_cons. destruct (p x); rewrite ?sum_list_cons, IH; lia.
Qed.

Lemma eval_lin_plus : forall a x y, eval_lin a (lin_plus x y) = eval_lin a x + eval_lin a y.
Proof. intros a [tx cx] [ty cy]. unfold eval_lin, lin_plus, eval_terms. cbn [fst snd]. rewrite sum_list_app. lia. Qed.
Lemma eval_lin_term : forall a c p, eval_lin a (lin_term c p) = c * eval_pterm a p.
Proof. intros a c [z|v]; unfold eval_lin, lin_term, eval_terms; cbn [fst snd eval_pterm]; rewrite ?sum_list_cons, ?sum_list_nil; cbn [fst snd]; lia. Qed.
Lemma eval_lin_zero : forall a, eval_lin a lin_zero = 0.
Proof. reflexivity. Qed.
Lemma eval_lin_scale : forall a c l, eval_lin a (lin_scale c l) = c * eval_lin a l.
Proof.
  intros a c [ts k]. unfold eval_lin, lin_scale, eval_terms. cbn [fst snd]. rewrite sum_list_map. cbn [fst snd].
  rewrite (sum_list_ext _ _ (fun cv => c * (fst cv * a (snd cv)))) by (intros; lia). rewrite sum_list_scale. lia.
Qed.
Lemma eval_lin_sum : forall A a (f : A -> lin) l, eval_lin a (lin_sum f l) = sum_list (fun x => eval_lin a (f x)) l.
Proof.
  induction l as [|x l IH]; [reflexivity|]. rewrite sum_list_cons, <- IH. unfold lin_sum. cbn [fold_right].
  rewrite eval_lin_plus. reflexivity.
Qed.
Lemma eval_placed_lin : forall I a t coef,
  eval_lin a (placed_lin I t coef) = sum_list (fun p => coef p * eval_pterm a (pv t p)) (pairs I t).
Proof. intros. unfold placed_lin. rewrite eval_lin_sum. apply sum_list_ext. intros; apply eval_lin_term. Qed.

(* ------------------------------------------------------------------ satb <-> sat *)
Lemma holdsb_spec : forall s x y, holdsb s x y = true <-> holds s x y.
Proof. destruct s; cbn [holdsb holds]; intros; lia. Qed.
Lemma forallb_Forall : forall A (p : A -> bool) (P : A -> Prop) l,
  (forall x, p x = true <-> P x) -> (forallb p l = true <-> Forall P l).
Proof.
  intros A p P l H. rewrite forallb_forall, Forall_forall. split; intros G x Hx; apply H, G, Hx.
Qed.
Lemma satb_spec : forall sys a, satb sys a = true <-> sat sys a.
Proof.
  intros sys a. unfold satb, sat. rewrite !andb_true_iff.
  rewrite (forallb_Forall _ (bound_okb a) (bound_ok a)), (forallb_Forall _ (lrow_okb a) (lrow_ok a)),
          (forallb_Forall _ (irow_okb a) (irow_ok a)), (forallb_Forall _ (arow_okb a) (arow_ok a)),
          (forallb_Forall _ (qrow_okb a) (qrow_ok a)); [tauto| | | | |].
  - intros r. unfold qrow_okb, qrow_ok. apply holdsb_spec.
  - intros r. unfold arow_okb, arow_ok. lia.
  - intros r. unfold irow_okb, irow_ok. rewrite orb_true_iff, holdsb_spec, negb_true_iff, Z.eqb_neq. split.
    + intros [H|H] E; [contradiction|exact H].
    + intros H. destruct (Z.eq_dec (a (n_bvar r)) (n_bval r)) as [E|E]; [right; auto|left; exact E].
  - intros r. unfold lrow_okb, lrow_ok. apply holdsb_spec.
  - intros d. unfold bound_okb, bound_ok. rewrite andb_true_iff. destruct (v_lb d), (v_ub d); lia.
Qed.

(* ------------------------------------------------------------------ what sat gives, family by family *)
Section Sat.
Variable I : instance.
Variable a : assignment.
Hypothesis Hsat : sat (gen_ilp I) a.

Lemma sat_decl : forall d, In d (c_vars (gen_ilp I)) -> bound_ok a d.
Proof. destruct Hsat as [H _]. rewrite Forall_forall in H. exact H. Qed.
Lemma sat_lrow : forall r, In r (c_lin (gen_ilp I)) -> lrow_ok a r.
Proof. destruct Hsat as (_ & H & _). rewrite Forall_forall in H. exact H. Qed.
Lemma sat_irow : forall r, In r (c_ind (gen_ilp I)) -> irow_ok a r.
Proof. destruct Hsat as (_ & _ & H & _). rewrite Forall_forall in H. exact H. Qed.
Lemma sat_arow : forall r, In r (c_and (gen_ilp I)) -> arow_ok a r.
Proof. destruct Hsat as (_ & _ & _ & H & _). rewrite Forall_forall in H. exact H. Qed.
Lemma sat_qrow : forall r, In r (c_quad (gen_ilp I)) -> qrow_ok a r.
Proof. destruct Hsat as (_ & _ & _ & _ & H). rewrite Forall_forall in H. exact H. Qed.

Lemma in_nonrunning : forall t, In t (nonrunning I) <-> In t (i_tasks I) /\ is_running t = false.
Proof. intros t. unfold nonrunning. rewrite filter_In, negb_true_iff. tauto. Qed.

(* the start variable of a decided task respects its lower bound *)
Lemma start_lb_ok : forall t, In t (nonrunning I) -> start_lb (i_now I) (t_release t) <= a (VStart (t_id t)).
Proof.
  intros t Ht.
  assert (Hd : In (mkV (VStart (t_id t)) VInt (Some (start_lb (i_now I) (t_release t))) None) (c_vars (gen_ilp I))).
  { cbn [gen_ilp c_vars]. apply in_or_app; left. apply in_flat_map. exists t. split; [exact Ht|]. left; reflexivity. }
  apply sat_decl in Hd. destruct Hd as [Hl _]. exact Hl.
Qed.

(* placement variables are binary *)
Lemma pvar_binary : forall t p v, In t (nonrunning I) -> In p (pairs I t) -> pv t p = PVar v -> 0 <= a v <= 1.
Proof.
  intros t p v Ht Hp Hv.
  assert (Hd : In (mkV v VBin (Some 0) (Some 1)) (c_vars (gen_ilp I))).
  { cbn [gen_ilp c_vars]. apply in_or_app; left. apply in_flat_map. exists t. split; [exact Ht|]. right.
    unfold pvar_decls. apply in_flat_map. exists p. split; [exact Hp|]. rewrite Hv. left; reflexivity. }
  apply sat_decl in Hd. destruct Hd as [Hl Hu]. cbn in Hl, Hu. lia.
Qed.
Lemma pterm_binary : forall t p, In t (i_tasks I) -> In p (pairs I t) -> 0 <= eval_pterm a (pv t p) <= 1.
Proof.
  intros t p Ht Hp. destruct (pv t p) as [z|v] eqn:E.
  - cbn [eval_pterm]. unfold pv in E. destruct (is_running t).
    + destruct (t_prev t) as [[pw pk]|]; [destruct ((pw =? slot_w p) && (pk =? slot_k p))|]; inversion E; lia.
    + destruct (compat _ _); inversion E; lia.
  - cbn [eval_pterm]. destruct (is_running t) eqn:R.
    + unfold pv in E. rewrite R in E. destruct (t_prev t) as [[pw pk]|]; [destruct ((pw =? slot_w p) && (pk =? slot_k p))|]; inversion E.
    + eapply pvar_binary; [apply in_nonrunning; split; eassumption|exact Hp|exact E].
Qed.

(* the task rows *)
Lemma sat_task_row : forall t r, In t (nonrunning I) -> In r (task_rows I t) -> lrow_ok a r.
Proof.
  intros t r Ht Hr. apply sat_lrow. cbn [gen_ilp c_lin]. apply in_or_app; left. apply in_flat_map. exists t. auto.
Qed.
Lemma sat_deadline : forall t, In t (nonrunning I) -> enforce_for I t = true ->
  a (VStart (t_id t)) + sum_list (fun p => slot_rt p * eval_pterm a (pv t p)) (pairs I t) <= t_deadline t.
Proof.
  intros t Ht He.
  assert (Hr : lrow_ok a (deadline_row I t)).
  { apply (sat_task_row t); [exact Ht|]. unfold task_rows. rewrite He. left; reflexivity. }
  unfold lrow_ok, deadline_row in Hr. cbn [l_sense l_lin l_rhs] in Hr.
  destruct bridge_deadline as (B1 & B2 & B3 & B4). rewrite B3, B4, B1 in Hr. cbn [holds] in Hr.
  rewrite eval_lin_plus, eval_lin_term, eval_placed_lin in Hr.
  apply in_nonrunning in Ht. destruct Ht as [_ Hrun]. unfold startv in Hr. rewrite Hrun in Hr. cbn [eval_pterm] in Hr.
  rewrite (sum_list_ext _ _ (fun p => slot_rt p * eval_pterm a (pv t p))) in Hr by (intros; rewrite B2; reflexivity). lia.
Qed.
Lemma sat_placement : forall t, In t (nonrunning I) ->
  sum_list (fun p => eval_pterm a (pv t p)) (pairs I t) <= 1 /\
  (is_scheduled t = true -> i_retract I = false -> sum_list (fun p => eval_pterm a (pv t p)) (pairs I t) = 1).
Proof.
  intros t Ht.
  assert (Hr : lrow_ok a (placement_row I t)).
  { apply (sat_task_row t); [exact Ht|]. unfold task_rows. apply in_or_app; right; left; reflexivity. }
  destruct bridge_placement as [B1 B2].
  assert (E : eval_lin a (placed_lin I t one_coef) = sum_list (fun p => eval_pterm a (pv t p)) (pairs I t)).
  { rewrite eval_placed_lin. apply sum_list_ext. intros; unfold one_coef; lia. }
  unfold lrow_ok, placement_row in Hr.
  destruct (is_scheduled t && negb (i_retract I)) eqn:C; cbn [l_sense l_lin l_rhs] in Hr; rewrite E in Hr.
  - rewrite B1 in Hr. cbn [fst snd holds] in Hr. split; [lia|intros; exact Hr].
  - rewrite B2 in Hr. cbn [fst snd holds] in Hr. split; [exact Hr|].
    intros S R. rewrite S, R in C. discriminate.
Qed.
End Sat.

(* ------------------------------------------------------------------ enumeration and readback *)
Lemma zenum_In : forall A (l : list A) b i x, In (i, x) (zenum b l) -> b <= i /\ nth_error l (Z.to_nat (i - b)) = Some x.
Proof.
  induction l as [|y l IH]; intros b i x H; [contradiction|]. cbn [zenum] in H. destruct H as [H|H].
  - inversion H; subst. split; [lia|]. replace (i - i) with 0 by lia. reflexivity.
  - apply IH in H. destruct H as [H1 H2]. split; [lia|].
    replace (Z.to_nat (i - b)) with (S (Z.to_nat (i - (b + 1)))) by lia. exact H2.
Qed.
Lemma zenum_snd_In : forall A (l : list A) b i x, In (i, x) (zenum b l) -> In x l.
Proof. intros A l b i x H. apply zenum_In in H. destruct H as [_ H]. eapply nth_error_In; exact H. Qed.
Lemma zenum_fst_inj : forall A (l : list A) b i x y, In (i, x) (zenum b l) -> In (i, y) (zenum b l) -> x = y.
Proof. intros A l b i x y H1 H2. apply zenum_In in H1, H2. destruct H1 as [_ H1], H2 as [_ H2]. congruence. Qed.
Lemma senum_nth : forall t k st, In (k, st) (senum t) -> nth_strat t k = Some st.
Proof.
  intros t k st H. apply zenum_In in H. destruct H as [H1 H2]. unfold nth_strat.
  destruct (k <? 0) eqn:E; [lia|]. replace (k - 0) with k in H2 by lia. exact H2.
Qed.
Lemma wenum_nth : forall I w wk, In (w, wk) (wenum I) -> nth_worker I w = Some wk.
Proof.
  intros I w wk H. apply zenum_In in H. destruct H as [H1 H2]. unfold nth_worker.
  destruct (w <? 1) eqn:E; [lia|]. exact H2.
Qed.

Lemma chosen_spec : forall I a t w k, chosen I a t = Some (w, k) ->
  exists wk st, In (w, wk) (wenum I) /\ In (k, st) (senum t) /\ slot_hit a t ((w, wk), (k, st)) = true.
Proof.
  intros I a t w k. unfold chosen.
  assert (G : forall l acc,
    (forall w k, acc = Some (w, k) -> exists wk st, In (w, wk) (wenum I) /\ In (k, st) (senum t) /\ slot_hit a t ((w, wk), (k, st)) = true) ->
    (forall x, In x l -> In x (wenum I)) ->
    forall w k, fold_left (fun acc wi => match find (fun ks => slot_hit a t (wi, ks)) (senum t) with
                                         | Some ks => Some (fst wi, fst ks) | None => acc end) l acc = Some (w, k) ->
    exists wk st, In (w, wk) (wenum I) /\ In (k, st) (senum t) /\ slot_hit a t ((w, wk), (k, st)) = true).
  { induction l as [|wi l IH]; intros acc Hacc Hl w' k' H; cbn [fold_left] in H; [apply Hacc; exact H|].
    eapply IH; [| |exact H].
    - intros w2 k2 E. destruct (find (fun ks => slot_hit a t (wi, ks)) (senum t)) as [ks|] eqn:F.
      + inversion E; subst. apply find_some in F. destruct F as [F1 F2]. destruct wi as [wi wk], ks as [ki st]. cbn [fst].
        exists wk, st. split; [apply Hl; left; reflexivity|]. split; [exact F1|exact F2].
      + apply Hacc; exact E.
    - intros x Hx. apply Hl. right; exact Hx. }
  apply G; [intros; discriminate|auto].
Qed.
Lemma in_pairs : forall I t w wk k st, In (w, wk) (wenum I) -> In (k, st) (senum t) -> In ((w, wk), (k, st)) (pairs I t).
Proof. intros. unfold pairs. apply in_prod; assumption. Qed.
Lemma pairs_inv : forall I t p, In p (pairs I t) -> In (fst p) (wenum I) /\ In (snd p) (senum t).
Proof. intros I t [x y] H. unfold pairs in H. apply in_prod_iff in H. exact H. Qed.

Definition rt_nonneg (I : instance) : Prop :=
  forall t s, In t (i_tasks I) -> In s (t_strats t) -> 0 <= s_rt s.

(* the chosen slot's variable is 1, and its runtime is below the deadline row's sum *)
Lemma decision_slot : forall I a t s w k, decision I a t = Some (s, w, k) ->
  s = a (VStart (t_id t)) /\
  exists wk st, In ((w, wk), (k, st)) (pairs I t) /\ nth_worker I w = Some wk /\ nth_strat t k = Some st /\
                eval_pterm a (pv t ((w, wk), (k, st))) = 1 /\ compat wk st = true.
Proof.
  intros I a t s w k H. unfold decision in H. destruct (chosen I a t) as [[w' k']|] eqn:C; [|discriminate].
  inversion H; subst. split; [reflexivity|]. apply chosen_spec in C. destruct C as (wk & st & Hw & Hk & Hh).
  exists wk, st. split; [apply in_pairs; assumption|]. split; [apply wenum_nth; exact Hw|]. split; [apply senum_nth; exact Hk|].
  unfold slot_hit in Hh. destruct (pv t ((w, wk), (k, st))) as [z|v] eqn:E; [discriminate|]. cbn [eval_pterm]. split; [lia|].
  unfold pv in E. destruct (is_running t).
  - destruct (t_prev t) as [[pw pk]|]; [destruct ((pw =? _) && (pk =? _))|]; discriminate.
  - cbn [fst snd] in E. destruct (compat wk st); [reflexivity|discriminate].
Qed.

(* ------------------------------------------------------------------ C12 *)
(* task-by-task mode: whatever _allowed_to_miss_deadlines contains, it is not consulted *)
Lemma no_exemptions : forall I t, i_release_tg I = false -> enforce_for I t = i_enforce I.
Proof. intros I t H. unfold enforce_for. rewrite H. reflexivity. Qed.

Lemma C12_deadline_met : forall I a, sat (gen_ilp I) a -> rt_nonneg I ->
  forall t, In t (nonrunning I) -> enforce_for I t = true ->
  forall s w k, decision I a t = Some (s, w, k) ->
  exists st, nth_strat t k = Some st /\ s + s_rt st <= t_deadline t.
Proof.
  intros I a Hsat Hrt t Ht He s w k Hd.
  apply decision_slot in Hd. destruct Hd as (-> & wk & st & Hp & _ & Hk & Hone & _).
  exists st. split; [exact Hk|].
  pose proof (sat_deadline I a Hsat t Ht He) as Hrow.
  assert (Hin : In t (i_tasks I)) by (apply in_nonrunning in Ht; tauto).
  assert (Hle : slot_rt ((w, wk), (k, st)) * eval_pterm a (pv t ((w, wk), (k, st))) <=
                sum_list (fun p => slot_rt p * eval_pterm a (pv t p)) (pairs I t)).
  { apply (sum_list_member_le _ (fun p => slot_rt p * eval_pterm a (pv t p))); [|exact Hp].
    intros p Hp'. pose proof (pterm_binary I a Hsat t p Hin Hp') as Hb.
    assert (0 <= slot_rt p).
    { unfold slot_rt. apply pairs_inv in Hp'. destruct Hp' as [_ Hs]. destruct p as [x [ki sti]]. cbn [snd] in *.
      apply zenum_snd_In in Hs. eapply Hrt; eassumption. }
    nia. }
  rewrite Hone in Hle. change (slot_rt ((w, wk), (k, st))) with (s_rt st) in Hle. lia.
Qed.

(* a task that cannot finish by its deadline even with its fastest strategy starting now is never placed
   (indeed: not even when it could only start at now + 1) *)
Lemma fastest_le : forall t s, In s (t_strats t) -> fastest t <= s_rt s.
Proof.
  intros t s H. unfold fastest. generalize (match t_strats t with s0 :: _ => s_rt s0 | [] => 0 end) as d.
  induction (t_strats t) as [|x l IH]; intros d; [contradiction|]. cbn [fold_right]. destruct H as [->|H]; [lia|].
  specialize (IH H d). lia.
Qed.
Lemma C12_hopeless_unplaced : forall I a, sat (gen_ilp I) a -> rt_nonneg I ->
  forall t, In t (nonrunning I) -> enforce_for I t = true ->
  t_deadline t < i_now I + 1 + fastest t -> decision I a t = None.
Proof.
  intros I a Hsat Hrt t Ht He Hh. destruct (decision I a t) as [[[s w] k]|] eqn:D; [|reflexivity]. exfalso.
  pose proof (C12_deadline_met I a Hsat Hrt t Ht He s w k D) as (st & Hk & Hle).
  apply decision_slot in D. destruct D as (-> & _).
  pose proof (start_lb_ok I a Hsat t Ht) as Hlb. rewrite bridge_start_lb in Hlb.
  assert (In st (t_strats t)).
  { unfold nth_strat in Hk. destruct (k <? 0); [discriminate|]. eapply nth_error_In; exact Hk. }
  pose proof (fastest_le t st H). lia.
Qed.

(* ------------------------------------------------------------------ a concrete witness that the hypotheses are satisfiable *)
Definition rt_nonnegb (I : instance) : bool :=
  forallb (fun t => forallb (fun s => 0 <=? s_rt s) (t_strats t)) (i_tasks I).
Lemma rt_nonnegb_spec : forall I, rt_nonnegb I = true -> rt_nonneg I.
Proof.
  intros I H t s Ht Hs. unfold rt_nonnegb in H. rewrite forallb_forall in H. specialize (H t Ht).
  rewrite forallb_forall in H. specialize (H s Hs). lia.
Qed.
(* chain t1 -> t2 of one graph offered together (release_taskgraphs), one worker with 2 CPUs, now = 0 *)
Definition ex_chain : instance :=
  mkInst 0 [mkWorker 1 [(0, 2)]]
    [mkTask 1 0 TReleased 0 30 [mkStrat 1 5 [(0, 1)]] None 5;
     mkTask 2 0 TVirtual (-1) 30 [mkStrat 1 4 [(0, 1)]; mkStrat 2 3 [(0, 2)]] None 4] 2%nat
    [mkGraph 0 [1; 2] [(1, 2)]] true false true Goodput [].
Definition ex_chain_asg : assignment :=
  asg_of [(VStart 1, 1); (VPlaced 1 1 0, 1); (VStart 2, 7); (VPlaced 2 1 0, 1); (VApp 2, 1); (VGReward 0, 1); (VTReward 2, 1)].
Lemma ex_chain_sat : sat (gen_ilp ex_chain) ex_chain_asg.
Proof. apply satb_spec. vm_compute. reflexivity. Qed.
Definition ex_t2 : task := mkTask 2 0 TVirtual (-1) 30 [mkStrat 1 4 [(0, 1)]; mkStrat 2 3 [(0, 2)]] None 4.
Lemma C12_nonvacuous : exists I a t s w k,
  sat (gen_ilp I) a /\ rt_nonneg I /\ In t (nonrunning I) /\ enforce_for I t = true /\ decision I a t = Some (s, w, k).
Proof.
  exists ex_chain, ex_chain_asg, ex_t2, 7, 1, 0. split; [exact ex_chain_sat|]. split; [apply rt_nonnegb_spec; reflexivity|].
  split; [right; left; reflexivity|]. split; reflexivity.
Qed.
